"""C09 — genotype summary statistics are exact and mutually consistent.

Implementation under test: DenseGenotypeMatrix / DensePhasedGenotypeMatrix statistics and
DenseUnphasedGenotyping.genotype (the phased -> unphased projection).  Model: Model/Genotype.lean run at
Rat through `c09.stats`; Spec: `c09.spec` (textbook definitions on the raw allele calls, in Lean),
evaluated on the implementation's outputs in every case.
"""
import contextlib
from fractions import Fraction

import numpy

from .. import canon, compat
from ..core import Prop

compat.install()

# sizes at which 1/(ploidy*n) or 1/n is not a binary64 reciprocal: (1/m)*m != 1
BOUNDARY_N = [49, 98, 103, 107, 161, 187, 196, 197]

STATS = ["tacount", "tafreq", "acount", "afreq", "afixed", "apoly", "maf", "meh", "gtcount", "gtfreq"]
FMTS = [("f012", "{0,1,2}"), ("fM101", "{-1,0,1}"), ("fM1m1", "{-1,m,1}")]
# dtype arguments: names, python types ("py:"), numpy scalar classes ("np:"), numpy.dtype objects ("dt:").  Frequencies may
# be requested in INTEGER dtypes as well: numpy then truncates the float64 result toward zero (modelled: Genotype.truncRat)
COUNT_DT = [None, None, "int64", "int32", "int16", "float64", "float32", "py:int", "py:float", "uint16", "np:int64",
            "dt:int32", "uint32"]
FREQ_DT = [None, None, "float64", "float32", "float16", "py:float", "np:float32", "dt:float64",
           "int64", "int8", "py:int", "uint8", "dt:int16"]
FLAG_DT = [None, None, "bool", "int64", "int8", "float64", "float32", "py:int", "py:float", "py:bool", "uint8", "np:int16"]
LAYOUTS = ["C", "C", "C", "F", "strided", "rev", "T"]
KIND_OF = {"tacount": "count", "acount": "count", "gtcount": "count", "tafreq": "freq", "afreq": "freq",
           "maf": "freq", "meh": "freq", "gtfreq": "freq", "afixed": "flag", "apoly": "flag"}
NATIVE = {"tacount": "int64", "acount": "int64", "gtcount": "int64", "tafreq": "float64", "afreq": "float64",
          "maf": "float64", "meh": "float64", "gtfreq": "float64", "afixed": "bool", "apoly": "bool"}
TOL = {"float64": Fraction(1, 10 ** 12), "float32": Fraction(1, 10 ** 6), "float16": Fraction(2, 10 ** 3)}


def _mods():
    compat.import_pybrops()
    import pybrops.popgen.gmat.DenseGenotypeMatrix as ug
    import pybrops.popgen.gmat.DensePhasedGenotypeMatrix as pg
    import pybrops.breed.prot.gt.DenseUnphasedGenotyping as gt
    return ug, pg, gt


def _dt(name):
    """case dtype tag -> the object handed to the method"""
    if name is None:
        return None
    if name.startswith("py:"):
        return {"int": int, "float": float, "bool": bool}[name[3:]]
    if name.startswith("np:"):
        return getattr(numpy, name[3:])
    if name.startswith("dt:"):
        return numpy.dtype(name[3:])
    return name


def _dtname(name, stat):
    """numpy dtype name the result must have"""
    if name is None:
        return NATIVE[stat]
    if name.startswith("py:"):
        return {"int": "int64", "float": "float64", "bool": "bool"}[name[3:]]
    if name[:3] in ("np:", "dt:"):
        return name[3:]
    return name


def _is_int(name, stat):
    return numpy.issubdtype(numpy.dtype(_dtname(name, stat)), numpy.integer)


def _layout(a, how):
    """the same int8 values in another memory layout (the constructor accepts any int8 ndarray)"""
    a = numpy.ascontiguousarray(a, dtype="int8")
    if how == "F":
        return numpy.asfortranarray(a)
    if how == "strided":                 # every second element of a larger buffer along the last axis
        big = numpy.full(a.shape[:-1] + (2 * a.shape[-1],), 7, dtype="int8")
        v = big[..., ::2]
        v[...] = a
        return v
    if how == "rev":                     # negative strides
        return numpy.ascontiguousarray(a[..., ::-1])[..., ::-1]
    if how == "T":                       # transposed view of a C array of the transposed shape
        return numpy.ascontiguousarray(a.T).T
    return a


def _tol(dtypes, stat):
    return TOL.get(_dtname(dtypes.get(stat), stat), TOL["float64"])


def _flags(a):
    """flag arrays requested as int/float come back as 0/1 numbers: normalise to bools, strictly"""
    a = numpy.asarray(a)
    if a.dtype == bool:
        return [bool(x) for x in a]
    if not numpy.all((a == 0) | (a == 1)):
        return ["bad:" + str(x) for x in a]
    return [bool(x != 0) for x in a]


HIST_INPLACE = ["edit", "editcol", "setmat", "remove_taxa", "append_taxa", "incorp_taxa", "reorder_taxa", "remove_vrnt",
                "requery"]
HIST_DERIVE = ["select_taxa", "delete_taxa", "insert_taxa", "adjoin_taxa", "concat_self", "copy", "deepcopy",
               "select_vrnt", "delete_vrnt", "project", "hdf5"]


class C09(Prop):
    PID = "C09"
    MODULE = "PybropsModel.Props.C09"
    N_QUICK = 110
    N_THOROUGH = 2500
    RULE = ("phased matrices (1-4 phases, binary alleles) and unphased dosage matrices (ploidy 1,2,3,4,6) of "
            "1-12 taxa or one of the boundary sizes 49, 98, 103, 107, 161, 187, 196, 197 (each boundary size at "
            "least once per run, with a locus fixed at 1 and one fixed at 0), 1-5 loci drawn from the patterns "
            "fixed-1 / fixed-0 / one-copy-off / exactly-one-half / all-heterozygous / random, and whole-matrix shapes "
            "(no taxon homozygous for allele 1 anywhere, all-zero, one heterozygous taxon); arrays handed over C-ordered, "
            "Fortran-ordered, as strided / negative-stride / transposed views; optional metadata absent or present with "
            "the variants NOT stored in (chromosome, position) order; a sweep over every size 1..400 and over "
            "very large populations (50000..200001 diploid, 100001 haploid, 25000/30001 tetraploid) one copy off "
            "fixation (frequencies, flags, counts); every statistic "
            "called with a dtype drawn from its admissible list - names, python types, numpy classes, numpy.dtype objects; "
            "floating AND integer dtypes for the frequencies; the phased matrix is also projected through "
            "DenseUnphasedGenotyping and both objects are queried.  history: ONE object taken through 2-5 steps - in-place "
            "element edits of the same array, re-assignment of `mat`, remove/append/incorp/reorder taxa, remove variants, "
            "copy-on-manipulation (select/delete/insert/adjoin/concat taxa, select/delete variants, copy, deepcopy, "
            "projection, HDF5 round trip) with indices as lists, narrow-dtype arrays, negative numbers, slices or scalars - and after EVERY "
            "step all statistics are queried twice in different orders (the arrays returned by the first round are "
            "overwritten in between) and judged against the raw calls the object holds at that moment; objects left "
            "behind by copy-on-manipulation are re-queried at the end.  Non-trivial = at least 2 taxa, a fixed and a "
            "polymorphic locus in the same matrix")
    TRUSTED = ["numpy integer sums and one correctly rounded IEEE division per frequency (modelled by "
               "Binary64.roundBinary64, proved to satisfy RoundingContract, and compared bit for bit with the float64 "
               "outputs afreq/tafreq/gtfreq/maf in every case)",
               "casts between numpy dtypes (float64 -> float32/float16 rounds to nearest-even: BinaryFloat.roundBin 23/10, "
               "proved to satisfy RoundingContract and compared bit for bit; float64 -> integer truncates toward zero: "
               "Genotype.truncRat, compared exactly)"]
    ASSUMPTIONS = ["raw calls are valid: binary alleles (phased), dosages in 0..ploidy (unphased), >= 1 taxon, >= 1 locus",
                   "requested integer dtypes can hold the counts (no int8 accumulator for counts above 127)",
                   "a frequency requested in an INTEGER dtype is the truncation of the textbook value (0 unless the locus "
                   "is fixed at 1): the `= 0 iff no copy carries 1` half of the boundary clause cannot hold in such a "
                   "dtype and is not demanded there (the `= 1` half is)",
                   "a requested floating dtype can resolve 1/(ploidy*ntaxa): at most 2^11 copies for float16, 2^24 "
                   "for float32 (generated populations have at most 1182 copies); beyond that no value of that dtype "
                   "can separate (m-1)/m from 1 (C09.rounded_exact_full_statement_counterexample)",
                   "genotype-class frequencies are compared to count/ntaxa with tolerance (the code still uses the "
                   "reciprocal form there; the property's exact-0/1 clause is about allele frequencies)"]

    # ------------------------------------------------------------------ generation
    @staticmethod
    def _locus(rng, n, k, pat):
        """one locus as n rows of k binary copies (phased) — the unphased generator sums them"""
        if pat == "one":
            return [[1] * k for _ in range(n)]
        if pat == "zero":
            return [[0] * k for _ in range(n)]
        if pat == "one_off":
            c = [[1] * k for _ in range(n)]
            c[rng.randrange(n)][rng.randrange(k)] = 0
            return c
        if pat == "zero_off":
            c = [[0] * k for _ in range(n)]
            c[rng.randrange(n)][rng.randrange(k)] = 1
            return c
        if pat == "half":           # exactly one half when n*k is even
            flat = [1] * ((n * k) // 2) + [0] * (n * k - (n * k) // 2)
            rng.shuffle(flat)
            return [flat[i * k:(i + 1) * k] for i in range(n)]
        if pat == "het":            # every taxon carries both alleles
            out = []
            for _ in range(n):
                c = [1] * (k // 2) + [0] * (k - k // 2)
                rng.shuffle(c)
                out.append(c)
            return out
        if pat == "notop":          # nobody is homozygous for allele 1 (at least one copy of allele 0 in every taxon)
            out = []
            for _ in range(n):
                c = [1 if rng.random() < 0.6 else 0 for _ in range(k)]
                c[rng.randrange(k)] = 0
                out.append(c)
            return out
        pr = rng.choice([0.1, 0.5, 0.5, 0.9])
        return [[1 if rng.random() < pr else 0 for _ in range(k)] for _ in range(n)]

    def _dtypes(self, rng, maxcount, plain=False):
        d = {}
        for s in STATS:
            kind = KIND_OF[s]
            pool = {"count": COUNT_DT, "freq": FREQ_DT, "flag": FLAG_DT}[kind]
            if plain:
                d[s] = None
            elif kind == "count" and maxcount <= 127 and rng.random() < 0.15:
                d[s] = "int8"
            else:
                d[s] = rng.choice(pool)
                if kind == "count" and d[s] in ("uint16", "int16") and maxcount > 30000:
                    d[s] = "int64"
        return d

    @staticmethod
    def _meta(rng, nt, nv):
        """optional metadata, deliberately unordered: chromosome 3 stored before chromosome 1, positions not ascending"""
        chrgrp = [rng.choice([3, 1, 2]) for _ in range(nv)]
        if nv >= 2 and chrgrp == sorted(chrgrp):
            chrgrp[0], chrgrp[-1] = 3, 1
        return {"taxa": [f"t{(7 * i + 3) % (nt + 5)}_{i}" for i in range(nt)],
                "taxa_grp": [rng.choice([5, 2, 9]) for _ in range(nt)],
                "vrnt_chrgrp": chrgrp, "vrnt_phypos": rng.sample(range(1, 10000), nv),
                "vrnt_name": [f"m{(5 * j + 2) % (nv + 3)}_{j}" for j in range(nv)],
                "vrnt_mask": [rng.random() < 0.6 for _ in range(nv)]}

    def _case(self, rng, n, phased, k, pats, plain=False):
        loci = [self._locus(rng, n, k, p) for p in pats]       # [locus][taxon][copy]
        nv = len(pats)
        if phased:
            mat = [[[loci[j][i][c] for j in range(nv)] for i in range(n)] for c in range(k)]
        else:
            mat = [[sum(loci[j][i]) for j in range(nv)] for i in range(n)]
        c = {"kind": "phased" if phased else "unphased", "nt": n, "nv": nv, "ploidy": k, "mat": mat,
             "dtypes": self._dtypes(rng, k * n, plain)}
        if not plain:
            c["layout"] = rng.choice(LAYOUTS)
            if rng.random() < 0.35:
                c["meta"] = self._meta(rng, n, nv)
            c["oseed"] = rng.randrange(1 << 30)
        return c

    def corpus(self):
        nod = {s: None for s in STATS}
        out = []
        # the boundary sizes with a fully fixed locus: the regression D1/D16 (reciprocal form) must be caught here
        for n in BOUNDARY_N:
            out.append({"kind": "phased", "nt": n, "nv": 3, "ploidy": 2, "dtypes": dict(nod),
                        "mat": [[[1, 0, (i + c) % 2] for i in range(n)] for c in range(2)]})
        out.append({"kind": "unphased", "nt": 49, "nv": 3, "ploidy": 2, "dtypes": dict(nod),
                    "mat": [[2, 0, 1] for _ in range(49)]})
        out.append({"kind": "unphased", "nt": 49, "nv": 2, "ploidy": 4, "dtypes": dict(nod),
                    "mat": [[4, i % 5] for i in range(49)]})
        # single taxon, single locus; haploid; all heterozygous (class 1 holds everybody)
        out.append({"kind": "phased", "nt": 1, "nv": 1, "ploidy": 2, "dtypes": dict(nod), "mat": [[[1]], [[0]]]})
        out.append({"kind": "phased", "nt": 1, "nv": 2, "ploidy": 1, "dtypes": dict(nod), "mat": [[[1, 0]]]})
        out.append({"kind": "unphased", "nt": 3, "nv": 2, "ploidy": 2, "dtypes": dict(nod),
                    "mat": [[1, 1], [1, 1], [1, 2]]})
        # hexaploid dosages: 5/6 differs from 5*(1/6) in the last bit (bit-exact comparison with the IEEE model)
        out.append({"kind": "unphased", "nt": 3, "nv": 2, "ploidy": 6, "dtypes": dict(nod),
                    "mat": [[5, 1], [6, 0], [3, 2]]})
        # D2 regression: a diploid unphased matrix must report three genotype classes
        out.append({"kind": "unphased", "nt": 4, "nv": 2, "ploidy": 2, "dtypes": dict(nod),
                    "mat": [[0, 2], [1, 2], [2, 2], [2, 0]]})
        # whole-matrix shapes: nobody homozygous for allele 1 anywhere (F1 / testcross), an all-zero population, one
        # heterozygous taxon (unphased and phased, several ploidies): ploidy+1 classes all the same
        out.append({"kind": "unphased", "nt": 4, "nv": 3, "ploidy": 2, "dtypes": dict(nod),
                    "mat": [[1, 0, 1], [1, 1, 0], [0, 1, 1], [1, 1, 1]]})
        out.append({"kind": "unphased", "nt": 3, "nv": 2, "ploidy": 4, "dtypes": dict(nod), "mat": [[0, 0], [0, 0], [0, 0]]})
        out.append({"kind": "unphased", "nt": 5, "nv": 2, "ploidy": 6, "dtypes": dict(nod),
                    "mat": [[3, 0], [5, 1], [2, 2], [0, 4], [1, 3]]})
        out.append({"kind": "unphased", "nt": 1, "nv": 3, "ploidy": 2, "dtypes": dict(nod), "mat": [[1, 2, 0]]})
        out.append({"kind": "unphased", "nt": 1, "nv": 2, "ploidy": 4, "dtypes": dict(nod), "mat": [[3, 1]]})
        out.append({"kind": "phased", "nt": 1, "nv": 3, "ploidy": 4, "dtypes": dict(nod),
                    "mat": [[[1, 0, 1]], [[0, 0, 1]], [[1, 0, 1]], [[1, 1, 1]]]})
        out.append({"kind": "phased", "nt": 3, "nv": 2, "ploidy": 3, "dtypes": dict(nod),
                    "mat": [[[1, 0], [0, 0], [1, 0]], [[0, 0], [0, 1], [0, 0]], [[0, 1], [0, 0], [0, 0]]]})
        # every statistic in an integer dtype (truncation) and through numpy classes / dtype objects
        ints = {"tacount": "np:int64", "tafreq": "int64", "acount": "dt:int32", "afreq": "int8", "afixed": "uint8",
                "apoly": "py:bool", "maf": "int64", "meh": "py:int", "gtcount": "uint32", "gtfreq": "int8"}
        out.append({"kind": "unphased", "nt": 49, "nv": 4, "ploidy": 2, "dtypes": dict(ints),
                    "mat": [[2, 0, i % 3, 2 - (i == 7)] for i in range(49)]})
        out.append({"kind": "phased", "nt": 3, "nv": 3, "ploidy": 4, "dtypes": dict(ints), "layout": "F",
                    "mat": [[[1, 0, 1], [1, 0, 0], [1, 0, 1]], [[1, 0, 1], [1, 0, 1], [1, 0, 0]],
                            [[1, 0, 1], [1, 0, 0], [1, 0, 0]], [[1, 0, 0], [1, 0, 1], [1, 0, 1]]]})
        # variants stored chromosome 3 before chromosome 1: the projection must keep the variant order
        out.append({"kind": "phased", "nt": 3, "nv": 4, "ploidy": 2, "dtypes": dict(nod), "layout": "strided",
                    "meta": {"taxa": ["c", "a", "b"], "taxa_grp": [2, 1, 2], "vrnt_chrgrp": [3, 3, 1, 2],
                             "vrnt_phypos": [50, 10, 70, 20], "vrnt_name": ["w", "x", "y", "z"],
                             "vrnt_mask": [True, False, True, False]},
                    "mat": [[[1, 0, 1, 0], [1, 0, 0, 0], [1, 0, 1, 1]], [[1, 0, 0, 0], [1, 0, 1, 1], [1, 0, 0, 1]]]})
        # histories on ONE object: statistic, in-place edit of the same array, statistic again (a memo keyed on the
        # array object or dropped only by the `mat` setter is stale here); culling in place down to a fixed population
        out.append({"kind": "history", "phased": True, "ploidy": 2, "nt": 4, "nv": 3, "dtypes": dict(nod), "dtypes2": dict(nod),
                    "mat": [[[1, 0, 1], [1, 0, 0], [1, 1, 1], [1, 0, 1]], [[1, 0, 0], [1, 0, 1], [1, 1, 0], [1, 0, 1]]],
                    "oseed": 1, "steps": [{"op": "edit", "cells": [[0, 1, 2, 1], [1, 0, 0, 0]]},
                                          {"op": "editcol", "j": 1, "v": 1},
                                          {"op": "remove_taxa", "idx": [0, 1, 2], "form": "list"},
                                          {"op": "append_taxa", "rows": [[[0, 1, 1]], [[1, 1, 0]]]},
                                          {"op": "setmat", "mat": [[[0, 0, 0], [1, 1, 1]], [[0, 0, 1], [1, 1, 1]]]}]})
        out.append({"kind": "history", "phased": False, "ploidy": 4, "nt": 5, "nv": 3, "dtypes": dict(nod), "dtypes2": dict(nod),
                    "mat": [[4, 0, 3], [4, 4, 0], [3, 1, 2], [4, 0, 4], [0, 2, 4]], "oseed": 2,
                    "steps": [{"op": "select_taxa", "idx": [0, 1, 3], "form": "list"},
                              {"op": "edit", "cells": [[1, 1, 0]]},
                              {"op": "delete_taxa", "idx": [2], "form": "int"},
                              {"op": "adjoin_taxa", "rows": [[1, 3, 4]]},
                              {"op": "concat_self"}, {"op": "deepcopy"},
                              {"op": "remove_taxa", "idx": [0, 1, 2, 3, 4], "form": "slice"}]})
        out.append({"kind": "history", "phased": True, "ploidy": 3, "nt": 3, "nv": 2, "dtypes": dict(ints), "dtypes2": dict(nod),
                    "mat": [[[1, 0], [0, 0], [1, 0]], [[0, 0], [0, 1], [0, 0]], [[0, 1], [0, 0], [0, 0]]], "oseed": 3,
                    "steps": [{"op": "requery"}, {"op": "project"}, {"op": "edit", "cells": [[0, 0, 3]]},
                              {"op": "reorder_taxa", "perm": [2, 0, 1]}]})
        # every size 1..400 with a fully fixed locus (quick); `exhaustive` extends it to 2000 (thorough)
        out.append({"kind": "sweep", "nmax": 400, "ploidies": [1, 2, 4]})
        # very large populations one copy off fixation: a flag computed with a tolerance (numpy.isclose, 1e-5)
        # instead of exact float equality only shows when 1/(ploidy*n) <= 1e-5
        out.append({"kind": "sweep", "nmax": 0, "ploidies": [],
                    "big": [[2, 50000], [2, 65536], [2, 100000], [2, 200001], [1, 100001], [4, 25000], [4, 30001],
                            [2, 600001]]})
        return out

    def exhaustive(self, tier):
        if tier != "thorough":
            return None
        return [{"kind": "sweep", "nmax": 2000, "ploidies": [1, 2, 3, 4, 6]}]

    def _block(self, rng, phased, k, nrows, nv):
        """`nrows` new valid taxa"""
        if phased:
            return [[[rng.choice([0, 1]) for _ in range(nv)] for _ in range(nrows)] for _ in range(k)]
        return [[rng.choice([0, k, rng.randint(0, k)]) for _ in range(nv)] for _ in range(nrows)]

    def _history(self, rng, h=None):
        """`h` = running number of the history in this run: the first 2 x len(HIST_DERIVE) histories start with a fixed
        copy-on-manipulation method each, once on an unphased tetra-/hexaploid and once on a phased non-diploid object
        (a result that silently falls back to the default ploidy shows only there)"""
        forced = None
        phased = rng.random() < 0.55
        k = rng.choice([1, 2, 2, 3, 4]) if phased else rng.choice([1, 2, 2, 4, 4, 6])
        if h is not None and h < 2 * len(HIST_DERIVE):
            forced = HIST_DERIVE[h % len(HIST_DERIVE)]
            phased = forced == "project" or h >= len(HIST_DERIVE)
            k = rng.choice([1, 3, 4]) if phased else rng.choice([4, 6])
        nt = rng.choice([2, 3, 4, 5, 6, 8, rng.choice([50, 51, 99, 104])])
        nv = rng.choice([2, 3, 4])
        pats = [rng.choice(["one", "zero", "one_off", "zero_off", "half", "het", "rand", "rand", "notop"]) for _ in range(nv)]
        base = self._case(rng, nt, phased, k, pats, plain=True)
        case = {"kind": "history", "phased": phased, "ploidy": k, "nt": nt, "nv": nv, "mat": base["mat"],
                "dtypes": self._dtypes(rng, 10 ** 4), "dtypes2": self._dtypes(rng, 10 ** 4, plain=rng.random() < 0.5),
                "layout": rng.choice(LAYOUTS), "oseed": rng.randrange(1 << 30)}
        if rng.random() < 0.3:
            case["meta"] = self._meta(rng, nt, nv)
        steps = []
        cur_phased = phased
        for sno in range(rng.choice([2, 3, 3, 4, 5])):
            op = rng.choice(HIST_INPLACE + HIST_INPLACE + HIST_DERIVE)
            if forced and sno == 0:
                op = forced
            if op == "project" and not cur_phased:
                op = "copy"
            if op in ("remove_taxa", "delete_taxa") and nt < 2:
                op = "edit"
            if op in ("remove_vrnt", "delete_vrnt") and nv < 2:
                op = "requery"
            st = {"op": op}
            if op == "edit":
                cells = []
                for _ in range(rng.choice([1, 1, 2, 4])):
                    i, j = rng.randrange(nt), rng.randrange(nv)
                    cells.append([rng.randrange(k), i, j, rng.choice([0, 1])] if cur_phased
                                 else [i, j, rng.choice([0, k, rng.randint(0, k)])])
                st["cells"] = cells
            elif op == "editcol":               # a whole locus becomes fixed: the flags must flip
                st["j"], st["v"] = rng.randrange(nv), (rng.choice([0, 1]) if cur_phased else rng.choice([0, k]))
            elif op == "setmat":
                st["mat"] = self._block(rng, cur_phased, k, nt, nv)
            elif op in ("remove_taxa", "delete_taxa"):
                m = rng.randint(1, max(1, min(nt - 1, rng.choice([1, 2, nt - 1]))))
                form = rng.choice(["list", "array:int8", "array:uint16", "neg", "slice", "int"])
                if form == "slice":
                    lo = rng.randrange(nt - m + 1)
                    idx = list(range(lo, lo + m))
                elif form == "int":
                    idx = [rng.randrange(nt)]
                else:
                    idx = sorted(rng.sample(range(nt), m))
                st["idx"], st["form"] = idx, form
                nt -= len(idx)
            elif op == "select_taxa":
                m = rng.choice([1, 2, 3, nt])
                idx = [rng.randrange(nt) for _ in range(m)]
                st["idx"], st["form"] = idx, rng.choice(["list", "array:int8", "array:int64", "neg"])
                nt = m
            elif op in ("append_taxa", "adjoin_taxa"):
                m = rng.choice([1, 1, 2])
                st["rows"] = self._block(rng, cur_phased, k, m, nv)
                nt += m
            elif op in ("incorp_taxa", "insert_taxa"):
                m = rng.choice([1, 2])
                st["rows"], st["pos"] = self._block(rng, cur_phased, k, m, nv), rng.randrange(nt + 1)
                nt += m
            elif op == "reorder_taxa":
                perm = list(range(nt))
                rng.shuffle(perm)
                st["perm"] = perm
            elif op in ("remove_vrnt", "delete_vrnt"):
                idx = sorted(rng.sample(range(nv), rng.randint(1, nv - 1)))
                st["idx"], st["form"] = idx, rng.choice(["list", "array:int8", "neg"])
                nv -= len(idx)
            elif op == "select_vrnt":
                m = rng.choice([1, 2, nv])
                st["idx"], st["form"] = [rng.randrange(nv) for _ in range(m)], rng.choice(["list", "array:int16", "neg"])
                nv = m
            elif op == "concat_self":
                if nt > 60:
                    st = {"op": "requery"}
                else:
                    nt *= 2
            elif op == "project":
                cur_phased = False
            steps.append(st)
        case["steps"] = steps
        return case

    def generate(self, rng, n, tier):
        out = []
        pats_all = ["one", "zero", "one_off", "zero_off", "half", "het", "rand", "rand"]
        nhist = 0
        for i in range(n):
            if i >= len(BOUNDARY_N) and i % 5 == 4:
                out.append(self._history(rng, nhist))
                nhist += 1
                continue
            if i < len(BOUNDARY_N):
                nt = BOUNDARY_N[i]                       # every boundary size in every run
            else:
                r = rng.random()
                if r < 0.25:
                    nt = rng.choice(BOUNDARY_N)
                elif r < 0.85:
                    nt = rng.choice([1, 1, 2, 2, 3, 4, 5, 7, 8, 12])
                else:
                    nt = rng.randint(13, 120)
            phased = rng.random() < 0.6
            k = rng.choice([1, 2, 2, 2, 3, 4]) if phased else rng.choice([1, 2, 2, 2, 3, 4, 6])
            nv = rng.choice([1, 2, 3, 3, 4, 5]) if nt <= 60 else rng.choice([2, 3, 4])
            pats = [rng.choice(pats_all) for _ in range(nv)]
            shape = rng.random()
            if i >= len(BOUNDARY_N) and shape < 0.12:      # nobody homozygous for allele 1 at ANY locus
                pats = [rng.choice(["notop", "notop", "zero", "zero_off"]) for _ in range(nv)]
            elif i >= len(BOUNDARY_N) and shape < 0.16:    # the all-zero / all-one population
                pats = [rng.choice(["zero", "one"])] * nv
            elif nv >= 2:                                 # a fixed-1 and a fixed-0 locus in every other matrix
                a, b = rng.sample(range(nv), 2)
                pats[a], pats[b] = "one", "zero"
            out.append(self._case(rng, nt, phased, k, pats))
        return out

    # ------------------------------------------------------------------ implementation
    @staticmethod
    def _order(seed, rnd):
        names = list(STATS) + [k for k, _ in FMTS]
        if seed is None:
            return names
        import random as _random
        _random.Random(seed * 2 + rnd).shuffle(names)
        return names

    def _query(self, obj, dtypes, order=None, keep=None):
        """call every statistic (in the given order) with its dtype argument; `keep` collects the returned arrays"""
        res, dts, raw = {}, {}, ([] if keep is None else keep)
        fm = dict(FMTS)
        for s in (order or (list(STATS) + [k for k, _ in FMTS])):
            if s in fm:
                a = obj.mat_asformat(fm[s])
                dts[s] = str(a.dtype)
                res[s] = canon.enc(a)
            else:
                d = _dt(dtypes.get(s))
                r = getattr(obj, s)(d) if d is not None else getattr(obj, s)()
                a = numpy.asarray(r)
                dts[s] = str(a.dtype)
                res[s] = _flags(a) if KIND_OF[s] == "flag" else canon.enc(a)
                a = r
            raw.append(a)
        return res, dts

    def _build(self, case, mat=None, phased=None):
        ug, pg, gt = _mods()
        phased = (case["kind"] == "phased" or case.get("phased")) if phased is None else phased
        k = case["ploidy"]
        a = numpy.array(case["mat"] if mat is None else mat, dtype="int8")
        a = a.reshape((k, -1, case["nv"]) if phased else (-1, case["nv"])) if mat is None else a
        a = _layout(a, case.get("layout", "C"))
        kw = {}
        meta = case.get("meta")
        if meta:
            kw = {"taxa": numpy.array(meta["taxa"], dtype=object), "taxa_grp": numpy.array(meta["taxa_grp"], dtype="int64"),
                  "vrnt_chrgrp": numpy.array(meta["vrnt_chrgrp"], dtype="int64"),
                  "vrnt_phypos": numpy.array(meta["vrnt_phypos"], dtype="int64"),
                  "vrnt_name": numpy.array(meta["vrnt_name"], dtype=object),
                  "vrnt_mask": numpy.array(meta["vrnt_mask"], dtype=bool)}
        if phased:
            return pg.DensePhasedGenotypeMatrix(a, **kw)
        return ug.DenseGenotypeMatrix(a, ploidy=k, **kw)

    def _sweep(self, case):
        """boundary clause for EVERY size up to nmax: a locus fixed at 1, one fixed at 0, one with a single
        copy off; returns the sizes at which the implementation misses the exact class"""
        ug, pg, gt = _mods()
        bad = []
        for k in case["ploidies"]:
            for n in range(1, case["nmax"] + 1):
                Z = numpy.zeros((n, 3), dtype="int8")
                Z[:, 0] = k
                Z[:, 2] = k
                Z[n // 2, 2] = k - 1
                objs = [("unphased", ug.DenseGenotypeMatrix(Z, ploidy=k))]
                if k == 2:
                    G = numpy.zeros((2, n, 3), dtype="int8")
                    G[:, :, 0] = 1
                    G[:, :, 2] = 1
                    G[1, n // 2, 2] = 0
                    objs.append(("phased", pg.DensePhasedGenotypeMatrix(G)))
                for who, o in objs:
                    p = o.afreq()
                    fx, po = o.afixed(), o.apoly()
                    lone = (k * n == 1)          # a single copy in total: "one copy off" means fixed at 0
                    ok = (p[0] == 1.0 and p[1] == 0.0 and bool(fx[0]) and bool(fx[1])
                          and not bool(po[0]) and not bool(po[1])
                          and ((p[2] == 0.0 and bool(fx[2]) and not bool(po[2])) if lone
                               else (0.0 < p[2] < 1.0 and not bool(fx[2]) and bool(po[2]))))
                    if not ok:
                        bad.append([who, k, n, canon.enc(p)])
        for k, n in case.get("big", []):
            m = k * n
            Z = numpy.zeros((n, 4), dtype="int8")
            Z[:, 0] = k
            Z[:, 2] = k
            Z[n // 3, 2] = k - 1            # one copy of allele 0 left
            Z[(2 * n) // 3, 3] = 1          # one copy of allele 1 present
            objs = [("unphased", ug.DenseGenotypeMatrix(Z, ploidy=k))]
            if k == 2:
                G = numpy.zeros((2, n, 4), dtype="int8")
                G[:, :, 0] = 1
                G[:, :, 2] = 1
                G[1, n // 3, 2] = 0
                G[0, (2 * n) // 3, 3] = 1
                P = pg.DensePhasedGenotypeMatrix(G)
                objs += [("phased", P), ("projection", gt.DenseUnphasedGenotyping().genotype(P))]
            for who, o in objs:
                p, fx, po, mf, p32 = o.afreq(), o.afixed(), o.apoly(), o.maf(), o.afreq("float32")
                ok = (p[0] == 1.0 and p[1] == 0.0 and p[2] == (m - 1) / m and p[3] == 1 / m
                      and 0.0 < p[2] < 1.0 and 0.0 < p[3] < 1.0
                      and [bool(x) for x in fx] == [True, True, False, False]
                      and [bool(x) for x in po] == [False, False, True, True]
                      and mf[0] == 0.0 and mf[1] == 0.0 and 0.0 < mf[2] <= 0.5 and abs(mf[2] - 1 / m) <= 1e-12
                      and mf[3] == 1 / m
                      and p32[0] == 1.0 and p32[1] == 0.0 and 0.0 < p32[2] < 1.0 and 0.0 < p32[3] < 1.0)
                # counts of a population this large: an accumulator narrower than the count wraps around
                ac, gc = o.acount(), o.gtcount()
                ok = (ok and [int(x) for x in ac] == [m, 0, m - 1, 1]
                      and [int(x) for x in gc[:, 0]] == [0] * k + [n] and [int(x) for x in gc[:, 1]] == [n] + [0] * k
                      and [int(x) for x in gc[:, 2]] == [0] * (k - 1) + [1, n - 1]
                      and [int(x) for x in gc[:, 3]] == [n - 1, 1] + [0] * (k - 1)
                      and int(numpy.asarray(o.tacount()).sum()) == 2 * m and float(o.tafreq().max()) == 1.0)
                if not ok:
                    bad.append([who, k, n, canon.enc(p), [bool(x) for x in fx], [bool(x) for x in po],
                                [int(x) for x in ac]])
        return {"bad": bad[:20], "nbad": len(bad)}

    @staticmethod
    def _idx(st):
        """the index argument in the requested form"""
        idx, form = st["idx"], st.get("form", "list")
        if form == "int":
            return int(idx[0])
        if form == "slice":
            return slice(idx[0], idx[-1] + 1)
        if form.startswith("array:"):
            return numpy.array(idx, dtype=form[6:])
        return list(idx)

    def _apply(self, obj, ref, st, phased, meta, fresh):
        """one history step on the object and on the numpy reference `ref` of its matrix.
        -> (object to continue with, reference, phased?, object left behind or None)"""
        ug, pg, gt = _mods()
        op = st["op"]
        tax = 1 if phased else 0
        vax = 2 if phased else 1

        def labels(m):
            if not meta:
                return {}
            return {"taxa": numpy.array([f"new{next(fresh)}" for _ in range(m)], dtype=object),
                    "taxa_grp": numpy.array([9] * m, dtype="int64")}
        if op == "requery":
            return obj, ref, phased, None
        if op == "edit":
            for c in st["cells"]:
                obj.mat[tuple(c[:-1])] = c[-1]            # the SAME array object, edited in place
                ref[tuple(c[:-1])] = c[-1]
            return obj, ref, phased, None
        if op == "editcol":
            obj.mat[..., st["j"]] = st["v"]
            ref[..., st["j"]] = st["v"]
            return obj, ref, phased, None
        if op == "setmat":
            new = numpy.array(st["mat"], dtype="int8")
            obj.mat = new.copy()
            return obj, new, phased, None
        if op in ("remove_taxa", "delete_taxa", "remove_vrnt", "delete_vrnt"):
            ax = tax if op.endswith("taxa") else vax
            nax = ref.shape[ax]
            arg = self._idx(st)
            if st.get("form") == "neg":
                arg = [i - nax for i in st["idx"]]
            ref2 = numpy.delete(ref, st["idx"], axis=ax)
            if op.startswith("remove"):
                getattr(obj, op)(arg)
                return obj, ref2, phased, None
            return getattr(obj, op)(arg), ref2, phased, obj
        if op in ("select_taxa", "select_vrnt"):
            ax = tax if op.endswith("taxa") else vax
            nax = ref.shape[ax]
            arg = self._idx(st)
            if st.get("form") == "neg":
                arg = [i - nax for i in st["idx"]]
            return getattr(obj, op)(arg), numpy.take(ref, st["idx"], axis=ax), phased, obj
        if op in ("append_taxa", "adjoin_taxa"):
            rows = numpy.array(st["rows"], dtype="int8")
            ref2 = numpy.concatenate([ref, rows], axis=tax)
            if op == "append_taxa":
                obj.append_taxa(rows, **labels(rows.shape[tax]))
                return obj, ref2, phased, None
            return obj.adjoin_taxa(rows, **labels(rows.shape[tax])), ref2, phased, obj
        if op in ("incorp_taxa", "insert_taxa"):
            rows = numpy.array(st["rows"], dtype="int8")
            n_ = ref.shape[tax]
            ref2 = numpy.concatenate([numpy.take(ref, range(st["pos"]), axis=tax), rows,
                                      numpy.take(ref, range(st["pos"], n_), axis=tax)], axis=tax)
            if op == "incorp_taxa":
                obj.incorp_taxa(st["pos"], rows, **labels(rows.shape[tax]))
                return obj, ref2, phased, None
            return obj.insert_taxa(st["pos"], rows, **labels(rows.shape[tax])), ref2, phased, obj
        if op == "reorder_taxa":
            obj.reorder_taxa(numpy.array(st["perm"]))
            return obj, numpy.take(ref, st["perm"], axis=tax), phased, None
        if op == "concat_self":
            return type(obj).concat_taxa([obj, obj.copy()]), numpy.concatenate([ref, ref], axis=tax), phased, obj
        if op == "copy":
            return obj.copy(), ref.copy(), phased, obj
        if op == "deepcopy":
            return obj.deepcopy(), ref.copy(), phased, obj
        if op == "project":
            return gt.DenseUnphasedGenotyping().genotype(obj), ref.sum(0).astype("int8"), False, obj
        if op == "hdf5":                                   # the factory: written to a file and read back
            import os
            import tempfile
            d = tempfile.mkdtemp(prefix="c09_")
            path = os.path.join(d, "g.h5")
            try:
                obj.to_hdf5(path)
                new = type(obj).from_hdf5(path)
            finally:
                if os.path.exists(path):
                    os.remove(path)
                os.rmdir(d)
            return new, ref.copy(), phased, obj
        raise ValueError(op)

    def _checkpoint(self, obj, ref, phased, case, label, cp_no):
        """all statistics, twice, judged later against the raw calls the object holds NOW.  Between the two rounds every
        array the first round returned is overwritten with zeros (a valid call): what a caller does with a result must
        not change later answers (a memo handed out by reference would)."""
        k = case["ploidy"]
        valid = lambda a: bool(((a >= 0) & (a <= (1 if phased else k))).all())
        before = numpy.array(obj.mat, copy=True)
        seed = case.get("oseed")
        kept = []
        r1, d1 = self._query(obj, case["dtypes"], self._order(seed, 2 * cp_no), keep=kept)
        after1 = numpy.array(obj.mat, copy=True)
        for a in kept:
            if isinstance(a, numpy.ndarray) and a.ndim > 0 and a.flags.writeable:
                a[...] = 0
        mid = numpy.array(obj.mat, copy=True)
        r2, d2 = self._query(obj, case.get("dtypes2", case["dtypes"]), self._order(seed, 2 * cp_no + 1))
        after = numpy.array(obj.mat, copy=True)
        same = lambda x, y: x.shape == y.shape and bool((x == y).all())
        return {"label": label, "phased": bool(phased), "ploidy": k,
                "nt": int(before.shape[1 if phased else 0]), "nv": int(before.shape[-1]),
                "mat1": canon.enc(before), "mat": canon.enc(mid), "r1": r1, "r1_dtypes": d1, "r2": r2, "r2_dtypes": d2,
                "obj_ploidy": int(obj.ploidy), "obj_class": type(obj).__name__,
                "mat_ok": ref is None or same(before, ref),
                # a statistic that edits the genotype data is a failure of the statistic; a result that aliases the
                # matrix (so that the caller's edit leaks into it) is recorded as a broken correspondence only
                "stat_readonly": same(before, after1) and same(mid, after) and valid(after1) and valid(after),
                "result_aliases_matrix": not same(after1, mid)}

    def _run_history(self, case):
        import itertools
        phased = case["phased"]
        obj = self._build(case)
        ref = numpy.array(obj.mat, copy=True)
        fresh = itertools.count()
        cps = [self._checkpoint(obj, ref, phased, case, "start", 0)]
        left = []
        for n, st in enumerate(case["steps"]):
            obj, ref, phased, old = self._apply(obj, ref, st, phased, case.get("meta"), fresh)
            if old is not None:
                left.append((old, cps[-1]["phased"], f"left behind by step {n} ({st['op']})", numpy.array(cps[-1]["mat"], dtype="int8")))
            cps.append(self._checkpoint(obj, ref, phased, case, f"after step {n} ({st['op']})", n + 1))
        for m, (old, ph, label, oldref) in enumerate(left[-2:]):
            # an object a copy-on-manipulation method was called on must still answer for its own, unchanged matrix
            cps.append(self._checkpoint(old, oldref, ph, case, label, len(case["steps"]) + 1 + m))
        return {"cps": cps}

    def run_impl(self, case):
        ug, pg, gt = _mods()
        obs = {}
        if case["kind"] == "sweep":
            return self._sweep(case)
        if case["kind"] == "history":
            return self._run_history(case)
        order = self._order(case.get("oseed"), 0)
        if case["kind"] == "phased":
            P = self._build(case)
            U = gt.DenseUnphasedGenotyping().genotype(P)
            obs["P"], obs["P_dtypes"] = self._query(P, case["dtypes"], order)
            obs["U"], obs["U_dtypes"] = self._query(U, case["dtypes"], order)
            obs["U_ploidy"] = int(U.ploidy)
            obs["U_class"] = type(U).__name__
            obs["U_meta_ok"] = all(C09._same(getattr(U, a), getattr(P, a)) for a in
                                   ("taxa", "taxa_grp", "vrnt_chrgrp", "vrnt_phypos", "vrnt_name", "vrnt_mask"))
        else:
            U = self._build(case)
            obs["U"], obs["U_dtypes"] = self._query(U, case["dtypes"], order)
        return obs

    @staticmethod
    def _same(a, b):
        if a is None or b is None:
            return a is None and b is None
        return len(a) == len(b) and all(x == y for x, y in zip(a, b))

    # ------------------------------------------------------------------ model requests
    @staticmethod
    def _intcast(dtypes):
        return [s for s in ("tafreq", "afreq", "maf", "meh", "gtfreq") if _is_int(dtypes.get(s), s)]

    def _spec_req(self, base, dtypes, U=None, P=None):
        tol = {s: canon.enc(_tol(dtypes, s)) for s in ("tafreq", "afreq", "maf", "meh", "gtfreq")}
        tol["fM1m1"] = canon.enc(TOL["float64"])
        return dict(base, op="c09.spec", tol=tol, intcast=self._intcast(dtypes), U=U, P=P)

    def requests(self, case, obs):
        if case["kind"] == "sweep":
            return []
        if case["kind"] == "history":
            reqs = []
            for cp in obs["cps"]:
                base = {"phased": cp["phased"], "nt": cp["nt"], "nv": cp["nv"], "ploidy": cp["ploidy"], "mat": cp["mat"]}
                who = "P" if cp["phased"] else "U"
                reqs.append(dict(base, op="c09.stats"))
                reqs.append(self._spec_req(dict(base, mat=cp["mat1"]), case["dtypes"], **{who: cp["r1"]}))
                reqs.append(self._spec_req(base, case.get("dtypes2", case["dtypes"]), **{who: cp["r2"]}))
            return reqs
        base = {"phased": case["kind"] == "phased", "nt": case["nt"], "nv": case["nv"],
                "ploidy": case["ploidy"], "mat": case["mat"]}
        return [dict(base, op="c09.stats"), self._spec_req(base, case["dtypes"], U=obs["U"], P=obs.get("P"))]

    @staticmethod
    def _cmp(stat, model, impl, tol):
        """model value vs implementation value: exact for counts/flags/codings, exact on the 0/1 boundary
        and tolerant inside for frequencies"""
        if stat in ("tacount", "acount", "gtcount", "afixed", "apoly", "f012", "fM101"):
            return model == impl
        def one(a, b):
            a, b = canon.dec(a), canon.dec(b)
            if isinstance(a, str) or isinstance(b, str):
                return False
            if stat in ("afreq", "tafreq", "maf") and (a in (0, 1) or b in (0, 1)):
                return a == b
            return a == b or abs(a - b) <= tol * max(1, abs(a), abs(b))
        def walk(a, b):
            if isinstance(a, list) or isinstance(b, list):
                return (isinstance(a, list) and isinstance(b, list) and len(a) == len(b)
                        and all(walk(x, y) for x, y in zip(a, b)))
            return one(a, b)
        return walk(model, impl)

    def _corr_one(self, who, model, m64, out, out_dt, dtypes):
        """differences between the model's outputs and the implementation's for one object; dtype clause"""
        bad, dt_bad = [], []
        for s in list(STATS) + [k for k, _ in FMTS]:
            tol = _tol(dtypes, s) if s in STATS else TOL["float64"]
            if s in STATS and KIND_OF[s] == "freq" and _is_int(dtypes.get(s), s):
                # integer dtype: the truncation of the binary64 value, exactly (meh: of a value within rounding)
                if s == "meh":
                    w = canon.dec(model[s])
                    ok = canon.dec(out[s]) in {Fraction(int(w)), Fraction(int(w - tol)), Fraction(int(w + tol))}
                else:
                    ok = m64[s + "_int"] == out[s]
                if not ok:
                    bad.append(f"{who}.{s}:integer cast")
                continue
            if not self._cmp(s, model[s], out[s], tol):
                bad.append(f"{who}.{s}")
            # float64 outputs: bit-exact against the IEEE rounding model (Binary64.roundBinary64); float32 / float16
            # outputs: against the cast model (BinaryFloat.roundBin 23 / 10 of the binary64 value)
            if s in ("afreq", "tafreq", "gtfreq", "maf"):
                dn = _dtname(dtypes.get(s), s)
                if dn == "float64" and m64[s] != out[s]:
                    bad.append(f"{who}.{s}:not bit-exact with roundBinary64")
                if dn in ("float32", "float16") and m64[f"{s}_f{dn[5:]}"] != out[s]:
                    bad.append(f"{who}.{s}:not bit-exact with the {dn} cast model")
        for s in STATS:
            want = _dtname(dtypes.get(s), s)
            if out_dt[s] != want:
                # a REQUESTED dtype is part of the property; the dtype returned when none is requested is only what
                # the code does today (correspondence)
                (dt_bad if dtypes.get(s) is not None else bad).append(f"{who}.{s}:dtype {out_dt[s]}!={want}")
        return bad, dt_bad

    def judge(self, case, obs, answers):
        if case["kind"] == "sweep":
            ok = obs["nbad"] == 0
            return {"corr": ok, "spec": ok, "nontrivial": True,
                    "detail": f"spec_fail=[{'' if ok else 'boundary clause (afreq exactly 0/1, afixed, apoly, counts) at sizes'}] "
                              f"sweep 1..{case['nmax']} ploidies={case['ploidies']} big={case.get('big', [])} "
                              f"failing={obs['bad'][:6]} count={obs['nbad']}"}
        for a in answers:
            if "err" in a:
                # a flag array that is not 0/1, or a malformed output, is an implementation failure
                return {"corr": False, "spec": False, "nontrivial": True,
                        "detail": "driver rejected the implementation's output: " + a["err"][:300]}
        if case["kind"] == "history":
            bad, dt_bad, sfail = [], [], []
            nontriv = False
            for n, cp in enumerate(obs["cps"]):
                model, s1, s2 = (a["ok"] for a in answers[3 * n:3 * n + 3])
                if not model["valid"]:
                    if not cp["stat_readonly"]:
                        sfail.append(f"{cp['label']}: a read-only statistic left invalid calls in the genotype matrix")
                        continue
                    raise RuntimeError("generator produced an invalid history (raw calls after a step)")
                who = "P" if cp["phased"] else "U"
                for rnd, sp, dts in (("r1", s1, case["dtypes"]), ("r2", s2, case.get("dtypes2", case["dtypes"]))):
                    if rnd == "r2" or cp["mat1"] == cp["mat"]:       # the model was run on the matrix of the second round
                        b, d = self._corr_one(f"{cp['label']}/{rnd}/{who}", model[who], model[who + "64"], cp[rnd],
                                              cp[rnd + "_dtypes"], dts)
                        bad += b
                        dt_bad += d
                    if not sp["ok"]:
                        sfail.append(f"{cp['label']}/{'first' if rnd == 'r1' else 'second'} query: {sp['detail']}")
                if not cp["mat_ok"]:
                    bad.append(f"{cp['label']}: matrix differs from the numpy reference of the step")
                if not cp["stat_readonly"]:
                    sfail.append(f"{cp['label']}: a read-only statistic changed the genotype matrix")
                if cp["result_aliases_matrix"]:
                    bad.append(f"{cp['label']}: a returned array aliases the genotype matrix")
                want_cls = "DensePhasedGenotypeMatrix" if cp["phased"] else "DenseGenotypeMatrix"
                if cp["obj_ploidy"] != cp["ploidy"] or cp["obj_class"] != want_cls:
                    bad.append(f"{cp['label']}: object reports ploidy {cp['obj_ploidy']} / class {cp['obj_class']}")
                fx = cp["r2"]["afixed"]
                nontriv = nontriv or (cp["nt"] >= 2 and any(fx) and not all(fx))
            detail = (f"spec_fail=[{'; '.join(sfail[:4])}] dtype_fail={dt_bad[:4]} model_vs_impl_diff={bad[:6]} "
                      f"history ops={[s['op'] for s in case['steps']]} phased={case['phased']} ploidy={case['ploidy']}")
            return {"corr": not bad, "spec": not sfail and not dt_bad, "nontrivial": bool(nontriv), "detail": detail}
        model, spec = answers[0]["ok"], answers[1]["ok"]
        if not model["valid"]:
            raise RuntimeError("generator produced an invalid case")
        bad, dt_bad = [], []
        for who in ("P", "U"):
            if who not in obs:
                continue
            b, d = self._corr_one(who, model[who], model[who + "64"], obs[who], obs[who + "_dtypes"], case["dtypes"])
            bad += b
            dt_bad += d
        if not obs.get("U_meta_ok", True):
            bad.append("projection: taxa / variant metadata differ from the phased matrix'")
        corr = not bad
        proj_ok = True
        if case["kind"] == "phased":
            proj_ok = obs["U_ploidy"] == case["ploidy"] and obs["U_class"] == "DenseGenotypeMatrix"
        spec_ok = bool(spec["ok"]) and not dt_bad and proj_ok
        ref = obs.get("P", obs["U"])
        nontriv = case["nt"] >= 2 and any(ref["afixed"]) and not all(ref["afixed"])
        detail = (f"spec_fail=[{spec['detail']}] dtype_fail={dt_bad} projection_ok={proj_ok} "
                  f"model_vs_impl_diff={bad[:6]} nt={case['nt']} ploidy={case['ploidy']} layout={case.get('layout', 'C')} "
                  f"afreq_impl={ref['afreq'][:4]}")
        return {"corr": corr, "spec": spec_ok, "nontrivial": bool(nontriv), "detail": detail}

    def signature(self, case, obs, verdict):
        if case["kind"] == "sweep":
            return {"kind": "sweep"}
        if case["kind"] == "history":
            return {"kind": "history", "clauses": (verdict.get("detail", "").split("]")[0])[:200]}
        m = case["ploidy"] * case["nt"]
        return {"kind": case["kind"], "recip_inexact": (1.0 / m) * m != 1.0,
                "clauses": (verdict.get("detail", "").split("]")[0])[:200]}

    def shrink(self, case):
        if case["kind"] == "sweep" and case.get("big"):
            for i in range(len(case["big"])):
                if len(case["big"]) > 1:
                    yield dict(case, big=case["big"][:i] + case["big"][i + 1:])
            return
        if case["kind"] == "sweep":
            if isinstance(self._last_bad(case), int):
                yield dict(case, nmax=self._last_bad(case))
            return
        nod = {s: None for s in STATS}
        if case["kind"] == "history":
            # shorter histories (a suffix can only be dropped: later steps depend on the shapes earlier ones leave)
            for m in range(len(case["steps"])):
                yield dict(case, steps=case["steps"][:m])
            if any(v is not None for v in list(case["dtypes"].values()) + list(case.get("dtypes2", {}).values())):
                yield dict(case, dtypes=dict(nod), dtypes2=dict(nod))
            if case.get("layout", "C") != "C":
                yield dict(case, layout="C")
            if case.get("meta"):
                yield {k: v for k, v in case.items() if k != "meta"}
            return
        nt, nv = case["nt"], case["nv"]
        phased = case["kind"] == "phased"
        if any(v is not None for v in case["dtypes"].values()):
            yield dict(case, dtypes=dict(nod))
        if case.get("layout", "C") != "C":
            yield dict(case, layout="C")
        if case.get("meta"):
            yield {k: v for k, v in case.items() if k != "meta"}
        case = {k: v for k, v in case.items() if k != "meta"}       # labels would no longer fit a smaller matrix
        if nt > 1:
            if nt > 3:          # halve (either half)
                h = nt // 2
                for lo, hi in ((0, h), (h, nt)):
                    c = dict(case, nt=hi - lo)
                    c["mat"] = [ph[lo:hi] for ph in case["mat"]] if phased else case["mat"][lo:hi]
                    yield c
            for i in ([0, nt - 1, nt // 2] if nt > 3 else range(nt)):
                c = dict(case, nt=nt - 1)
                c["mat"] = ([ph[:i] + ph[i + 1:] for ph in case["mat"]] if phased
                            else case["mat"][:i] + case["mat"][i + 1:])
                yield c
        if nv > 1:
            for j in range(nv):
                c = dict(case, nv=nv - 1)
                c["mat"] = ([[r[:j] + r[j + 1:] for r in ph] for ph in case["mat"]] if phased
                            else [r[:j] + r[j + 1:] for r in case["mat"]])
                yield c

    def _last_bad(self, case):
        """smallest failing size of a sweep (used to shrink it)"""
        try:
            obs = self._sweep(case)
        except Exception:
            return None
        if not obs["nbad"]:
            return None
        n = min(b[2] for b in obs["bad"])
        return n if n < case["nmax"] else None

    # ------------------------------------------------------------------ self-test mutants
    def mutants(self):
        ug, pg, gt = _mods()
        UG, PG, GT = ug.DenseGenotypeMatrix, pg.DensePhasedGenotypeMatrix, gt.DenseUnphasedGenotyping

        @contextlib.contextmanager
        def patch(*triples):
            missing = object()
            olds = [(o, n, o.__dict__.get(n, missing)) for o, n, _ in triples]
            for o, n, new in triples:
                setattr(o, n, new)
            try:
                yield
            finally:
                for o, n, old in olds:
                    if old is missing:
                        delattr(o, n)
                    else:
                        setattr(o, n, old)

        def cast(out, dtype):
            if dtype is not None:
                dtype = numpy.dtype(dtype)
                if out.dtype != dtype:
                    out = dtype.type(out)
            return out

        # -- mechanism 1: sum / (ploidy*ntaxa)
        def u_afreq_recip(self, dtype=None):           # regression to the pre-repair form (D1)
            return cast((1.0 / (self.ploidy * self.ntaxa)) * self._mat.sum(self.taxa_axis), dtype)

        def p_afreq_recip(self, dtype=None):
            return cast((1.0 / (self.ploidy * self.ntaxa)) * self._mat.sum((self.phase_axis, self.taxa_axis)), dtype)

        def u_afreq_noploidy(self, dtype=None):
            return cast(self._mat.sum(self.taxa_axis) / self.ntaxa, dtype)

        def p_afreq_noploidy(self, dtype=None):
            return cast(self._mat.sum((self.phase_axis, self.taxa_axis)) / self.ntaxa, dtype)

        def p_tafreq_ntaxa(self, dtype=None):
            return cast(self._mat.sum(self.phase_axis) / float(self.ntaxa), dtype)

        def u_tafreq_recip(self, dtype=None):            # one ulp off for 5/6: only the bit-exact comparison sees it
            return cast(self._mat * (1.0 / float(self.ploidy)), dtype)

        def p_acount_taxa_only(self, dtype=None):
            return cast(self._mat[0].sum(0), dtype)

        # -- mechanism 2: fixation / polymorphism flags
        def afixed_one_only(self, dtype=None):
            return cast(self.afreq() == 1.0, dtype)

        def afixed_isclose(self, dtype=None):           # tolerance instead of exact float equality
            p = self.afreq()
            return cast(numpy.isclose(p, 0.0) | numpy.isclose(p, 1.0), dtype)

        def u_apoly_isclose(self, dtype=None):
            p = self.afreq()
            return cast(~(numpy.isclose(p, 0.0) | numpy.isclose(p, 1.0)), dtype)

        def u_apoly_le(self, dtype=None):
            p = self.afreq()
            return cast((p > 0.0) & (p <= 1.0), dtype)

        def p_apoly_min_only(self, dtype=None):
            return cast(numpy.logical_not(numpy.all(self.mat == 0, axis=(0, 1))), dtype)

        # -- mechanism 3: genotype classes
        def u_gtcount_nphase(self, dtype=None):        # regression to the pre-repair form (D2)
            ngt = self.nphase + 1
            out = numpy.empty((ngt, self.nvrnt), dtype="int64")
            for i in range(ngt):
                out[i] = (self._mat == i).sum(self.taxa_axis)
            return cast(out, dtype)

        def p_gtcount_short(self, dtype=None):
            ngt = self.nphase + 1
            mat = self._mat.sum(self.phase_axis)
            out = numpy.zeros((ngt, self.nvrnt), dtype="int64")
            for i in range(ngt - 1):
                out[i] = (mat == i).sum(0)
            return cast(out, dtype)

        def gtfreq_ploidy(self, dtype=None):
            return cast((1.0 / (self.ploidy * self.ntaxa)) * self.gtcount(), dtype)

        # -- mechanism 4: meh, maf
        def u_meh_noploidy(self, dtype=None):
            p = self.afreq()
            return cast(numpy.dot(p, 1.0 - p) * (1.0 / self.nvrnt), dtype)

        def p_meh_noploidy(self, dtype=None):
            p = self.afreq()
            return cast((p * (1.0 - p)).sum() * (1.0 / self.nvrnt), dtype)

        def maf_nofold(self, dtype=None):
            return self.afreq(dtype)

        # -- mechanism 5: codings
        def u_fmt_bad(self, format):
            if format == "{0,1,2}":
                return self.mat.copy()
            if format == "{-1,0,1}":
                return self.mat - 1
            out = self.mat - 1.0
            for i in range(out.shape[1]):
                view = out[:, i]
                out[view == 0, i] = 0.0                 # heterozygote not replaced by the mean
            return out

        def p_fmt_bad(self, format):
            if format == "{0,1,2}":
                return self.mat.sum(0, dtype=self.mat.dtype)
            if format == "{-1,0,1}":
                return self.mat.sum(0, dtype=self.mat.dtype)   # forgot the shift
            out = self.mat.sum(0) - 1.0
            for i in range(out.shape[1]):
                view = out[:, i]
                mean = view.mean()
                out[view == 0, i] = mean
            return out

        # -- projection
        def genotype_default_ploidy(self, pgmat, miscout=None, **kw):
            return UG(mat=pgmat.mat_asformat("{0,1,2}"), taxa=pgmat.taxa, taxa_grp=pgmat.taxa_grp)

        def genotype_first_phase(self, pgmat, miscout=None, **kw):
            return UG(mat=(pgmat.mat[0] * pgmat.ploidy).astype("int8"), ploidy=pgmat.ploidy)

        # -- stateful / aliasing / layout / dtype / partial-structure classes (round 4)
        def p_afreq_memo_identity(self, dtype=None):       # memo keyed on the array OBJECT: stale after mat[...] = x
            memo = self.__dict__.get("_memo_id")
            if memo is None or memo[0] is not self._mat:
                memo = (self._mat, self._mat.sum((self.phase_axis, self.taxa_axis)) / (self.ploidy * self.ntaxa))
                self.__dict__["_memo_id"] = memo
            return cast(memo[1].copy(), dtype)

        def make_setter_memo(cls, axes):
            prop = cls.__dict__["mat"]

            def fset(self, value):
                prop.fset(self, value)
                self.__dict__["_memo_tok"] = object()      # the memo is dropped by the `mat` setter only

            def afreq(self, dtype=None):
                memo = self.__dict__.get("_memo_set")
                if memo is None or memo[0] is not self.__dict__.get("_memo_tok"):
                    memo = (self.__dict__.get("_memo_tok"), self._mat.sum(axes(self)) / (self.ploidy * self.ntaxa))
                    self.__dict__["_memo_set"] = memo
                return cast(memo[1], dtype)                # ... and the memoised array itself is handed out
            return property(prop.fget, fset, prop.fdel, prop.__doc__), afreq

        pg_mat_memo, p_afreq_memo_setter = make_setter_memo(PG, lambda o: (o.phase_axis, o.taxa_axis))
        ug_mat_memo, u_afreq_memo_setter = make_setter_memo(UG, lambda o: o.taxa_axis)

        _p_fmt = PG.__dict__["mat_asformat"]

        def p_fmt_diploid_fast_path(self, format):
            if format == "{0,1,2}":
                return self.mat[0] + self.mat[min(1, self.mat.shape[0] - 1)]      # 'diploid fast path'
            return _p_fmt(self, format)

        def afixed_passes_dtype(self, dtype=None):         # an integer dtype then truncates the frequencies first
            afreq = self.afreq(dtype)
            return cast((afreq == 0.0) | (afreq == 1.0), dtype)

        DTVM = UG.__mro__[1]
        _u_select = UG.__dict__["select_taxa"]
        _u_delete = UG.__dict__["delete_taxa"]

        def u_select_drops_ploidy(self, indices, **kw):
            if type(self) is UG:
                return DTVM.select_taxa(self, indices=indices, **kw)
            return _u_select(self, indices, **kw)

        def u_copy_drops_ploidy(self):
            out = UG(mat=self.mat.copy(), taxa=self.taxa, taxa_grp=self.taxa_grp, vrnt_chrgrp=self.vrnt_chrgrp,
                     vrnt_phypos=self.vrnt_phypos, vrnt_name=self.vrnt_name, vrnt_mask=self.vrnt_mask)
            return out

        _genotype = GT.__dict__["genotype"]

        def genotype_regroups(self, pgmat, miscout=None, **kw):
            out = _genotype(self, pgmat, miscout, **kw)
            if out.vrnt_chrgrp is not None:
                out.group_vrnt()                           # lexsorts the variant axis
            return out

        def p_acount_assumes_c_order(self, dtype=None):
            flat = self._mat.ravel(order="K")              # memory order, not index order
            out = flat.reshape(self._mat.shape).sum((self.phase_axis, self.taxa_axis))
            return cast(out, dtype)

        def u_tacount_assumes_contiguous(self, dtype=None):
            a = self._mat
            buf = a if a.flags.c_contiguous else numpy.frombuffer(a.tobytes(order="A"), dtype=a.dtype).reshape(a.shape)
            return buf.astype(int if dtype is None else dtype)

        def u_acount_int16(self, dtype=None):
            return cast(self._mat.sum(self.taxa_axis, dtype="int16"), "int64" if dtype is None else dtype)

        def p_gtcount_int8_dosage(self, dtype=None):      # dosage summed in int8, class counts in int16
            mat = self._mat.sum(self.phase_axis, dtype="int8")
            out = numpy.empty((self.nphase + 1, self.nvrnt), dtype="int64")
            for i in range(self.nphase + 1):
                out[i] = (mat == i).sum(0, dtype="int16")
            return cast(out, dtype)

        def u_afreq_int_rounds(self, dtype=None):          # integer dtype: rounds to nearest instead of truncating
            out = self._mat.sum(self.taxa_axis) / (self.ploidy * self.ntaxa)
            if dtype is not None and numpy.issubdtype(numpy.dtype(dtype), numpy.integer):
                out = numpy.rint(out)
            return cast(out, dtype)

        def p_meh_two(self, dtype=None):                   # 'expected heterozygosity is 2pq'
            p = self.afreq()
            return cast((p * (1.0 - p)).sum() * (2.0 / self.nvrnt), dtype)

        def u_gtcount_classes_from_max(self, dtype=None):
            ngt = max(self.nphase, int(self._mat.max(initial=0))) + 1
            out = numpy.empty((ngt, self.nvrnt), dtype="int64")
            for i in range(ngt):
                out[i] = (self._mat == i).sum(self.taxa_axis)
            return cast(out, dtype)

        def u_apoly_needs_two_taxa(self, dtype=None):
            p = self.afreq()
            out = (p > 0.0) & (p < 1.0)
            if self.ntaxa < 2:
                out[:] = False
            return cast(out, dtype)

        def maf_in_place_on_cached(self, dtype=None):      # afreq memo + maf folding the memo in place
            out = self.afreq(dtype)
            mask = out > 0.5
            out[mask] = 1.0 - out[mask]
            return out

        _u_from_hdf5 = UG.__dict__["from_hdf5"].__func__

        def u_from_hdf5_default_ploidy(cls, filename, groupname=None):
            out = _u_from_hdf5(cls, filename, groupname)
            if cls is UG:
                out._ploidy = 2                              # the reader forgets the stored ploidy
            return out

        return [
            ("unphased_from_hdf5_default_ploidy", lambda: patch((UG, "from_hdf5", classmethod(u_from_hdf5_default_ploidy)))),
            ("phased_afreq_memo_keyed_on_array_identity", lambda: patch((PG, "afreq", p_afreq_memo_identity))),
            ("phased_afreq_memo_dropped_by_setter_only", lambda: patch((PG, "afreq", p_afreq_memo_setter), (PG, "mat", pg_mat_memo))),
            ("unphased_afreq_memo_dropped_by_setter_only", lambda: patch((UG, "afreq", u_afreq_memo_setter), (UG, "mat", ug_mat_memo))),
            ("phased_dosage_coding_diploid_fast_path", lambda: patch((PG, "mat_asformat", p_fmt_diploid_fast_path))),
            ("afixed_passes_dtype_to_afreq", lambda: patch((UG, "afixed", afixed_passes_dtype))),
            ("unphased_select_taxa_drops_ploidy", lambda: patch((UG, "select_taxa", u_select_drops_ploidy))),
            ("unphased_copy_drops_ploidy", lambda: patch((UG, "copy", u_copy_drops_ploidy))),
            ("projection_regroups_variants", lambda: patch((GT, "genotype", genotype_regroups))),
            ("phased_acount_assumes_c_order", lambda: patch((PG, "acount", p_acount_assumes_c_order))),
            ("unphased_tacount_assumes_contiguous_buffer", lambda: patch((UG, "tacount", u_tacount_assumes_contiguous))),
            ("unphased_acount_int16_accumulator", lambda: patch((UG, "acount", u_acount_int16))),
            ("phased_gtcount_int16_class_counts", lambda: patch((PG, "gtcount", p_gtcount_int8_dosage))),
            ("unphased_afreq_integer_dtype_rounds", lambda: patch((UG, "afreq", u_afreq_int_rounds))),
            ("phased_meh_factor_two", lambda: patch((PG, "meh", p_meh_two))),
            ("unphased_gtcount_classes_from_max", lambda: patch((UG, "gtcount", u_gtcount_classes_from_max))),
            ("unphased_apoly_needs_two_taxa", lambda: patch((UG, "apoly", u_apoly_needs_two_taxa))),
            ("afreq_reciprocal_form_D1", lambda: patch((UG, "afreq", u_afreq_recip), (PG, "afreq", p_afreq_recip))),
            ("afreq_reciprocal_form_unphased_only", lambda: patch((UG, "afreq", u_afreq_recip))),
            ("afreq_without_ploidy", lambda: patch((UG, "afreq", u_afreq_noploidy), (PG, "afreq", p_afreq_noploidy))),
            ("tafreq_divides_by_ntaxa", lambda: patch((PG, "tafreq", p_tafreq_ntaxa))),
            ("tafreq_reciprocal_form_one_ulp", lambda: patch((UG, "tafreq", u_tafreq_recip))),
            ("acount_first_phase_only", lambda: patch((PG, "acount", p_acount_taxa_only))),
            ("afixed_tests_one_only", lambda: patch((UG, "afixed", afixed_one_only))),
            ("afixed_isclose_tolerance", lambda: patch((UG, "afixed", afixed_isclose))),
            ("apoly_isclose_tolerance", lambda: patch((UG, "apoly", u_apoly_isclose))),
            ("apoly_le_one", lambda: patch((UG, "apoly", u_apoly_le))),
            ("phased_apoly_min_mask_only", lambda: patch((PG, "apoly", p_apoly_min_only))),
            ("gtcount_unphased_nphase_classes_D2", lambda: patch((UG, "gtcount", u_gtcount_nphase))),
            ("gtcount_phased_last_class_dropped", lambda: patch((PG, "gtcount", p_gtcount_short))),
            ("gtfreq_divides_by_copies", lambda: patch((UG, "gtfreq", gtfreq_ploidy), (PG, "gtfreq", gtfreq_ploidy))),
            ("meh_without_ploidy", lambda: patch((UG, "meh", u_meh_noploidy), (PG, "meh", p_meh_noploidy))),
            ("maf_without_folding", lambda: patch((UG, "maf", maf_nofold), (PG, "maf", maf_nofold))),
            ("unphased_m_coding_keeps_zero", lambda: patch((UG, "mat_asformat", u_fmt_bad))),
            ("phased_minus_one_coding_unshifted", lambda: patch((PG, "mat_asformat", p_fmt_bad))),
            ("projection_default_ploidy", lambda: patch((GT, "genotype", genotype_default_ploidy))),
            ("projection_first_phase_only", lambda: patch((GT, "genotype", genotype_first_phase))),
        ]


PROP = C09()
