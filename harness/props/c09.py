"""C09 — genotype summary statistics are exact and mutually consistent.

Implementation under test: DenseGenotypeMatrix / DensePhasedGenotypeMatrix statistics and
DenseUnphasedGenotyping.genotype (the phased -> unphased projection).  Model: Model/Genotype.lean run at
Rat through `c09.stats`; Spec: `c09.spec` (textbook definitions on the raw allele calls, in Lean),
evaluated on the implementation's outputs in every case.
"""
import contextlib
from fractions import Fraction

import numpy

from .. import canon, compat
from ..core import Prop

compat.install()

# sizes at which 1/(ploidy*n) or 1/n is not a binary64 reciprocal: (1/m)*m != 1
BOUNDARY_N = [49, 98, 103, 107, 161, 187, 196, 197]

STATS = ["tacount", "tafreq", "acount", "afreq", "afixed", "apoly", "maf", "meh", "gtcount", "gtfreq"]
FMTS = [("f012", "{0,1,2}"), ("fM101", "{-1,0,1}"), ("fM1m1", "{-1,m,1}")]
COUNT_DT = [None, None, "int64", "int32", "int16", "float64", "float32", "py:int", "py:float"]
FREQ_DT = [None, None, "float64", "float32", "float16", "py:float"]
FLAG_DT = [None, None, "bool", "int64", "int8", "float64", "float32", "py:int", "py:float"]
KIND_OF = {"tacount": "count", "acount": "count", "gtcount": "count", "tafreq": "freq", "afreq": "freq",
           "maf": "freq", "meh": "freq", "gtfreq": "freq", "afixed": "flag", "apoly": "flag"}
NATIVE = {"tacount": "int64", "acount": "int64", "gtcount": "int64", "tafreq": "float64", "afreq": "float64",
          "maf": "float64", "meh": "float64", "gtfreq": "float64", "afixed": "bool", "apoly": "bool"}
TOL = {"float64": Fraction(1, 10 ** 12), "float32": Fraction(1, 10 ** 6), "float16": Fraction(2, 10 ** 3)}


def _mods():
    compat.import_pybrops()
    import pybrops.popgen.gmat.DenseGenotypeMatrix as ug
    import pybrops.popgen.gmat.DensePhasedGenotypeMatrix as pg
    import pybrops.breed.prot.gt.DenseUnphasedGenotyping as gt
    return ug, pg, gt


def _dt(name):
    """case dtype tag -> the object handed to the method"""
    if name is None:
        return None
    if name == "py:int":
        return int
    if name == "py:float":
        return float
    return name


def _dtname(name, stat):
    """numpy dtype name the result must have"""
    if name is None:
        return NATIVE[stat]
    return {"py:int": "int64", "py:float": "float64"}.get(name, name)


def _tol(case, stat):
    return TOL.get(_dtname(case["dtypes"].get(stat), stat), TOL["float64"])


def _flags(a):
    """flag arrays requested as int/float come back as 0/1 numbers: normalise to bools, strictly"""
    a = numpy.asarray(a)
    if a.dtype == bool:
        return [bool(x) for x in a]
    if not numpy.all((a == 0) | (a == 1)):
        return ["bad:" + str(x) for x in a]
    return [bool(x != 0) for x in a]


class C09(Prop):
    PID = "C09"
    MODULE = "PybropsModel.Props.C09"
    N_QUICK = 110
    N_THOROUGH = 4000
    RULE = ("phased matrices (1-4 phases, binary alleles) and unphased dosage matrices (ploidy 1,2,3,4,6) of "
            "1-12 taxa or one of the boundary sizes 49, 98, 103, 107, 161, 187, 196, 197 (each boundary size at "
            "least once per run, with a locus fixed at 1 and one fixed at 0), 1-5 loci drawn from the patterns "
            "fixed-1 / fixed-0 / one-copy-off / exactly-one-half / all-heterozygous / random; a sweep over every size 1..400 and over "
            "very large populations (50000..200001 diploid, 100001 haploid, 25000/30001 tetraploid) one copy off "
            "fixation; every statistic "
            "called with a dtype drawn from its admissible list; the phased matrix is also projected through "
            "DenseUnphasedGenotyping and both objects are queried.  Non-trivial = at least 2 taxa, a fixed and a "
            "polymorphic locus in the same matrix")
    TRUSTED = ["numpy integer sums and one correctly rounded IEEE division per frequency (modelled by "
               "Binary64.roundBinary64, proved to satisfy RoundingContract, and compared bit for bit with the float64 "
               "outputs afreq/tafreq/gtfreq/maf in every case)",
               "casts between numpy dtypes (float64 -> float32/float16 is monotone and fixes 0 and 1)"]
    ASSUMPTIONS = ["raw calls are valid: binary alleles (phased), dosages in 0..ploidy (unphased), >= 1 taxon, >= 1 locus",
                   "requested integer dtypes can hold the counts (no int8 accumulator for counts above 127); "
                   "frequencies are requested in floating dtypes only",
                   "a requested floating dtype can resolve 1/(ploidy*ntaxa): at most 2^11 copies for float16, 2^24 "
                   "for float32 (generated populations have at most 1182 copies); beyond that no value of that dtype "
                   "can separate (m-1)/m from 1 (C09.rounded_exact_full_statement_counterexample)",
                   "genotype-class frequencies are compared to count/ntaxa with tolerance (the code still uses the "
                   "reciprocal form there; the property's exact-0/1 clause is about allele frequencies)"]

    # ------------------------------------------------------------------ generation
    @staticmethod
    def _locus(rng, n, k, pat):
        """one locus as n rows of k binary copies (phased) — the unphased generator sums them"""
        if pat == "one":
            return [[1] * k for _ in range(n)]
        if pat == "zero":
            return [[0] * k for _ in range(n)]
        if pat == "one_off":
            c = [[1] * k for _ in range(n)]
            c[rng.randrange(n)][rng.randrange(k)] = 0
            return c
        if pat == "zero_off":
            c = [[0] * k for _ in range(n)]
            c[rng.randrange(n)][rng.randrange(k)] = 1
            return c
        if pat == "half":           # exactly one half when n*k is even
            flat = [1] * ((n * k) // 2) + [0] * (n * k - (n * k) // 2)
            rng.shuffle(flat)
            return [flat[i * k:(i + 1) * k] for i in range(n)]
        if pat == "het":            # every taxon carries both alleles
            out = []
            for _ in range(n):
                c = [1] * (k // 2) + [0] * (k - k // 2)
                rng.shuffle(c)
                out.append(c)
            return out
        pr = rng.choice([0.1, 0.5, 0.5, 0.9])
        return [[1 if rng.random() < pr else 0 for _ in range(k)] for _ in range(n)]

    def _dtypes(self, rng, maxcount):
        d = {}
        for s in STATS:
            kind = KIND_OF[s]
            pool = {"count": COUNT_DT, "freq": FREQ_DT, "flag": FLAG_DT}[kind]
            if kind == "count" and maxcount <= 127 and rng.random() < 0.15:
                d[s] = "int8"
            else:
                d[s] = rng.choice(pool)
        return d

    def _case(self, rng, n, phased, k, pats):
        loci = [self._locus(rng, n, k, p) for p in pats]       # [locus][taxon][copy]
        nv = len(pats)
        if phased:
            mat = [[[loci[j][i][c] for j in range(nv)] for i in range(n)] for c in range(k)]
            return {"kind": "phased", "nt": n, "nv": nv, "ploidy": k, "mat": mat,
                    "dtypes": self._dtypes(rng, k * n)}
        mat = [[sum(loci[j][i]) for j in range(nv)] for i in range(n)]
        return {"kind": "unphased", "nt": n, "nv": nv, "ploidy": k, "mat": mat,
                "dtypes": self._dtypes(rng, k * n)}

    def corpus(self):
        nod = {s: None for s in STATS}
        out = []
        # the boundary sizes with a fully fixed locus: the regression D1/D16 (reciprocal form) must be caught here
        for n in BOUNDARY_N:
            out.append({"kind": "phased", "nt": n, "nv": 3, "ploidy": 2, "dtypes": dict(nod),
                        "mat": [[[1, 0, (i + c) % 2] for i in range(n)] for c in range(2)]})
        out.append({"kind": "unphased", "nt": 49, "nv": 3, "ploidy": 2, "dtypes": dict(nod),
                    "mat": [[2, 0, 1] for _ in range(49)]})
        out.append({"kind": "unphased", "nt": 49, "nv": 2, "ploidy": 4, "dtypes": dict(nod),
                    "mat": [[4, i % 5] for i in range(49)]})
        # single taxon, single locus; haploid; all heterozygous (class 1 holds everybody)
        out.append({"kind": "phased", "nt": 1, "nv": 1, "ploidy": 2, "dtypes": dict(nod), "mat": [[[1]], [[0]]]})
        out.append({"kind": "phased", "nt": 1, "nv": 2, "ploidy": 1, "dtypes": dict(nod), "mat": [[[1, 0]]]})
        out.append({"kind": "unphased", "nt": 3, "nv": 2, "ploidy": 2, "dtypes": dict(nod),
                    "mat": [[1, 1], [1, 1], [1, 2]]})
        # hexaploid dosages: 5/6 differs from 5*(1/6) in the last bit (bit-exact comparison with the IEEE model)
        out.append({"kind": "unphased", "nt": 3, "nv": 2, "ploidy": 6, "dtypes": dict(nod),
                    "mat": [[5, 1], [6, 0], [3, 2]]})
        # D2 regression: a diploid unphased matrix must report three genotype classes
        out.append({"kind": "unphased", "nt": 4, "nv": 2, "ploidy": 2, "dtypes": dict(nod),
                    "mat": [[0, 2], [1, 2], [2, 2], [2, 0]]})
        # every size 1..400 with a fully fixed locus (quick); `exhaustive` extends it to 2000 (thorough)
        out.append({"kind": "sweep", "nmax": 400, "ploidies": [1, 2, 4]})
        # very large populations one copy off fixation: a flag computed with a tolerance (numpy.isclose, 1e-5)
        # instead of exact float equality only shows when 1/(ploidy*n) <= 1e-5
        out.append({"kind": "sweep", "nmax": 0, "ploidies": [],
                    "big": [[2, 50000], [2, 65536], [2, 100000], [2, 200001], [1, 100001], [4, 25000], [4, 30001]]})
        return out

    def exhaustive(self, tier):
        if tier != "thorough":
            return None
        return [{"kind": "sweep", "nmax": 2000, "ploidies": [1, 2, 3, 4, 6]}]

    def generate(self, rng, n, tier):
        out = []
        pats_all = ["one", "zero", "one_off", "zero_off", "half", "het", "rand", "rand"]
        for i in range(n):
            if i < len(BOUNDARY_N):
                nt = BOUNDARY_N[i]                       # every boundary size in every run
            else:
                r = rng.random()
                if r < 0.25:
                    nt = rng.choice(BOUNDARY_N)
                elif r < 0.85:
                    nt = rng.choice([1, 1, 2, 2, 3, 4, 5, 7, 8, 12])
                else:
                    nt = rng.randint(13, 120)
            phased = rng.random() < 0.6
            k = rng.choice([1, 2, 2, 2, 3, 4]) if phased else rng.choice([1, 2, 2, 2, 3, 4, 6])
            nv = rng.choice([1, 2, 3, 3, 4, 5]) if nt <= 60 else rng.choice([2, 3, 4])
            pats = [rng.choice(pats_all) for _ in range(nv)]
            if nv >= 2:                                   # a fixed-1 and a fixed-0 locus in every matrix
                a, b = rng.sample(range(nv), 2)
                pats[a], pats[b] = "one", "zero"
            out.append(self._case(rng, nt, phased, k, pats))
        return out

    # ------------------------------------------------------------------ implementation
    def _query(self, obj, case):
        res, dts = {}, {}
        for s in STATS:
            d = _dt(case["dtypes"].get(s))
            r = getattr(obj, s)(d) if d is not None else getattr(obj, s)()
            a = numpy.asarray(r)
            dts[s] = str(a.dtype)
            res[s] = _flags(a) if KIND_OF[s] == "flag" else canon.enc(a)
        for key, f in FMTS:
            a = obj.mat_asformat(f)
            dts[key] = str(a.dtype)
            res[key] = canon.enc(a)
        return res, dts

    def _sweep(self, case):
        """boundary clause for EVERY size up to nmax: a locus fixed at 1, one fixed at 0, one with a single
        copy off; returns the sizes at which the implementation misses the exact class"""
        ug, pg, gt = _mods()
        bad = []
        for k in case["ploidies"]:
            for n in range(1, case["nmax"] + 1):
                Z = numpy.zeros((n, 3), dtype="int8")
                Z[:, 0] = k
                Z[:, 2] = k
                Z[n // 2, 2] = k - 1
                objs = [("unphased", ug.DenseGenotypeMatrix(Z, ploidy=k))]
                if k == 2:
                    G = numpy.zeros((2, n, 3), dtype="int8")
                    G[:, :, 0] = 1
                    G[:, :, 2] = 1
                    G[1, n // 2, 2] = 0
                    objs.append(("phased", pg.DensePhasedGenotypeMatrix(G)))
                for who, o in objs:
                    p = o.afreq()
                    fx, po = o.afixed(), o.apoly()
                    lone = (k * n == 1)          # a single copy in total: "one copy off" means fixed at 0
                    ok = (p[0] == 1.0 and p[1] == 0.0 and bool(fx[0]) and bool(fx[1])
                          and not bool(po[0]) and not bool(po[1])
                          and ((p[2] == 0.0 and bool(fx[2]) and not bool(po[2])) if lone
                               else (0.0 < p[2] < 1.0 and not bool(fx[2]) and bool(po[2]))))
                    if not ok:
                        bad.append([who, k, n, canon.enc(p)])
        for k, n in case.get("big", []):
            m = k * n
            Z = numpy.zeros((n, 4), dtype="int8")
            Z[:, 0] = k
            Z[:, 2] = k
            Z[n // 3, 2] = k - 1            # one copy of allele 0 left
            Z[(2 * n) // 3, 3] = 1          # one copy of allele 1 present
            objs = [("unphased", ug.DenseGenotypeMatrix(Z, ploidy=k))]
            if k == 2:
                G = numpy.zeros((2, n, 4), dtype="int8")
                G[:, :, 0] = 1
                G[:, :, 2] = 1
                G[1, n // 3, 2] = 0
                G[0, (2 * n) // 3, 3] = 1
                P = pg.DensePhasedGenotypeMatrix(G)
                objs += [("phased", P), ("projection", gt.DenseUnphasedGenotyping().genotype(P))]
            for who, o in objs:
                p, fx, po, mf, p32 = o.afreq(), o.afixed(), o.apoly(), o.maf(), o.afreq("float32")
                ok = (p[0] == 1.0 and p[1] == 0.0 and p[2] == (m - 1) / m and p[3] == 1 / m
                      and 0.0 < p[2] < 1.0 and 0.0 < p[3] < 1.0
                      and [bool(x) for x in fx] == [True, True, False, False]
                      and [bool(x) for x in po] == [False, False, True, True]
                      and mf[0] == 0.0 and mf[1] == 0.0 and 0.0 < mf[2] <= 0.5 and abs(mf[2] - 1 / m) <= 1e-12
                      and mf[3] == 1 / m
                      and p32[0] == 1.0 and p32[1] == 0.0 and 0.0 < p32[2] < 1.0 and 0.0 < p32[3] < 1.0)
                if not ok:
                    bad.append([who, k, n, canon.enc(p), [bool(x) for x in fx], [bool(x) for x in po]])
        return {"bad": bad[:20], "nbad": len(bad)}

    def run_impl(self, case):
        ug, pg, gt = _mods()
        obs = {}
        if case["kind"] == "sweep":
            return self._sweep(case)
        if case["kind"] == "phased":
            mat = numpy.array(case["mat"], dtype="int8").reshape(case["ploidy"], case["nt"], case["nv"])
            P = pg.DensePhasedGenotypeMatrix(mat)
            U = gt.DenseUnphasedGenotyping().genotype(P)
            obs["P"], obs["P_dtypes"] = self._query(P, case)
            obs["U"], obs["U_dtypes"] = self._query(U, case)
            obs["U_ploidy"] = int(U.ploidy)
            obs["U_class"] = type(U).__name__
        else:
            mat = numpy.array(case["mat"], dtype="int8").reshape(case["nt"], case["nv"])
            U = ug.DenseGenotypeMatrix(mat, ploidy=case["ploidy"])
            obs["U"], obs["U_dtypes"] = self._query(U, case)
        return obs

    # ------------------------------------------------------------------ model requests
    def requests(self, case, obs):
        if case["kind"] == "sweep":
            return []
        base = {"phased": case["kind"] == "phased", "nt": case["nt"], "nv": case["nv"],
                "ploidy": case["ploidy"], "mat": case["mat"]}
        tol = {s: canon.enc(_tol(case, s)) for s in ("tafreq", "afreq", "maf", "meh", "gtfreq")}
        tol["fM1m1"] = canon.enc(TOL["float64"])
        spec = dict(base, op="c09.spec", tol=tol, U=obs["U"], P=obs.get("P"))
        return [dict(base, op="c09.stats"), spec]

    @staticmethod
    def _cmp(stat, model, impl, tol):
        """model value vs implementation value: exact for counts/flags/codings, exact on the 0/1 boundary
        and tolerant inside for frequencies"""
        if stat in ("tacount", "acount", "gtcount", "afixed", "apoly", "f012", "fM101"):
            return model == impl
        def one(a, b):
            a, b = canon.dec(a), canon.dec(b)
            if isinstance(a, str) or isinstance(b, str):
                return False
            if stat in ("afreq", "tafreq", "maf") and (a in (0, 1) or b in (0, 1)):
                return a == b
            return a == b or abs(a - b) <= tol * max(1, abs(a), abs(b))
        def walk(a, b):
            if isinstance(a, list) or isinstance(b, list):
                return (isinstance(a, list) and isinstance(b, list) and len(a) == len(b)
                        and all(walk(x, y) for x, y in zip(a, b)))
            return one(a, b)
        return walk(model, impl)

    def judge(self, case, obs, answers):
        if case["kind"] == "sweep":
            ok = obs["nbad"] == 0
            return {"corr": ok, "spec": ok, "nontrivial": True,
                    "detail": f"spec_fail=[{'' if ok else 'boundary clause (afreq exactly 0/1, afixed, apoly) at sizes'}] "
                              f"sweep 1..{case['nmax']} ploidies={case['ploidies']} big={case.get('big', [])} "
                              f"failing={obs['bad'][:6]} count={obs['nbad']}"}
        for a in answers:
            if "err" in a:
                # a flag array that is not 0/1, or a malformed output, is an implementation failure
                return {"corr": False, "spec": False, "nontrivial": True,
                        "detail": "driver rejected the implementation's output: " + a["err"][:300]}
        model, spec = answers[0]["ok"], answers[1]["ok"]
        if not model["valid"]:
            raise RuntimeError("generator produced an invalid case")
        bad = []
        for who in ("P", "U"):
            if who not in obs:
                continue
            for s in list(STATS) + [k for k, _ in FMTS]:
                tol = _tol(case, s) if s in STATS else TOL["float64"]
                if not self._cmp(s, model[who][s], obs[who][s], tol):
                    bad.append(f"{who}.{s}")
                # float64 outputs: bit-exact against the IEEE rounding model (Binary64.roundBinary64)
                if s in ("afreq", "tafreq", "gtfreq", "maf") and _dtname(case["dtypes"].get(s), s) == "float64":
                    if model[who + "64"][s] != obs[who][s]:
                        bad.append(f"{who}.{s}:not bit-exact with roundBinary64")
        corr = not bad
        # dtype clause of the Spec (checked here: dtypes are not part of the numeric canonical form)
        dt_bad = []
        for who in ("P", "U"):
            if who + "_dtypes" not in obs:
                continue
            for s in STATS:
                want = _dtname(case["dtypes"].get(s), s)
                if obs[who + "_dtypes"][s] != want:
                    dt_bad.append(f"{who}.{s}:{obs[who + '_dtypes'][s]}!={want}")
        proj_ok = True
        if case["kind"] == "phased":
            proj_ok = obs["U_ploidy"] == case["ploidy"] and obs["U_class"] == "DenseGenotypeMatrix"
        spec_ok = bool(spec["ok"]) and not dt_bad and proj_ok
        ref = obs.get("P", obs["U"])
        nontriv = case["nt"] >= 2 and any(ref["afixed"]) and not all(ref["afixed"])
        detail = (f"spec_fail=[{spec['detail']}] dtype_fail={dt_bad} projection_ok={proj_ok} "
                  f"model_vs_impl_diff={bad[:6]} nt={case['nt']} ploidy={case['ploidy']} "
                  f"afreq_impl={ref['afreq'][:4]}")
        return {"corr": corr, "spec": spec_ok, "nontrivial": bool(nontriv), "detail": detail}

    def signature(self, case, obs, verdict):
        if case["kind"] == "sweep":
            return {"kind": "sweep"}
        m = case["ploidy"] * case["nt"]
        return {"kind": case["kind"], "recip_inexact": (1.0 / m) * m != 1.0,
                "clauses": (verdict.get("detail", "").split("]")[0])[:200]}

    def shrink(self, case):
        if case["kind"] == "sweep" and case.get("big"):
            for i in range(len(case["big"])):
                if len(case["big"]) > 1:
                    yield dict(case, big=case["big"][:i] + case["big"][i + 1:])
            return
        if case["kind"] == "sweep":
            if isinstance(self._last_bad(case), int):
                yield dict(case, nmax=self._last_bad(case))
            return
        nt, nv = case["nt"], case["nv"]
        phased = case["kind"] == "phased"
        if any(v is not None for v in case["dtypes"].values()):
            yield dict(case, dtypes={s: None for s in STATS})
        if nt > 1:
            if nt > 3:          # halve (either half)
                h = nt // 2
                for lo, hi in ((0, h), (h, nt)):
                    c = dict(case, nt=hi - lo)
                    c["mat"] = [ph[lo:hi] for ph in case["mat"]] if phased else case["mat"][lo:hi]
                    yield c
            for i in ([0, nt - 1, nt // 2] if nt > 3 else range(nt)):
                c = dict(case, nt=nt - 1)
                c["mat"] = ([ph[:i] + ph[i + 1:] for ph in case["mat"]] if phased
                            else case["mat"][:i] + case["mat"][i + 1:])
                yield c
        if nv > 1:
            for j in range(nv):
                c = dict(case, nv=nv - 1)
                c["mat"] = ([[r[:j] + r[j + 1:] for r in ph] for ph in case["mat"]] if phased
                            else [r[:j] + r[j + 1:] for r in case["mat"]])
                yield c

    def _last_bad(self, case):
        """smallest failing size of a sweep (used to shrink it)"""
        try:
            obs = self._sweep(case)
        except Exception:
            return None
        if not obs["nbad"]:
            return None
        n = min(b[2] for b in obs["bad"])
        return n if n < case["nmax"] else None

    # ------------------------------------------------------------------ self-test mutants
    def mutants(self):
        ug, pg, gt = _mods()
        UG, PG, GT = ug.DenseGenotypeMatrix, pg.DensePhasedGenotypeMatrix, gt.DenseUnphasedGenotyping

        @contextlib.contextmanager
        def patch(*triples):
            missing = object()
            olds = [(o, n, o.__dict__.get(n, missing)) for o, n, _ in triples]
            for o, n, new in triples:
                setattr(o, n, new)
            try:
                yield
            finally:
                for o, n, old in olds:
                    if old is missing:
                        delattr(o, n)
                    else:
                        setattr(o, n, old)

        def cast(out, dtype):
            if dtype is not None:
                dtype = numpy.dtype(dtype)
                if out.dtype != dtype:
                    out = dtype.type(out)
            return out

        # -- mechanism 1: sum / (ploidy*ntaxa)
        def u_afreq_recip(self, dtype=None):           # regression to the pre-repair form (D1)
            return cast((1.0 / (self.ploidy * self.ntaxa)) * self._mat.sum(self.taxa_axis), dtype)

        def p_afreq_recip(self, dtype=None):
            return cast((1.0 / (self.ploidy * self.ntaxa)) * self._mat.sum((self.phase_axis, self.taxa_axis)), dtype)

        def u_afreq_noploidy(self, dtype=None):
            return cast(self._mat.sum(self.taxa_axis) / self.ntaxa, dtype)

        def p_afreq_noploidy(self, dtype=None):
            return cast(self._mat.sum((self.phase_axis, self.taxa_axis)) / self.ntaxa, dtype)

        def p_tafreq_ntaxa(self, dtype=None):
            return cast(self._mat.sum(self.phase_axis) / float(self.ntaxa), dtype)

        def u_tafreq_recip(self, dtype=None):            # one ulp off for 5/6: only the bit-exact comparison sees it
            return cast(self._mat * (1.0 / float(self.ploidy)), dtype)

        def p_acount_taxa_only(self, dtype=None):
            return cast(self._mat[0].sum(0), dtype)

        # -- mechanism 2: fixation / polymorphism flags
        def afixed_one_only(self, dtype=None):
            return cast(self.afreq() == 1.0, dtype)

        def afixed_isclose(self, dtype=None):           # tolerance instead of exact float equality
            p = self.afreq()
            return cast(numpy.isclose(p, 0.0) | numpy.isclose(p, 1.0), dtype)

        def u_apoly_isclose(self, dtype=None):
            p = self.afreq()
            return cast(~(numpy.isclose(p, 0.0) | numpy.isclose(p, 1.0)), dtype)

        def u_apoly_le(self, dtype=None):
            p = self.afreq()
            return cast((p > 0.0) & (p <= 1.0), dtype)

        def p_apoly_min_only(self, dtype=None):
            return cast(numpy.logical_not(numpy.all(self.mat == 0, axis=(0, 1))), dtype)

        # -- mechanism 3: genotype classes
        def u_gtcount_nphase(self, dtype=None):        # regression to the pre-repair form (D2)
            ngt = self.nphase + 1
            out = numpy.empty((ngt, self.nvrnt), dtype="int64")
            for i in range(ngt):
                out[i] = (self._mat == i).sum(self.taxa_axis)
            return cast(out, dtype)

        def p_gtcount_short(self, dtype=None):
            ngt = self.nphase + 1
            mat = self._mat.sum(self.phase_axis)
            out = numpy.zeros((ngt, self.nvrnt), dtype="int64")
            for i in range(ngt - 1):
                out[i] = (mat == i).sum(0)
            return cast(out, dtype)

        def gtfreq_ploidy(self, dtype=None):
            return cast((1.0 / (self.ploidy * self.ntaxa)) * self.gtcount(), dtype)

        # -- mechanism 4: meh, maf
        def u_meh_noploidy(self, dtype=None):
            p = self.afreq()
            return cast(numpy.dot(p, 1.0 - p) * (1.0 / self.nvrnt), dtype)

        def p_meh_noploidy(self, dtype=None):
            p = self.afreq()
            return cast((p * (1.0 - p)).sum() * (1.0 / self.nvrnt), dtype)

        def maf_nofold(self, dtype=None):
            return self.afreq(dtype)

        # -- mechanism 5: codings
        def u_fmt_bad(self, format):
            if format == "{0,1,2}":
                return self.mat.copy()
            if format == "{-1,0,1}":
                return self.mat - 1
            out = self.mat - 1.0
            for i in range(out.shape[1]):
                view = out[:, i]
                out[view == 0, i] = 0.0                 # heterozygote not replaced by the mean
            return out

        def p_fmt_bad(self, format):
            if format == "{0,1,2}":
                return self.mat.sum(0, dtype=self.mat.dtype)
            if format == "{-1,0,1}":
                return self.mat.sum(0, dtype=self.mat.dtype)   # forgot the shift
            out = self.mat.sum(0) - 1.0
            for i in range(out.shape[1]):
                view = out[:, i]
                mean = view.mean()
                out[view == 0, i] = mean
            return out

        # -- projection
        def genotype_default_ploidy(self, pgmat, miscout=None, **kw):
            return UG(mat=pgmat.mat_asformat("{0,1,2}"), taxa=pgmat.taxa, taxa_grp=pgmat.taxa_grp)

        def genotype_first_phase(self, pgmat, miscout=None, **kw):
            return UG(mat=(pgmat.mat[0] * pgmat.ploidy).astype("int8"), ploidy=pgmat.ploidy)

        return [
            ("afreq_reciprocal_form_D1", lambda: patch((UG, "afreq", u_afreq_recip), (PG, "afreq", p_afreq_recip))),
            ("afreq_reciprocal_form_unphased_only", lambda: patch((UG, "afreq", u_afreq_recip))),
            ("afreq_without_ploidy", lambda: patch((UG, "afreq", u_afreq_noploidy), (PG, "afreq", p_afreq_noploidy))),
            ("tafreq_divides_by_ntaxa", lambda: patch((PG, "tafreq", p_tafreq_ntaxa))),
            ("tafreq_reciprocal_form_one_ulp", lambda: patch((UG, "tafreq", u_tafreq_recip))),
            ("acount_first_phase_only", lambda: patch((PG, "acount", p_acount_taxa_only))),
            ("afixed_tests_one_only", lambda: patch((UG, "afixed", afixed_one_only))),
            ("afixed_isclose_tolerance", lambda: patch((UG, "afixed", afixed_isclose))),
            ("apoly_isclose_tolerance", lambda: patch((UG, "apoly", u_apoly_isclose))),
            ("apoly_le_one", lambda: patch((UG, "apoly", u_apoly_le))),
            ("phased_apoly_min_mask_only", lambda: patch((PG, "apoly", p_apoly_min_only))),
            ("gtcount_unphased_nphase_classes_D2", lambda: patch((UG, "gtcount", u_gtcount_nphase))),
            ("gtcount_phased_last_class_dropped", lambda: patch((PG, "gtcount", p_gtcount_short))),
            ("gtfreq_divides_by_copies", lambda: patch((UG, "gtfreq", gtfreq_ploidy), (PG, "gtfreq", gtfreq_ploidy))),
            ("meh_without_ploidy", lambda: patch((UG, "meh", u_meh_noploidy), (PG, "meh", p_meh_noploidy))),
            ("maf_without_folding", lambda: patch((UG, "maf", maf_nofold), (PG, "maf", maf_nofold))),
            ("unphased_m_coding_keeps_zero", lambda: patch((UG, "mat_asformat", u_fmt_bad))),
            ("phased_minus_one_coding_unshifted", lambda: patch((PG, "mat_asformat", p_fmt_bad))),
            ("projection_default_ploidy", lambda: patch((GT, "genotype", genotype_default_ploidy))),
            ("projection_first_phase_only", lambda: patch((GT, "genotype", genotype_first_phase))),
        ]


PROP = C09()
