"""C12 — predicted progeny variances equal the exact variance of the cross's gametes.

Implementation under test (imported from /repo's working tree):
  pybrops.model.vmat.util, pybrops.core.util.subroutines.srange,
  the four genetic variance classes, the four progeny covariance classes, the four genic classes,
  the variance matrix factories and UsefulnessCriterionSubsetMateSelectionProblem.

Model: lean/PybropsModel/Model/Variance.lean through the `c12.*` driver ops.
Spec oracle: exhaustive enumeration of the gametes of the cross scheme with their probabilities
  (a) in Lean, literally the object of the theorems (`c12.spec_enum`) on the small cases,
  (b) in exact `Fraction` arithmetic here (`_Enum`, propagation of the gamete distribution through
      every meiosis of the scheme) on all cases with <= 5 markers.
"""
import contextlib
import inspect
import itertools
import math
import re
import statistics
import textwrap
from fractions import Fraction

import numpy

from .. import canon, compat
from ..core import Prop

compat.install()

F = Fraction
HALF = F(1, 2)
LN2_HALF = math.log(2.0) / 2.0
POISON = float("nan")

SCHEMES = ("two", "three", "four", "dihybrid")
NPARENT = {"two": 2, "three": 3, "four": 4, "dihybrid": 2}
EPGC = {"two": (HALF, HALF), "three": (HALF, F(1, 4), F(1, 4)), "four": (F(1, 4),) * 4,
        "dihybrid": (HALF, HALF)}


# --------------------------------------------------------------------------------------------
# the real code
# --------------------------------------------------------------------------------------------
_M = {}


def _mods():
    if _M:
        return _M
    compat.import_pybrops()
    import importlib
    imp = importlib.import_module
    _M["util"] = imp("pybrops.model.vmat.util")
    _M["sub"] = imp("pybrops.core.util.subroutines")
    names = {"two": "TwoWay", "three": "ThreeWay", "four": "FourWay", "dihybrid": "Dihybrid"}
    for k, nm in names.items():
        c = f"Dense{nm}DHAdditiveGeneticVarianceMatrix"
        _M["var_mod_" + k] = imp("pybrops.model.vmat." + c)
        _M["var_" + k] = getattr(_M["var_mod_" + k], c)
        c = f"Dense{nm}DHAdditiveProgenyGeneticCovarianceMatrix"
        _M["cov_mod_" + k] = imp("pybrops.model.pcvmat." + c)
        _M["cov_" + k] = getattr(_M["cov_mod_" + k], c)
        c = f"Dense{nm}DHAdditiveGenicVarianceMatrix"
        _M["genic_mod_" + k] = imp("pybrops.model.vmat." + c)
        _M["genic_" + k] = getattr(_M["genic_mod_" + k], c)
        c = f"Dense{nm}DHAdditiveGeneticVarianceMatrixFactory"
        _M["fcty_mod_" + k] = imp("pybrops.model.vmat.fcty." + c)
        _M["fcty_" + k] = getattr(_M["fcty_mod_" + k], c)
    c = "DenseTwoWayDHAdditiveGenicVarianceMatrixFactory"
    _M["genic_fcty_mod_two"] = imp("pybrops.model.vmat.fcty." + c)
    _M["genic_fcty_two"] = getattr(_M["genic_fcty_mod_two"], c)
    _M["ucmod"] = imp("pybrops.breed.prot.sel.prob.UsefulnessCriterionSelectionProblem")
    _M["pgmat"] = imp("pybrops.popgen.gmat.DensePhasedGenotypeMatrix").DensePhasedGenotypeMatrix
    _M["algmod"] = imp("pybrops.model.gmod.DenseAdditiveLinearGenomicModel").DenseAdditiveLinearGenomicModel
    hm = imp("pybrops.popgen.gmap.HaldaneMapFunction")
    _M["haldane"] = hm.HaldaneMapFunction

    class Pow2MapFunction(hm.HaldaneMapFunction):
        """Haldane's map function in the unit ln2/2 Morgan: r(d) = (1 - 2^(-2d))/2.  For positions
        that are multiples of 1/2 every intermediate value is a dyadic rational, so the float
        computation of the code under test is exact and can be compared with the Lean model at Rat."""
        def mapfn(self, d):
            return 0.5 * (1.0 - numpy.exp2(-2.0 * d))

        def invmapfn(self, r):
            return -0.5 * numpy.log2(1.0 - 2.0 * r)

    class CapMapFunction(hm.HaldaneMapFunction):
        """r(d) = min(d, 1/2): a rational map function that is NOT multiplicative (functional
        correspondence only; equality with the enumeration is not claimed for it)."""
        def mapfn(self, d):
            return numpy.minimum(d, 0.5)

        def invmapfn(self, r):
            return r

    _M["pow2"] = Pow2MapFunction
    _M["cap"] = CapMapFunction
    return _M


class _NumpyProxy:
    """stands in for the module global `numpy` of a genic-variance module during one call:
    `empty` returns NaN-filled storage (the contract of numpy.empty is `arbitrary contents`), so a
    cell that the code never writes is observable deterministically.  Everything else is numpy."""
    def __getattr__(self, name):
        return getattr(numpy, name)

    @staticmethod
    def empty(shape, dtype=float, **kw):
        a = numpy.empty(shape, dtype=dtype, **kw)
        if numpy.issubdtype(a.dtype, numpy.floating):
            a.fill(POISON)
        return a


@contextlib.contextmanager
def _poisoned(mod):
    old = mod.numpy
    mod.numpy = _NumpyProxy()
    try:
        yield
    finally:
        mod.numpy = old


def _fr(x):
    return F(x) if not isinstance(x, str) else canon.dec(x)


def _genpos_float(case):
    g2 = case["genpos2"]
    if case["mapfn"] == "haldane":
        return numpy.array([k * LN2_HALF for k in g2], dtype=float)
    return numpy.array([k / 2.0 for k in g2], dtype=float)


def _chr_of(case):
    out, st = [], 0
    for s in case["chr_sizes"]:
        out.append([st, st + s])
        st += s
    return out


def _build(case, perm=None, grouped=True, genpos=True):
    m = _mods()
    geno = numpy.array(case["geno"], dtype="int8")            # (2, n, p)
    n, p = geno.shape[1], geno.shape[2]
    taxa = numpy.array([f"tx{7 * i + 3}" for i in range(n)], dtype=object)
    taxa_grp = numpy.array([(i * 5) % 3 for i in range(n)], dtype=int)
    if perm is not None:
        geno = geno[:, perm, :]
        taxa = taxa[perm]
        taxa_grp = taxa_grp[perm]
    chrgrp = numpy.concatenate([numpy.repeat(ci + 1, s) for ci, s in enumerate(case["chr_sizes"])]).astype(int)
    pg = m["pgmat"](mat=geno.copy(), taxa=taxa, taxa_grp=taxa_grp, vrnt_chrgrp=chrgrp,
                    vrnt_phypos=numpy.arange(p) * 10 + 1,
                    vrnt_name=numpy.array([f"snp{i}" for i in range(p)], dtype=object),
                    vrnt_genpos=_genpos_float(case) if genpos else None)
    if grouped:
        pg.group_vrnt()
    u = numpy.array([[float(_fr(v)) for v in row] for row in case["u"]], dtype=float)
    nt = u.shape[1]
    beta = numpy.array([[float(_fr(v)) for v in case.get("beta", [0] * nt)]], dtype=float)
    gm = m["algmod"](beta=beta, u_misc=None, u_a=u,
                     trait=numpy.array([f"tr{i}" for i in range(nt)], dtype=object))
    mf = m["haldane"]() if case["mapfn"] == "haldane" else m[case["mapfn"]]()
    return pg, gm, mf


def _nself_arg(ns):
    return numpy.inf if ns is None else int(ns)


def _call_vmat(case, pg, gm, mf, mem):
    m = _mods()
    sch = case["scheme"]
    ns = _nself_arg(case["nself"])
    via = case["via"]
    if case["cov"]:
        cls = m["cov_" + sch]
        if via == "gmod":
            return cls.from_gmod(gm, pg, 1, 10, ns, mf, mem=mem)
        return cls.from_algmod(gm, pg, 1, 10, ns, mf, mem=mem)
    cls = m["var_" + sch]
    if via == "gmod":
        return cls.from_gmod(gm, pg, 1, 10, ns, mf, mem=mem)
    if via == "factory":
        return m["fcty_" + sch]().from_gmod(gm, pg, 1, 10, ns, mf, mem=mem)
    if via == "factory_algmod":
        return m["fcty_" + sch]().from_algmod(gm, pg, 1, 10, ns, mf, mem=mem)
    return cls.from_algmod(gm, pg, 1, 10, ns, mf, mem=mem)


# --------------------------------------------------------------------------------------------
# exact enumeration (Spec oracle, Python side)
# --------------------------------------------------------------------------------------------
class _Enum:
    """Distribution of the final doubled-haploid gamete of a cross scheme, obtained by pushing the
    distribution of genotypes through every meiosis (all 2^m crossover masks each, probabilities
    `xs`), exactly, over Fractions.  Independent of the closed formulas under test."""

    def __init__(self, xs):
        self.xs = [F(x) for x in xs]
        self.m = len(xs)
        self.masks = []
        for bits in itertools.product((0, 1), repeat=self.m):
            pr = F(1)
            for b, x in zip(bits, self.xs):
                pr *= x if b else (1 - x)
            if pr:
                ph, acc = [], 0
                for b in bits:
                    acc ^= b
                    ph.append(acc)
                self.masks.append((tuple(ph), pr))
        self._g = {}

    def gamete(self, h0, h1):
        key = (h0, h1)
        d = self._g.get(key)
        if d is None:
            d = {}
            for ph, pr in self.masks:
                g = tuple(h1[j] if ph[j] else h0[j] for j in range(self.m))
                d[g] = d.get(g, 0) + pr
            self._g[key] = d
        return d

    def ssd(self, state, n):
        """state: {(h0,h1): prob}; n generations of selfing (single-seed descent), then the DH gamete"""
        for _ in range(n):
            new = {}
            for (h0, h1), p in state.items():
                G = self.gamete(h0, h1)
                for g1, p1 in G.items():
                    pp = p * p1
                    for g2, p2 in G.items():
                        k = (g1, g2)
                        new[k] = new.get(k, 0) + pp * p2
            state = new
        fin = {}
        for (h0, h1), p in state.items():
            for g, q in self.gamete(h0, h1).items():
                fin[g] = fin.get(g, 0) + p * q
        return fin

    def scheme(self, scheme, haps, n):
        haps = [tuple(F(v) for v in h) for h in haps]
        if scheme == "two":
            st = {(haps[0], haps[1]): F(1)}
        elif scheme == "three":
            st = {(haps[0], g): p for g, p in self.gamete(haps[1], haps[2]).items()}
        else:
            A = self.gamete(haps[0], haps[1])
            B = self.gamete(haps[2], haps[3])
            st = {}
            for a, pa in A.items():
                for b, pb in B.items():
                    st[(a, b)] = st.get((a, b), 0) + pa * pb
        return self.ssd(st, n)

    def moments(self, scheme, haps, n):
        """mean vector and covariance matrix of the final gamete's alleles"""
        fin = self.scheme(scheme, haps, n)
        m = self.m
        mean = [sum(p * g[i] for g, p in fin.items()) for i in range(m)]
        cov = [[sum(p * g[i] * g[j] for g, p in fin.items()) - mean[i] * mean[j] for j in range(m)]
               for i in range(m)]
        return mean, cov


def _xs_of(case):
    """per-marker crossover probabilities of the meiosis model (1/2 at chromosome starts, the map
    function of the adjacent distance elsewhere); `linkage_free` => all 1/2"""
    g2 = case["genpos2"]
    xs = []
    st = 0
    for s in case["chr_sizes"]:
        for k in range(st, st + s):
            if k == st:
                xs.append(HALF)
            else:
                xs.append((1 - F(1, 2 ** (g2[k] - g2[k - 1]))) / 2)
        st += s
    return xs


INF_GENERATIONS = 34       # (1/2)^34 < 1e-10: the SSD limit to the tolerance used for nself = inf


def _tuple_haps(scheme, geno, tup):
    g0, g1 = geno[0], geno[1]
    if scheme == "dihybrid":
        f, m = tup
        return [g1[f], g0[f], g1[m], g0[m]], "four"
    return [g0[t] for t in tup], scheme


def _all_tuples(scheme, n):
    return list(itertools.product(range(n), repeat=NPARENT[scheme]))


def _get(M, tup):
    x = M
    for t in tup:
        x = x[t]
    return x


def _is_skipped_diagonal(scheme, tup):
    """cells the lower-triangle loops never visit"""
    return tup[-1] == tup[-2]


# --------------------------------------------------------------------------------------------
class C12(Prop):
    PID = "C12"
    MODULE = "PybropsModel.Props.C12"
    N_QUICK = 150
    N_THOROUGH = 2500
    CORRESPONDENCE = "functional"
    RULE = ("cases of kind vmat (70 %): scheme in two/three/four/dihybrid x {variance, covariance} x "
            "{from_algmod, from_gmod, factory}; 2-4 taxa with forced genetically identical pairs, inbred parents "
            "(arbitrary phased genotypes for dihybrid), 1-3 chromosomes of 1-4 markers (<= 6 markers), positions "
            "multiples of 1/2 with ties, integer / half-integer effects for 1-3 traits, mem in {1,2,3,7,None} and a "
            "second chunk size, nself in {0,1,2,3,inf}, a taxa permutation; map function pow2 (exact), the real "
            "HaldaneMapFunction at positions k*ln2/2, or cap (correspondence only).  kinds genic (two-way/dihybrid "
            "with NaN-poisoned numpy.empty; three-/four-way), uc (UsefulnessCriterionSubsetMateSelectionProblem."
            "from_pgmat_gpmod with unique_parents true/false), util (vmat/util.py on dyadic r), chunks (srange), "
            "reject (ungrouped / no genetic positions / mem = 0 / nself < 0 must raise) make up the rest.  All index tuples "
            "(self hybrids included) are compared with the enumeration.  Non-trivial = vmat/uc case with >= 2 genetically distinct parents, a chromosome "
            "with >= 2 segregating markers at distinct positions and a chunk size smaller than that chromosome; "
            "genic case with a segregating marker; util with 0 < r < 1/2; chunks with >= 2 chunks")
    TRUSTED = [
        "numpy.exp in HaldaneMapFunction.mapfn (compared with tolerance 1e-9 against 2^-k at positions k*ln2/2)",
        "the generator of crossover masks delivers independent Bernoulli(xoprob_k) indicators (C02's contract); "
        "the enumeration weights every mask accordingly",
        "harness instrument: module global `numpy` of the genic classes replaced by a proxy whose `empty` returns "
        "NaN-filled storage (allowed by numpy.empty's contract) so never-written cells are observable",
        "statistics.NormalDist for the selection intensity pdf(ppf(1-p))/p (independent of scipy)",
    ]
    ASSUMPTIONS = [
        "genotypes are coded {0,1} per phase; inbred parents for the two-/three-/four-way schemes",
        "markers are given sorted by chromosome and position (group_vrnt keeps the order)",
        "effects are integers or half-integers and positions multiples of 1/2, so every float operation of the "
        "pow2 runs is exact; comparison tolerance 1e-9 relative (1e-8 for nself = inf against 34 generations)",
        "selfing = single-seed descent (one selfed offspring per generation), doubled haploid from one gamete",
    ]

    # ------------------------------------------------------------------ generation
    def _mk_geno(self, rng, scheme, n, p):
        if scheme == "dihybrid":
            g = [[[rng.randint(0, 1) for _ in range(p)] for _ in range(n)] for _ in range(2)]
            if rng.random() < 0.3:                      # one fully homozygous taxon
                t = rng.randrange(n)
                g[1][t] = list(g[0][t])
        else:
            h = [[rng.randint(0, 1) for _ in range(p)] for _ in range(n)]
            g = [h, [list(r) for r in h]]
        if n >= 2 and rng.random() < 0.35:              # genetically identical pair
            a, b = rng.sample(range(n), 2)
            g[0][b] = list(g[0][a])
            g[1][b] = list(g[1][a])
        return g

    def _mk_layout(self, rng, pmax):
        nchr = rng.choice([1, 1, 2, 2, 3])
        sizes = []
        left = pmax
        for c in range(nchr):
            if left <= 0:
                break
            s = rng.randint(1, min(4, left))
            sizes.append(s)
            left -= s
        g2 = []
        for s in sizes:
            pos = rng.choice([0, 0, 1, 3])
            for k in range(s):
                if k:
                    pos += rng.choice([0, 1, 1, 1, 2, 2, 3, 5])
                g2.append(pos)
        return sizes, g2

    def _mk_u(self, rng, p, nt):
        style = rng.random()
        vals = [-3, -2, -1, 1, 2, 3, 0] if style < 0.6 else [F(-3, 2), F(-1, 2), F(1, 2), 1, 2, F(5, 2), 0]
        return [[canon.enc(rng.choice(vals)) for _ in range(nt)] for _ in range(p)]

    def _vmat_case(self, rng, tier, scheme=None):
        scheme = scheme or rng.choice(["two", "two", "three", "three", "four", "dihybrid", "dihybrid"])
        n = {"two": rng.choice([2, 3, 4]), "three": rng.choice([2, 3]), "four": rng.choice([2, 2, 3]),
             "dihybrid": rng.choice([1, 2, 3])}[scheme]
        pmax = {"two": 6, "three": 5, "four": 4, "dihybrid": 5}[scheme]
        sizes, g2 = self._mk_layout(rng, rng.randint(2, pmax))
        p = len(g2)
        nt = rng.choice([1, 2, 2, 3]) if scheme != "four" else rng.choice([1, 2])
        cov = rng.random() < 0.35
        via = rng.choice(["algmod", "gmod"]) if cov else rng.choice(["algmod", "gmod", "factory", "factory_algmod"])
        mems = [1, 2, 3, 7, None]
        mem = rng.choice(mems)
        mem2 = rng.choice([x for x in mems if x != mem])
        nself = rng.choice([0, 0, 0, 1, 1, 2, 3, None])
        if nself is None and p > 4:
            nself = 2
        if nself in (2, 3) and p > 4:
            nself = 1
        mapfn = rng.choice(["pow2", "pow2", "pow2", "haldane", "cap"])
        perm = list(range(n))
        rng.shuffle(perm)
        return {"kind": "vmat", "scheme": scheme, "cov": cov, "via": via, "geno": self._mk_geno(rng, scheme, n, p),
                "u": self._mk_u(rng, p, nt), "chr_sizes": sizes, "genpos2": g2, "mapfn": mapfn,
                "mem": mem, "mem2": mem2, "nself": nself, "perm": perm}

    def _genic_case(self, rng):
        scheme = rng.choice(["two", "two", "dihybrid", "dihybrid", "three", "three", "four"])
        n = rng.choice([2, 3, 4]) if scheme in ("two", "dihybrid") else rng.choice([2, 3]) if scheme == "three" else 2
        sizes, g2 = self._mk_layout(rng, rng.randint(1, 6))
        p = len(g2)
        nt = rng.choice([1, 2, 3])
        via = rng.choice(["algmod", "gmod", "gmod_nomem"] + (["factory"] if scheme == "two" else []))
        return {"kind": "genic", "scheme": scheme, "via": via, "geno": self._mk_geno(rng, scheme, n, p),
                "u": self._mk_u(rng, p, nt), "chr_sizes": sizes, "genpos2": g2, "mapfn": "pow2", "mem": rng.choice([1, 2, 1000])}

    def _uc_case(self, rng):
        c = self._vmat_case(rng, "quick", scheme=rng.choice(["two", "two", "three", "four", "dihybrid"]))
        c["kind"] = "uc"
        c["cov"] = False
        c["nself"] = rng.choice([0, 0, 1, 2])
        c["mapfn"] = rng.choice(["pow2", "haldane"])
        nt = len(c["u"][0])
        c["beta"] = [canon.enc(rng.choice([0, 1, -2, F(3, 2), 10])) for _ in range(nt)]
        c["unique_parents"] = rng.random() < 0.6
        c["upper_percentile"] = rng.choice(["1/10", "1/4", "1/2", "1/20"])
        for k in ("via", "mem", "mem2", "perm"):
            c.pop(k, None)
        n = len(c["geno"][0])
        if c["unique_parents"] and n < NPARENT[c["scheme"]]:
            c["unique_parents"] = False
        return c

    def _util_case(self, rng):
        fn = rng.choice(["rprob_filial", "cov_D1s", "cov_D2s", "cov_D1st", "cov_D2st"])
        r = [canon.enc(rng.choice([0, HALF, F(1, 4), F(1, 8), F(3, 8), F(7, 16), F(1, 32), F(5, 16)]))
             for _ in range(rng.randint(1, 5))]
        ns = rng.choice([0, 1, 2, 3, 5, None])
        if fn == "rprob_filial":
            ns = rng.choice([1, 2, 3, 4, 6, None])
        t = rng.choice([0, 0, 1, 2, 3]) if fn.endswith("st") else 0
        return {"kind": "util", "fn": fn, "r": r, "nself": ns, "t": t}

    def _chunks_case(self, rng):
        lst = rng.randint(0, 6)
        ln = rng.choice([0, 1, 2, 3, 4, 5, 6, 7, 8, 9, 12])
        return {"kind": "chunks", "lst": lst, "lsp": lst + ln, "step": rng.choice([1, 2, 3, 4, 7, 12, 13])}

    def _reject_case(self, rng):
        c = self._vmat_case(rng, "quick", scheme=rng.choice(["two", "two", "three", "dihybrid"]))
        c["kind"] = "reject"
        c["cov"] = False
        c["variant"] = rng.choice(["ungrouped", "no_genpos", "mem_zero", "nself_negative", "valid"])
        c["nself"] = rng.choice([0, 1])
        c["mem"] = rng.choice([1, 2, None])
        for k in ("mem2", "perm", "via"):
            c.pop(k, None)
        return c

    def generate(self, rng, n, tier):
        out = []
        for i in range(n):
            r = rng.random()
            if r < 0.04:
                out.append(self._reject_case(rng))
            elif r < 0.62:
                out.append(self._vmat_case(rng, tier))
            elif r < 0.74:
                out.append(self._genic_case(rng))
            elif r < 0.86:
                out.append(self._uc_case(rng))
            elif r < 0.94:
                out.append(self._util_case(rng))
            else:
                out.append(self._chunks_case(rng))
        return out

    def corpus(self):
        inb = lambda rows: [rows, [list(r) for r in rows]]
        base = {"kind": "vmat", "scheme": "two", "cov": False, "via": "algmod",
                "geno": inb([[0, 1, 1, 0], [1, 0, 1, 1], [0, 1, 1, 0]]),
                "u": [[1, 2], [2, -1], [-3, 1], [1, 1]], "chr_sizes": [3, 1], "genpos2": [0, 1, 3, 0],
                "mapfn": "pow2", "mem": 2, "mem2": None, "nself": 0, "perm": [2, 0, 1]}
        out = [dict(base)]
        out.append(dict(base, nself=1, mem=1, mem2=7))
        out.append(dict(base, nself=None, mapfn="haldane", cov=True, via="gmod"))
        out.append(dict(base, genpos2=[2, 2, 2, 5], mem=3, mem2=1))                # ties: r = 0
        out.append(dict(base, chr_sizes=[1, 1, 1, 1], genpos2=[0, 0, 0, 0]))       # one marker per chromosome
        # three-/four-way/dihybrid, distinct parents only (n = number of parents)
        out.append(dict(base, scheme="three", via="factory", nself=2, mem=2, mem2=3))
        out.append(dict(base, scheme="four", geno=inb([[0, 1, 1], [1, 0, 1], [1, 1, 0]]), u=[[1], [2], [-1]],
                        chr_sizes=[3], genpos2=[0, 1, 2], perm=[1, 2, 0], nself=1))
        out.append(dict(base, scheme="dihybrid", geno=[[[0, 1, 1, 0], [1, 0, 1, 1]], [[1, 1, 0, 0], [1, 0, 0, 1]]],
                        perm=[1, 0], nself=0, cov=True))
        # regression cases for fix D33 (self-hybrid cells [r,f,f], [a,b,c,c], dihybrid [i,i] were skipped and stayed 0)
        out.append({"kind": "vmat", "scheme": "three", "cov": False, "via": "algmod", "geno": inb([[0, 1], [1, 0]]),
                    "u": [[1], [1]], "chr_sizes": [2], "genpos2": [0, 1], "mapfn": "pow2", "mem": None, "mem2": 1,
                    "nself": 0, "perm": [0, 1]})
        out.append({"kind": "vmat", "scheme": "dihybrid", "cov": False, "via": "algmod", "geno": [[[0, 1]], [[1, 0]]],
                    "u": [[1], [1]], "chr_sizes": [2], "genpos2": [0, 1], "mapfn": "pow2", "mem": None, "mem2": 1,
                    "nself": 0, "perm": [0]})
        # regression cases for fixes D15 (genic diagonal never written), D30 (three-/four-way genic shapes), D32 (mem default)
        g = {"kind": "genic", "scheme": "two", "via": "algmod", "geno": inb([[0, 1, 1], [1, 0, 1]]),
             "u": [[1], [2], [3]], "chr_sizes": [3], "genpos2": [0, 1, 2], "mapfn": "pow2", "mem": 1000}
        out.append(dict(g))
        out.append(dict(g, scheme="dihybrid", geno=[[[0, 1, 1], [1, 0, 1]], [[1, 1, 0], [1, 0, 1]]]))
        out.append(dict(g, scheme="three"))
        out.append(dict(g, scheme="four"))
        out.append(dict(g, scheme="dihybrid", via="gmod_nomem"))
        out.append({"kind": "uc", "scheme": "two", "cov": False, "geno": inb([[0, 1, 1], [1, 0, 1], [1, 1, 1]]),
                    "u": [[1, 2], [2, -1], [-3, 1]], "beta": [10, "3/2"], "chr_sizes": [3], "genpos2": [0, 1, 3],
                    "mapfn": "pow2", "nself": 0, "unique_parents": True, "upper_percentile": "1/10"})
        out.append({"kind": "util", "fn": "cov_D1s", "r": [0, "1/2", "1/4"], "nself": 0, "t": 0})
        out.append({"kind": "util", "fn": "cov_D2s", "r": [0, "1/2", "1/4"], "nself": None, "t": 0})
        # regression cases for fix D31 (four-way / dihybrid covariance classes lacked the second trait axis)
        out.append(dict(base, scheme="four", cov=True, via="algmod", geno=inb([[0, 1, 1], [1, 0, 1]]),
                        u=[[1, 2], [2, -1], [-1, 1]], chr_sizes=[3], genpos2=[0, 1, 2], perm=[1, 0], nself=1))
        out.append(dict(base, scheme="dihybrid", cov=True, via="gmod", geno=[[[0, 1, 1]], [[1, 1, 0]]],
                        u=[[1, 2], [2, -1], [-1, 1]], chr_sizes=[3], genpos2=[0, 1, 2], perm=[0], nself=0))
        for var in ("ungrouped", "no_genpos", "mem_zero", "nself_negative", "valid"):
            out.append({"kind": "reject", "variant": var, "scheme": "two", "cov": False,
                        "geno": inb([[0, 1, 1], [1, 0, 1]]), "u": [[1], [2], [3]], "chr_sizes": [2, 1],
                        "genpos2": [0, 1, 0], "mapfn": "pow2", "mem": 2, "nself": 0})
        out.append({"kind": "chunks", "lst": 3, "lsp": 10, "step": 3})
        out.append({"kind": "chunks", "lst": 3, "lsp": 9, "step": 3})
        out.append({"kind": "chunks", "lst": 4, "lsp": 4, "step": 2})
        return out

    def exhaustive(self, tier):
        """thorough tier: every unordered pair of distinct inbred haplotypes over three linked markers as a
        two-way cross (with a third taxon = first parent again, so identical-parent cells are present), and as
        the three-way cross with the complement of the first parent as recurrent line; nself 0 and 1"""
        if tier != "thorough":
            return None
        out = []
        haps = list(itertools.product((0, 1), repeat=3))
        for a in haps:
            for b in haps:
                if a >= b:
                    continue
                rows = [list(a), list(b), list(a)]
                for ns in (0, 1):
                    out.append({"kind": "vmat", "scheme": "two", "cov": ns == 1, "via": "algmod",
                                "geno": [rows, [list(r) for r in rows]], "u": [[1, 2], [2, -1], [-3, 1]],
                                "chr_sizes": [3], "genpos2": [0, 1, 3], "mapfn": "pow2", "mem": 2, "mem2": None,
                                "nself": ns, "perm": [2, 0, 1]})
                comp = [1 - v for v in a]
                rows3 = [comp, list(a), list(b)]
                out.append({"kind": "vmat", "scheme": "three", "cov": False, "via": "algmod",
                            "geno": [rows3, [list(r) for r in rows3]], "u": [[1], [2], [-3]],
                            "chr_sizes": [2, 1], "genpos2": [0, 2, 0], "mapfn": "pow2", "mem": 1, "mem2": 3,
                            "nself": 1, "perm": [1, 2, 0]})
        return out

    # ------------------------------------------------------------------ implementation
    def run_impl(self, case):
        m = _mods()
        k = case["kind"]
        if k == "chunks":
            lst, lsp, step = case["lst"], case["lsp"], case["step"]
            z = list(zip(range(lst, lsp, step), m["sub"].srange(lst + step, lsp, step)))
            return {"chunks": [[int(a), int(b)] for a, b in z], "srange": [int(v) for v in m["sub"].srange(lst, lsp, step)]}
        if k == "util":
            r = numpy.array([float(_fr(v)) for v in case["r"]])
            ns = _nself_arg(case["nself"])
            fn = getattr(m["util"], case["fn"])
            if case["fn"].endswith("st"):
                out = fn(r, ns, case["t"])
            else:
                out = fn(r, ns)
            return {"out": canon.enc(numpy.asarray(out, dtype=float))}
        if k == "vmat":
            pg, gm, mf = _build(case)
            snap = (pg.mat.copy(), gm.u_a.copy())
            o = _call_vmat(case, pg, gm, mf, case["mem"])
            o2 = _call_vmat(case, pg, gm, mf, case["mem2"])
            pgp, gmp, mfp = _build(case, perm=case["perm"])
            op = _call_vmat(case, pgp, gmp, mfp, case["mem"])
            return {"M": canon.enc(o.mat), "M2": canon.enc(o2.mat), "Mperm": canon.enc(op.mat),
                    "taxa": [str(t) for t in o.taxa], "taxa_in": [str(t) for t in pg.taxa],
                    "taxa_perm": [str(t) for t in op.taxa], "shape": list(o.mat.shape),
                    "untouched": bool((snap[0] == pg.mat).all() and (snap[1] == gm.u_a).all())}
        if k == "genic":
            pg, gm, mf = _build(case)
            sch = case["scheme"]
            via = case["via"]
            cls = m["genic_" + sch]
            with _poisoned(m["genic_mod_" + sch]):
                if via == "algmod":
                    o = cls.from_algmod(gm, pg, 10, mem=case["mem"])
                elif via == "gmod":
                    o = cls.from_gmod(gm, pg, 10, mem=case["mem"])
                elif via == "gmod_nomem":
                    o = cls.from_gmod(gm, pg, 10)
                else:
                    o = m["genic_fcty_two"]().from_gmod(gm, pg, 10)
            return {"M": canon.enc(o.mat), "shape": list(o.mat.shape)}
        if k == "reject":
            var = case["variant"]
            pg, gm, mf = _build(case, grouped=(var != "ungrouped"), genpos=(var != "no_genpos"))
            mem = 0 if var == "mem_zero" else case["mem"]
            ns = -1 if var == "nself_negative" else int(case["nself"])
            try:
                o = m["var_" + case["scheme"]].from_algmod(gm, pg, 1, 10, ns, mf, mem=mem)
            except Exception as e:          # these inputs are meant to be rejected
                return {"raised": canon.exc_tag(e), "text": f"{type(e).__name__}: {e}"[:200]}
            return {"raised": None, "finite": bool(numpy.isfinite(o.mat).all())}
        if k == "uc":
            pg, gm, mf = _build(case)
            sch = case["scheme"]
            UCS = m["ucmod"].UsefulnessCriterionSubsetMateSelectionProblem
            npar = NPARENT[sch]
            xm = UCS._calc_xmap(pg.ntaxa, npar, case["unique_parents"])
            prob = UCS.from_pgmat_gpmod(
                nparent=npar, ncross=1, nprogeny=10, nself=int(case["nself"]),
                upper_percentile=float(_fr(case["upper_percentile"])), vmatfcty=m["fcty_" + sch](), gmapfn=mf,
                unique_parents=bool(case["unique_parents"]), pgmat=pg, gpmod=gm, ndecn=1,
                decn_space=numpy.arange(len(xm)), decn_space_lower=None, decn_space_upper=None,
                nobj=len(case["u"][0]))
            return {"uc": canon.enc(prob.ucmat), "xmap": [[int(v) for v in row] for row in prob.decn_space_xmap]}
        raise ValueError(k)

    # ------------------------------------------------------------------ model requests
    def _setup_req(self, case, mem):
        mapfn = "cap" if case["mapfn"] == "cap" else "pow2"
        return {"geno": case["geno"], "u": case["u"],
                "genpos": [canon.enc(F(k, 2)) for k in case["genpos2"]], "mapfn": mapfn,
                "chr": _chr_of(case), "mem": mem, "nself": case["nself"]}

    def _lean_enum_reqs(self, case, obs):
        """up to two tuples whose literal enumeration in Lean is small (<= 13 mask bits)"""
        if case["mapfn"] == "cap" or case["nself"] is None:
            return []
        sch = case["scheme"]
        p = len(case["genpos2"])
        n = len(case["geno"][0])
        nme = 1 + 2 * case["nself"] + {"two": 0, "three": 1, "four": 2, "dihybrid": 2}[sch]
        if p * nme > 13:
            return []
        xs = [canon.enc(x) for x in _xs_of(case)]
        tups = _all_tuples(sch, n)
        # deterministic choice: first off-diagonal tuple and the last tuple
        pick = [t for t in tups if not _is_skipped_diagonal(sch, t)][:1] + tups[-1:]
        nt = len(case["u"][0])
        reqs = []
        for tup in pick:
            haps, esch = _tuple_haps(sch, case["geno"], tup)
            s, t = (0, nt - 1) if case["cov"] else (nt - 1, nt - 1)
            cell = _get(obs["M"], tup)
            impl = cell[s][t] if case["cov"] else cell[t]
            reqs.append({"op": "c12.spec_enum", "scheme": esch, "xs": xs, "nself": case["nself"], "haps": haps,
                         "u": [row[s] for row in case["u"]], "w": [row[t] for row in case["u"]],
                         "impl": impl if impl not in ("nan", "inf", "-inf") else 10 ** 30,
                         "_tuple": list(tup)})
        return reqs

    def requests(self, case, obs):
        k = case["kind"]
        if k == "chunks":
            return [{"op": "c12.chunks", "lst": case["lst"], "lsp": case["lsp"], "step": case["step"]}]
        if k == "util":
            return [{"op": "c12.util", "fn": case["fn"], "r": case["r"], "nself": case["nself"], "t": case["t"]}]
        if k == "vmat":
            req = dict(self._setup_req(case, case["mem"]), op="c12.vmat", scheme=case["scheme"], cov=case["cov"])
            return [req] + self._lean_enum_reqs(case, obs)
        if k == "genic":
            return [dict(self._setup_req(dict(case, nself=0), case["mem"]), op="c12.genic", ploidy=2, scheme=case["scheme"])]
        if k == "uc":
            req = dict(self._setup_req(case, None), op="c12.vmat", scheme=case["scheme"], cov=False)
            return [req]
        if k == "reject":
            var = case["variant"]
            return [{"op": "c12.validate", "grouped": var != "ungrouped", "has_genpos": var != "no_genpos",
                     "mem": 0 if var == "mem_zero" else case["mem"],
                     "nself": -1 if var == "nself_negative" else case["nself"], "chr": _chr_of(case)}]
        raise ValueError(k)

    # ------------------------------------------------------------------ judge
    @staticmethod
    def _close(a, b, rel=1e-9, abs_=1e-9):
        return canon.close(a, b, rel=rel, abs_=abs_)

    def _enum_matrix(self, case, linkage_free=False):
        """{tuple: covariance matrix over traits (t x t)} by exhaustive enumeration, or None when the
        case is outside the enumerable range"""
        if case["mapfn"] == "cap" and not linkage_free:
            return None
        p = len(case["genpos2"])
        ns = case.get("nself", 0)
        if p > 5 or (ns is None and p > 4) or (ns is not None and ns >= 2 and p > 4):
            return None
        sch = case["scheme"]
        n = len(case["geno"][0])
        xs = [HALF] * p if linkage_free else _xs_of(case)
        en = _Enum(xs)
        U = [[_fr(v) for v in row] for row in case["u"]]
        nt = len(U[0])
        gens = INF_GENERATIONS if ns is None else ns
        out = {}
        cache = {}
        for tup in _all_tuples(sch, n):
            haps, esch = _tuple_haps(sch, case["geno"], tup)
            key = (esch, tuple(tuple(h) for h in haps))
            if key not in cache:
                mean, cov = en.moments(esch, haps, gens)
                C = [[4 * sum(U[i][s] * U[j][t] * cov[i][j] for i in range(p) for j in range(p))
                      for t in range(nt)] for s in range(nt)]
                mu = [2 * sum(U[i][t] * mean[i] for i in range(p)) for t in range(nt)]
                cache[key] = (mu, C)
            out[tup] = cache[key]
        return out

    def _identical(self, scheme, geno, tup):
        if scheme == "dihybrid":
            f, m = tup
            hs = [geno[0][f], geno[1][f], geno[0][m], geno[1][m]]
        else:
            hs = [geno[0][t] for t in tup]
        return all(h == hs[0] for h in hs)

    def _judge_vmat(self, case, obs, answers):
        sch = case["scheme"]
        cov = case["cov"]
        n = len(case["geno"][0])
        nt = len(case["u"][0])
        tups = _all_tuples(sch, n)
        model = answers[0]["ok"]
        M, M2, Mp = obs["M"], obs["M2"], obs["Mperm"]
        tol = 1e-8 if case["nself"] is None else 1e-9

        def cell(X, tup):
            c = _get(X, tup)
            return c if cov else [[c[t] if s == t else None for t in range(nt)] for s in range(nt)]

        def entries(X, tup):
            c = cell(X, tup)
            return [(s, t, c[s][t]) for s in range(nt) for t in range(nt) if c[s][t] is not None]

        # ---- correspondence: model = implementation, every cell
        bad_corr = []
        for tup in tups:
            for (s, t, a), (_, _, b) in zip(entries(M, tup), entries(model, tup)):
                da = canon.dec(a)
                if isinstance(da, str) or not self._close(da, canon.dec(b), rel=1e-9):
                    bad_corr.append((tup, s, t, a, b))
        corr = not bad_corr
        # ---- Spec on the implementation's output
        fails = []          # (clause, tuple, text)
        want_shape = [n] * NPARENT[sch] + ([nt, nt] if cov else [nt])
        if obs["shape"] != want_shape:
            fails.append(("shape", None, f"shape {obs['shape']} != {want_shape}"))
        if not obs["untouched"]:
            fails.append(("inputs_modified", None, "pgmat.mat or u_a modified"))
        if obs["taxa"] != obs["taxa_in"]:
            fails.append(("labels", None, "taxa labels of the result differ from the input's"))
        want_perm = [obs["taxa_in"][i] for i in case["perm"]]
        if obs["taxa_perm"] != want_perm:
            fails.append(("labels", None, "taxa labels not permuted with the taxa"))
        enum = self._enum_matrix(case)
        enum_checked = 0
        for tup in tups:
            ent = entries(M, tup)
            vals = {(s, t): canon.dec(v) for s, t, v in ent}
            if any(isinstance(v, str) for v in vals.values()):
                fails.append(("finite", tup, f"non-finite value at {tup}"))
                continue
            # (a) equality with exhaustive enumeration
            if enum is not None:
                mu, C = enum[tup]
                for (s, t), v in vals.items():
                    enum_checked += 1
                    if not self._close(v, C[s][t], rel=tol, abs_=tol):
                        diag0 = sch != "two" and _is_skipped_diagonal(sch, tup) and all(x == 0 for x in vals.values())
                        fails.append(("enum_selfhybrid" if diag0 else "enum", tup, f"{sch}{list(tup)} trait({s},{t}) reported {float(v)!r} "
                                                    f"enumeration {float(C[s][t])!r}"))
            # (b) zero for genetically identical parents
            if self._identical(sch, case["geno"], tup):
                if any(v != 0 for v in vals.values()):
                    fails.append(("identical_nonzero", tup, f"identical parents {tup} nonzero"))
            # (c) symmetric in exchangeable parents
            if sch in ("two", "dihybrid"):
                others = [(tup[1], tup[0])]
            elif sch == "three":
                others = [(tup[0], tup[2], tup[1])]
            else:
                a, b, c, d = tup
                others = [(a, b, d, c), (b, a, c, d), (c, d, a, b)]
            for o in others:
                ov = {(s, t): canon.dec(v) for s, t, v in entries(M, o)}
                for key, v in vals.items():
                    w = ov[key]
                    if isinstance(w, str) or not self._close(v, w, rel=1e-9):
                        diag0 = sch != "two" and (
                            (_is_skipped_diagonal(sch, tup) and all(x == 0 for x in vals.values())) or
                            (_is_skipped_diagonal(sch, o) and all(x == 0 for x in ov.values())))
                        fails.append(("symmetry_selfhybrid" if diag0 else "symmetry", tup,
                                      f"{sch}{list(tup)} = {float(v)!r} but {list(o)} = "
                                      f"{w if isinstance(w, str) else float(w)!r}"))
            # (d) chunk invariance
            for (s, t, a), (_, _, b) in zip(ent, entries(M2, tup)):
                db = canon.dec(b)
                if isinstance(db, str) or not self._close(canon.dec(a), db, rel=1e-9):
                    fails.append(("chunk", tup, f"mem={case['mem']} gives {a}, mem={case['mem2']} gives {b} at {tup}"))
            # (e) equivariance under reordering of taxa: M'[k..] = M[perm[k]..]
            ptup = tuple(case["perm"][k] for k in tup)
            for (s, t, a), (_, _, b) in zip(entries(Mp, tup), entries(M, ptup)):
                da, db = canon.dec(a), canon.dec(b)
                if isinstance(da, str) or isinstance(db, str) or not self._close(da, db, rel=1e-9):
                    fails.append(("equivariance", tup, f"permuted {tup} {a} != original {ptup} {b}"))
            # (f) covariance classes: symmetric in the trait pair and diagonal = variance (nonneg)
            for (s, t), v in vals.items():
                if s == t and v < -1e-9:
                    fails.append(("negative_variance", tup, f"variance {float(v)} < 0 at {tup}"))
                if cov and (t, s) in vals and not self._close(v, vals[(t, s)], rel=1e-9):
                    fails.append(("trait_symmetry", tup, f"cov[{s},{t}] != cov[{t},{s}] at {tup}"))
        # (g) Lean-side Spec: literal enumeration
        lean_reqs = self._lean_enum_reqs(case, obs)
        for rq, ans in zip(lean_reqs, answers[1:]):
            if not ans["ok"]["ok"]:
                tp = tuple(rq["_tuple"])
                diag0 = sch != "two" and _is_skipped_diagonal(sch, tp) and canon.dec(rq["impl"]) == 0
                fails.append(("enum_selfhybrid" if diag0 else "enum", tp, f"Lean enumeration {ans['ok']['enum']} vs reported {rq['impl']} at {rq['_tuple']}"))
        spec = not fails
        # non-triviality
        xs = _xs_of(case) if case["mapfn"] != "cap" else []
        seg = [i for i in range(len(case["genpos2"]))
               if len({case["geno"][ph][t][i] for ph in (0, 1) for t in range(n)}) > 1]
        linked = any(0 < x < HALF and (i in seg) and (i - 1 in seg) for i, x in enumerate(xs))
        chunked = any(case["mem"] is not None and case["mem"] < s for s in case["chr_sizes"]) or \
            any(case["mem2"] is not None and case["mem2"] < s for s in case["chr_sizes"])
        nontriv = bool(linked and chunked and len(seg) >= 2)
        det = f"vmat[{sch},{'cov' if cov else 'var'},{case['via']},nself={case['nself']},{case['mapfn']}] " \
              f"enum_cells={enum_checked} lean_enum={len(lean_reqs)}"
        if bad_corr:
            det += f" MODEL!=IMPL at {bad_corr[0]}"
        if fails:
            det += " SPEC: " + "; ".join(f[2] for f in fails[:3])
        return {"corr": corr, "spec": spec, "nontrivial": nontriv, "detail": det,
                "fails": [(f[0], list(f[1]) if f[1] is not None else None) for f in fails]}

    def _judge_genic(self, case, obs, answers):
        sch = case["scheme"]
        n = len(case["geno"][0])
        nt = len(case["u"][0])
        model = answers[0]["ok"]
        M = obs["M"]
        fails = []
        bad_corr = []
        want_shape = [n] * NPARENT[sch] + [nt]
        if obs["shape"] != want_shape:
            fails.append(("shape", None, f"shape {obs['shape']} != {want_shape}"))
            return {"corr": False, "spec": False, "nontrivial": True, "detail": fails[0][2], "fails": [("shape", None)]}
        enum = self._enum_matrix(dict(case, nself=0), linkage_free=True)
        for tup in _all_tuples(sch, n):
            got = _get(M, tup)
            mod = _get(model, tup)
            for t in range(nt):
                g = canon.dec(got[t])
                if isinstance(g, str) or not self._close(g, canon.dec(mod[t])):
                    bad_corr.append((tup, t, got[t], mod[t]))
                if isinstance(g, str):
                    fails.append(("uninitialised" if _is_skipped_diagonal(sch, tup) else "finite", tup,
                                  f"genic {sch}{list(tup)} trait {t} was never written (numpy.empty)"))
                    continue
                if enum is not None:
                    want = enum[tup][1][t][t]
                    if not self._close(g, want):
                        fails.append(("enum", tup, f"genic {sch}{list(tup)} = {float(g)} but linkage-free "
                                                    f"enumeration = {float(want)}"))
                if self._identical(sch, case["geno"], tup) and g != 0:
                    fails.append(("identical_nonzero", tup, f"identical parents {tup} nonzero"))
                og = canon.dec(_get(M, tup[:-2] + (tup[-1], tup[-2]))[t])
                if not isinstance(og, str) and not self._close(g, og):
                    fails.append(("symmetry", tup, f"genic not symmetric at {tup}"))
        seg = any(len({case["geno"][ph][t][i] for ph in (0, 1) for t in range(n)}) > 1
                  for i in range(len(case["genpos2"])))
        det = f"genic[{sch},{case['via']}]"
        if bad_corr:
            det += f" MODEL!=IMPL at {bad_corr[0]}"
        if fails:
            det += " SPEC: " + "; ".join(f[2] for f in fails[:3])
        return {"corr": not bad_corr, "spec": not fails, "nontrivial": bool(seg), "detail": det,
                "fails": [(f[0], list(f[1]) if f[1] is not None else None) for f in fails]}

    def _judge_uc(self, case, obs, answers):
        sch = case["scheme"]
        n = len(case["geno"][0])
        nt = len(case["u"][0])
        model = answers[0]["ok"]
        pct = float(_fr(case["upper_percentile"]))
        nd = statistics.NormalDist()
        inten = nd.pdf(nd.inv_cdf(1.0 - pct)) / pct
        U = [[_fr(v) for v in row] for row in case["u"]]
        beta = [_fr(v) for v in case["beta"]]
        p = len(U)
        bv = [[beta[t] + sum(U[i][t] * (case["geno"][0][k][i] + case["geno"][1][k][i]) for i in range(p))
               for t in range(nt)] for k in range(n)]
        want_x = [list(c) for c in (itertools.combinations(range(n), NPARENT[sch]) if case["unique_parents"]
                                    else itertools.combinations_with_replacement(range(n), NPARENT[sch]))]
        fails, bad_corr = [], []
        if obs["xmap"] != want_x:
            fails.append(("xmap", None, f"cross map {obs['xmap'][:4]}.. differs from the index tuples {want_x[:4]}.."))
        enum = self._enum_matrix(case)
        for row, cfg in zip(obs["uc"], obs["xmap"]):
            tup = tuple(cfg)
            pm = [sum(e * bv[k][t] for e, k in zip(EPGC[sch], cfg)) for t in range(nt)]
            mcell = _get(model, tup)
            for t in range(nt):
                ucv = canon.dec(row[t])
                if isinstance(ucv, str):
                    fails.append(("finite", tup, f"uc{cfg} trait {t} = {ucv}"))
                    bad_corr.append((tup, t))
                    continue
                dev = float(ucv - pm[t]) / inten
                mv = float(canon.dec(mcell[t]))
                if not (dev >= -1e-9 and abs(dev * dev - mv) <= 1e-8 * max(1.0, abs(mv))):
                    bad_corr.append((tup, t, dev * dev, mv))
                if enum is not None:
                    mu, C = enum[tup]
                    ev = float(C[t][t])
                    emean = float(beta[t] + mu[t])
                    if abs(emean - float(pm[t])) > 1e-9 * max(1.0, abs(emean)):
                        fails.append(("mean", tup, f"enumerated progeny mean {emean} != parental mean {float(pm[t])}"))
                    want = emean + inten * math.sqrt(max(ev, 0.0))
                    if abs(float(ucv) - want) > 1e-8 * max(1.0, abs(want)):
                        diag0 = sch != "two" and _is_skipped_diagonal(sch, tup) and abs(dev) <= 1e-12
                        fails.append(("enum_selfhybrid" if diag0 else "enum", tup, f"uc {sch}{cfg} trait {t} = {float(ucv)!r}, mean + i*sqrt(enumerated "
                                                    f"variance) = {want!r}"))
        xs = _xs_of(case)
        nontriv = any(0 < x < HALF for x in xs) and len(obs["uc"]) >= 1
        det = f"uc[{sch},nself={case['nself']},unique={case['unique_parents']}] rows={len(obs['uc'])}"
        if bad_corr:
            det += f" MODEL!=IMPL at {bad_corr[0]}"
        if fails:
            det += " SPEC: " + "; ".join(f[2] for f in fails[:3])
        return {"corr": not bad_corr, "spec": not fails, "nontrivial": bool(nontriv), "detail": det,
                "fails": [(f[0], list(f[1]) if f[1] is not None else None) for f in fails]}

    def _judge_util(self, case, obs, answers):
        model = answers[0]["ok"]
        out = obs["out"]
        corr = len(out) == len(model) and all(
            not isinstance(canon.dec(a), str) and self._close(canon.dec(a), canon.dec(b)) for a, b in zip(out, model))
        # Spec: two-locus enumeration.  Parents a=(1,1), b=(0,0), effects (1,1): Var = 2 + 2*D1(r);
        # three-way with p1=(0,0), p2=(1,1), p3=(0,0): Var = (2+2D1)/2... handled through D2 = (4V3 - 3*(2+2*D1))/... see below
        fails = []
        fn, ns, t = case["fn"], case["nself"], case["t"]
        gens = INF_GENERATIONS if ns is None else ns
        tol = 1e-8 if ns is None else 1e-9
        if t == 0 and fn != "rprob_filial":
            for rv, got in zip(case["r"], out):
                r = _fr(rv)
                g = canon.dec(got)
                if isinstance(g, str):
                    fails.append(("finite", None, f"{fn}({rv}) = {g}"))
                    continue
                en = _Enum([HALF, r])
                if fn.startswith("cov_D1"):
                    _, c = en.moments("two", [(1, 1), (0, 0)], gens)
                    want = 4 * c[0][1]                      # Cov(g_0,g_1) = D1/4
                else:
                    # four-way (p1 x p2) x (p1 x p2), p1=(1,1), p2=(0,0): m12 = m34, so
                    # 4 Cov(g_0,g_1) = (D1 + D2) * (1/4 + 1/4) = (D1 + D2)/2 with D1 from the two-way cross
                    _, c2 = en.moments("two", [(1, 1), (0, 0)], gens)
                    _, c4 = en.moments("four", [(1, 1), (0, 0), (1, 1), (0, 0)], gens)
                    want = 8 * c4[0][1] - 4 * c2[0][1]
                if not self._close(g, want, rel=tol, abs_=tol):
                    fails.append(("enum", None, f"{fn}(r={rv}, nself={ns}) = {float(g)} but two-locus enumeration gives {float(want)}"))
        elif fn == "rprob_filial":
            for rv, got in zip(case["r"], out):
                r = _fr(rv)
                g = canon.dec(got)
                en = _Enum([HALF, r])
                k = INF_GENERATIONS + 1 if ns is None else ns
                _, c = en.moments("two", [(1, 1), (0, 0)], k - 1)
                want = (1 - 4 * c[0][1]) / 2                # observed recombination rate among gametes of F_k
                if isinstance(g, str) or not self._close(g, want, rel=tol, abs_=tol):
                    fails.append(("enum", None, f"rprob_filial(r={rv}, k={ns}) = {got} but enumeration gives {float(want)}"))
        nontriv = any(0 < _fr(v) < HALF for v in case["r"])
        det = f"util[{fn},nself={ns},t={t}]"
        if not corr:
            det += f" MODEL!=IMPL {out} vs {model}"
        if fails:
            det += " SPEC: " + "; ".join(f[2] for f in fails[:3])
        return {"corr": corr, "spec": not fails, "nontrivial": nontriv, "detail": det,
                "fails": [(f[0], None) for f in fails]}

    def _judge_reject(self, case, obs, answers):
        want = answers[0]["ok"]                     # "ok" or the error tag of the model
        got = obs["raised"]
        corr = (want == "ok" and got is None) or (want != "ok" and got == want)
        if case["variant"] == "valid":
            spec = got is None and obs.get("finite", False)
        else:
            spec = got is not None                  # an invalid input must not be answered with numbers
        return {"corr": corr, "spec": bool(spec), "nontrivial": case["variant"] != "valid",
                "detail": f"reject[{case['variant']},{case['scheme']}] impl={got} ({obs.get('text', '')}) model={want}",
                "fails": [] if spec else [("reject", None)]}

    def _judge_chunks(self, case, obs, answers):
        model = answers[0]["ok"]
        corr = model == obs["chunks"]
        ch = obs["chunks"]
        lst, lsp = case["lst"], case["lsp"]
        ok = True
        cur = lst
        for a, b in ch:
            ok = ok and a == cur and a < b <= lsp and (b - a <= case["step"])
            cur = b
        ok = ok and cur == lsp
        sr = obs["srange"]
        ok = ok and sr == list(range(lst, lsp, case["step"])) + [lsp]
        return {"corr": corr, "spec": bool(ok), "nontrivial": len(ch) >= 2,
                "detail": f"chunks[{lst},{lsp},{case['step']}] impl={ch} model={model} tiles={ok}",
                "fails": [] if ok else [("tiling", None)]}

    def judge(self, case, obs, answers):
        for a in answers:
            if "err" in a:
                raise RuntimeError("driver error: " + a["err"])
        return getattr(self, "_judge_" + case["kind"])(case, obs, answers)

    # ------------------------------------------------------------------ findings signature
    def signature(self, case, obs, verdict):
        sig = {"kind": case["kind"], "scheme": case.get("scheme"),
               "site": f"{case['kind']}_{case.get('scheme')}" + ("_cov" if case.get("cov") else "")}
        if isinstance(obs, dict) and "__exception__" in obs:
            sig["cond"] = "raised:" + obs.get("text", "").split(":")[0]
            return sig
        fails = verdict.get("fails") or []
        sig["cond"] = ",".join(sorted({f[0] for f in fails}))
        return sig

    # ------------------------------------------------------------------ shrinking
    def shrink(self, case):
        k = case["kind"]
        if k in ("util",):
            for i in range(len(case["r"])):
                if len(case["r"]) > 1:
                    yield dict(case, r=case["r"][:i] + case["r"][i + 1:])
            return
        if k == "chunks":
            return
        n = len(case["geno"][0])
        p = len(case["genpos2"])
        nt = len(case["u"][0])
        minn = 1 if case.get("scheme") == "dihybrid" else 2
        if k == "uc" and case.get("unique_parents"):
            minn = max(minn, NPARENT[case["scheme"]])
        # drop a taxon
        if n > minn:
            for t in range(n):
                c = dict(case)
                c["geno"] = [[row for i, row in enumerate(ph) if i != t] for ph in case["geno"]]
                if "perm" in c:
                    c["perm"] = list(range(n - 1))
                yield c
        # drop a marker
        if p > 1:
            st = 0
            for ci, s in enumerate(case["chr_sizes"]):
                for j in range(st, st + s):
                    c = dict(case)
                    c["geno"] = [[[v for i, v in enumerate(row) if i != j] for row in ph] for ph in case["geno"]]
                    c["u"] = [r for i, r in enumerate(case["u"]) if i != j]
                    c["genpos2"] = [v for i, v in enumerate(case["genpos2"]) if i != j]
                    sizes = list(case["chr_sizes"])
                    sizes[ci] -= 1
                    c["chr_sizes"] = [x for x in sizes if x > 0]
                    yield c
                st += s
        # drop a trait
        if nt > 1:
            for t in range(nt):
                c = dict(case)
                c["u"] = [[v for i, v in enumerate(r) if i != t] for r in case["u"]]
                if "beta" in c:
                    c["beta"] = [v for i, v in enumerate(case["beta"]) if i != t]
                yield c
        if case.get("nself") not in (0,):
            yield dict(case, nself=0)
        if case.get("mem") is not None and k == "vmat":
            yield dict(case, mem=None, mem2=1)
        if k == "vmat" and case["perm"] != list(range(n)):
            yield dict(case, perm=list(range(n)))
        if k == "vmat" and case["via"] != "algmod":
            yield dict(case, via="algmod")
        if case.get("mapfn") == "haldane":
            yield dict(case, mapfn="pow2")
        if any(v not in (1, 0) for r in case["u"] for v in r):
            yield dict(case, u=[[1 for _ in r] for r in case["u"]])

    # ------------------------------------------------------------------ self-test mutants
    def mutants(self):
        m = _mods()

        @contextlib.contextmanager
        def patch(obj, name, new):
            old = getattr(obj, name)
            setattr(obj, name, new)
            try:
                yield
            finally:
                setattr(obj, name, old)

        @contextlib.contextmanager
        def many(*ctxs):
            with contextlib.ExitStack() as st:
                for c in ctxs:
                    st.enter_context(c())
                yield

        def resrc(cls, mod, subs, name="from_algmod"):
            """re-compile a classmethod of `cls` from its source with textual substitutions, in the
            namespace of its module (in memory; no file is touched)"""
            fn = getattr(cls, name).__func__
            src = textwrap.dedent(inspect.getsource(fn)).replace("\r", "")
            for a, b in subs:
                if a not in src:
                    raise RuntimeError(f"mutant pattern not found: {a!r} in {cls.__name__}.{name}")
                src = src.replace(a, b)
            src = src.replace("@classmethod\n", "", 1)
            ns = {}
            exec(compile(src, f"<mutant {cls.__name__}.{name}>", "exec"), mod.__dict__, ns)
            new = classmethod(ns[name])
            return lambda: patch(cls, name, new)

        util = m["util"]

        def rprob_no_half(r, k):
            two_r = 2.0 * r
            r_k = two_r / (1.0 + two_r)
            if k < numpy.inf:
                r_k = r_k * (1.0 - ((1.0 - two_r) ** k))
            return r_k

        def d1_as_k(r, nself):
            if nself == 0:
                return 1 - 2 * r
            return 1.0 - 2.0 * util.rprob_filial(r, nself)       # k = nself instead of nself + 1

        def d2_sq_always(r, nself):
            return (1.0 - 2.0 * r) ** 2

        def srange_short(start, stop, step):
            yield from range(start, stop, step)
            yield stop - 1

        muts = []
        # --- linkage-decay terms (vmat/util.py)
        muts.append(("rprob_filial_drop_half_pow", lambda: patch(util, "rprob_filial", rprob_no_half)))
        muts.append(("cov_D1s_generation_off_by_one", lambda: many(
            *[(lambda mod=mod: patch(mod, "cov_D1s", d1_as_k)) for mod in
              [m[f"{a}_mod_{k}"] for a in ("var", "cov") for k in SCHEMES]], lambda: patch(util, "cov_D1s", d1_as_k))))
        muts.append(("D1_for_D2", lambda: many(
            *[(lambda mod=mod: patch(mod, "cov_D2s", util.cov_D1s)) for mod in
              [m[f"{a}_mod_{k}"] for a in ("var", "cov") for k in ("three", "four", "dihybrid")]],
            lambda: patch(util, "cov_D2s", util.cov_D1s))))
        muts.append(("cov_D2s_ignores_selfing", lambda: many(
            *[(lambda mod=mod: patch(mod, "cov_D2s", d2_sq_always)) for mod in
              [m[f"{a}_mod_{k}"] for a in ("var", "cov") for k in ("three", "four", "dihybrid")]],
            lambda: patch(util, "cov_D2s", d2_sq_always))))
        # --- chunking (srange)
        muts.append(("chunk_stop_minus_one", lambda: many(
            *[(lambda mod=mod: patch(mod, "srange", srange_short)) for mod in
              [m[f"{a}_mod_{k}"] for a in ("var", "cov") for k in SCHEMES]], lambda: patch(m["sub"], "srange", srange_short))))
        # --- recombination from |g_i - g_j|
        muts.append(("no_abs_of_position_difference", lambda: many(
            *[resrc(m[f"{a}_{k}"], m[f"{a}_mod_{k}"], [("numpy.abs(gi - gj)", "(gi - gj)")])
              for a in ("var", "cov") for k in SCHEMES])))
        # --- mirror step
        muts.append(("forget_mirror_two_way", resrc(m["var_two"], m["var_mod_two"],
                                                    [("var_A[male,female,:] = var_A[female,male,:]", "pass")])))
        muts.append(("forget_mirror_three_way_cov", resrc(m["cov_three"], m["cov_mod_three"],
                                                          [("varA_mat[:,male,female,:,:] = varA_mat[:,female,male,:,:]", "pass")])))
        # --- the double sum itself
        muts.append(("two_way_phase1_minus_phase0", resrc(m["var_two"], m["var_mod_two"],
                                                           [("cdgeno = geno[0,female,cst:csp] - geno[0,male,cst:csp]",
                                                             "cdgeno = geno[0,female,cst:csp] + geno[0,male,cst:csp]")])))
        muts.append(("dihybrid_geno1_for_geno0", resrc(m["var_dihybrid"], m["var_mod_dihybrid"],
                                                       [("rdgeno43 = geno[0,male,rst:rsp] - geno[1,male,rst:rsp]",
                                                         "rdgeno43 = geno[1,male,rst:rsp] - geno[1,male,rst:rsp]")])))
        muts.append(("three_way_quarter_to_half", resrc(m["var_three"], m["var_mod_three"], [("varA_mat *= 0.25", "varA_mat *= 0.5")])))
        muts.append(("four_way_drop_part32", resrc(m["var_four"], m["var_mod_four"],
                                                   [("varA_part21 + varA_part31 + varA_part32 +", "varA_part21 + varA_part31 +")])))
        muts.append(("three_way_cov_D1_part23", resrc(m["cov_three"], m["cov_mod_three"],
                                                      [("varA_part23 = reffect23 @ D2 @ ceffect23.T", "varA_part23 = reffect23 @ D1 @ ceffect23.T")])))
        muts.append(("two_way_cov_transposed_effects", resrc(m["cov_two"], m["cov_mod_two"],
                                                             [("ru = u[rst:rsp].T", "ru = u[rst:rsp].T[::-1]")])))
        muts.append(("dihybrid_var_part31_uses_D2", resrc(m["var_dihybrid"], m["var_mod_dihybrid"],
                                                          [("varA_part31 = (reffect31 @ D1 * ceffect31).sum(1)", "varA_part31 = (reffect31 @ D2 * ceffect31).sum(1)")])))
        muts.append(("four_way_cov_D1_part43", resrc(m["cov_four"], m["cov_mod_four"],
                                                     [("varA_part43 = reffect43 @ D2 @ ceffect43.T", "varA_part43 = reffect43 @ D1 @ ceffect43.T")])))
        muts.append(("dihybrid_cov_part31_uses_D2", resrc(m["cov_dihybrid"], m["cov_mod_dihybrid"],
                                                          [("varA_part31 = reffect31 @ D1 @ ceffect31.T", "varA_part31 = reffect31 @ D2 @ ceffect31.T")])))
        muts.append(("three_way_skip_self_hybrid_cells", resrc(m["var_three"], m["var_mod_three"],
                                                               [("for male in range(0,female+1):", "for male in range(0,female):")])))
        muts.append(("dihybrid_cov_skip_selfs", resrc(m["cov_dihybrid"], m["cov_mod_dihybrid"],
                                                      [("for male in range(0,female+1):", "for male in range(0,female):")])))
        # --- genic
        muts.append(("genic_two_way_diagonal_unwritten", resrc(m["genic_two"], m["genic_mod_two"],
                                                               [("for male in range(0,female+1):", "for male in range(0,female):")])))
        muts.append(("genic_three_way_epgc", resrc(m["genic_three"], m["genic_mod_three"],
                                                   [("epgc = (0.5,0.25,0.25)", "epgc = (0.25,0.5,0.25)")])))
        muts.append(("genic_four_way_freq_of_three", resrc(m["genic_four"], m["genic_mod_four"],
                                                           [("tafreq[(female2,male2,female1,male1),:]", "tafreq[(female2,male2,female1,female1),:]")])))
        muts.append(("genic_varcoef_without_ploidy", lambda: many(
            resrc(m["genic_two"], m["genic_mod_two"], [("varcoef = (ploidy * u)**2", "varcoef = (u)**2")]),
            resrc(m["genic_dihybrid"], m["genic_mod_dihybrid"], [("varcoef = (ploidy * u)**2", "varcoef = (u)**2")]))))
        muts.append(("genic_epgc_unequal", resrc(m["genic_two"], m["genic_mod_two"], [("epgc = (0.5,0.5)", "epgc = (0.75,0.25)")])))
        # --- factory
        muts.append(("factory_drops_nself", lambda: many(*[
            (lambda k=k: patch(m["fcty_" + k], "from_gmod",
                               lambda self, gmod, pgmat, ncross, nprogeny, nself, gmapfn, k=k, **kw:
                               m["var_" + k].from_gmod(gmod=gmod, pgmat=pgmat, nmating=ncross, nprogeny=nprogeny,
                                                       nself=0, gmapfn=gmapfn, **kw))) for k in SCHEMES])))
        # --- usefulness criterion
        ucmix = m["ucmod"].UsefulnessCriterionSelectionProblemMixin

        def resrc_static(subs):
            fn = ucmix.__dict__["_calc_uc"].__func__
            src = textwrap.dedent(inspect.getsource(fn)).replace("\r", "")
            for a, b in subs:
                if a not in src:
                    raise RuntimeError(f"mutant pattern not found: {a!r}")
                src = src.replace(a, b)
            src = src.replace("@staticmethod\n", "", 1)
            ns = {}
            exec(compile(src, "<mutant _calc_uc>", "exec"), m["ucmod"].__dict__, ns)
            new = staticmethod(ns["_calc_uc"])
            return lambda: patch(ucmix, "_calc_uc", new)

        muts.append(("uc_without_sqrt", resrc_static([("numpy.sqrt(pvar)", "pvar")])))
        muts.append(("uc_mean_unweighted", resrc_static([("pmean = epgc.dot(bvmat[cconfig,:])", "pmean = bvmat[cconfig,:].mean(0) if len(set(epgc)) > 1 else bvmat[cconfig,:].sum(0)")])))

        return muts


PROP = C12()
