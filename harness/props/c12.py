"""C12 — predicted progeny variances equal the exact variance of the cross's gametes.

Implementation under test (imported from /repo's working tree):
  pybrops.model.vmat.util, pybrops.core.util.subroutines.srange,
  the four genetic variance classes, the four progeny covariance classes, the four genic classes,
  the variance matrix factories and the four UsefulnessCriterion*MateSelectionProblem classes.

Model: lean/PybropsModel/Model/Variance.lean through the `c12.*` driver ops.
Spec oracle: exhaustive enumeration of the gametes of the cross scheme with their probabilities
  (a) in Lean, literally the object of the theorems (`c12.spec_enum`) on the small cases,
  (b) in exact `Fraction` arithmetic here (`_Enum`, propagation of the gamete distribution through
      every meiosis of the scheme) on all cases with <= 5 markers and shallow selfing,
  (c) for deep selfing / many markers / arbitrary float positions: the same enumeration on every PAIR of
      loci (`_PairOracle`; the marginal of the no-interference crossover process on two loci is the two-locus
      process with r_ij = mapfn(|g_i - g_j|)), summed over all pairs.
"""
import contextlib
import copy
import inspect
import itertools
import math
import re
import statistics
import textwrap
from fractions import Fraction

import numpy

from .. import canon, compat
from ..core import Prop

compat.install()


def _single_threaded_blas():
    """harness instrument (performance only): the matrix products of the 1024 x 1024 chunks are run on one BLAS thread.
    With the default thread pool (one thread per core) a check that shares the machine with other checks spends 10 s
    instead of 0.3 s in a single 2048-marker case."""
    import ctypes
    try:
        done = set()
        for line in open("/proc/self/maps"):
            path = line.split()[-1]
            if "openblas" in path.lower() and path not in done:
                done.add(path)
                lib = ctypes.CDLL(path)
                for name in ("scipy_openblas_set_num_threads64_", "scipy_openblas_set_num_threads", "openblas_set_num_threads64_",
                             "openblas_set_num_threads"):
                    fn = getattr(lib, name, None)
                    if fn is not None:
                        fn(ctypes.c_int(1))
                        break
    except Exception:               # never a verdict
        pass


_single_threaded_blas()

F = Fraction
HALF = F(1, 2)
LN2_HALF = math.log(2.0) / 2.0
POISON = float("nan")

SCHEMES = ("two", "three", "four", "dihybrid")
NPARENT = {"two": 2, "three": 3, "four": 4, "dihybrid": 2}
EPGC = {"two": (HALF, HALF), "three": (HALF, F(1, 4), F(1, 4)), "four": (F(1, 4),) * 4,
        "dihybrid": (HALF, HALF)}
DEFAULT_MEM = 1024
UC_CLASSES = ("Subset", "Binary", "Integer", "Real")


# --------------------------------------------------------------------------------------------
# the real code
# --------------------------------------------------------------------------------------------
_M = {}


def _mods():
    if _M:
        return _M
    compat.import_pybrops()
    import importlib
    imp = importlib.import_module
    _M["util"] = imp("pybrops.model.vmat.util")
    _M["sub"] = imp("pybrops.core.util.subroutines")
    names = {"two": "TwoWay", "three": "ThreeWay", "four": "FourWay", "dihybrid": "Dihybrid"}
    for k, nm in names.items():
        c = f"Dense{nm}DHAdditiveGeneticVarianceMatrix"
        _M["var_mod_" + k] = imp("pybrops.model.vmat." + c)
        _M["var_" + k] = getattr(_M["var_mod_" + k], c)
        c = f"Dense{nm}DHAdditiveProgenyGeneticCovarianceMatrix"
        _M["cov_mod_" + k] = imp("pybrops.model.pcvmat." + c)
        _M["cov_" + k] = getattr(_M["cov_mod_" + k], c)
        c = f"Dense{nm}DHAdditiveGenicVarianceMatrix"
        _M["genic_mod_" + k] = imp("pybrops.model.vmat." + c)
        _M["genic_" + k] = getattr(_M["genic_mod_" + k], c)
        c = f"Dense{nm}DHAdditiveGeneticVarianceMatrixFactory"
        _M["fcty_mod_" + k] = imp("pybrops.model.vmat.fcty." + c)
        _M["fcty_" + k] = getattr(_M["fcty_mod_" + k], c)
    c = "DenseTwoWayDHAdditiveGenicVarianceMatrixFactory"
    _M["genic_fcty_mod_two"] = imp("pybrops.model.vmat.fcty." + c)
    _M["genic_fcty_two"] = getattr(_M["genic_fcty_mod_two"], c)
    _M["ucmod"] = imp("pybrops.breed.prot.sel.prob.UsefulnessCriterionSelectionProblem")
    _M["ucprot"] = imp("pybrops.breed.prot.sel.UsefulnessCriterionSelection")
    _M["pgmat"] = imp("pybrops.popgen.gmat.DensePhasedGenotypeMatrix").DensePhasedGenotypeMatrix
    _M["algmod"] = imp("pybrops.model.gmod.DenseAdditiveLinearGenomicModel").DenseAdditiveLinearGenomicModel
    hm = imp("pybrops.popgen.gmap.HaldaneMapFunction")
    _M["haldane"] = hm.HaldaneMapFunction
    _M["haldane_f"] = hm.HaldaneMapFunction

    class Pow2MapFunction(hm.HaldaneMapFunction):
        """Haldane's map function in the unit ln2/2 Morgan: r(d) = (1 - 2^(-2d))/2.  For positions
        that are multiples of 1/2 every intermediate value is a dyadic rational, so the float
        computation of the code under test is exact and can be compared with the Lean model at Rat."""
        def mapfn(self, d):
            return 0.5 * (1.0 - numpy.exp2(-2.0 * d))

        def invmapfn(self, r):
            return -0.5 * numpy.log2(1.0 - 2.0 * r)

    class CapMapFunction(hm.HaldaneMapFunction):
        """r(d) = min(d, 1/2): a rational map function that is NOT multiplicative (functional
        correspondence only; equality with the enumeration is not claimed for it)."""
        def mapfn(self, d):
            return numpy.minimum(d, 0.5)

        def invmapfn(self, r):
            return r

    _M["pow2"] = Pow2MapFunction
    _M["cap"] = CapMapFunction
    return _M


class _NumpyProxy:
    """stands in for the module global `numpy` of a genic-variance module during one call:
    `empty` returns NaN-filled storage (the contract of numpy.empty is `arbitrary contents`), so a
    cell that the code never writes is observable deterministically.  Everything else is numpy."""
    def __getattr__(self, name):
        return getattr(numpy, name)

    @staticmethod
    def empty(shape, dtype=float, **kw):
        a = numpy.empty(shape, dtype=dtype, **kw)
        if numpy.issubdtype(a.dtype, numpy.floating):
            a.fill(POISON)
        return a


@contextlib.contextmanager
def _poisoned(mod):
    old = mod.numpy
    mod.numpy = _NumpyProxy()
    try:
        yield
    finally:
        mod.numpy = old


def _fr(x):
    return F(x) if not isinstance(x, str) else canon.dec(x)


def _is_f(case):
    return case["mapfn"] == "haldane_f"


def _genpos_float(case):
    """the float positions handed to the code under test"""
    if _is_f(case):
        return numpy.array([float(_fr(v)) for v in case["genposf"]], dtype=float)
    g2 = case["genpos2"]
    if case["mapfn"] == "haldane":
        return numpy.array([k * LN2_HALF for k in g2], dtype=float)
    return numpy.array([k / 2.0 for k in g2], dtype=float)


def _nmark(case):
    return sum(case["chr_sizes"])


def _chr_of(case):
    out, st = [], 0
    for s in case["chr_sizes"]:
        out.append([st, st + s])
        st += s
    return out


def _chr_index(case):
    out = []
    for ci, s in enumerate(case["chr_sizes"]):
        out.extend([ci] * s)
    return out


def _relayout(a, how):
    """same values, another memory layout"""
    if how == "F":
        return numpy.asfortranarray(a)
    if how == "view":                      # non-contiguous view into a larger buffer with junk in between
        shape = list(a.shape)
        shape[-1] *= 2
        base = numpy.full(shape, 1, dtype=a.dtype)
        base[..., ::2] = a
        base[..., 1::2] = (a * 3 + 1).astype(a.dtype)
        return base[..., ::2]
    if how == "rev":                       # negative strides
        return a[..., ::-1].copy()[..., ::-1]
    return a


def _build(case, perm=None, grouped=True, genpos=True):
    m = _mods()
    geno = numpy.array(case["geno"], dtype="int8")            # (2, n, p)
    n, p = geno.shape[1], geno.shape[2]
    taxa = numpy.array([f"tx{7 * i + 3}" for i in range(n)], dtype=object)
    taxa_grp = numpy.array([(i * 5) % 3 for i in range(n)], dtype=int)
    if perm is not None:
        geno = geno[:, perm, :]
        taxa = taxa[perm]
        taxa_grp = taxa_grp[perm]
    labels = case.get("chr_labels") or list(range(1, len(case["chr_sizes"]) + 1))
    chrgrp = numpy.concatenate([numpy.repeat(lb, s) for lb, s in zip(labels, case["chr_sizes"])]).astype(int)
    lay = case.get("layout") or {}
    pg = m["pgmat"](mat=geno.copy(), taxa=taxa, taxa_grp=None if case.get("taxa_grp_none") else taxa_grp,
                    vrnt_chrgrp=chrgrp,
                    vrnt_phypos=numpy.arange(p) * 10 + 1,
                    vrnt_name=numpy.array([f"snp{i}" for i in range(p)], dtype=object),
                    vrnt_genpos=_genpos_float(case) if genpos else None)
    if grouped:
        pg.group_vrnt()
    if lay.get("geno"):
        pg.mat = _relayout(pg.mat, lay["geno"])
    if lay.get("genpos") and genpos:
        pg.vrnt_genpos = _relayout(pg.vrnt_genpos, lay["genpos"])
    u = numpy.array([[float(_fr(v)) for v in row] for row in case["u"]], dtype=float)
    if lay.get("u"):
        u = _relayout(u, lay["u"])
    nt = u.shape[1]
    beta = numpy.array([[float(_fr(v)) for v in case.get("beta", [0] * nt)]], dtype=float)
    gm = m["algmod"](beta=beta, u_misc=None, u_a=u,
                     trait=numpy.array([f"tr{i}" for i in range(nt)], dtype=object))
    mf = m[case["mapfn"]]()
    return pg, gm, mf


def _nself_arg(ns, form=None):
    if ns is None:
        return {"float_inf": float("inf"), "math_inf": math.inf, "np_f64_inf": numpy.float64("inf")}.get(form, numpy.inf)
    if form == "npint":
        return numpy.int64(ns)
    if form == "npint8":
        return numpy.int8(ns)
    return int(ns)


def _mem_kw(mem, form=None):
    if mem == "default":
        return {}
    if mem is not None and form == "npint":
        return {"mem": numpy.int64(mem)}
    return {"mem": mem}


def _mem_model(mem):
    return DEFAULT_MEM if mem == "default" else mem


def _call_vmat(case, pg, gm, mf, mem, fobj=None):
    """one matrix request; `fobj` = factory instance to reuse (histories)"""
    m = _mods()
    sch = case["scheme"]
    ns = _nself_arg(case["nself"], case.get("nself_form"))
    via = case["via"]
    kw = _mem_kw(mem, case.get("mem_form"))
    nm, npg = int(case.get("nmating", 1)), int(case.get("nprogeny", 10))      # stored only; no influence on the variance
    if case["cov"]:
        cls = m["cov_" + sch]
        if via == "gmod":
            return cls.from_gmod(gm, pg, nm, npg, ns, mf, **kw)
        return cls.from_algmod(gm, pg, nm, npg, ns, mf, **kw)
    cls = m["var_" + sch]
    if via == "gmod":
        return cls.from_gmod(gm, pg, nm, npg, ns, mf, **kw)
    if via == "factory":
        return (fobj or m["fcty_" + sch]()).from_gmod(gm, pg, nm, npg, ns, mf, **kw)
    if via == "factory_algmod":
        return (fobj or m["fcty_" + sch]()).from_algmod(gm, pg, nm, npg, ns, mf, **kw)
    return cls.from_algmod(gm, pg, nm, npg, ns, mf, **kw)


def _call_genic(case, pg, gm, fobj=None):
    m = _mods()
    sch, via = case["scheme"], case["via"]
    cls = m["genic_" + sch]
    with _poisoned(m["genic_mod_" + sch]):
        if via == "algmod":
            return cls.from_algmod(gm, pg, 10, mem=case["mem"])
        if via == "gmod":
            return cls.from_gmod(gm, pg, 10, mem=case["mem"])
        if via == "gmod_nomem":
            return cls.from_gmod(gm, pg, 10)
        if via == "factory_algmod":
            return (fobj or m["genic_fcty_two"]()).from_algmod(gm, pg, 10)
        return (fobj or m["genic_fcty_two"]()).from_gmod(gm, pg, 10)


def _call_uc(case, pg, gm, mf, fobj=None):
    m = _mods()
    sch = case["scheme"]
    cname = case.get("uc_class", "Subset")
    cls = getattr(m["ucmod"], f"UsefulnessCriterion{cname}MateSelectionProblem")
    npar = NPARENT[sch]
    xm = cls._calc_xmap(pg.ntaxa, npar, case["unique_parents"])
    if case.get("uc_method") == "xmap_custom":
        xm = numpy.array(case["xmap"], dtype=int)          # caller-supplied configurations: any order, repeats allowed
    k = len(xm)
    if cname == "Subset":
        space = dict(ndecn=1, decn_space=numpy.arange(k), decn_space_lower=None, decn_space_upper=None)
    elif cname == "Real":
        space = dict(ndecn=k, decn_space=numpy.stack([numpy.zeros(k), numpy.ones(k)]),
                     decn_space_lower=numpy.zeros(k), decn_space_upper=numpy.ones(k))
    else:
        space = dict(ndecn=k, decn_space=numpy.stack([numpy.zeros(k, dtype=int), numpy.ones(k, dtype=int)]),
                     decn_space_lower=numpy.zeros(k, dtype=int), decn_space_upper=numpy.ones(k, dtype=int))
    kw = dict(nparent=npar, ncross=int(case.get("nmating", 1)), nprogeny=int(case.get("nprogeny", 10)), nself=int(case["nself"]),
              upper_percentile=float(_fr(case["upper_percentile"])), vmatfcty=fobj or m["fcty_" + sch](), gmapfn=mf,
              unique_parents=bool(case["unique_parents"]), pgmat=pg, gpmod=gm, nobj=len(case["u"][0]), **space)
    if case.get("uc_method") == "protocol":
        # the selection protocol builds the problem itself (cross map, median of per-cross nmating / nprogeny arrays)
        pcls = getattr(m["ucprot"], f"UsefulnessCriterion{cname}Selection")
        npg = int(case.get("nprogeny", 10))
        prot = pcls(ntrait=len(case["u"][0]), nself=int(case["nself"]), upper_percentile=float(_fr(case["upper_percentile"])),
                    vmatfcty=kw["vmatfcty"], gmapfn=mf, unique_parents=bool(case["unique_parents"]), ncross=1, nparent=npar,
                    nmating=numpy.array([1, 3, 3]), nprogeny=numpy.array([max(npg - 1, 1), npg, npg + 30]), nobj=len(case["u"][0]))
        prob = prot.problem(pg, None, None, None, gm, 0, 0)
    elif case.get("uc_method") in ("xmap", "xmap_custom"):
        prob = cls.from_pgmat_gpmod_xmap(xmap=xm, **kw)
    else:
        prob = cls.from_pgmat_gpmod(**kw)
    return {"uc": canon.enc(prob.ucmat), "xmap": [[int(v) for v in row] for row in prob.decn_space_xmap]}


# --------------------------------------------------------------------------------------------
# exact enumeration (Spec oracle, Python side)
# --------------------------------------------------------------------------------------------
class _Enum:
    """Distribution of the final doubled-haploid gamete of a cross scheme, obtained by pushing the
    distribution of genotypes through every meiosis (all 2^m crossover masks each, probabilities
    `xs`), over Fractions (exact) or floats.  Independent of the closed formulas under test."""

    def __init__(self, xs, exact=True):
        self.conv = F if exact else float
        self.xs = [self.conv(x) for x in xs]
        self.m = len(xs)
        self.symmetric = bool(self.xs) and self.xs[0] * 2 == 1      # random start phase: (h0,h1) ~ (h1,h0)
        one = self.conv(1)
        self.masks = []
        for bits in itertools.product((0, 1), repeat=self.m):
            pr = one
            for b, x in zip(bits, self.xs):
                pr = pr * (x if b else (one - x))
            if pr:
                ph, acc = [], 0
                for b in bits:
                    acc ^= b
                    ph.append(acc)
                self.masks.append((tuple(ph), pr))
        self._g = {}

    def gamete(self, h0, h1):
        key = (h0, h1)
        d = self._g.get(key)
        if d is None:
            d = {}
            for ph, pr in self.masks:
                g = tuple(h1[j] if ph[j] else h0[j] for j in range(self.m))
                d[g] = d.get(g, 0) + pr
            self._g[key] = d
        return d

    def ssd(self, state, n):
        """state: {(h0,h1): prob}; n generations of selfing (single-seed descent), then the DH gamete"""
        for _ in range(n):
            new = {}
            for (h0, h1), p in state.items():
                G = self.gamete(h0, h1)
                for g1, p1 in G.items():
                    pp = p * p1
                    for g2, p2 in G.items():
                        k = (g1, g2) if (g1 <= g2 or not self.symmetric) else (g2, g1)      # unordered genotype: same gametes
                        new[k] = new.get(k, 0) + pp * p2
            state = new
        fin = {}
        for (h0, h1), p in state.items():
            for g, q in self.gamete(h0, h1).items():
                fin[g] = fin.get(g, 0) + p * q
        return fin

    def scheme(self, scheme, haps, n):
        haps = [tuple(int(v) for v in h) for h in haps]
        one = self.conv(1)
        if scheme == "two":
            st = {(haps[0], haps[1]): one}
        elif scheme == "three":
            st = {(haps[0], g): p for g, p in self.gamete(haps[1], haps[2]).items()}
        else:
            A = self.gamete(haps[0], haps[1])
            B = self.gamete(haps[2], haps[3])
            st = {}
            for a, pa in A.items():
                for b, pb in B.items():
                    st[(a, b)] = st.get((a, b), 0) + pa * pb
        return self.ssd(st, n)

    def moments(self, scheme, haps, n):
        """mean vector and covariance matrix of the final gamete's alleles"""
        fin = self.scheme(scheme, haps, n)
        m = self.m
        mean = [sum(p * g[i] for g, p in fin.items()) for i in range(m)]
        cov = [[sum(p * g[i] * g[j] for g, p in fin.items()) - mean[i] * mean[j] for j in range(m)]
               for i in range(m)]
        return mean, cov


class _PairOracle:
    """moments of the final gamete's alleles by enumeration on one locus / on every pair of loci"""

    def __init__(self, exact):
        self.exact = exact
        self.half = HALF if exact else 0.5
        self.en = {}
        self.memo = {}

    def _enum(self, c):
        e = self.en.get(c)
        if e is None:
            e = _Enum([self.half] if c is None else [self.half, (1 - c) / 2], exact=self.exact)
            self.en[c] = e
        return e

    def single(self, esch, alle, gens):
        """(mean, variance) of the allele at one locus; `alle` = the parental alleles"""
        key = (esch, None, alle, gens)
        r = self.memo.get(key)
        if r is None:
            mean, cov = self._enum(None).moments(esch, [(a,) for a in alle], gens)
            r = (mean[0], cov[0][0])
            self.memo[key] = r
        return r

    def pair(self, esch, alle_i, alle_j, c, gens):
        """covariance of the alleles at two loci with 1 - 2 r_ij = c"""
        key = (esch, c, alle_i, alle_j, gens)
        r = self.memo.get(key)
        if r is None:
            _, cov = self._enum(c).moments(esch, list(zip(alle_i, alle_j)), gens)
            r = cov[0][1]
            self.memo[key] = r
            self.memo[(esch, c, alle_j, alle_i, gens)] = r
        return r


INF_GENERATIONS = 34       # full enumeration: (1/2)^34 < 1e-10
INF_GENERATIONS_PAIR = 60  # pair oracle: (1/2)^60 < 1e-18


def _c_fun(case):
    """(i, j) -> 1 - 2 r_ij for two markers of one linkage group (exact Fraction, or float for haldane_f)"""
    if _is_f(case):
        gf = [float(_fr(v)) for v in case["genposf"]]
        return lambda i, j: math.exp(-2.0 * abs(gf[i] - gf[j]))
    g2 = case["genpos2"]
    return lambda i, j: F(1, 2 ** abs(g2[i] - g2[j]))


def _rmat_table(case):
    """haldane_f: the recombination matrix 0.5 (1 - exp(-2 |g_i - g_j|)) in floats, encoded exactly"""
    gf = [float(_fr(v)) for v in case["genposf"]]
    p = len(gf)
    return [[canon.enc(0.5 * (1.0 - math.exp(-2.0 * abs(gf[i] - gf[j])))) for j in range(p)] for i in range(p)]


def _sorted_order(case):
    """marker order by (linkage group, position); identity when already sorted"""
    pos = [float(_fr(v)) for v in case["genposf"]] if _is_f(case) else list(case["genpos2"])
    ci = _chr_index(case)
    return sorted(range(len(pos)), key=lambda k: (ci[k], pos[k], k))


def _xs_sorted(case, order):
    """per-marker crossover probabilities of the meiosis model for the markers taken in `order`
    (1/2 at linkage-group starts, the map function of the adjacent distance elsewhere)"""
    ci = _chr_index(case)
    c = _c_fun(case)
    half = 0.5 if _is_f(case) else HALF
    xs = []
    for a, k in enumerate(order):
        if a == 0 or ci[order[a - 1]] != ci[k]:
            xs.append(half)
        else:
            xs.append((1 - c(order[a - 1], k)) / 2)
    return xs


def _xs_of(case):
    return _xs_sorted(case, list(range(_nmark(case))))


def _tuple_haps(scheme, geno, tup):
    g0, g1 = geno[0], geno[1]
    if scheme == "dihybrid":
        f, m = tup
        return [g1[f], g0[f], g1[m], g0[m]], "four"
    return [g0[t] for t in tup], scheme


def _all_tuples(scheme, n):
    return list(itertools.product(range(n), repeat=NPARENT[scheme]))


def _get(M, tup):
    x = M
    for t in tup:
        x = x[t]
    return x


def _is_skipped_diagonal(scheme, tup):
    """cells the lower-triangle loops never visited before fix D33"""
    return tup[-1] == tup[-2]


def _U(case):
    return [[_fr(v) for v in row] for row in case["u"]]


def _scale(U, s, t):
    """natural magnitude of the (s,t) cell: 4 sum_i |u_is| sum_j |u_jt| bounds every term of the double sum"""
    return 4 * sum(abs(r[s]) for r in U) * sum(abs(r[t]) for r in U)


def _tol(case):
    """tolerance relative to `_scale`.  The code's float rounding is ~1e-15 of the scale for the sizes used here
    (<= 40 markers); at positions k*ln2/2 the rounding of the position itself enters exp: 4e-15 per map unit."""
    if case["mapfn"] == "haldane":
        mx = max([abs(k) for k in case["genpos2"]] + [1]) * LN2_HALF
        return 1e-12 + 4e-15 * mx
    return 1e-12


def _near(a, b, tol, scale):
    return abs(a - b) <= tol * scale


def _full_ok(case, linkage_free=False):
    p = _nmark(case)
    ns = case.get("nself", 0)
    if p > 5:
        return False
    if ns is None:
        return False                       # the pair oracle reaches deeper cheaply
    return ns <= 1 or (ns <= 3 and p <= 4)


_ORACLE_MEMO = {}


def _oracle_matrix(case, linkage_free=False, force_pair=False):
    """memoised `_oracle_matrix_raw` (a pure function of the state; the self-test evaluates each case once per mutant)"""
    import json
    key = json.dumps([case.get(k) for k in ("scheme", "geno", "u", "chr_sizes", "genpos2", "genposf", "mapfn", "nself")]
                     + [linkage_free, force_pair], sort_keys=True, default=str)
    if key not in _ORACLE_MEMO:
        if len(_ORACLE_MEMO) > 5000:
            _ORACLE_MEMO.clear()
        _ORACLE_MEMO[key] = _oracle_matrix_raw(case, linkage_free, force_pair)
    return _ORACLE_MEMO[key]


def _oracle_matrix_raw(case, linkage_free=False, force_pair=False):
    """{tuple: (mean per trait, covariance matrix over traits)} by exhaustive enumeration; None when the map
    function is not multiplicative (cap)"""
    if case["mapfn"] == "cap" and not linkage_free:
        return None
    p = _nmark(case)
    sch = case["scheme"]
    n = len(case["geno"][0])
    U = _U(case)
    nt = len(U[0])
    ns = case.get("nself", 0)
    # exact Fractions for shallow selfing at dyadic recombination rates; floats for deep selfing / nself = inf
    # (the Fractions of 20-60 generations have thousands of digits) and for arbitrary float positions
    exact = linkage_free or (not _is_f(case) and ns is not None and ns <= 3)
    out, cache = {}, {}
    if _full_ok(case) and not force_pair:
        order = _sorted_order(case)
        xs = [HALF] * p if linkage_free else _xs_sorted(case, order)
        en = _Enum(xs, exact=exact)
        Uo = [U[k] for k in order]
        for tup in _all_tuples(sch, n):
            haps, esch = _tuple_haps(sch, case["geno"], tup)
            haps = [[h[k] for k in order] for h in haps]
            key = (esch, tuple(tuple(h) for h in haps))
            if key not in cache:
                mean, cov = en.moments(esch, haps, ns)
                C = [[4 * sum(Uo[i][s] * Uo[j][t] * cov[i][j] for i in range(p) for j in range(p))
                      for t in range(nt)] for s in range(nt)]
                mu = [2 * sum(Uo[i][t] * mean[i] for i in range(p)) for t in range(nt)]
                cache[key] = (mu, C)
            out[tup] = cache[key]
        return out
    gens = INF_GENERATIONS_PAIR if ns is None else ns
    po = _PairOracle(exact)
    cf = _c_fun(case) if not linkage_free else None
    ci = _chr_index(case)
    zero = 0 if exact else 0.0
    for tup in _all_tuples(sch, n):
        haps, esch = _tuple_haps(sch, case["geno"], tup)
        key = (esch, tuple(tuple(h) for h in haps))
        if key not in cache:
            cols = [tuple(int(h[i]) for h in haps) for i in range(p)]
            mean = [None] * p
            cov = [[zero] * p for _ in range(p)]
            for i in range(p):
                mean[i], cov[i][i] = po.single(esch, cols[i], gens)
                for j in range(i):
                    c = zero if (linkage_free or ci[i] != ci[j]) else cf(i, j)
                    v = po.pair(esch, cols[i], cols[j], c, gens)
                    cov[i][j] = cov[j][i] = v
            C = [[4 * sum(U[i][s] * U[j][t] * cov[i][j] for i in range(p) for j in range(p))
                  for t in range(nt)] for s in range(nt)]
            mu = [2 * sum(U[i][t] * mean[i] for i in range(p)) for t in range(nt)]
            cache[key] = (mu, C)
        out[tup] = cache[key]
    return out


def _identical(scheme, geno, tup):
    if scheme == "dihybrid":
        f, m = tup
        hs = [geno[0][f], geno[1][f], geno[0][m], geno[1][m]]
    else:
        hs = [geno[0][t] for t in tup]
    return all(h == hs[0] for h in hs)


# --------------------------------------------------------------------------------------------
# histories on one set of objects: pure replay of the steps on the JSON state
# --------------------------------------------------------------------------------------------
STATE_KEYS = ("geno", "u", "chr_sizes", "genpos2", "genposf", "mapfn", "beta", "chr_labels")


def _hist_subs(case):
    """[(step index, sub-case in force at that call)] for every call / uc step"""
    st = {k: copy.deepcopy(case[k]) for k in STATE_KEYS if k in case}
    n = len(st["geno"][0])
    out = []
    for ix, step in enumerate(case["steps"]):
        op = step["op"]
        if op in ("call", "uc"):
            sub = copy.deepcopy(st)
            sub.update(scheme=case["scheme"], cov=bool(case.get("cov")) and op == "call", via=step.get("via", case.get("via", "factory")),
                       mem=step.get("mem"), mem2=None, nself=step.get("nself", 0), perm=list(range(n)),
                       mapfn=step.get("mapfn", st["mapfn"]))
            if op == "uc":
                sub.update(kind="uc", unique_parents=step["unique_parents"], upper_percentile=step["upper_percentile"],
                           uc_class=step.get("uc_class", "Subset"), uc_method=step.get("uc_method", "gpmod"))
                sub.setdefault("beta", [0] * len(st["u"][0]))
            else:
                sub["kind"] = case.get("family", "vmat")
            out.append((ix, sub))
        elif op == "set_genpos":
            st["genpos2"] = list(step["genpos2"])
        elif op == "flip":
            t, i = step["taxon"], step["marker"]
            phases = (0, 1) if case["scheme"] != "dihybrid" else (step.get("phase", 0),)
            for ph in phases:
                st["geno"][ph][t][i] = 1 - st["geno"][ph][t][i]
        elif op == "set_u":
            st["u"][step["i"]][step["t"]] = step["v"]
        elif op == "mutres":
            pass
        else:
            raise ValueError(op)
    return out


# --------------------------------------------------------------------------------------------
class C12(Prop):
    PID = "C12"
    MODULE = "PybropsModel.Props.C12"
    N_QUICK = 170
    N_THOROUGH = 4000
    CORRESPONDENCE = "functional"
    RULE = ("kind vmat (45 %): scheme in two/three/four/dihybrid x {variance, covariance} x {from_algmod, from_gmod, factory, "
            "factory.from_algmod}; 2-4 taxa with forced genetically identical pairs, inbred parents (arbitrary phased genotypes for "
            "dihybrid), 1-3 linkage groups of 1-4 markers, optional large position offsets per group (10.5, 250, 25000 map units) and "
            "non-consecutive / negative group labels, ties, integer / half-integer effects for 1-3 traits, mem in {1,2,3,7,None,"
            "group size, default}, nself in {0..3, inf} and deep (4..20), numpy / float forms of nself and mem, Fortran-ordered and "
            "non-contiguous inputs, a taxa permutation; map function pow2 (exact), the real HaldaneMapFunction at positions k*ln2/2, "
            "the real HaldaneMapFunction at arbitrary float positions (spacings 0, 1e-8, 1e-5, 1e-3 .. 40 Morgan, unsorted, offsets up "
            "to 1e9; model receives the r table) or cap (correspondence only).  kind hist (12 %): ONE factory / pgmat / gmod object "
            "set, 2-4 requests with map function / positions / genotypes / effects / selfing depth / earlier results changed in "
            "between, every request compared with the enumeration of the state in force, earlier results re-read at the end.  kinds "
            "genic, uc (all four problem classes x both constructors and the four selection protocols' problem()), util (k up to 21, r down to 2^-20), chunks, wide (128-1030 "
            "markers per group, default mem; 4100 markers in the thorough tier), reject make up the rest.  The corpus holds, for "
            "each of the 24 matrix entry points, three stress cases (positions > 10 map units + Fortran order + labels <= 0 + exact "
            "chunk multiples; offsets 1e9 with gaps 0.5 / 1e-5 / 1e-8; 20 selfing generations at tight linkage; nself = inf at tight linkage).  "
            "Round 4: sparse trait-specific effects (a trait without effect on a whole linkage group / anywhere, markers without any effect), "
            "nearly unlinked markers inside a group (1-2r = 2^-17 .. 2^-41; 6-15 Morgan), many taxa (9, 10, 17; 33 thorough; 130 in the corpus: "
            "tuples touching the first 3 / last 6 taxa), 12 linkage groups, 5 traits, linkage groups of exactly 1 and 2 default chunks (1024 / 2048 "
            "markers), usefulness criterion for caller-supplied configurations (any parent order, repeated rows) and for effects of 1e-8 .. 1e4, "
            "genic factory.from_algmod; rejected inputs are judged by the property only (a rejection is never demanded).  "
            "All index tuples (self hybrids included) are compared with the "
            "enumeration.  Non-trivial = vmat/uc/hist case with >= 2 genetically distinct parents, a group with >= 2 segregating "
            "linked markers and (vmat) a chunk size smaller than that group; genic case with a segregating marker; util with "
            "0 < r < 1/2; chunks with >= 2 chunks")
    TRUSTED = [
        "numpy.exp in HaldaneMapFunction.mapfn (compared with tolerance against 2^-k at positions k*ln2/2, against math.exp at "
        "arbitrary positions)",
        "the generator of crossover masks delivers independent Bernoulli(xoprob_k) indicators (C02's contract); "
        "the enumeration weights every mask accordingly",
        "pair oracle (deep selfing / many markers / float positions): allele covariances from the enumeration of the two-locus "
        "process per marker pair, summed over pairs; justified by the theorems C12.pair_marginal and Variance.cov_expand "
        "(not trusted: proved), evaluated in floats for nself >= 4 / inf (60 generations) / arbitrary positions",
        "harness instrument: module global `numpy` of the genic classes replaced by a proxy whose `empty` returns "
        "NaN-filled storage (allowed by numpy.empty's contract) so never-written cells are observable",
        "statistics.NormalDist for the selection intensity pdf(ppf(1-p))/p (independent of scipy)",
        "harness instrument (performance only): numpy's OpenBLAS is set to one thread in the checking process",
    ]
    ASSUMPTIONS = [
        "genotypes are coded {0,1} per phase; inbred parents for the two-/three-/four-way schemes",
        "markers are given sorted by chromosome (group_vrnt keeps the order); positions within a group may be unsorted",
        "effects are integers or half-integers (times a power of ten in the magnitude cases); comparison tolerance 1e-10 "
        "(+ 4e-15 * largest position) relative to 4 * sum|u_s| * sum|u_t|",
        "selfing = single-seed descent (one selfed offspring per generation), doubled haploid from one gamete; "
        "nself = inf compared with 60 generations (pair oracle)",
    ]

    # ------------------------------------------------------------------ generation
    def _mk_geno(self, rng, scheme, n, p):
        if scheme == "dihybrid":
            g = [[[rng.randint(0, 1) for _ in range(p)] for _ in range(n)] for _ in range(2)]
            if rng.random() < 0.3:                      # one fully homozygous taxon
                t = rng.randrange(n)
                g[1][t] = list(g[0][t])
        else:
            h = [[rng.randint(0, 1) for _ in range(p)] for _ in range(n)]
            g = [h, [list(r) for r in h]]
        if n >= 2 and rng.random() < 0.35:              # genetically identical pair
            a, b = rng.sample(range(n), 2)
            g[0][b] = list(g[0][a])
            g[1][b] = list(g[1][a])
        return g

    def _mk_layout(self, rng, pmax, offsets=True):
        nchr = rng.choice([1, 1, 2, 2, 3])
        sizes = []
        left = pmax
        for c in range(nchr):
            if left <= 0:
                break
            s = rng.randint(1, min(4, left))
            sizes.append(s)
            left -= s
        g2 = []
        for s in sizes:
            pos = rng.choice([0, 0, 1, 3] + ([21, 40, 500, 50000] if offsets else []))
            for k in range(s):
                if k:
                    pos += rng.choice([0, 1, 1, 1, 2, 2, 3, 5] + ([17, 24, 36] if offsets else []))
                g2.append(pos)
        return sizes, g2

    def _mk_posf(self, rng, sizes, tight=False):
        """arbitrary float positions (Morgan) for the real Haldane function"""
        gaps = [0.0, 1e-8, 1e-5, 1e-3, 0.01, 0.05, 0.1, 0.3] if tight else \
               [0.0, 1e-8, 1e-5, 1e-3, 0.01, 0.1, 0.25, 0.5, 1.0, 3.0, 6.0, 9.0, 12.0, 40.0]
        out = []
        for s in sizes:
            pos = rng.choice([0.0, 0.0, 0.013, 7.5, 12.0, 250.0, 25000.0, 1e9])
            grp = []
            for k in range(s):
                if k:
                    pos = pos + rng.choice(gaps)
                grp.append(pos)
            if s >= 3 and rng.random() < 0.25:          # positions not sorted within the group
                rng.shuffle(grp)
            out.extend(grp)
        return [canon.enc(float(x)) for x in out]

    def _mk_u(self, rng, p, nt, scale=1, sizes=None):
        style = rng.random()
        vals = [-3, -2, -1, 1, 2, 3, 0] if style < 0.6 else [F(-3, 2), F(-1, 2), F(1, 2), 1, 2, F(5, 2), 0]
        rows = [[rng.choice(vals) for _ in range(nt)] for _ in range(p)]
        if sizes is not None and rng.random() < 0.3:
            # sparse, trait-specific architecture: a trait without any effect on a whole linkage group / anywhere,
            # markers without effect on any trait
            st = 0
            for sz in sizes:
                for t in range(nt):
                    if rng.random() < 0.4:
                        for i in range(st, st + sz):
                            rows[i][t] = 0
                st += sz
            if rng.random() < 0.25:
                t = rng.randrange(nt)
                for i in range(p):
                    rows[i][t] = 0
            if rng.random() < 0.3:
                rows[rng.randrange(p)] = [0] * nt
        if scale != 1:
            return [[canon.enc(float(v) * scale) for v in r] for r in rows]
        return [[canon.enc(v) for v in r] for r in rows]

    def _mk_forms(self, rng, c):
        """rarely used argument forms and memory layouts (same values)"""
        if rng.random() < 0.3:
            lay = {}
            if rng.random() < 0.5:
                lay["geno"] = rng.choice(["F", "view", "rev"])
            if rng.random() < 0.5:
                lay["u"] = rng.choice(["F", "view", "rev"])
            if rng.random() < 0.4:
                lay["genpos"] = rng.choice(["view", "rev"])
            if lay:
                c["layout"] = lay
        if rng.random() < 0.25:
            c["nself_form"] = rng.choice(["float_inf", "math_inf", "np_f64_inf"]) if c["nself"] is None else \
                rng.choice(["npint", "npint8"])
        if rng.random() < 0.15 and c.get("mem") not in (None, "default"):
            c["mem_form"] = "npint"
        if rng.random() < 0.2:
            nchr = len(c["chr_sizes"])
            start = rng.choice([-3, 0, 2, 5, 17])
            labs, cur = [], start
            for _ in range(nchr):
                labs.append(cur)
                cur += rng.choice([1, 2, 5, 11])
            c["chr_labels"] = labs
        if rng.random() < 0.1:
            c["taxa_grp_none"] = True
        if rng.random() < 0.3:
            c["nprogeny"] = rng.choice([1, 2, 3, 40])
            c["nmating"] = rng.choice([1, 2, 5])

    def _vmat_case(self, rng, tier, scheme=None, flavour=None):
        scheme = scheme or rng.choice(["two", "two", "three", "three", "four", "dihybrid", "dihybrid"])
        flavour = flavour or rng.choice(["plain"] * 10 + ["deep"] * 4 + ["float"] * 6 + ["taxa"])
        n = {"two": rng.choice([2, 3, 4]), "three": rng.choice([2, 3]), "four": rng.choice([2, 2, 3]),
             "dihybrid": rng.choice([1, 2, 3])}[scheme]
        pmax = {"two": 6, "three": 5, "four": 4, "dihybrid": 5}[scheme]
        if flavour == "taxa":
            # many taxa (past 8 / 16 / 32: blocked or vectorised taxa loops), few markers so that the enumeration per
            # distinct haplotype combination stays cheap
            big = [33] if tier == "thorough" else []
            n = {"two": rng.choice([9, 10, 17] + big), "dihybrid": rng.choice([9, 10, 17] + big), "three": rng.choice([5, 9]),
                 "four": 5}[scheme]
            pmax = 3
        if flavour == "deep":
            pmax = 3
            if scheme in ("three", "four"):
                n = 2
            n = min(n, 3)
        sizes, g2 = self._mk_layout(rng, rng.randint(2, pmax))
        p = len(g2)
        nt = rng.choice([1, 2, 2, 3]) if scheme != "four" else rng.choice([1, 2])
        cov = rng.random() < 0.35
        via = rng.choice(["algmod", "gmod"]) if cov else rng.choice(["algmod", "gmod", "factory", "factory_algmod"])
        mems = [1, 2, 3, 7, None, "default", max(sizes)]
        mem = rng.choice([1, 2]) if rng.random() < 0.45 else rng.choice(mems)
        mem2 = rng.choice([x for x in mems if x != mem])
        nself = rng.choice([0, 0, 0, 1, 1, 2, 3, None])
        if nself in (2, 3) and p > 4:
            nself = 1
        mapfn = rng.choice(["pow2", "pow2", "pow2", "haldane", "cap"])
        c = {"kind": "vmat", "scheme": scheme, "cov": cov, "via": via, "geno": self._mk_geno(rng, scheme, n, p),
             "u": self._mk_u(rng, p, nt, sizes=sizes), "chr_sizes": sizes, "genpos2": g2, "mapfn": mapfn,
             "mem": mem, "mem2": mem2, "nself": nself}
        if flavour == "taxa":
            c["nself"] = rng.choice([0, 0, 1])
            c["mapfn"] = "pow2"
        if flavour == "deep":
            c["nself"] = rng.choice([4, 5, 6, 7, 7, 8, 8, 10, 20, None])
            c["mapfn"] = rng.choice(["pow2", "haldane_f", "haldane_f"])
        if flavour == "float":
            c["mapfn"] = "haldane_f"
            if rng.random() < 0.3:
                c["u"] = self._mk_u(rng, p, nt, scale=rng.choice([1e-4, 1e4, 1e-8]), sizes=sizes)
        if c["mapfn"] == "haldane_f":
            c["genposf"] = self._mk_posf(rng, sizes, tight=(flavour == "deep"))
        perm = list(range(n))
        rng.shuffle(perm)
        c["perm"] = perm
        self._mk_forms(rng, c)
        return c

    def _genic_case(self, rng):
        scheme = rng.choice(["two", "two", "dihybrid", "dihybrid", "three", "three", "four"])
        n = rng.choice([2, 3, 4]) if scheme in ("two", "dihybrid") else rng.choice([2, 3]) if scheme == "three" else 2
        sizes, g2 = self._mk_layout(rng, rng.randint(1, 6))
        p = len(g2)
        nt = rng.choice([1, 2, 3])
        via = rng.choice(["algmod", "gmod", "gmod_nomem"] + (["factory", "factory_algmod"] if scheme == "two" else []))
        c = {"kind": "genic", "scheme": scheme, "via": via, "geno": self._mk_geno(rng, scheme, n, p),
             "u": self._mk_u(rng, p, nt, sizes=sizes), "chr_sizes": sizes, "genpos2": g2, "mapfn": "pow2", "mem": rng.choice([1, 2, 1000])}
        if rng.random() < 0.3:
            c["layout"] = {"geno": rng.choice(["F", "view", "rev"]), "u": rng.choice(["F", "view", None])}
        return c

    def _uc_case(self, rng):
        c = self._vmat_case(rng, "quick", scheme=rng.choice(["two", "two", "three", "four", "dihybrid"]), flavour="plain")
        c["kind"] = "uc"
        c["cov"] = False
        c["nself"] = rng.choice([0, 0, 1, 2, 4, 7])
        if c["nself"] >= 4 and _nmark(c) > 3:
            c["nself"] = 1
        c["mapfn"] = rng.choice(["pow2", "haldane"])
        nt = len(c["u"][0])
        c["beta"] = [canon.enc(rng.choice([0, 1, -2, F(3, 2), 10, 1000])) for _ in range(nt)]
        c["unique_parents"] = rng.random() < 0.6
        c["upper_percentile"] = rng.choice(["1/10", "1/4", "1/2", "1/20", "1/1000", "9/10"])
        c["uc_class"] = rng.choice(UC_CLASSES)
        c["uc_method"] = rng.choice(["gpmod", "xmap", "protocol", "xmap_custom"])
        for k in ("via", "mem", "mem2", "perm", "nself_form", "mem_form"):
            c.pop(k, None)
        n = len(c["geno"][0])
        if c["unique_parents"] and n < NPARENT[c["scheme"]]:
            c["unique_parents"] = False
        if c["uc_method"] == "xmap_custom":
            # configurations as a caller may list them: any parent order (descending too), repeated rows, selfs
            npar = NPARENT[c["scheme"]]
            c["xmap"] = [[rng.randrange(n) for _ in range(npar)] for _ in range(rng.randint(1, 6))]
            c["xmap"].append(sorted(c["xmap"][0], reverse=True))
            c["unique_parents"] = False
        if rng.random() < 0.2:
            # tiny / large effect scales: variances of 1e-16 .. 1e8 next to means of any size
            sc = rng.choice([1e-8, 1e-5, 1e4])
            c["u"] = [[canon.enc(float(_fr(v)) * sc) for v in row] for row in c["u"]]
            if sc < 1:
                c["beta"] = [canon.enc(float(_fr(v)) * sc) for v in c["beta"]]
        return c

    def _util_case(self, rng):
        fn = rng.choice(["rprob_filial", "cov_D1s", "cov_D2s", "cov_D1st", "cov_D2st"])
        r = [canon.enc(rng.choice([0, HALF, F(1, 4), F(1, 8), F(3, 8), F(7, 16), F(1, 32), F(5, 16), F(1, 1024), F(1, 2 ** 20)]))
             for _ in range(rng.randint(1, 5))]
        ns = rng.choice([0, 1, 2, 3, 5, 6, 7, 8, 9, 10, 20, None])
        if fn == "rprob_filial":
            ns = rng.choice([1, 2, 3, 4, 6, 7, 8, 9, 11, 21, None])
        t = rng.choice([0, 0, 1, 2, 3]) if fn.endswith("st") else 0
        return {"kind": "util", "fn": fn, "r": r, "nself": ns, "t": t}

    def _chunks_case(self, rng):
        lst = rng.randint(0, 6)
        step = rng.choice([1, 2, 3, 4, 7, 12, 13, 1024])
        ln = rng.choice([0, 1, 2, 3, 4, 5, 6, 7, 8, 9, 12, step, 2 * step, 3 * step, 2 * step + 1, max(step - 1, 0)])
        return {"kind": "chunks", "lst": lst, "lsp": lst + ln, "step": step}

    def _reject_case(self, rng):
        c = self._vmat_case(rng, "quick", scheme=rng.choice(["two", "two", "three", "dihybrid"]), flavour="plain")
        c["kind"] = "reject"
        c["cov"] = False
        c["mapfn"] = "pow2"
        c["variant"] = rng.choice(["ungrouped", "no_genpos", "mem_zero", "nself_negative", "valid"])
        c["nself"] = rng.choice([0, 1])
        c["mem"] = rng.choice([1, 2, None])
        for k in ("mem2", "perm", "via", "layout", "nself_form", "mem_form", "chr_labels", "taxa_grp_none"):
            c.pop(k, None)
        return c

    def _hist_case(self, rng):
        family = rng.choice(["vmat"] * 5 + ["genic"])
        scheme = rng.choice(["two", "two", "two", "three", "four", "dihybrid"])
        if family == "genic":
            scheme = rng.choice(["two", "two", "dihybrid", "three"])
        n = {"two": rng.choice([2, 3]), "three": 2, "four": 2, "dihybrid": rng.choice([1, 2])}[scheme]
        if family == "genic" and scheme == "three":
            n = 2
        sizes, g2 = self._mk_layout(rng, rng.randint(2, 4), offsets=False)
        p = len(g2)
        nt = rng.choice([1, 2])
        cov = family == "vmat" and rng.random() < 0.25
        vias = ["algmod", "gmod"] if cov else ["factory", "factory", "factory", "gmod", "algmod", "factory_algmod"]
        if family == "genic":
            vias = ["algmod", "gmod"] + (["factory", "factory"] if scheme == "two" else [])
        via = rng.choice(vias)
        c = {"kind": "hist", "family": family, "scheme": scheme, "cov": cov, "via": via,
             "geno": self._mk_geno(rng, scheme, n, p), "u": self._mk_u(rng, p, nt), "chr_sizes": sizes,
             "genpos2": g2, "mapfn": rng.choice(["pow2", "pow2", "cap", "haldane"])}
        if family == "genic":
            c["mapfn"] = "pow2"
        ns0 = rng.choice([0, 0, 1, 2])
        mem0 = rng.choice([None, 1, 2, "default"])

        def call(**kw):
            d = {"op": "call", "nself": ns0, "mem": mem0}
            if family == "genic":
                d = {"op": "call", "mem": rng.choice([1, 2, 1000])}
            d.update(kw)
            return d

        def change():
            opts = ["flip", "flip", "set_u"]
            if family == "vmat":
                opts += (["mapfn", "mapfn"] if c["mapfn"] != "haldane" else ["flip"]) + ["set_genpos", "set_genpos", "set_genpos_inplace", "nself", "mutres", "mutres"]
            else:
                opts += ["mutres"]
            return rng.choice(opts)

        steps = [call()]
        cur_map = c["mapfn"]
        for _ in range(rng.choice([1, 1, 2, 3])):
            ch = change()
            kw = {}
            if ch == "flip":
                steps.append({"op": "flip", "taxon": rng.randrange(n), "marker": rng.randrange(p), "phase": rng.randint(0, 1)})
            elif ch == "set_u":
                steps.append({"op": "set_u", "i": rng.randrange(p), "t": rng.randrange(nt), "v": canon.enc(rng.choice([4, -5, F(7, 2)]))})
            elif ch in ("set_genpos", "set_genpos_inplace"):
                _, g2n = self._mk_layout(rng, p, offsets=False)
                st, newg = 0, []
                for s in sizes:                      # new positions, same linkage-group sizes
                    pos = rng.choice([0, 2, 4])
                    for k in range(s):
                        if k:
                            pos += rng.choice([0, 1, 2, 4])
                        newg.append(pos)
                steps.append({"op": "set_genpos", "genpos2": newg, "inplace": ch.endswith("inplace")})
            elif ch == "mapfn":
                cur_map = "cap" if cur_map == "pow2" else "pow2"
                kw["mapfn"] = cur_map
            elif ch == "nself":
                kw["nself"] = rng.choice([x for x in [0, 1, 2, 3, None] if x != ns0])
            elif ch == "mutres":
                ncalls = sum(1 for s in steps if s["op"] == "call")
                steps.append({"op": "mutres", "which": rng.randrange(ncalls), "how": rng.choice(["scale", "fill", "reorder"])})
            if cur_map != c["mapfn"] and "mapfn" not in kw:
                kw["mapfn"] = cur_map
            if family == "vmat" and not cov and via.startswith("factory") and rng.random() < 0.3:
                steps.append({"op": "uc", "nself": ns0 if ns0 is not None else 1, "mapfn": cur_map if cur_map != "cap" else "pow2",
                              "unique_parents": n >= NPARENT[scheme] and rng.random() < 0.5,
                              "upper_percentile": rng.choice(["1/10", "1/4"]), "uc_class": rng.choice(UC_CLASSES),
                              "uc_method": rng.choice(["gpmod", "xmap", "protocol"])})
            else:
                steps.append(call(**kw))
        c["steps"] = steps
        return c

    def _wide_case(self, rng, p=None, tier="quick", scheme=None, cov=None):
        """one long linkage group, two taxa with complementary genotypes (a single parental allele pattern per marker, so
        that the per-distance pair enumeration stays cheap)"""
        p = p or rng.choice([128, 130, 200, 1030, 1030, 2048] + ([4100, 4096] if tier == "thorough" else []))
        scheme = scheme or rng.choice(SCHEMES)
        cov = (rng.random() < 0.4) if cov is None else cov
        if p > 2048:
            scheme = scheme if scheme != "four" else "three"
            cov = False
        elif p > 1000 and tier != "thorough":                      # keep the every-commit tier fast
            scheme = scheme if scheme in ("two", "dihybrid") else "two"
            cov = False
        gap = rng.choice([1e-3, 0.01, 0.0005])
        posf = [canon.enc(float(k * gap)) for k in range(p)]
        ones, zeros = [1] * p, [0] * p
        geno = [[ones, zeros], [zeros, ones]] if scheme == "dihybrid" else [[ones, zeros], [list(ones), list(zeros)]]
        u = [[canon.enc(rng.choice([1, 1, 1, 2, -1, F(1, 2)]))] for _ in range(p)]
        via = rng.choice(["algmod", "gmod"] + ([] if cov else ["factory", "factory_algmod"]))
        return {"kind": "wide", "scheme": scheme, "cov": cov, "via": via,
                "geno": geno, "u": u, "chr_sizes": [p], "genposf": posf, "mapfn": "haldane_f",
                "mem": "default", "mem2": rng.choice([None, p // 2, 64, p]) if p < 2000 else "same",
                "nself": rng.choice([0, 0, 1, 7]) if p < 2000 else rng.choice([0, 1]), "gap": canon.enc(gap)}

    def generate(self, rng, n, tier):
        out = []
        for i in range(n):
            r = rng.random()
            if r < 0.03:
                out.append(self._reject_case(rng))
            elif r < 0.50:
                out.append(self._vmat_case(rng, tier))
            elif r < 0.62:
                out.append(self._hist_case(rng))
            elif r < 0.72:
                out.append(self._genic_case(rng))
            elif r < 0.84:
                out.append(self._uc_case(rng))
            elif r < 0.93:
                out.append(self._util_case(rng))
            elif r < 0.985:
                out.append(self._chunks_case(rng))
            else:
                out.append(self._wide_case(rng, tier=tier))
        return out

    def _taxa_case(self, base, sch, n, **kw):
        r = __import__("random").Random(1000 + n)
        pats = [[r.randint(0, 1) for _ in range(2)] for _ in range(n)]
        pats[0], pats[1] = [0, 1], [1, 0]
        g = [pats, [list(x) for x in pats]]
        if sch == "dihybrid":
            g = [pats, [[r.randint(0, 1) for _ in range(2)] for _ in range(n)]]
            for k in (0, 8, 16, n - 2, n - 1):          # heterozygous taxa at the block boundaries / past index 127
                if k < n:
                    g[0][k], g[1][k] = [0, 1], [1, 0]
        pm = list(range(n))
        r.shuffle(pm)
        return dict(base, scheme=sch, geno=g, u=[[1], [2]], chr_sizes=[2], genpos2=[0, 1], mem=None, mem2=1, perm=pm, **kw)

    def corpus(self):
        inb = lambda rows: [rows, [list(r) for r in rows]]
        base = {"kind": "vmat", "scheme": "two", "cov": False, "via": "algmod",
                "geno": inb([[0, 1, 1, 0], [1, 0, 0, 1], [0, 1, 1, 0]]),
                "u": [[1, 2], [2, -1], [-3, 1], [1, 1]], "chr_sizes": [3, 1], "genpos2": [0, 1, 3, 0],
                "mapfn": "pow2", "mem": 2, "mem2": None, "nself": 0, "perm": [2, 0, 1]}
        out = [dict(base)]
        out.append(dict(base, nself=1, mem=1, mem2=7))
        out.append(dict(base, nself=None, mapfn="haldane", cov=True, via="gmod"))
        out.append(dict(base, genpos2=[2, 2, 2, 5], mem=3, mem2=1))                # ties: r = 0
        out.append(dict(base, chr_sizes=[1, 1, 1, 1], genpos2=[0, 0, 0, 0]))       # one marker per chromosome
        # three-/four-way/dihybrid, distinct parents only (n = number of parents)
        out.append(dict(base, scheme="three", via="factory", nself=2, mem=2, mem2=3))
        out.append(dict(base, scheme="four", geno=inb([[0, 1, 1], [1, 0, 1], [1, 1, 0]]), u=[[1], [2], [-1]],
                        chr_sizes=[3], genpos2=[0, 1, 2], perm=[1, 2, 0], nself=1))
        out.append(dict(base, scheme="dihybrid", geno=[[[0, 1, 1, 0], [1, 0, 1, 1]], [[1, 1, 0, 0], [1, 0, 0, 1]]],
                        perm=[1, 0], nself=0, cov=True))
        # covariance classes with every linkage group cut into several chunks, two traits with unequal effects
        out.append(dict(base, cov=True, mem=1, mem2=None, nself=1))
        out.append(dict(base, cov=True, mem=2, mem2=3, scheme="three", geno=inb([[0, 1, 1, 0], [1, 0, 0, 1]]), perm=[1, 0]))
        out.append(dict(base, cov=True, mem=2, mem2=None, scheme="four", geno=inb([[0, 1, 1, 0], [1, 0, 0, 1]]), perm=[1, 0]))
        out.append(dict(base, cov=True, mem=1, mem2=3, scheme="dihybrid", via="gmod",
                        geno=[[[0, 1, 1, 0], [1, 0, 0, 1]], [[1, 1, 0, 0], [1, 0, 1, 1]]], perm=[1, 0]))
        # regression cases for fix D33 (self-hybrid cells [r,f,f], [a,b,c,c], dihybrid [i,i] were skipped and stayed 0)
        out.append({"kind": "vmat", "scheme": "three", "cov": False, "via": "algmod", "geno": inb([[0, 1], [1, 0]]),
                    "u": [[1], [1]], "chr_sizes": [2], "genpos2": [0, 1], "mapfn": "pow2", "mem": None, "mem2": 1,
                    "nself": 0, "perm": [0, 1]})
        out.append({"kind": "vmat", "scheme": "dihybrid", "cov": False, "via": "algmod", "geno": [[[0, 1]], [[1, 0]]],
                    "u": [[1], [1]], "chr_sizes": [2], "genpos2": [0, 1], "mapfn": "pow2", "mem": None, "mem2": 1,
                    "nself": 0, "perm": [0]})
        # --- round 3: deep selfing (the finite-selfing correction must be applied for EVERY finite k), tight linkage
        tight = {"kind": "vmat", "scheme": "two", "cov": False, "via": "algmod", "geno": inb([[1, 0, 1], [0, 1, 0]]),
                 "u": [[1], [1], [2]], "chr_sizes": [3], "genposf": [canon.enc(0.0), canon.enc(0.001), canon.enc(0.011)],
                 "mapfn": "haldane_f", "mem": None, "mem2": 1, "nself": 7, "perm": [1, 0]}
        for ns in (6, 7, 8, 10, 20):
            out.append(dict(tight, nself=ns))
        out.append(dict(tight, scheme="dihybrid", geno=[[[1, 0, 1], [0, 1, 1]], [[0, 1, 0], [1, 1, 0]]], nself=7, via="factory"))
        out.append(dict(tight, scheme="three", geno=inb([[1, 0, 1], [0, 1, 0], [1, 1, 0]]), nself=8, perm=[2, 0, 1], cov=True))
        out.append(dict(tight, scheme="four", geno=inb([[1, 0, 1], [0, 1, 0]]), nself=7, mem=2, mem2="default"))
        # --- positions beyond 10 Morgan / linkage groups that do not start at 0 / huge common offsets / tiny distances
        out.append(dict(base, genpos2=[24, 25, 27, 0], mem=None, mem2=2))                         # 12.0 .. 13.5 map units
        out.append(dict(base, genpos2=[40, 41, 43, 90], mapfn="haldane", via="factory"))         # 13.9 .. 31 Morgan
        out.append(dict(tight, nself=0, genposf=[canon.enc(12.0), canon.enc(12.3), canon.enc(12.7)]))
        out.append(dict(tight, nself=1, genposf=[canon.enc(25000.0), canon.enc(25000.25), canon.enc(25000.5)], via="gmod"))
        out.append(dict(tight, nself=0, genposf=[canon.enc(1e9), canon.enc(1e9 + 0.5), canon.enc(1e9 + 1.0)]))
        out.append(dict(tight, nself=0, genposf=[canon.enc(0.0), canon.enc(1e-8), canon.enc(1e-5)]))      # repulsion at r ~ 1e-8
        out.append(dict(tight, nself=2, genposf=[canon.enc(0.5), canon.enc(0.0), canon.enc(0.2)]))        # unsorted within the group
        out.append(dict(tight, nself=0, u=[[canon.enc(1e-8)], [canon.enc(1e-8)], [canon.enc(2e-8)]]))     # tiny effects
        # --- argument forms / layouts / labels
        out.append(dict(base, layout={"geno": "F", "u": "F"}, nself_form="npint", nself=2, mem_form="npint"))
        out.append(dict(base, layout={"geno": "view", "u": "view", "genpos": "view"}, chr_labels=[-3, 11], taxa_grp_none=True))
        out.append(dict(base, nself=None, nself_form="float_inf", mem="default", mem2=3, via="gmod"))
        out.append(dict(base, chr_sizes=[2, 2], genpos2=[0, 1, 0, 2], mem=2, mem2=1))                     # mem divides every group exactly
        out.append(dict(base, scheme="four", geno=inb([[0, 1, 1, 0], [1, 0, 1, 1]]), u=[[1], [2], [-1], [3]], chr_sizes=[1, 2, 1],
                        genpos2=[5, 0, 1, 2], perm=[1, 0], mem=2, mem2=1))                                 # one-marker groups, four-way
        # --- every entry point (4 schemes x {4 variance routes, 2 covariance routes}) with three stress cases:
        #  A  positions beyond 10 map units, Fortran-ordered inputs, reversed-stride positions, linkage-group labels <= 0 and
        #     non-consecutive, group sizes that mem divides exactly, other nmating / nprogeny
        #  B  real Haldane function at 1e9 + {0, 0.5, 0.5 + 1e-5} and a second group in repulsion 1e-8 Morgan apart
        #  C  20 selfing generations at tight linkage, one progeny
        for sch in SCHEMES:
            g4 = [[[0, 1, 1, 0], [1, 0, 0, 1]], [[1, 1, 0, 0], [1, 0, 1, 1]]] if sch == "dihybrid" else inb([[0, 1, 1, 0], [1, 0, 0, 1]])
            g5 = [[[0, 1, 1, 0, 1], [1, 0, 0, 1, 0]], [[1, 1, 0, 0, 1], [1, 0, 1, 1, 0]]] if sch == "dihybrid" \
                else inb([[0, 1, 1, 1, 0], [1, 0, 0, 0, 1]])
            for cv, via in [(False, "algmod"), (False, "gmod"), (False, "factory"), (False, "factory_algmod"), (True, "algmod"), (True, "gmod")]:
                out.append(dict(base, scheme=sch, cov=cv, via=via, geno=g4, perm=[1, 0], chr_sizes=[2, 2], chr_labels=[-2, 0],
                                genpos2=[22, 23, 41, 44], mem=1 if cv else 2, mem2=None, nself=1, nmating=3, nprogeny=2,
                                layout={"geno": "F", "u": "F", "genpos": "rev"}, mapfn="haldane" if cv else "pow2"))
                out.append(dict(base, scheme=sch, cov=cv, via=via, geno=g5, perm=[1, 0], chr_sizes=[3, 2], mapfn="haldane_f",
                                u=[[1, 2], [2, -1], [-3, 1], [1, 1], [1, 2]],
                                genposf=[canon.enc(1e9), canon.enc(1e9 + 0.5), canon.enc(1e9 + 0.5 + 1e-5), canon.enc(0.25), canon.enc(0.25 + 1e-8)],
                                mem=2, mem2="default", nself=0 if cv else 2))
                out.append(dict(base, scheme=sch, cov=cv, via=via, geno=[[r[:3] for r in ph] for ph in g4], perm=[1, 0], chr_sizes=[3],
                                u=[[1, 2], [1, -1], [2, 1]], mapfn="haldane_f", genposf=[canon.enc(12.0), canon.enc(12.001), canon.enc(12.011)],
                                mem=None, mem2=1, nself=20, nprogeny=1))
                #  D  (round 4) nself = inf at tight linkage, where the limit differs visibly from any `large` finite depth
                out.append(dict(base, scheme=sch, cov=cv, via=via, geno=[[r[:3] for r in ph] for ph in g4], perm=[1, 0], chr_sizes=[3],
                                u=[[1, 2], [1, -1], [2, 1]], mapfn="haldane_f", genposf=[canon.enc(0.0), canon.enc(0.001), canon.enc(0.011)],
                                mem=1, mem2=None, nself=None, nself_form="float_inf" if cv else None, nprogeny=40, nmating=5))
        # --- histories on one factory / pgmat / gmod
        hb = {"kind": "hist", "family": "vmat", "scheme": "two", "cov": False, "via": "factory",
              "geno": inb([[0, 1, 1], [1, 0, 1], [1, 1, 0]]), "u": [[1, 2], [2, -1], [-3, 1]], "chr_sizes": [3],
              "genpos2": [0, 1, 3], "mapfn": "cap"}
        c0 = {"op": "call", "nself": 0, "mem": None}
        out.append(dict(hb, steps=[c0, dict(c0, mapfn="pow2")]))                                           # other map function
        out.append(dict(hb, mapfn="pow2", steps=[c0, {"op": "set_genpos", "genpos2": [0, 4, 5], "inplace": False}, c0]))
        out.append(dict(hb, mapfn="pow2", steps=[c0, {"op": "set_genpos", "genpos2": [0, 2, 2], "inplace": True}, c0]))
        out.append(dict(hb, mapfn="pow2", steps=[c0, {"op": "flip", "taxon": 1, "marker": 0}, c0]))
        out.append(dict(hb, mapfn="pow2", steps=[c0, {"op": "set_u", "i": 1, "t": 0, "v": 5}, c0]))
        out.append(dict(hb, mapfn="pow2", steps=[c0, {"op": "mutres", "which": 0, "how": "scale"}, c0]))
        out.append(dict(hb, mapfn="pow2", steps=[c0, {"op": "mutres", "which": 0, "how": "reorder"}, c0, dict(c0, nself=2)]))
        out.append(dict(hb, mapfn="pow2", steps=[c0, {"op": "flip", "taxon": 0, "marker": 2},
                                                 {"op": "uc", "nself": 0, "mapfn": "pow2", "unique_parents": True,
                                                  "upper_percentile": "1/10", "uc_class": "Subset", "uc_method": "gpmod"}]))
        ucs = {"op": "uc", "nself": 1, "mapfn": "pow2", "unique_parents": False, "upper_percentile": "1/4", "uc_class": "Real", "uc_method": "xmap"}
        out.append(dict(hb, mapfn="pow2", steps=[ucs, {"op": "flip", "taxon": 1, "marker": 1}, ucs,
                                                 {"op": "set_u", "i": 2, "t": 1, "v": 6}, ucs]))
        out.append(dict(hb, mapfn="pow2", scheme="three", geno=inb([[0, 1, 1], [1, 0, 1]]),
                        steps=[c0, {"op": "flip", "taxon": 0, "marker": 0}, dict(c0, nself=1), {"op": "mutres", "which": 1, "how": "fill"}, c0]))
        out.append(dict(hb, mapfn="pow2", scheme="dihybrid", via="gmod", geno=[[[0, 1, 1], [1, 0, 1]], [[1, 1, 0], [1, 0, 0]]],
                        steps=[c0, {"op": "flip", "taxon": 0, "marker": 1, "phase": 1}, c0]))
        out.append(dict(hb, mapfn="pow2", scheme="three", via="algmod", cov=True, geno=inb([[0, 1, 1], [1, 0, 1]]),
                        steps=[c0, {"op": "set_u", "i": 0, "t": 1, "v": -4}, dict(c0, mem=1)]))
        out.append(dict(hb, family="genic", mapfn="pow2", steps=[{"op": "call", "mem": 1000}, {"op": "flip", "taxon": 2, "marker": 1},
                                                                {"op": "call", "mem": 1000}]))
        # --- wide linkage groups: > 127 markers (int8 sums), > 1024 markers (default mem = 1024 gives two chunks), > 4096 markers
        wr = __import__("random").Random(12)
        out.append(self._wide_case(wr, p=130, scheme="two", cov=False))
        out.append(self._wide_case(wr, p=130, scheme="four", cov=True))
        out.append(self._wide_case(wr, p=1030, scheme="two", cov=False))
        out.append(dict(self._wide_case(wr, p=130, scheme="three", cov=False), nself=7))
        out.append(dict(self._wide_case(wr, p=130, scheme="dihybrid", cov=True), nself=1))
        # regression cases for fixes D15 (genic diagonal never written), D30 (three-/four-way genic shapes), D32 (mem default)
        g = {"kind": "genic", "scheme": "two", "via": "algmod", "geno": inb([[0, 1, 1], [1, 0, 1]]),
             "u": [[1], [2], [3]], "chr_sizes": [3], "genpos2": [0, 1, 2], "mapfn": "pow2", "mem": 1000}
        out.append(dict(g))
        out.append(dict(g, scheme="dihybrid", geno=[[[0, 1, 1], [1, 0, 1]], [[1, 1, 0], [1, 0, 1]]]))
        out.append(dict(g, scheme="three"))
        out.append(dict(g, scheme="four"))
        out.append(dict(g, scheme="dihybrid", via="gmod_nomem"))
        uc = {"kind": "uc", "scheme": "two", "cov": False, "geno": inb([[0, 1, 1], [1, 0, 1], [1, 1, 1]]),
              "u": [[1, 2], [2, -1], [-3, 1]], "beta": [10, "3/2"], "chr_sizes": [3], "genpos2": [0, 1, 3],
              "mapfn": "pow2", "nself": 0, "unique_parents": True, "upper_percentile": "1/10"}
        out.append(dict(uc))
        for cname in UC_CLASSES:
            for meth in ("gpmod", "xmap", "protocol"):
                out.append(dict(uc, uc_class=cname, uc_method=meth, upper_percentile="1/1000", nself=1, nprogeny=3, nmating=2))
                out.append(dict(uc, uc_class=cname, uc_method=meth, upper_percentile="9/10", nself=0, unique_parents=False))
        # dihybrid: selfing a heterozygous parent (configuration [i,i] segregates)
        out.append(dict(uc, scheme="dihybrid", geno=[[[0, 1, 1], [1, 0, 1]], [[1, 1, 0], [1, 0, 1]]], unique_parents=False,
                        uc_class="Binary", uc_method="xmap"))
        out.append(dict(uc, scheme="three", unique_parents=False, nself=7, geno=inb([[0, 1, 1], [1, 0, 1]]), uc_class="Real"))
        out.append({"kind": "util", "fn": "cov_D1s", "r": [0, "1/2", "1/4"], "nself": 0, "t": 0})
        out.append({"kind": "util", "fn": "cov_D2s", "r": [0, "1/2", "1/4"], "nself": None, "t": 0})
        for k in (7, 8, 9, 21):
            out.append({"kind": "util", "fn": "rprob_filial", "r": ["1/1024", "1/8", "1/1048576"], "nself": k, "t": 0})
        for ns in (6, 7, 8, 20):
            out.append({"kind": "util", "fn": "cov_D1s", "r": ["1/1024", "1/8"], "nself": ns, "t": 0})
            out.append({"kind": "util", "fn": "cov_D2s", "r": ["1/1024", "1/8"], "nself": ns, "t": 0})
        # regression cases for fix D31 (four-way / dihybrid covariance classes lacked the second trait axis)
        out.append(dict(base, scheme="four", cov=True, via="algmod", geno=inb([[0, 1, 1], [1, 0, 1]]),
                        u=[[1, 2], [2, -1], [-1, 1]], chr_sizes=[3], genpos2=[0, 1, 2], perm=[1, 0], nself=1))
        out.append(dict(base, scheme="dihybrid", cov=True, via="gmod", geno=[[[0, 1, 1]], [[1, 1, 0]]],
                        u=[[1, 2], [2, -1], [-1, 1]], chr_sizes=[3], genpos2=[0, 1, 2], perm=[0], nself=0))
        for var in ("ungrouped", "no_genpos", "mem_zero", "nself_negative", "valid"):
            out.append({"kind": "reject", "variant": var, "scheme": "two", "cov": False,
                        "geno": inb([[0, 1, 1], [1, 0, 1]]), "u": [[1], [2], [3]], "chr_sizes": [2, 1],
                        "genpos2": [0, 1, 0], "mapfn": "pow2", "mem": 2, "nself": 0})
        for lst, lsp, step in ((3, 10, 3), (3, 9, 3), (4, 4, 2), (0, 6, 3), (5, 6, 4), (0, 2048, 1024), (0, 1030, 1024), (2, 3, 1)):
            out.append({"kind": "chunks", "lst": lst, "lsp": lsp, "step": step})
        # --- round 4 -------------------------------------------------------------------------------------------------
        # sparse, trait-specific effects: trait 1 has no effect anywhere on the first linkage group, trait 0 none on the
        # second, one marker without any effect; a third trait without any effect at all (variance 0 next to positive ones)
        for sch in SCHEMES:
            g4 = [[[0, 1, 1, 0], [1, 0, 0, 1]], [[1, 1, 0, 0], [1, 0, 1, 1]]] if sch == "dihybrid" else inb([[0, 1, 1, 0], [1, 0, 0, 1]])
            for cv in (False, True):
                out.append(dict(base, scheme=sch, cov=cv, via="gmod" if cv else "factory", geno=g4, perm=[1, 0], chr_sizes=[3, 1],
                                u=[[1, 0, 0], [0, 0, 0], [-3, 0, 0], [0, 2, 0]], genpos2=[0, 1, 3, 0], mem=2, mem2=None, nself=1))
        # nearly unlinked markers inside one linkage group: 1 - 2r = 2^-17, 2^-24, 2^-41; 6 and 15 Morgan with the real function
        for sch in SCHEMES:
            g3 = [[[0, 1, 1], [1, 0, 0]], [[1, 1, 0], [1, 0, 1]]] if sch == "dihybrid" else inb([[0, 1, 1], [1, 0, 0]])
            out.append(dict(base, scheme=sch, geno=g3, perm=[1, 0], chr_sizes=[3], u=[[1, 2], [2, -1], [-3, 1]], genpos2=[0, 17, 41],
                            mem=None, mem2=1, nself=1))
            out.append(dict(tight, scheme=sch, geno=g3, perm=[1, 0], u=[[1], [2], [-3]], nself=1 if sch != "two" else 0,
                            genposf=[canon.enc(0.0), canon.enc(6.0), canon.enc(15.0)], cov=(sch == "four")))
        # many taxa (more than 8 / 16 / 127): all tuples against the enumeration
        taxa_case = lambda sch, n, **kw: self._taxa_case(base, sch, n, **kw)
        out.append(taxa_case("two", 130, nself=0, lite=True))
        out.append(taxa_case("two", 17, nself=1, cov=True))
        out.append(taxa_case("dihybrid", 17, nself=0))
        out.append(taxa_case("dihybrid", 9, nself=1, cov=True, via="gmod"))
        out.append(taxa_case("three", 9, nself=0, via="factory"))
        out.append(taxa_case("four", 5, nself=1))
        # usefulness criterion for caller-supplied configurations (any parent order, repeated rows), tiny effects
        out.append(dict(uc, scheme="three", uc_method="xmap_custom", unique_parents=False, uc_class="Real", nself=1,
                        xmap=[[2, 1, 0], [0, 2, 1], [1, 0, 0], [2, 1, 0], [0, 0, 1], [2, 2, 2]]))
        out.append(dict(uc, scheme="four", uc_method="xmap_custom", unique_parents=False, uc_class="Subset",
                        xmap=[[2, 1, 0, 1], [0, 1, 2, 1], [1, 1, 0, 2], [2, 0, 2, 0]]))
        out.append(dict(uc, scheme="dihybrid", geno=[[[0, 1, 1], [1, 0, 1], [1, 1, 0]], [[1, 1, 0], [1, 0, 1], [0, 1, 0]]],
                        uc_method="xmap_custom", unique_parents=False, uc_class="Integer", xmap=[[2, 0], [0, 2], [1, 1], [2, 2]]))
        out.append(dict(uc, uc_method="xmap_custom", unique_parents=False, uc_class="Binary", xmap=[[2, 0], [1, 0], [0, 0]],
                        u=[[canon.enc(1e-8), canon.enc(2e-5)], [canon.enc(2e-8), canon.enc(-1e-5)], [canon.enc(-3e-8), canon.enc(1e-5)]],
                        beta=[canon.enc(1e-7), canon.enc(1.5e-5)]))
        # a trait that segregates next to one that does not (sparse effects), all four problem classes
        for cname in UC_CLASSES:
            out.append(dict(uc, uc_class=cname, uc_method="gpmod", u=[[1, 0], [2, 0], [-3, 0]], unique_parents=False))
        # many linkage groups (12 groups of two markers) and many traits (five: a 5 x 5 trait block per cell)
        for sch, cv in (("two", False), ("three", True), ("dihybrid", False), ("four", False)):
            gl = [[(k * 7 + i * 3 + (i * i) % 5) % 2 for i in range(24)] for k in range(2)]
            gl[1] = [1 - v if i % 3 else v for i, v in enumerate(gl[0])]
            gm_ = [gl, [list(r) for r in gl]] if sch != "dihybrid" else [gl, [[(v + (i % 4 == 0)) % 2 for i, v in enumerate(r)] for r in gl]]
            out.append(dict(base, scheme=sch, cov=cv, via="algmod", geno=gm_, perm=[1, 0], chr_sizes=[2] * 12,
                            u=[[1 + (i % 3), -1 + (i % 2) * 3] for i in range(24)], genpos2=[(i % 2) * (1 + i % 3) for i in range(24)],
                            mem=1, mem2=None, nself=1))
        out.append(dict(base, cov=True, u=[[1, 2, -1, 3, 1], [2, -1, 1, 0, -2], [-3, 1, 2, 1, 1], [1, 1, 0, -1, 2]], mem=2, mem2=None, nself=1))
        out.append(dict(base, cov=True, scheme="dihybrid", via="gmod", geno=[[[0, 1, 1, 0], [1, 0, 0, 1]], [[1, 1, 0, 0], [1, 0, 1, 1]]], perm=[1, 0],
                        u=[[1, 2, -1, 3, 1], [2, -1, 1, 0, -2], [-3, 1, 2, 1, 1], [1, 1, 0, -1, 2]], mem=2, mem2=None, nself=0))
        # regression case for fix D37 (sqrt of a variance that rounding left below zero): completely linked markers whose
        # effects cancel: the reported variance is -5.4e-16 (rounding), its
        # square root NaN
        us = [0.35, 1.1, 0.9, 0.1, -3.15, 0.7]
        out.append({"kind": "uc", "scheme": "two", "cov": False, "geno": inb([[1] * 6, [0] * 6]), "u": [[canon.enc(v)] for v in us],
                    "beta": [canon.enc(1.0)], "chr_sizes": [6], "genposf": [canon.enc(0.3)] * 6, "mapfn": "haldane_f", "nself": 0,
                    "unique_parents": True, "upper_percentile": "1/10", "uc_class": "Subset", "uc_method": "gpmod"})
        # genic class through the factory's from_algmod
        out.append(dict(g, via="factory_algmod"))
        # a linkage group of exactly two default chunks (2 x 1024 markers), every scheme
        out.append(self._wide_case(wr, p=2048, scheme="two", cov=False))
        out.append(dict(self._wide_case(wr, p=2048, scheme="three", cov=False, tier="thorough"), nself=0))
        out.append(dict(self._wide_case(wr, p=2048, scheme="dihybrid", cov=True, tier="thorough"), nself=1))
        out.append(dict(self._wide_case(wr, p=2048, scheme="four", cov=False, tier="thorough"), nself=0))
        # one object set per entry family: effects edited in place, a genotype flipped, positions overwritten in place,
        # between requests (every scheme, variance and covariance classes)
        for sch in SCHEMES:
            gh = [[[0, 1, 1], [1, 0, 1]], [[1, 1, 0], [1, 0, 0]]] if sch == "dihybrid" else inb([[0, 1, 1], [1, 0, 1]])
            for cv in (False, True):
                out.append(dict(hb, mapfn="pow2", scheme=sch, cov=cv, via="algmod" if cv else "factory_algmod", geno=gh,
                                steps=[c0, {"op": "set_u", "i": 1, "t": 0, "v": 5}, dict(c0, mem=1),
                                       {"op": "flip", "taxon": 0, "marker": 2, "phase": 0}, c0,
                                       {"op": "set_genpos", "genpos2": [0, 2, 3], "inplace": True}, dict(c0, nself=1)]))
        return out

    def exhaustive(self, tier):
        """thorough tier: every unordered pair of distinct inbred haplotypes over three linked markers as a
        two-way cross (with a third taxon = first parent again, so identical-parent cells are present), and as
        the three-way cross with the complement of the first parent as recurrent line; nself 0 and 1"""
        if tier != "thorough":
            return None
        out = []
        wr = __import__("random").Random(13)
        out.append(dict(self._wide_case(wr, p=1030, scheme="three", cov=True, tier="thorough"), nself=0))
        out.append(dict(self._wide_case(wr, p=1030, scheme="four", cov=False, tier="thorough"), nself=1))
        out.append(dict(self._wide_case(wr, p=4100, scheme="two", cov=False, tier="thorough"), nself=0))
        out.append(dict(self._wide_case(wr, p=4100, scheme="dihybrid", cov=False, tier="thorough"), nself=1))
        out.append(dict(self._wide_case(wr, p=4100, scheme="three", cov=False, tier="thorough"), nself=0))
        for sch in SCHEMES:
            out.append(dict(self._wide_case(wr, p=2048, scheme=sch, cov=(sch == "four"), tier="thorough"), nself=0))
        out.append(dict(self._wide_case(wr, p=4096, scheme="dihybrid", cov=False, tier="thorough"), nself=0))
        tb = {"kind": "vmat", "cov": False, "via": "algmod", "mapfn": "pow2"}
        out.append(self._taxa_case(tb, "dihybrid", 130, nself=1, lite=True))
        out.append(self._taxa_case(tb, "two", 130, nself=0, cov=True, lite=True))
        out.append(self._taxa_case(tb, "four", 9, nself=0))
        out.append(self._taxa_case(tb, "three", 17, nself=1, cov=True))
        haps = list(itertools.product((0, 1), repeat=3))
        for a in haps:
            for b in haps:
                if a >= b:
                    continue
                rows = [list(a), list(b), list(a)]
                for ns in (0, 1):
                    out.append({"kind": "vmat", "scheme": "two", "cov": ns == 1, "via": "algmod",
                                "geno": [rows, [list(r) for r in rows]], "u": [[1, 2], [2, -1], [-3, 1]],
                                "chr_sizes": [3], "genpos2": [0, 1, 3], "mapfn": "pow2", "mem": 2, "mem2": None,
                                "nself": ns, "perm": [2, 0, 1]})
                comp = [1 - v for v in a]
                rows3 = [comp, list(a), list(b)]
                out.append({"kind": "vmat", "scheme": "three", "cov": False, "via": "algmod",
                            "geno": [rows3, [list(r) for r in rows3]], "u": [[1], [2], [-3]],
                            "chr_sizes": [2, 1], "genpos2": [0, 2, 0], "mapfn": "pow2", "mem": 1, "mem2": 3,
                            "nself": 1, "perm": [1, 2, 0]})
        return out

    # ------------------------------------------------------------------ implementation
    def _run_hist(self, case):
        m = _mods()
        pg, gm, mf0 = _build(case)
        sch = case["scheme"]
        genic = case.get("family") == "genic"
        fobj = (m["genic_fcty_two"]() if genic else m["fcty_" + sch]())
        subs = dict(_hist_subs(case))
        results, snaps, mutated, calls = [], [], set(), []
        for ix, step in enumerate(case["steps"]):
            op = step["op"]
            if op == "call":
                sub = subs[ix]
                if genic:
                    o = _call_genic(dict(sub, mem=step.get("mem", 1000)), pg, gm, fobj=fobj)
                else:
                    o = _call_vmat(sub, pg, gm, m[sub["mapfn"]](), sub["mem"], fobj=fobj)
                results.append(o)
                snaps.append(o.mat.copy())
                calls.append({"step": ix, "M": canon.enc(o.mat), "shape": list(o.mat.shape)})
            elif op == "uc":
                sub = subs[ix]
                calls.append(dict(_call_uc(sub, pg, gm, m[sub["mapfn"]](), fobj=fobj), step=ix))
            elif op == "set_genpos":
                new = _genpos_float(dict(case, genpos2=step["genpos2"]))
                if step.get("inplace"):
                    pg.vrnt_genpos[:] = new
                else:
                    pg.vrnt_genpos = new
            elif op == "flip":
                t, i = step["taxon"], step["marker"]
                phases = (0, 1) if sch != "dihybrid" else (step.get("phase", 0),)
                for ph in phases:
                    pg.mat[ph, t, i] = 1 - pg.mat[ph, t, i]
            elif op == "set_u":
                gm.u_a[step["i"], step["t"]] = float(_fr(step["v"]))
            elif op == "mutres":
                o = results[step["which"]]
                mutated.add(step["which"])
                if step["how"] == "scale":
                    o.mat *= 3.0
                elif step["how"] == "fill":
                    o.mat[...] = -7.0
                else:
                    o.reorder_taxa(list(range(o.ntaxa))[::-1])
        stale = [k for k, (o, s) in enumerate(zip(results, snaps))
                 if k not in mutated and not numpy.array_equal(o.mat, s, equal_nan=True)]
        shared = [[a, b] for a in range(len(results)) for b in range(a + 1, len(results))
                  if results[a] is results[b] or numpy.shares_memory(results[a].mat, results[b].mat)]
        return {"calls": calls, "stale": stale, "shared": shared}

    def run_impl(self, case):
        m = _mods()
        k = case["kind"]
        if k == "chunks":
            lst, lsp, step = case["lst"], case["lsp"], case["step"]
            z = list(zip(range(lst, lsp, step), m["sub"].srange(lst + step, lsp, step)))
            return {"chunks": [[int(a), int(b)] for a, b in z], "srange": [int(v) for v in m["sub"].srange(lst, lsp, step)]}
        if k == "util":
            r = numpy.array([float(_fr(v)) for v in case["r"]])
            ns = _nself_arg(case["nself"])
            fn = getattr(m["util"], case["fn"])
            if case["fn"].endswith("st"):
                out = fn(r, ns, case["t"])
            else:
                out = fn(r, ns)
            return {"out": canon.enc(numpy.asarray(out, dtype=float))}
        if k == "vmat":
            pg, gm, mf = _build(case)
            snap = (pg.mat.copy(), gm.u_a.copy(), pg.vrnt_genpos.copy())
            o = _call_vmat(case, pg, gm, mf, case["mem"])
            if case.get("lite"):
                # very many taxa: one request only (chunking and reordering are exercised by the other cases)
                enc = canon.enc(o.mat)
                return {"M": enc, "M2": None, "Mperm": None, "taxa": [str(t) for t in o.taxa], "taxa_in": [str(t) for t in pg.taxa],
                        "taxa_perm": [str(pg.taxa[i]) for i in case["perm"]], "shape": list(o.mat.shape),
                        "untouched": bool((snap[0] == pg.mat).all() and (snap[1] == gm.u_a).all()
                                          and (snap[2] == pg.vrnt_genpos).all())}
            o2 = _call_vmat(case, pg, gm, mf, case["mem2"])
            pgp, gmp, mfp = _build(case, perm=case["perm"])
            op = _call_vmat(case, pgp, gmp, mfp, case["mem"])
            return {"M": canon.enc(o.mat), "M2": canon.enc(o2.mat), "Mperm": canon.enc(op.mat),
                    "taxa": [str(t) for t in o.taxa], "taxa_in": [str(t) for t in pg.taxa],
                    "taxa_perm": [str(t) for t in op.taxa], "shape": list(o.mat.shape),
                    "untouched": bool((snap[0] == pg.mat).all() and (snap[1] == gm.u_a).all()
                                      and (snap[2] == pg.vrnt_genpos).all())}
        if k == "wide":
            pg, gm, mf = _build(case)
            o = _call_vmat(case, pg, gm, mf, case["mem"])
            o2 = o if case["mem2"] == "same" else _call_vmat(case, pg, gm, mf, case["mem2"])
            return {"M": canon.enc(o.mat), "M2": canon.enc(o2.mat), "shape": list(o.mat.shape)}
        if k == "hist":
            return self._run_hist(case)
        if k == "genic":
            pg, gm, mf = _build(case)
            o = _call_genic(case, pg, gm)
            return {"M": canon.enc(o.mat), "shape": list(o.mat.shape)}
        if k == "reject":
            var = case["variant"]
            pg, gm, mf = _build(case, grouped=(var != "ungrouped"), genpos=(var != "no_genpos"))
            mem = 0 if var == "mem_zero" else case["mem"]
            ns = -1 if var == "nself_negative" else int(case["nself"])
            try:
                o = m["var_" + case["scheme"]].from_algmod(gm, pg, 1, 10, ns, mf, mem=mem)
            except Exception as e:          # these inputs are meant to be rejected
                return {"raised": canon.exc_tag(e), "text": f"{type(e).__name__}: {e}"[:200]}
            return {"raised": None, "finite": bool(numpy.isfinite(o.mat).all()), "M": canon.enc(o.mat), "shape": list(o.mat.shape)}
        if k == "uc":
            pg, gm, mf = _build(case)
            return _call_uc(case, pg, gm, mf)
        raise ValueError(k)

    # ------------------------------------------------------------------ model requests
    LEAN_MAX_P = 40          # the interpreted model is asked for the whole matrix only up to this many markers

    def _setup_req(self, case, mem):
        req = {"geno": case["geno"], "u": case["u"], "chr": _chr_of(case), "mem": _mem_model(mem), "nself": case.get("nself", 0)}
        if _is_f(case):
            req.update(mapfn="table", rmat=_rmat_table(case), genpos=[0] * _nmark(case))
        else:
            req.update(mapfn="cap" if case["mapfn"] == "cap" else "pow2", genpos=[canon.enc(F(k, 2)) for k in case["genpos2"]])
        return req

    def _lean_enum_reqs(self, case, M):
        """up to two tuples whose literal enumeration in Lean is small (<= 11 mask bits; one tuple above 9 bits)"""
        if case["mapfn"] == "cap" or case["nself"] is None or _is_f(case):
            return []
        sch = case["scheme"]
        p = _nmark(case)
        n = len(case["geno"][0])
        nme = 1 + 2 * case["nself"] + {"two": 0, "three": 1, "four": 2, "dihybrid": 2}[sch]
        if p * nme > 11:
            return []
        if _sorted_order(case) != list(range(p)):
            return []
        xs = [canon.enc(x) for x in _xs_of(case)]
        tups = _all_tuples(sch, n)
        # deterministic choice: first off-diagonal tuple and the last tuple
        pick = [t for t in tups if not _is_skipped_diagonal(sch, t)][:1] + (tups[-1:] if p * nme <= 9 else [])
        nt = len(case["u"][0])
        reqs = []
        for tup in pick:
            haps, esch = _tuple_haps(sch, case["geno"], tup)
            s, t = (0, nt - 1) if case["cov"] else (nt - 1, nt - 1)
            try:
                cell = _get(M, tup)
                impl = cell[s][t] if case["cov"] else cell[t]
            except (IndexError, TypeError):
                continue
            reqs.append({"op": "c12.spec_enum", "scheme": esch, "xs": xs, "nself": case["nself"], "haps": haps,
                         "u": [row[s] for row in case["u"]], "w": [row[t] for row in case["u"]],
                         "impl": impl if impl not in ("nan", "inf", "-inf") else 10 ** 30,
                         "_tuple": list(tup)})
        return reqs

    def _vmat_reqs(self, sub, M):
        # small cases are answered by the LITERAL loop transcription (zeros, += over chunk blocks, *= 0.25, mirror loop;
        # proved equal to the closed forms in Props/C12.loops_eq_closed), the others by the closed forms
        n = len(sub["geno"][0])
        small = n ** NPARENT[sub["scheme"]] * _nmark(sub) <= 60 and not _is_f(sub)
        req = dict(self._setup_req(sub, sub["mem"]), op="c12.vmat_loop" if small else "c12.vmat", scheme=sub["scheme"], cov=sub["cov"])
        return [req] + self._lean_enum_reqs(sub, M)

    def _genic_req(self, sub):
        # small cases are answered by the LITERAL loops (numpy.empty, two assignments per pair; every cell written by
        # Props/C12.genic_loops_written), the others by the closed forms
        n = len(sub["geno"][0])
        small = n ** NPARENT[sub["scheme"]] * _nmark(sub) * len(sub["u"][0]) <= 120
        return dict(self._setup_req(dict(sub, nself=0), sub.get("mem", 1000)), op="c12.genic_loop" if small else "c12.genic",
                    ploidy=2, scheme=sub["scheme"])

    def _xmap_req(self, sub):
        return {"op": "c12.xmap", "ntaxa": len(sub["geno"][0]), "nparent": NPARENT[sub["scheme"]],
                "unique": bool(sub["unique_parents"])}

    # The driver is a pure function of the request.  Answers are memoised per process so that the self-test (the same
    # cases evaluated once per mutant) does not recompute identical model matrices; a request is sent at most once.
    _answer_cache = {}
    _sent = {}

    @staticmethod
    def _rkey(r):
        import json
        return json.dumps(r, sort_keys=True, separators=(",", ":"))

    def requests(self, case, obs):
        full = self._requests(case, obs)
        mask = [self._rkey(r) not in self._answer_cache for r in full]
        self._sent[id(obs)] = mask
        return [r for r, snd in zip(full, mask) if snd]

    def _merge_answers(self, case, obs, answers):
        full = self._requests(case, obs)
        mask = self._sent.pop(id(obs), None)
        if mask is None or len(mask) != len(full) or sum(mask) != len(answers):
            if len(answers) == len(full):
                return list(answers)
            raise RuntimeError("answer bookkeeping out of step")
        it = iter(answers)
        out = []
        for r, snd in zip(full, mask):
            key = self._rkey(r)
            if snd:
                a = next(it)
                if "err" not in a and len(self._answer_cache) < 20000:
                    self._answer_cache[key] = a
                out.append(a)
            else:
                out.append(self._answer_cache[key])
        return out

    def _requests(self, case, obs):
        k = case["kind"]
        if k == "chunks":
            return [{"op": "c12.chunks", "lst": case["lst"], "lsp": case["lsp"], "step": case["step"]}]
        if k == "util":
            return [{"op": "c12.util", "fn": case["fn"], "r": case["r"], "nself": case["nself"], "t": case["t"]}]
        if k == "vmat":
            return [] if case.get("lite") else self._vmat_reqs(case, obs["M"])
        if k == "wide":
            return []
        if k == "genic":
            return [self._genic_req(case)]
        if k == "uc":
            return [dict(self._setup_req(case, None), op="c12.vmat", scheme=case["scheme"], cov=False), self._xmap_req(case)]
        if k == "hist":
            reqs = []
            for (ix, sub), call in zip(_hist_subs(case), obs["calls"]):
                if sub["kind"] == "genic":
                    reqs.append(self._genic_req(sub))
                elif sub["kind"] == "uc":
                    reqs.append(dict(self._setup_req(sub, None), op="c12.vmat", scheme=sub["scheme"], cov=False))
                    reqs.append(self._xmap_req(sub))
                else:
                    reqs.extend(self._vmat_reqs(sub, call["M"]))
            return reqs
        if k == "reject":
            var = case["variant"]
            return [{"op": "c12.validate", "grouped": var != "ungrouped", "has_genpos": var != "no_genpos",
                     "mem": 0 if var == "mem_zero" else case["mem"],
                     "nself": -1 if var == "nself_negative" else case["nself"], "chr": _chr_of(case)}]
        raise ValueError(k)

    # ------------------------------------------------------------------ judge
    @staticmethod
    def _close(a, b, rel=1e-9, abs_=1e-9):
        return canon.close(a, b, rel=rel, abs_=abs_)

    def _check_vmat(self, case, M, answers, M2=None, Mp=None, oracle=True):
        """correspondence + Spec clauses on one reported matrix `M` of the state `case`.
        -> (bad_corr, fails, enum_checked, lean_enum)"""
        sch = case["scheme"]
        cov = case["cov"]
        n = len(case["geno"][0])
        U = _U(case)
        nt = len(U[0])
        tups = _all_tuples(sch, n)
        if n > 40:
            # very many taxa: the tuples that touch the first three or the last six taxa (past 127 for n = 130)
            tups = [tp for tp in tups if any(i < 3 or i >= n - 6 for i in tp)]
        model = answers[0]["ok"] if answers else None
        tol = _tol(case)
        sc = [[float(_scale(U, s, t)) for t in range(nt)] for s in range(nt)]

        def cell(X, tup):
            c = _get(X, tup)
            return c if cov else [[c[t] if s == t else None for t in range(nt)] for s in range(nt)]

        def entries(X, tup):
            c = cell(X, tup)
            return [(s, t, c[s][t]) for s in range(nt) for t in range(nt) if c[s][t] is not None]

        def same(a, b, s, t):
            return not isinstance(a, str) and not isinstance(b, str) and _near(a, b, tol, sc[s][t])

        # ---- correspondence: model = implementation, every cell
        bad_corr = []
        if model is not None:
            for tup in tups:
                for (s, t, a), (_, _, b) in zip(entries(M, tup), entries(model, tup)):
                    if not same(canon.dec(a), canon.dec(b), s, t):
                        bad_corr.append((tup, s, t, a, b))
        # ---- Spec on the implementation's output
        fails = []          # (clause, tuple, text)
        enum = _oracle_matrix(case) if oracle else None
        enum_checked = 0
        for tup in tups:
            ent = entries(M, tup)
            vals = {(s, t): canon.dec(v) for s, t, v in ent}
            if any(isinstance(v, str) for v in vals.values()):
                fails.append(("finite", tup, f"non-finite value at {tup}"))
                continue
            # (a) equality with exhaustive enumeration
            if enum is not None:
                mu, C = enum[tup]
                for (s, t), v in vals.items():
                    enum_checked += 1
                    if not _near(v, C[s][t], tol, sc[s][t]):
                        diag0 = sch != "two" and _is_skipped_diagonal(sch, tup) and all(x == 0 for x in vals.values())
                        fails.append(("enum_selfhybrid" if diag0 else "enum", tup, f"{sch}{list(tup)} trait({s},{t}) reported {float(v)!r} "
                                                    f"enumeration {float(C[s][t])!r}"))
            # (b) zero for genetically identical parents
            if _identical(sch, case["geno"], tup):
                if any(v != 0 for v in vals.values()):
                    fails.append(("identical_nonzero", tup, f"identical parents {tup} nonzero"))
            # (c) symmetric in exchangeable parents
            if sch in ("two", "dihybrid"):
                others = [(tup[1], tup[0])]
            elif sch == "three":
                others = [(tup[0], tup[2], tup[1])]
            else:
                a, b, c, d = tup
                others = [(a, b, d, c), (b, a, c, d), (c, d, a, b)]
            for o in others:
                ov = {(s, t): canon.dec(v) for s, t, v in entries(M, o)}
                for key, v in vals.items():
                    w = ov[key]
                    if not same(v, w, *key):
                        diag0 = sch != "two" and (
                            (_is_skipped_diagonal(sch, tup) and all(x == 0 for x in vals.values())) or
                            (_is_skipped_diagonal(sch, o) and all(x == 0 for x in ov.values())))
                        fails.append(("symmetry_selfhybrid" if diag0 else "symmetry", tup,
                                      f"{sch}{list(tup)} = {float(v)!r} but {list(o)} = "
                                      f"{w if isinstance(w, str) else float(w)!r}"))
            # (d) chunk invariance
            if M2 is not None:
                for (s, t, a), (_, _, b) in zip(ent, entries(M2, tup)):
                    if not same(canon.dec(a), canon.dec(b), s, t):
                        fails.append(("chunk", tup, f"mem={case['mem']} gives {a}, mem={case['mem2']} gives {b} at {tup}"))
            # (e) equivariance under reordering of taxa: M'[k..] = M[perm[k]..]
            if Mp is not None:
                ptup = tuple(case["perm"][k] for k in tup)
                for (s, t, a), (_, _, b) in zip(entries(Mp, tup), entries(M, ptup)):
                    if not same(canon.dec(a), canon.dec(b), s, t):
                        fails.append(("equivariance", tup, f"permuted {tup} {a} != original {ptup} {b}"))
            # (f) covariance classes: symmetric in the trait pair and diagonal = variance (nonneg)
            for (s, t), v in vals.items():
                if s == t and v < -tol * sc[s][t]:
                    fails.append(("negative_variance", tup, f"variance {float(v)} < 0 at {tup}"))
                if cov and (t, s) in vals and not same(v, vals[(t, s)], s, t):
                    fails.append(("trait_symmetry", tup, f"cov[{s},{t}] != cov[{t},{s}] at {tup}"))
        # (g) Lean-side Spec: literal enumeration
        lean_reqs = [] if case.get("lite") else self._lean_enum_reqs(case, M)
        for rq, ans in zip(lean_reqs, answers[1:]):
            if not ans["ok"]["ok"]:
                tp = tuple(rq["_tuple"])
                diag0 = sch != "two" and _is_skipped_diagonal(sch, tp) and canon.dec(rq["impl"]) == 0
                fails.append(("enum_selfhybrid" if diag0 else "enum", tp, f"Lean enumeration {ans['ok']['enum']} vs reported {rq['impl']} at {rq['_tuple']}"))
        return bad_corr, fails, enum_checked, len(lean_reqs)

    @staticmethod
    def _shape_ok(M, want):
        x = M
        for d in want:
            if not isinstance(x, list) or len(x) != d:
                return False
            x = x[0] if x else None
        return not isinstance(x, list)

    def _linked_segregating(self, case):
        n = len(case["geno"][0])
        p = _nmark(case)
        if case["mapfn"] == "cap":
            return False, []
        seg = [i for i in range(p) if len({case["geno"][ph][t][i] for ph in (0, 1) for t in range(n)}) > 1]
        ci = _chr_index(case)
        c = _c_fun(case)
        linked = any(ci[i] == ci[j] and 0 < c(i, j) < 1 for i in seg for j in seg if i < j)
        return linked, seg

    def _judge_vmat(self, case, obs, answers):
        sch, cov = case["scheme"], case["cov"]
        n = len(case["geno"][0])
        nt = len(case["u"][0])
        fails0 = []
        want_shape = [n] * NPARENT[sch] + ([nt, nt] if cov else [nt])
        if obs["shape"] != want_shape:
            return {"corr": False, "spec": False, "nontrivial": True, "detail": f"shape {obs['shape']} != {want_shape}",
                    "fails": [("shape", None)]}
        if not obs["untouched"]:
            fails0.append(("inputs_modified", None, "pgmat.mat, vrnt_genpos or u_a modified"))
        if obs["taxa"] != obs["taxa_in"]:
            fails0.append(("labels", None, "taxa labels of the result differ from the input's"))
        want_perm = [obs["taxa_in"][i] for i in case["perm"]]
        if obs["taxa_perm"] != want_perm:
            fails0.append(("labels", None, "taxa labels not permuted with the taxa"))
        bad_corr, fails, enum_checked, nlean = self._check_vmat(case, obs["M"], answers, M2=obs["M2"], Mp=obs["Mperm"])
        fails = fails0 + fails
        linked, seg = self._linked_segregating(case)
        mems = [_mem_model(case["mem"]), _mem_model(case["mem2"])]
        chunked = any(mm is not None and mm < s for s in case["chr_sizes"] for mm in mems)
        nontriv = bool(linked and chunked and len(seg) >= 2)
        det = f"vmat[{sch},{'cov' if cov else 'var'},{case['via']},nself={case['nself']},{case['mapfn']}] " \
              f"enum_cells={enum_checked} lean_enum={nlean}"
        if bad_corr:
            det += f" MODEL!=IMPL at {bad_corr[0]}"
        if fails:
            det += " SPEC: " + "; ".join(f[2] for f in fails[:3])
        return {"corr": not bad_corr, "spec": not fails, "nontrivial": nontriv, "detail": det,
                "fails": [(f[0], list(f[1]) if f[1] is not None else None) for f in fails]}

    def _judge_hist(self, case, obs, answers):
        subs = _hist_subs(case)
        fails, bad_corr, dets = [], [], []
        pos = 0
        changed = False
        for (ix, sub), call in zip(subs, obs["calls"]):
            kind = sub["kind"]
            if kind == "genic":
                ans = answers[pos:pos + 1]
                pos += 1
                v = self._check_genic(sub, call, ans)
            elif kind == "uc":
                ans = answers[pos:pos + 2]
                pos += 2
                v = self._check_uc(sub, call, ans)
            else:
                nreq = 1 + len(self._lean_enum_reqs(sub, call["M"]))
                ans = answers[pos:pos + nreq]
                pos += nreq
                n = len(sub["geno"][0])
                nt = len(sub["u"][0])
                want_shape = [n] * NPARENT[sub["scheme"]] + ([nt, nt] if sub["cov"] else [nt])
                if call["shape"] != want_shape:
                    v = ([("shape",)], [("shape", None, f"shape {call['shape']} != {want_shape}")])
                else:
                    bc, fl, _, _ = self._check_vmat(sub, call["M"], ans)
                    v = (bc, fl)
            if v[0]:
                bad_corr.append((ix, v[0][0]))
            for f in v[1]:
                fails.append((f[0], f[1], f"request at step {ix} ({kind}, {sub['mapfn']}, nself={sub.get('nself')}): {f[2]}"))
        for k in obs["stale"]:
            fails.append(("result_overwritten", None, f"result of request #{k} changed after it was returned (shared storage / later request)"))
        ncall = len(obs["calls"])
        det = f"hist[{case.get('family')},{case['scheme']},{case['via']}] steps={[s['op'] for s in case['steps']]} shared={obs['shared']}"
        if bad_corr:
            det += f" MODEL!=IMPL at {bad_corr[0]}"
        if fails:
            det += " SPEC: " + "; ".join(f[2] for f in fails[:3])
        linked, seg = self._linked_segregating(dict(case, mapfn="pow2" if case["mapfn"] == "cap" else case["mapfn"]))
        nontriv = ncall >= 2 and len(case["steps"]) > ncall and len(seg) >= 1
        return {"corr": not bad_corr, "spec": not fails, "nontrivial": bool(nontriv), "detail": det,
                "fails": [(f[0], list(f[1]) if f[1] is not None else None) for f in fails]}

    # ---- wide linkage groups: per-distance pair enumeration, summed with numpy
    WIDE_TUPLES = {"two": [(1, 0)], "three": [(0, 1, 0), (1, 1, 0)], "four": [(0, 1, 0, 1), (1, 0, 0, 0)], "dihybrid": [(1, 0), (0, 0)]}
    _wide_memo = {}

    def _wide_oracle(self, case):
        key = self._rkey({k: case.get(k) for k in ("scheme", "geno", "u", "genposf", "nself", "gap")})
        if key not in self._wide_memo:
            self._wide_memo[key] = self._wide_oracle_raw(case)
        return self._wide_memo[key]

    def _wide_oracle_raw(self, case):
        """{tuple: (value, sum of absolute terms)}: every marker carries the same parental allele pattern and the markers are
        equally spaced, so Cov(g_i, g_j) = K(|i - j|); K(d) by enumeration of the two-locus process for every distance"""
        sch = case["scheme"]
        p = _nmark(case)
        ns = case["nself"]
        po = _PairOracle(exact=False)
        u = numpy.array([float(_fr(r[0])) for r in case["u"]])
        gf = [float(_fr(v)) for v in case["genposf"]]
        w = numpy.correlate(u, u, mode="full")[p - 1:]                       # w[d] = sum_i u_i u_{i+d}
        wa = numpy.correlate(numpy.abs(u), numpy.abs(u), mode="full")[p - 1:]
        w[1:] *= 2.0
        wa[1:] *= 2.0
        out = {}
        tups = self.WIDE_TUPLES[sch][:1 if p > 2000 else 2]
        for tup in tups:
            haps, esch = _tuple_haps(sch, case["geno"], tup)
            alle = tuple(int(h[0]) for h in haps)
            assert all(tuple(int(h[i]) for h in haps) == alle for i in (1, p // 2, p - 1))
            K = numpy.zeros(p)
            K[0] = po.single(esch, alle, ns)[1]
            for d in range(1, p):
                K[d] = po.pair(esch, alle, alle, math.exp(-2.0 * abs(gf[d] - gf[0])), ns)
            out[tup] = (float(4.0 * (K * w).sum()), float(4.0 * (numpy.abs(K) * wa).sum()))
        return out

    def _judge_wide(self, case, obs, answers):
        sch, cov = case["scheme"], case["cov"]
        tol = 1e-10
        fails = []
        M, M2 = obs["M"], obs["M2"]
        want_shape = [2] * NPARENT[sch] + ([1, 1] if cov else [1])
        if obs["shape"] != want_shape:
            return {"corr": False, "spec": False, "nontrivial": True, "detail": f"shape {obs['shape']}", "fails": [("shape", None)]}

        def val(X, tup):
            c = _get(X, tup)
            v = canon.dec(c[0][0] if cov else c[0])
            return v if isinstance(v, str) else float(v)

        oracle = self._wide_oracle(case)
        scm = max([s for _, s in oracle.values()] + [1e-300])
        for tup, (want, sc) in oracle.items():
            got = val(M, tup)
            if isinstance(got, str) or abs(got - want) > tol * max(sc, 1e-300):
                fails.append(("enum", tup, f"wide {sch}{list(tup)} reported {got!r}, pairwise enumeration {want!r}"))
        for tup in _all_tuples(sch, 2):
            a, b = val(M, tup), val(M2, tup)
            if isinstance(a, str) or isinstance(b, str) or abs(a - b) > tol * scm:
                fails.append(("chunk", tup, f"mem={case['mem']} gives {a}, mem={case['mem2']} gives {b} at {tup}"))
            w = val(M, tup[:-2] + (tup[-1], tup[-2]))
            if isinstance(a, str) or isinstance(w, str) or abs(a - w) > tol * scm:
                fails.append(("symmetry", tup, f"not symmetric at {tup}"))
            if _identical(sch, case["geno"], tup) and a != 0:
                fails.append(("identical_nonzero", tup, f"identical parents {tup} nonzero"))
        det = f"wide[{sch},{'cov' if cov else 'var'},{case['via']},p={_nmark(case)},nself={case['nself']}] values={[round(v, 6) for v, _ in oracle.values()]}"
        if fails:
            det += " SPEC: " + "; ".join(f[2] for f in fails[:3])
        return {"corr": True, "spec": not fails, "nontrivial": True, "detail": det,
                "fails": [(f[0], list(f[1])) for f in fails]}

    def _check_genic(self, case, obs, answers):
        sch = case["scheme"]
        n = len(case["geno"][0])
        U = _U(case)
        nt = len(U[0])
        model = answers[0]["ok"]
        M = obs["M"]
        fails, bad_corr = [], []
        want_shape = [n] * NPARENT[sch] + [nt]
        if obs["shape"] != want_shape:
            return [("shape",)], [("shape", None, f"shape {obs['shape']} != {want_shape}")]
        enum = _oracle_matrix(dict(case, nself=0), linkage_free=True)
        tol = 1e-12
        for tup in _all_tuples(sch, n):
            got = _get(M, tup)
            mod = _get(model, tup)
            for t in range(nt):
                sc = float(_scale(U, t, t))
                g = canon.dec(got[t])
                if mod[t] == "unwritten":                      # the model's loops leave the cell of numpy.empty untouched
                    if not isinstance(g, str):
                        bad_corr.append((tup, t, got[t], mod[t]))
                elif isinstance(g, str) or not _near(g, canon.dec(mod[t]), tol, sc):
                    bad_corr.append((tup, t, got[t], mod[t]))
                if isinstance(g, str):
                    fails.append(("uninitialised" if _is_skipped_diagonal(sch, tup) else "finite", tup,
                                  f"genic {sch}{list(tup)} trait {t} was never written (numpy.empty)"))
                    continue
                want = enum[tup][1][t][t]
                if not _near(g, want, tol, sc):
                    fails.append(("enum", tup, f"genic {sch}{list(tup)} = {float(g)} but linkage-free "
                                                f"enumeration = {float(want)}"))
                if _identical(sch, case["geno"], tup) and g != 0:
                    fails.append(("identical_nonzero", tup, f"identical parents {tup} nonzero"))
                og = canon.dec(_get(M, tup[:-2] + (tup[-1], tup[-2]))[t])
                if not isinstance(og, str) and not _near(g, og, tol, sc):
                    fails.append(("symmetry", tup, f"genic not symmetric at {tup}"))
        return bad_corr, fails

    def _judge_genic(self, case, obs, answers):
        n = len(case["geno"][0])
        bad_corr, fails = self._check_genic(case, obs, answers)
        seg = any(len({case["geno"][ph][t][i] for ph in (0, 1) for t in range(n)}) > 1
                  for i in range(_nmark(case)))
        det = f"genic[{case['scheme']},{case['via']}]"
        if bad_corr:
            det += f" MODEL!=IMPL at {bad_corr[0]}"
        if fails:
            det += " SPEC: " + "; ".join(f[2] for f in fails[:3])
        return {"corr": not bad_corr, "spec": not fails, "nontrivial": bool(seg), "detail": det,
                "fails": [(f[0], list(f[1]) if f[1] is not None else None) for f in fails]}

    def _check_uc(self, case, obs, answers):
        sch = case["scheme"]
        n = len(case["geno"][0])
        U = _U(case)
        nt = len(U[0])
        model = answers[0]["ok"]
        pct = float(_fr(case["upper_percentile"]))
        nd = statistics.NormalDist()
        inten = nd.pdf(nd.inv_cdf(1.0 - pct)) / pct
        beta = [_fr(v) for v in case["beta"]]
        p = len(U)
        bv = [[beta[t] + sum(U[i][t] * (case["geno"][0][k][i] + case["geno"][1][k][i]) for i in range(p))
               for t in range(nt)] for k in range(n)]
        want_x = [list(c) for c in (itertools.combinations(range(n), NPARENT[sch]) if case["unique_parents"]
                                    else itertools.combinations_with_replacement(range(n), NPARENT[sch]))]
        fails, bad_corr = [], []
        if len(answers) > 1 and answers[1]["ok"] != want_x:          # the Lean model of triuix / triudix vs itertools
            bad_corr.append(("xmap_model", answers[1]["ok"][:4], want_x[:4]))
        if case.get("uc_method") == "xmap_custom":
            want_x = [list(r) for r in case["xmap"]]
        if obs["xmap"] != want_x:
            bad_corr.append(("xmap", obs["xmap"][:4], want_x[:4]))
        # Spec: the configurations the values are reported for are the requested crosses (as crosses: the order of the
        # rows and of exchangeable parents inside a configuration is immaterial); every value is judged against the
        # configuration reported next to it
        def canon_cfg(cfg):
            cfg = [int(v) for v in cfg]
            if sch in ("two", "dihybrid"):
                return tuple(sorted(cfg))
            if sch == "three":
                return (cfg[0],) + tuple(sorted(cfg[1:]))
            return tuple(sorted([tuple(sorted(cfg[:2])), tuple(sorted(cfg[2:]))]))
        ok_rows = all(len(r) == NPARENT[sch] and all(0 <= int(v) < n for v in r) for r in obs["xmap"])
        if not ok_rows or sorted(canon_cfg(r) for r in obs["xmap"]) != sorted(canon_cfg(r) for r in want_x):
            fails.append(("xmap", None, f"cross map {obs['xmap'][:4]}.. does not hold the requested crosses {want_x[:4]}.."))
        if len(obs["uc"]) != len(obs["xmap"]):
            fails.append(("xmap", None, f"{len(obs['uc'])} rows of values for {len(obs['xmap'])} configurations"))
        if not ok_rows:
            return bad_corr, fails
        enum = _oracle_matrix(case)
        tol = 1e-9
        for row, cfg in zip(obs["uc"], obs["xmap"]):
            tup = tuple(cfg)
            pm = [sum(e * bv[k][t] for e, k in zip(EPGC[sch], cfg)) for t in range(nt)]
            mcell = _get(model, tup)
            for t in range(nt):
                sc = float(_scale(U, t, t))
                # magnitude of the uc value (no absolute floor: effects of 1e-8 give values of 1e-8)
                msc = max(abs(float(pm[t])), max(abs(float(bv[k][t])) for k in range(n)), inten * math.sqrt(sc), 1e-300)
                ucv = canon.dec(row[t])
                if isinstance(ucv, str):
                    fails.append(("finite", tup, f"uc{cfg} trait {t} = {ucv}"))
                    bad_corr.append((tup, t))
                    continue
                mv = float(canon.dec(mcell[t]))
                wantm = float(pm[t]) + inten * math.sqrt(max(mv, 0.0))
                # the variance itself is only known to 1e-12 of its natural scale; through the square root that is
                # negligible for a segregating cross and up to i * 1e-6 * sqrt(scale) where the variance (nearly) vanishes
                slack = lambda v: inten * (math.sqrt(max(v, 0.0) + 1e-12 * sc) - math.sqrt(max(v, 0.0)))
                if abs(float(ucv) - wantm) > tol * msc + slack(mv):
                    bad_corr.append((tup, t, float(ucv), wantm))
                if enum is not None:
                    mu, C = enum[tup]
                    ev = float(C[t][t])
                    emean = float(beta[t] + mu[t])
                    if abs(emean - float(pm[t])) > 1e-9 * msc:
                        fails.append(("mean", tup, f"enumerated progeny mean {emean} != parental mean {float(pm[t])}"))
                    want = emean + inten * math.sqrt(max(ev, 0.0))
                    if abs(float(ucv) - want) > tol * msc + slack(ev):
                        dev = (float(ucv) - float(pm[t])) / inten if inten else 0.0
                        diag0 = sch != "two" and _is_skipped_diagonal(sch, tup) and abs(dev) <= 1e-12
                        fails.append(("enum_selfhybrid" if diag0 else "enum", tup, f"uc {sch}{cfg} trait {t} = {float(ucv)!r}, mean + i*sqrt(enumerated "
                                                    f"variance) = {want!r}"))
        return bad_corr, fails

    def _judge_uc(self, case, obs, answers):
        bad_corr, fails = self._check_uc(case, obs, answers)
        linked, seg = self._linked_segregating(case)
        det = f"uc[{case['scheme']},nself={case['nself']},unique={case['unique_parents']},{case.get('uc_class', 'Subset')}." \
              f"{case.get('uc_method', 'gpmod')}] rows={len(obs['uc'])}"
        if bad_corr:
            det += f" MODEL!=IMPL at {bad_corr[0]}"
        if fails:
            det += " SPEC: " + "; ".join(f[2] for f in fails[:3])
        return {"corr": not bad_corr, "spec": not fails, "nontrivial": bool(linked and len(obs["uc"]) >= 1), "detail": det,
                "fails": [(f[0], list(f[1]) if f[1] is not None else None) for f in fails]}

    def _judge_util(self, case, obs, answers):
        model = answers[0]["ok"]
        out = obs["out"]
        fn, ns, t = case["fn"], case["nself"], case["t"]
        tol = 1e-13
        corr = len(out) == len(model) and all(
            not isinstance(canon.dec(a), str) and abs(canon.dec(a) - canon.dec(b)) <= tol for a, b in zip(out, model))
        # Spec: two-locus enumeration.  Parents a=(1,1), b=(0,0): 4 Cov(g_0,g_1) = D1(r) for the two-way cross;
        # for (a x b) x (a x b): 8 Cov4 - 4 Cov2 = D2(r)
        fails = []
        gens = INF_GENERATIONS_PAIR if ns is None else ns
        po = _PairOracle(exact=True)
        if t == 0 and fn != "rprob_filial":
            for rv, got in zip(case["r"], out):
                r = _fr(rv)
                g = canon.dec(got)
                if isinstance(g, str):
                    fails.append(("finite", None, f"{fn}({rv}) = {g}"))
                    continue
                c2 = po.pair("two", (1, 0), (1, 0), 1 - 2 * r, gens)
                if fn.startswith("cov_D1"):
                    want = 4 * c2
                else:
                    c4 = po.pair("four", (1, 0, 1, 0), (1, 0, 1, 0), 1 - 2 * r, gens)
                    want = 8 * c4 - 4 * c2
                if abs(g - want) > tol:
                    fails.append(("enum", None, f"{fn}(r={rv}, nself={ns}) = {float(g)!r} but two-locus enumeration gives {float(want)!r}"))
        elif fn == "rprob_filial":
            for rv, got in zip(case["r"], out):
                r = _fr(rv)
                g = canon.dec(got)
                k = INF_GENERATIONS_PAIR + 1 if ns is None else ns
                c2 = po.pair("two", (1, 0), (1, 0), 1 - 2 * r, k - 1)
                want = (1 - 4 * c2) / 2                # observed recombination rate among gametes of F_k
                if isinstance(g, str) or abs(g - want) > tol:
                    fails.append(("enum", None, f"rprob_filial(r={rv}, k={ns}) = {got} but enumeration gives {float(want)!r}"))
        nontriv = any(0 < _fr(v) < HALF for v in case["r"])
        det = f"util[{fn},nself={ns},t={t}]"
        if not corr:
            det += f" MODEL!=IMPL {out} vs {model}"
        if fails:
            det += " SPEC: " + "; ".join(f[2] for f in fails[:3])
        return {"corr": corr, "spec": not fails, "nontrivial": nontriv, "detail": det,
                "fails": [(f[0], None) for f in fails]}

    def _judge_reject(self, case, obs, answers):
        want = answers[0]["ok"]                     # "ok" or the error tag of the model
        got = obs["raised"]
        corr = (want == "ok" and got is None) or (want != "ok" and got == want)
        var = case["variant"]
        if var == "valid":
            spec = got is None and obs.get("finite", False)
        elif got is not None:
            spec = True                             # rejected
        elif var in ("mem_zero", "ungrouped"):
            # The property does not demand a rejection.  These inputs still describe a cross completely (a chunk size of 0
            # can only mean `no limit`; the markers are already ordered by linkage group), so an implementation that
            # answers must answer with the enumerated variances.
            n, nt = len(case["geno"][0]), len(case["u"][0])
            if obs.get("shape") != [n] * NPARENT[case["scheme"]] + [nt]:
                spec = False
            else:
                _, fl, _, _ = self._check_vmat(dict(case, cov=False), obs["M"], [])
                spec = not fl
        else:
            # no genetic positions / a negative selfing depth: outside the property's quantifier (no cross is described);
            # a changed behaviour shows up as broken correspondence only
            spec = True
        return {"corr": corr, "spec": bool(spec), "nontrivial": case["variant"] != "valid",
                "detail": f"reject[{case['variant']},{case['scheme']}] impl={got} ({obs.get('text', '')}) model={want}",
                "fails": [] if spec else [("reject", None)]}

    def _judge_chunks(self, case, obs, answers):
        model = answers[0]["ok"]
        corr = model == obs["chunks"]
        ch = obs["chunks"]
        lst, lsp = case["lst"], case["lsp"]
        ok = True
        cur = lst
        for a, b in ch:
            ok = ok and a == cur and a < b <= lsp and (b - a <= case["step"])
            cur = b
        ok = ok and cur == lsp
        sr = obs["srange"]
        ok = ok and sr == list(range(lst, lsp, case["step"])) + [lsp]
        return {"corr": corr, "spec": bool(ok), "nontrivial": len(ch) >= 2,
                "detail": f"chunks[{lst},{lsp},{case['step']}] impl={ch[:6]} model={model[:6]} tiles={ok}",
                "fails": [] if ok else [("tiling", None)]}

    def judge(self, case, obs, answers):
        answers = self._merge_answers(case, obs, answers)
        for a in answers:
            if "err" in a:
                raise RuntimeError("driver error: " + a["err"])
        return getattr(self, "_judge_" + case["kind"])(case, obs, answers)

    # ------------------------------------------------------------------ findings signature
    def signature(self, case, obs, verdict):
        sig = {"kind": case["kind"], "scheme": case.get("scheme"),
               "site": f"{case['kind']}_{case.get('scheme')}" + ("_cov" if case.get("cov") else "")}
        if isinstance(obs, dict) and "__exception__" in obs:
            sig["cond"] = "raised:" + obs.get("text", "").split(":")[0]
            return sig
        fails = verdict.get("fails") or []
        sig["cond"] = ",".join(sorted({f[0] for f in fails}))
        return sig

    # ------------------------------------------------------------------ shrinking
    def shrink(self, case):
        k = case["kind"]
        if k in ("util",):
            for i in range(len(case["r"])):
                if len(case["r"]) > 1:
                    yield dict(case, r=case["r"][:i] + case["r"][i + 1:])
            return
        if k in ("chunks", "wide"):
            return
        if k == "hist":
            steps = case["steps"]
            for i in range(len(steps)):
                rest = steps[:i] + steps[i + 1:]
                ncall = sum(1 for s in rest if s["op"] == "call")
                if ncall >= 1 and rest and all(s["op"] != "mutres" or s["which"] < sum(1 for q in rest[:j] if q["op"] == "call")
                                               for j, s in enumerate(rest)):
                    yield dict(case, steps=rest)
            nt = len(case["u"][0])
            if nt > 1 and not any(s["op"] == "set_u" for s in steps):
                yield dict(case, u=[r[:1] for r in case["u"]])
            return
        n = len(case["geno"][0])
        p = _nmark(case)
        nt = len(case["u"][0])
        minn = 1 if case.get("scheme") == "dihybrid" else 2
        if k == "uc" and case.get("unique_parents"):
            minn = max(minn, NPARENT[case["scheme"]])
        # many taxa: first try to halve
        if n > 8:
            for keep in (list(range(n // 2)), list(range(n // 2, n)), [0, 1] + list(range(n - (n // 2), n))):
                c = dict(case)
                c["geno"] = [[ph[i] for i in keep] for ph in case["geno"]]
                if "perm" in c:
                    c["perm"] = list(range(len(keep)))
                yield c
        # drop a taxon
        if n > minn:
            for t in range(n):
                c = dict(case)
                c["geno"] = [[row for i, row in enumerate(ph) if i != t] for ph in case["geno"]]
                if "perm" in c:
                    c["perm"] = list(range(n - 1))
                yield c
        # drop a marker
        if p > 1:
            st = 0
            for ci, s in enumerate(case["chr_sizes"]):
                for j in range(st, st + s):
                    c = dict(case)
                    c["geno"] = [[[v for i, v in enumerate(row) if i != j] for row in ph] for ph in case["geno"]]
                    c["u"] = [r for i, r in enumerate(case["u"]) if i != j]
                    for key in ("genpos2", "genposf"):
                        if key in case:
                            c[key] = [v for i, v in enumerate(case[key]) if i != j]
                    sizes = list(case["chr_sizes"])
                    sizes[ci] -= 1
                    c["chr_sizes"] = [x for x in sizes if x > 0]
                    if "chr_labels" in case:
                        c["chr_labels"] = [lb for lb, x in zip(case["chr_labels"], sizes) if x > 0]
                    yield c
                st += s
        # drop a trait
        if nt > 1:
            for t in range(nt):
                c = dict(case)
                c["u"] = [[v for i, v in enumerate(r) if i != t] for r in case["u"]]
                if "beta" in c:
                    c["beta"] = [v for i, v in enumerate(case["beta"]) if i != t]
                yield c
        for key in ("layout", "nself_form", "mem_form", "chr_labels", "taxa_grp_none"):
            if case.get(key):
                c = dict(case)
                c.pop(key)
                yield c
        if case.get("nself") not in (0,):
            yield dict(case, nself=0, nself_form=None)
        if case.get("mem") is not None and k == "vmat":
            yield dict(case, mem=None, mem2=1)
        if k == "vmat" and case["perm"] != list(range(n)):
            yield dict(case, perm=list(range(n)))
        if k == "vmat" and case["via"] != "algmod":
            yield dict(case, via="algmod")
        if case.get("mapfn") == "haldane":
            yield dict(case, mapfn="pow2")
        if any(v not in (1, 0) for r in case["u"] for v in r):
            yield dict(case, u=[[1 for _ in r] for r in case["u"]])

    # ------------------------------------------------------------------ self-test mutants
    def mutants(self):
        m = _mods()

        @contextlib.contextmanager
        def patch(obj, name, new):
            old = obj.__dict__[name] if isinstance(obj, type) and name in obj.__dict__ else getattr(obj, name)
            setattr(obj, name, new)
            try:
                yield
            finally:
                setattr(obj, name, old)

        @contextlib.contextmanager
        def many(*ctxs):
            with contextlib.ExitStack() as st:
                for c in ctxs:
                    st.enter_context(c())
                yield

        def resrc(cls, mod, subs, name="from_algmod"):
            """re-compile a classmethod of `cls` from its source with textual substitutions, in the
            namespace of its module (in memory; no file is touched)"""
            fn = getattr(cls, name).__func__
            src = textwrap.dedent(inspect.getsource(fn)).replace("\r", "")
            for a, b in subs:
                if a not in src:
                    raise RuntimeError(f"mutant pattern not found: {a!r} in {cls.__name__}.{name}")
                src = src.replace(a, b)
            src = src.replace("@classmethod\n", "", 1)
            ns = {}
            exec(compile(src, f"<mutant {cls.__name__}.{name}>", "exec"), mod.__dict__, ns)
            new = classmethod(ns[name])
            return lambda: patch(cls, name, new)

        util = m["util"]
        allmods = [m[f"{a}_mod_{k}"] for a in ("var", "cov") for k in SCHEMES]

        def rprob_no_half(r, k):
            two_r = 2.0 * r
            r_k = two_r / (1.0 + two_r)
            if k < numpy.inf:
                r_k = r_k * (1.0 - ((1.0 - two_r) ** k))
            return r_k

        def rprob_limit_from_8(r, k):
            two_r = 2.0 * r
            r_k = two_r / (1.0 + two_r)
            if k < 8:
                r_k = r_k * (1.0 - ((0.5 ** k) * ((1.0 - two_r) ** k)))
            return r_k

        def rprob_nonint_is_inf(r, k):
            two_r = 2.0 * r
            r_k = two_r / (1.0 + two_r)
            if isinstance(k, int):
                r_k = r_k * (1.0 - ((0.5 ** k) * ((1.0 - two_r) ** k)))
            return r_k

        def rprob_underflow_guard(r, k):
            two_r = 2.0 * r
            r_k = two_r / (1.0 + two_r)
            if k < numpy.inf:
                corr = (0.5 ** k) * ((1.0 - two_r) ** k)
                corr = numpy.where(corr < 1e-6, 0.0, corr)       # 'negligible' correction dropped
                r_k = r_k * (1.0 - corr)
            return r_k

        def d1_as_k(r, nself):
            if nself == 0:
                return 1 - 2 * r
            return 1.0 - 2.0 * util.rprob_filial(r, nself)       # k = nself instead of nself + 1

        def d2_sq_always(r, nself):
            return (1.0 - 2.0 * r) ** 2

        def srange_short(start, stop, step):
            yield from range(start, stop, step)
            yield stop - 1

        def srange_no_dup_stop(start, stop, step):
            yield from range(start, stop, step)
            if (stop - start) % step != 0:
                yield stop

        def util_everywhere(name, new):
            return lambda: many(*[(lambda mod=mod: patch(mod, name, new)) for mod in allmods if hasattr(mod, name)],
                                lambda: patch(util, name, new))

        muts = []
        # --- linkage-decay terms (vmat/util.py)
        muts.append(("rprob_filial_drop_half_pow", lambda: patch(util, "rprob_filial", rprob_no_half)))
        muts.append(("rprob_filial_limit_from_k8", lambda: patch(util, "rprob_filial", rprob_limit_from_8)))
        muts.append(("rprob_filial_numpy_int_is_inf", lambda: patch(util, "rprob_filial", rprob_nonint_is_inf)))
        muts.append(("rprob_filial_drops_small_correction", lambda: patch(util, "rprob_filial", rprob_underflow_guard)))
        muts.append(("cov_D1s_generation_off_by_one", util_everywhere("cov_D1s", d1_as_k)))
        muts.append(("D1_for_D2", lambda: many(
            *[(lambda mod=mod: patch(mod, "cov_D2s", util.cov_D1s)) for mod in
              [m[f"{a}_mod_{k}"] for a in ("var", "cov") for k in ("three", "four", "dihybrid")]],
            lambda: patch(util, "cov_D2s", util.cov_D1s))))
        muts.append(("cov_D2s_ignores_selfing", lambda: many(
            *[(lambda mod=mod: patch(mod, "cov_D2s", d2_sq_always)) for mod in
              [m[f"{a}_mod_{k}"] for a in ("var", "cov") for k in ("three", "four", "dihybrid")]],
            lambda: patch(util, "cov_D2s", d2_sq_always))))
        # --- chunking (srange)
        muts.append(("chunk_stop_minus_one", lambda: many(
            *[(lambda mod=mod: patch(mod, "srange", srange_short)) for mod in allmods], lambda: patch(m["sub"], "srange", srange_short))))
        muts.append(("srange_no_stop_on_exact_multiple", lambda: many(
            *[(lambda mod=mod: patch(mod, "srange", srange_no_dup_stop)) for mod in allmods],
            lambda: patch(m["sub"], "srange", srange_no_dup_stop))))
        # --- recombination from |g_i - g_j|
        muts.append(("no_abs_of_position_difference", lambda: many(
            *[resrc(m[f"{a}_{k}"], m[f"{a}_mod_{k}"], [("numpy.abs(gi - gj)", "(gi - gj)")])
              for a in ("var", "cov") for k in SCHEMES])))
        muts.append(("two_way_positions_above_10_taken_as_cM", resrc(m["var_two"], m["var_mod_two"], [
            ("genpos = pgmat.vrnt_genpos ", "genpos = pgmat.vrnt_genpos if pgmat.vrnt_genpos.max() <= 10.0 else 0.01 * pgmat.vrnt_genpos ")])))
        muts.append(("dihybrid_cov_positions_above_10_taken_as_cM", resrc(m["cov_dihybrid"], m["cov_mod_dihybrid"], [
            ("genpos = pgmat.vrnt_genpos ", "genpos = pgmat.vrnt_genpos if pgmat.vrnt_genpos.max() <= 10.0 else 0.01 * pgmat.vrnt_genpos ")])))
        muts.append(("four_way_positions_in_single_precision", resrc(m["var_four"], m["var_mod_four"], [
            ("genpos = pgmat.vrnt_genpos ", "genpos = pgmat.vrnt_genpos.astype('float32').astype(float) ")])))
        muts.append(("three_way_isclose_distance_zero", resrc(m["var_three"], m["var_mod_three"], [
            ("r = gmapfn.mapfn(numpy.abs(gi - gj))", "r = gmapfn.mapfn(numpy.where(numpy.isclose(gi, gj, atol=1e-6), 0.0, numpy.abs(gi - gj)))")])))
        muts.append(("four_way_genotypes_raveled_in_memory_order", resrc(m["var_four"], m["var_mod_four"], [
            ("geno = pgmat.mat ", "geno = pgmat.mat.ravel(order='K').reshape(pgmat.mat.shape) ")])))
        muts.append(("two_way_cov_effects_raveled_in_memory_order", resrc(m["cov_two"], m["cov_mod_two"], [
            ("u = algmod.u_a ", "u = algmod.u_a.ravel(order='K').reshape(algmod.u_a.shape) ")])))
        muts.append(("two_way_small_variance_clipped", resrc(m["var_two"], m["var_mod_two"], [
            ("var_A[female,male,:] += var_A_partial", "var_A[female,male,:] += numpy.where(numpy.abs(var_A_partial) < 1e-10, 0.0, var_A_partial)")])))
        muts.append(("dihybrid_linkage_groups_by_consecutive_label", resrc(m["var_dihybrid"], m["var_mod_dihybrid"], [
            ("for lst, lsp in zip(chrgrp_stix, chrgrp_spix):",
             "for lst, lsp in [(s, e) for s, e, nm in zip(chrgrp_stix, chrgrp_spix, pgmat.vrnt_chrgrp_name) if nm >= 1]:")])))
        # --- mirror step
        muts.append(("forget_mirror_two_way", resrc(m["var_two"], m["var_mod_two"],
                                                    [("var_A[male,female,:] = var_A[female,male,:]", "pass")])))
        muts.append(("forget_mirror_three_way_cov", resrc(m["cov_three"], m["cov_mod_three"],
                                                          [("varA_mat[:,male,female,:,:] = varA_mat[:,female,male,:,:]", "pass")])))
        # --- the double sum itself
        muts.append(("two_way_phase1_minus_phase0", resrc(m["var_two"], m["var_mod_two"],
                                                           [("cdgeno = geno[0,female,cst:csp] - geno[0,male,cst:csp]",
                                                             "cdgeno = geno[0,female,cst:csp] + geno[0,male,cst:csp]")])))
        muts.append(("dihybrid_geno1_for_geno0", resrc(m["var_dihybrid"], m["var_mod_dihybrid"],
                                                       [("rdgeno43 = geno[0,male,rst:rsp] - geno[1,male,rst:rsp]",
                                                         "rdgeno43 = geno[1,male,rst:rsp] - geno[1,male,rst:rsp]")])))
        muts.append(("three_way_quarter_to_half", resrc(m["var_three"], m["var_mod_three"], [("varA_mat *= 0.25", "varA_mat *= 0.5")])))
        muts.append(("four_way_drop_part32", resrc(m["var_four"], m["var_mod_four"],
                                                   [("varA_part21 + varA_part31 + varA_part32 +", "varA_part21 + varA_part31 +")])))
        muts.append(("four_way_skip_one_marker_groups", resrc(m["var_four"], m["var_mod_four"], [
            ("for lst, lsp in zip(chrgrp_stix, chrgrp_spix):",
             "for lst, lsp in [(s, e) for s, e in zip(chrgrp_stix, chrgrp_spix) if e - s >= 2]:")])))
        muts.append(("three_way_cov_D1_part23", resrc(m["cov_three"], m["cov_mod_three"],
                                                      [("varA_part23 = reffect23 @ D2 @ ceffect23.T", "varA_part23 = reffect23 @ D1 @ ceffect23.T")])))
        muts.append(("two_way_cov_transposed_effects", resrc(m["cov_two"], m["cov_mod_two"],
                                                             [("ru = u[rst:rsp].T", "ru = u[rst:rsp].T[::-1]")])))
        muts.append(("dihybrid_var_part31_uses_D2", resrc(m["var_dihybrid"], m["var_mod_dihybrid"],
                                                          [("varA_part31 = (reffect31 @ D1 * ceffect31).sum(1)", "varA_part31 = (reffect31 @ D2 * ceffect31).sum(1)")])))
        muts.append(("four_way_cov_D1_part43", resrc(m["cov_four"], m["cov_mod_four"],
                                                     [("varA_part43 = reffect43 @ D2 @ ceffect43.T", "varA_part43 = reffect43 @ D1 @ ceffect43.T")])))
        muts.append(("dihybrid_cov_part31_uses_D2", resrc(m["cov_dihybrid"], m["cov_mod_dihybrid"],
                                                          [("varA_part31 = reffect31 @ D1 @ ceffect31.T", "varA_part31 = reffect31 @ D2 @ ceffect31.T")])))
        muts.append(("three_way_skip_self_hybrid_cells", resrc(m["var_three"], m["var_mod_three"],
                                                               [("for male in range(0,female+1):", "for male in range(0,female):")])))
        muts.append(("dihybrid_cov_skip_selfs", resrc(m["cov_dihybrid"], m["cov_mod_dihybrid"],
                                                      [("for male in range(0,female+1):", "for male in range(0,female):")])))
        muts.append(("two_way_default_mem_drops_last_partial_chunk", resrc(m["var_two"], m["var_mod_two"], [
            ("step = (lsp - lst) if mem is None else mem",
             "step = (lsp - lst) if mem is None else mem; lsp = (lst + ((lsp - lst) // mem) * mem) if (mem == 1024 and lsp - lst > mem) else lsp")])))
        # --- genic
        muts.append(("genic_two_way_diagonal_unwritten", resrc(m["genic_two"], m["genic_mod_two"],
                                                               [("for male in range(0,female+1):", "for male in range(0,female):")])))
        muts.append(("genic_three_way_epgc", resrc(m["genic_three"], m["genic_mod_three"],
                                                   [("epgc = (0.5,0.25,0.25)", "epgc = (0.25,0.5,0.25)")])))
        muts.append(("genic_four_way_freq_of_three", resrc(m["genic_four"], m["genic_mod_four"],
                                                           [("tafreq[(female2,male2,female1,male1),:]", "tafreq[(female2,male2,female1,female1),:]")])))
        muts.append(("genic_varcoef_without_ploidy", lambda: many(
            resrc(m["genic_two"], m["genic_mod_two"], [("varcoef = (ploidy * u)**2", "varcoef = (u)**2")]),
            resrc(m["genic_dihybrid"], m["genic_mod_dihybrid"], [("varcoef = (ploidy * u)**2", "varcoef = (u)**2")]))))
        muts.append(("genic_epgc_unequal", resrc(m["genic_two"], m["genic_mod_two"], [("epgc = (0.5,0.5)", "epgc = (0.75,0.25)")])))
        # --- factory
        muts.append(("factory_drops_nself", lambda: many(*[
            (lambda k=k: patch(m["fcty_" + k], "from_gmod",
                               lambda self, gmod, pgmat, ncross, nprogeny, nself, gmapfn, k=k, **kw:
                               m["var_" + k].from_gmod(gmod=gmod, pgmat=pgmat, nmating=ncross, nprogeny=nprogeny,
                                                       nself=0, gmapfn=gmapfn, **kw))) for k in SCHEMES])))

        # stateful mutants: memo keyed on object identities, results sharing one buffer
        def memo_factory(k):
            orig = m["fcty_" + k].from_gmod

            def from_gmod(self, gmod, pgmat, ncross, nprogeny, nself, gmapfn, **kw):
                last = getattr(self, "_last", None)
                if last is not None and last[0] is gmod and last[1] is pgmat and last[2] == (ncross, nprogeny, nself):
                    return last[3]
                out = orig(self, gmod, pgmat, ncross, nprogeny, nself, gmapfn, **kw)
                self._last = (gmod, pgmat, (ncross, nprogeny, nself), out)
                return out
            return lambda: patch(m["fcty_" + k], "from_gmod", from_gmod)

        muts.append(("factory_memoises_on_object_identity", lambda: many(*[memo_factory(k) for k in SCHEMES])))

        def rcache_class(a, k):
            """recombination matrix cached per (id(pgmat), block): stale after positions are replaced"""
            return resrc(m[f"{a}_{k}"], m[f"{a}_mod_{k}"], [
                ("r = gmapfn.mapfn(numpy.abs(gi - gj))",
                 "r = cls.__dict__.setdefault('_rc', {}).setdefault((id(pgmat), type(gmapfn).__name__, rst, rsp, cst, csp), "
                 "gmapfn.mapfn(numpy.abs(gi - gj)))")])

        @contextlib.contextmanager
        def clear_rc(classes):
            try:
                yield
            finally:
                for c in classes:
                    if "_rc" in c.__dict__:
                        delattr(c, "_rc")

        muts.append(("recombination_block_cached_per_pgmat_object", lambda: many(
            rcache_class("var", "two"), rcache_class("cov", "three"), rcache_class("var", "dihybrid"),
            lambda: clear_rc([m["var_two"], m["cov_three"], m["var_dihybrid"]]))))

        def shared_buffer(k):
            orig = m["var_" + k].from_algmod.__func__
            store = {}

            def from_algmod(cls, *a, **kw):
                out = orig(cls, *a, **kw)
                buf = store.get(out.mat.shape)
                if buf is None:
                    store[out.mat.shape] = out.mat
                else:
                    buf[...] = out.mat
                    out.mat = buf                          # every result of this shape lives in one workspace
                return out
            return lambda: patch(m["var_" + k], "from_algmod", classmethod(from_algmod))

        muts.append(("results_share_one_workspace", lambda: many(*[shared_buffer(k) for k in SCHEMES])))

        def genic_memo():
            orig = m["genic_two"].from_algmod.__func__
            store = {}

            def from_algmod(cls, algmod, pgmat, *a, **kw):
                key = (id(algmod), id(pgmat))
                if key not in store:
                    store[key] = orig(cls, algmod, pgmat, *a, **kw)
                return store[key]
            return lambda: patch(m["genic_two"], "from_algmod", classmethod(from_algmod))

        muts.append(("genic_two_way_memoised_on_object_identity", genic_memo()))
        # --- usefulness criterion
        ucmix = m["ucmod"].UsefulnessCriterionSelectionProblemMixin

        UC_SQRT = "numpy.sqrt(numpy.maximum(pvar, 0.0))"

        def resrc_static(subs):
            fn = ucmix.__dict__["_calc_uc"].__func__
            src = textwrap.dedent(inspect.getsource(fn)).replace("\r", "")
            if UC_SQRT not in src:                      # a tree without fix D37: the mutants are written against the repaired form
                src = src.replace("numpy.sqrt(pvar)", UC_SQRT)
            for a, b in subs:
                if a not in src:
                    raise RuntimeError(f"mutant pattern not found: {a!r}")
                src = src.replace(a, b)
            src = src.replace("@staticmethod\n", "", 1)
            ns = {}
            exec(compile(src, "<mutant _calc_uc>", "exec"), m["ucmod"].__dict__, ns)
            new = staticmethod(ns["_calc_uc"])
            return lambda: patch(ucmix, "_calc_uc", new)

        muts.append(("uc_without_sqrt", resrc_static([(UC_SQRT, "pvar")])))
        muts.append(("uc_mean_unweighted", resrc_static([("pmean = epgc.dot(bvmat[cconfig,:])", "pmean = bvmat[cconfig,:].mean(0) if len(set(epgc)) > 1 else bvmat[cconfig,:].sum(0)")])))
        muts.append(("uc_mean_from_scaled_breeding_values", resrc_static([("bvmat = bvmat_obj.unscale()", "bvmat = bvmat_obj.mat")])))
        muts.append(("uc_zero_variance_for_one_taxon_configurations", resrc_static([
            ("pvar = vmat[tuple(cconfig) + (slice(None),)]",
             "pvar = vmat[tuple(cconfig) + (slice(None),)] * (0.0 if len(set(int(c) for c in cconfig)) == 1 else 1.0)")])))
        muts.append(("uc_variance_clipped_from_below", resrc_static([(UC_SQRT, "numpy.sqrt(numpy.clip(pvar, 1e-8, None))")])))
        for cname, meth in (("Real", "from_pgmat_gpmod_xmap"), ("Integer", "from_pgmat_gpmod"), ("Binary", "from_pgmat_gpmod_xmap")):
            cls = getattr(m["ucmod"], f"UsefulnessCriterion{cname}MateSelectionProblem")
            muts.append((f"uc_intensity_divided_by_complement_{cname}_{meth}", resrc(cls, m["ucmod"], [
                ("scipy.stats.norm.ppf(1.0 - upper_percentile)) / upper_percentile",
                 "scipy.stats.norm.ppf(1.0 - upper_percentile)) / (1.0 - upper_percentile)")], name=meth)))

        def resrc_method(cls, mod, subs, name):
            fn = cls.__dict__[name]
            src = textwrap.dedent(inspect.getsource(fn)).replace("\r", "")
            for a, b in subs:
                if a not in src:
                    raise RuntimeError(f"mutant pattern not found: {a!r} in {cls.__name__}.{name}")
                src = src.replace(a, b)
            ns = {}
            exec(compile(src, f"<mutant {cls.__name__}.{name}>", "exec"), mod.__dict__, ns)
            return lambda: patch(cls, name, ns[name])

        # --- round 4: the classes of inputs / histories added in this round
        # (2) tolerance-style snapping of nearly unlinked markers
        muts.append(("four_way_nearly_unlinked_snapped_to_half", resrc(m["var_four"], m["var_mod_four"], [
            ("r = gmapfn.mapfn(numpy.abs(gi - gj))", "r = gmapfn.mapfn(numpy.abs(gi - gj)); r = numpy.where(numpy.isclose(r, 0.5), 0.5, r)")])))

        def d2_unlinked_zero(r, nself):
            if nself == 0:
                return (1.0 - 2.0 * r) ** 2
            four_r = 4.0 * r
            return numpy.where(r > 0.5 - 1e-7, 0.0, 1.0 - four_r + four_r * util.rprob_filial(r, nself + 1))

        muts.append(("cov_D2s_zero_for_nearly_unlinked", lambda: many(
            *[(lambda mod=mod: patch(mod, "cov_D2s", d2_unlinked_zero)) for mod in
              [m[f"{a}_mod_{k}"] for a in ("var", "cov") for k in ("three", "four", "dihybrid")]],
            lambda: patch(util, "cov_D2s", d2_unlinked_zero))))
        # (1) two cooperating edits in vmat/util.py: memo on the identity of r + in-place completion of D1
        def memo_inplace():
            state = {"last": (None, None, None)}

            def rprob(r, k):
                last = state["last"]
                if last[0] is r and last[1] == k:
                    return last[2]
                two_r = 2.0 * r
                r_k = two_r / (1.0 + two_r)
                if k < numpy.inf:
                    r_k *= (1.0 - ((0.5 ** k) * ((1.0 - two_r) ** k)))
                state["last"] = (r, k, r_k)
                return r_k

            def d1(r, nself):
                if nself == 0:
                    return 1 - 2 * r
                D1 = rprob(r, nself + 1)
                D1 *= -2.0
                D1 += 1.0
                return D1

            def d2(r, nself):
                if nself == 0:
                    return (1.0 - 2.0 * r) ** 2
                four_r = 4.0 * r
                return 1.0 - four_r + four_r * rprob(r, nself + 1)
            return lambda: many(util_everywhere("cov_D1s", d1), util_everywhere("cov_D2s", d2), lambda: patch(util, "rprob_filial", rprob))

        muts.append(("rprob_filial_memo_completed_in_place_by_D1", memo_inplace()))
        # (6) sparse effects: a linkage group skipped as soon as ONE trait has no effect on it
        muts.append(("two_way_cov_group_skipped_if_any_trait_without_effect", resrc(m["cov_two"], m["cov_mod_two"], [
            ("step = (lsp - lst) if mem is None else mem",
             "step = (lsp - lst) if mem is None else mem\n        if numpy.any(numpy.all(u[lst:lsp] == 0.0, axis = 0)): continue")])))
        muts.append(("dihybrid_markers_without_effect_on_first_trait_dropped", resrc(m["var_dihybrid"], m["var_mod_dihybrid"], [
            ("ru = u[rst:rsp].T", "ru = (u[rst:rsp] * (u[rst:rsp,0:1] != 0.0)).T")])))
        muts.append(("uc_mean_only_when_some_trait_does_not_segregate", resrc_static([
            ("uc[i,:] = pmean + selection_intensity * " + UC_SQRT,
             "uc[i,:] = pmean + (selection_intensity * " + UC_SQRT + " if numpy.all(pvar > 0.0) else 0.0)")])))
        # undo fix D37: the square root of the variance as reported (NaN where rounding left it below zero)
        muts.append(("uc_sqrt_of_unclipped_variance_undo_D37", resrc_static([(UC_SQRT, "numpy.sqrt(pvar)")])))
        # three-way covariance: shortcut for female == male that forgets the factor 4
        muts.append(("three_way_cov_self_hybrid_shortcut_quarter", resrc(m["cov_three"], m["cov_mod_three"], [
            ("                            rdgeno23 = geno[0,female,rst:rsp] - geno[0,male,rst:rsp]",
             "                            if male == female:\n"
             "                                varA_mat[recurr,female,male,:,:] += varA_part21\n"
             "                                continue\n"
             "                            rdgeno23 = geno[0,female,rst:rsp] - geno[0,male,rst:rsp]")])))
        # (3) sizes: many taxa, exact multiples of the default chunk size
        muts.append(("dihybrid_male_loop_in_blocks_of_8_tail", resrc(m["var_dihybrid"], m["var_mod_dihybrid"], [
            ("for male in range(0,female+1):",
             "for male in (mm for mst in range(0,max(female,1),8) for mm in range(mst,min(mst+8,female+1))):")])))
        muts.append(("two_way_mirror_through_int8_taxa_index", resrc(m["var_two"], m["var_mod_two"], [
            ("    for female in range(1, ntaxa):\n        for male in range(0, female):\n            var_A[male,female,:] = var_A[female,male,:]",
             "    tix = numpy.arange(ntaxa).astype(geno.dtype)\n    for female in tix[1:]:\n        for male in tix[:max(int(female),0)]:\n"
             "            var_A[male,female,:] = var_A[female,male,:]")])))
        muts.append(("two_way_exact_multiple_of_large_chunk_loses_last_block", resrc(m["var_two"], m["var_mod_two"], [
            ("step = (lsp - lst) if mem is None else mem",
             "step = (lsp - lst) if mem is None else mem\n        lsp = lsp - (step if (lsp - lst) > step and (lsp - lst) % step == 0 and step >= 512 else 0)")])))
        # (4) caller-supplied configurations in any parent order
        muts.append(("uc_variance_looked_up_at_sorted_configuration", resrc_static([
            ("pvar = vmat[tuple(cconfig) + (slice(None),)]", "pvar = vmat[tuple(sorted(int(c) for c in cconfig)) + (slice(None),)]")])))
        # nself = inf replaced by a `large` finite depth in one from_gmod
        def gmod_inf_as_20(a, k):
            cls = m[f"{a}_{k}"]
            orig = cls.from_gmod.__func__

            def from_gmod(c, gmod, pgmat, nmating, nprogeny, nself, gmapfn, **kw):
                return orig(c, gmod, pgmat, nmating, nprogeny, 20 if nself == numpy.inf else nself, gmapfn, **kw)
            return lambda: patch(cls, "from_gmod", classmethod(from_gmod))
        muts.append(("dihybrid_cov_from_gmod_inf_taken_as_20_generations", gmod_inf_as_20("cov", "dihybrid")))
        muts.append(("three_way_from_gmod_inf_taken_as_20_generations", gmod_inf_as_20("var", "three")))
        # (5) secondary entry point: the genic factory's from_algmod
        gf = m["genic_fcty_two"]
        gorig = gf.from_algmod

        def genic_fcty_from_algmod(self, algmod, pgmat, nprogeny, mem=1024, **kw):
            out = gorig(self, algmod, pgmat, nprogeny, mem, **kw)
            out.mat = out.mat * 0.5                       # 'per haploid genome'
            return out
        muts.append(("genic_factory_from_algmod_halved", lambda: patch(gf, "from_algmod", genic_fcty_from_algmod)))
        muts.append(("uc_protocol_passes_nprogeny_as_nself", resrc_method(
            m["ucprot"].UsefulnessCriterionRealSelection, m["ucprot"], [("nself = self.nself,", "nself = nprogeny_median,")], "problem")))
        muts.append(("uc_protocol_ignores_unique_parents", resrc_method(
            m["ucprot"].UsefulnessCriterionSubsetSelection, m["ucprot"], [("        self.unique_parents\n    )", "        True\n    )")], "problem")))
        return muts


PROP = C12()
