"""C17 — sampling utilities: stochastic universal sampling, tiled choice, axis shuffle, outcross shuffle.

Randomness is an oracle input of the Lean model.  Every case carries a *generator specification*
(`rng`); the implementation is run with a generator built from it, and the draws the implementation
consumed are recovered by replaying the same call pattern on a second generator built from the same
specification (so a wrong assumption about the call pattern shows up as a model/implementation
disagreement).  Generator specifications:

  {"gen": "pcg64"|"mt19937"|"randomstate", "seed": s}            a genuine seeded generator
  {... "gen": "mt19937"|"randomstate", "craft": [w0, w1]}        the same, with the MT19937 state edited
        (tempering inverted) so that the next two 32-bit outputs are w0, w1: [0, 0] makes the next
        uniform variate exactly 0.0, [2^32-1, 2^32-1] makes it 1 - 2^-53.  Every 624-word vector is a
        state the generator passes through, so these are genuine generator states.
  {"gen": "scripted", "seed": s, "u": "n/d"}                     numpy Generator subclass whose
        `uniform(low, high)` returns low + (high-low)*u (used to put a pointer exactly on a boundary of
        the cumulative weights); everything else is PCG64(seed).
"""
import contextlib
import math
import os
from collections import Counter
from fractions import Fraction

import numpy

from .. import canon, compat
from ..core import Prop

compat.install()

M32 = 0xFFFFFFFF


def _mods():
    compat.import_pybrops()
    import pybrops.core.random.sampling as S
    import pybrops.core.util.array as A
    return S, A


# ---------------------------------------------------------------------------------- generators
def _untemper(y):
    y &= M32
    y ^= y >> 18
    y ^= (y << 15) & 0xEFC60000
    t = y
    for _ in range(5):
        t = y ^ ((t << 7) & 0x9D2C5680)
    y = t & M32
    t = y
    for _ in range(3):
        t = y ^ (t >> 11)
    return t & M32


class ScriptedGenerator(numpy.random.Generator):
    """a numpy Generator whose uniform() returns a scripted quantile; all other draws are genuine"""

    def uniform(self, low=0.0, high=1.0, size=None):
        return low + (high - low) * float(self._u)


def make_rng(spec):
    gen = spec["gen"]
    seed = int(spec.get("seed", 0))
    craft = spec.get("craft")
    if gen == "pcg64":
        return numpy.random.Generator(numpy.random.PCG64(seed))
    if gen == "scripted":
        g = ScriptedGenerator(numpy.random.PCG64(seed))
        g._u = Fraction(spec["u"])
        return g
    if gen == "mt19937":
        bg = numpy.random.MT19937(seed)
        g = numpy.random.Generator(bg)
        if craft is not None:
            g.random()                                   # make sure the key block has been generated
            st = bg.state
            key = st["state"]["key"].copy()
            pos = int(st["state"]["pos"])
            if pos > 600:
                pos = 2
            key[pos] = _untemper(int(craft[0]))
            key[pos + 1] = _untemper(int(craft[1]))
            st["state"]["key"] = key
            st["state"]["pos"] = pos
            bg.state = st
        return g
    if gen == "randomstate":
        rs = numpy.random.RandomState(seed)
        if craft is not None:
            rs.random_sample()
            st = rs.get_state()
            key = st[1].copy()
            pos = int(st[2])
            if pos > 600:
                pos = 2
            key[pos] = _untemper(int(craft[0]))
            key[pos + 1] = _untemper(int(craft[1]))
            rs.set_state((st[0], key, pos, 0, 0.0))
        return rs
    raise ValueError(gen)


def _size_arg(size):
    return tuple(int(v) for v in size) if isinstance(size, list) else int(size)


def _size_list(size):
    return [int(v) for v in size] if isinstance(size, list) else [int(size)]


def _prod(l):
    r = 1
    for v in l:
        r *= int(v)
    return r


def _farr(vals):
    return numpy.array([float(Fraction(v)) for v in vals], dtype=float)


# ---------------------------------------------------------------------------------- oracle replay
def _sus_oracle(case):
    """draws consumed by stochastic_universal_sampling, replayed on a second generator, plus the
    binary64 intermediates the signature of a failing case refers to"""
    p = _farr(case["p"])
    k = _prod(_size_list(case["size"]))
    tot = p.sum()
    d = tot / numpy.int64(k)
    sigma = p.argsort()[::-1]
    clone = make_rng(case["rng"])
    off = clone.uniform(0.0, d)
    perm = numpy.arange(k)
    clone.shuffle(perm)
    ptrs = numpy.arange(off, tot, d)
    cs = p[sigma].cumsum()
    return {"offset": float(off), "sigma": [int(v) for v in sigma], "perm": [int(v) for v in perm],
            "k": k, "tot": float(tot), "d": float(d), "nptr": len(ptrs),
            "ptr_beyond_cumsum": bool(len(ptrs) > 0 and ptrs[-1] > cs[-1]),
            "offset_zero_or_absorbed": bool(off == 0.0 or off < numpy.spacing(tot))}


def _tiled_oracle(case):
    noption = len(case["a"])
    size = _size_arg(case["size"])
    nsample = _prod(_size_list(case["size"]))
    p = None if case.get("p") is None else _farr(case["p"])
    clone = make_rng(case["rng"])
    opts = numpy.arange(noption)
    if case["replace"]:
        draw = clone.choice(opts, size, True, p)
        return {"draw": [int(v) for v in numpy.ravel(draw)], "perm": []}
    re_ = nsample % noption
    draw = clone.choice(opts, numpy.int64(re_), False, p)
    perm = numpy.arange(nsample)
    clone.shuffle(perm)
    return {"draw": [int(v) for v in draw], "perm": [int(v) for v in perm]}


def _axes(case):
    ax = case["axis"]
    return [int(v) for v in ax] if isinstance(ax, list) else [int(ax)]


def _norm_axes(case):
    """axes as axis_shuffle reads them since fix 5396d924: a negative axis counts from the last one"""
    nd = len(case["shape"])
    return [a + nd if a < 0 else a for a in _axes(case)]


def _axis_oracle(case):
    shape = case["shape"]
    axes = set(a for a in _norm_axes(case) if 0 <= a < len(shape))
    free = [i for i in range(len(shape)) if i not in axes]
    if not free:
        return {"perms": []}
    nslice = _prod([shape[i] for i in sorted(axes)])
    clone = make_rng(case["rng"])
    perms = []
    for _ in range(nslice):
        q = numpy.arange(shape[free[0]])
        clone.shuffle(q)
        perms.append([int(v) for v in q])
    return {"perms": perms}


def _dup(row):
    return len(row) - len(set(row))


def _score(x, nrow, ncol):
    return sum(_dup(x[r * ncol:(r + 1) * ncol]) for r in range(nrow))


def _outcross_oracle(case):
    x = case["x"]
    n = len(x)
    exch = numpy.array([[i, j] for i in range(n) for j in range(i + 1, n)])
    clone = make_rng(case["rng"])
    orders = []
    for _ in range(_score(x, case["nrow"], case["ncol"]) + 1):   # every pass but the last lowers the score
        clone.shuffle(exch)
        orders.append([[int(i), int(j)] for i, j in exch] if exch.ndim == 2 else [])
    return {"orders": orders}


# ---------------------------------------------------------------------------------- the property module
class C17(Prop):
    PID = "C17"
    MODULE = "PybropsModel.Props.C17"
    N_QUICK = 1500
    N_THOROUGH = 50000
    RULE = ("SUS: 1-9 weights (integers, dyadics, forced ties and zeros; binary64 weights spanning 1e-6..1e6), "
            "1-64 draws in 1-D to 3-D shapes, scripted offsets that put pointers exactly on cumulative-weight "
            "boundaries, genuine PCG64/MT19937/RandomState states incl. crafted MT19937 states with next variate "
            "0.0 / 2^-53 / 1-2^-53 / 1-r*2^-53; tiled choice: 1-9 options, sizes below / equal / above multiples of "
            "the option count, optional probabilities; axis shuffle: 1-D to 4-D arrays of distinct values, every "
            "subset of axes incl. out-of-range entries; sliceaxisix itself incl. zero extents; outcross shuffle: "
            "tables of 1-6 crosses x 1-4 parents over a small id range with forced selfs.  Non-trivial = SUS with "
            ">= 2 positive weights and >= 2 draws; tiled without replacement, >= 2 options, a remainder or >= 1 tile; "
            "axis case with >= 2 slices of length >= 2; outcross table with a repeated id in a row")
    TRUSTED = ["numpy generators: uniform(0,d) returns a value in [0,d), shuffle applies a rearrangement, "
               "choice(replace=False) returns distinct options (the model validates the replayed draws against this)",
               "the replay of the generator call pattern on a second generator built from the same specification "
               "(harness/props/c17.py:_*_oracle); a wrong replay shows as model/implementation disagreement",
               "binary64 arithmetic is abstracted as exact rational arithmetic in the model: the floor/ceiling claim is "
               "proved over exact scalars and carried to binary64 by correspondence + the Spec on every run only "
               "(count, no-exception and zero-weight claims are proved independently of rounding: "
               "sus_loop_safe_under_any_rounding); the pre-repair defects D7a/D7b/D7c are regression cases in corpus()",
               "axis_shuffle: the model is the gather form (value at m comes from m with the first free coordinate "
               "rearranged), not the sequence of in-place slice shuffles; tied to the code by correspondence only"]
    ASSUMPTIONS = ["weights non-negative with positive sum; sizes include the empty request (0, (2,0), ...)",
                   "cross tables in C order, Fortran order and as column slices of a wider table",
                   "axes of either sign (negative = counted from the last axis), duplicates and out-of-range entries",
                   "entries of `a` are distinct in generated cases, so that draws can be counted by value",
                   "a model/implementation difference in the binary64 stream is waived only when a pointer lies "
                   "within 2^-40 (relative to the total weight) of a cumulative-weight boundary; the Spec is never waived"]

    # ------------------------------------------------------------------ generation
    def corpus(self):
        z = {"gen": "randomstate", "seed": 1, "craft": [0, 0]}
        zg = {"gen": "mt19937", "seed": 7, "craft": [0, 0]}
        mx = {"gen": "randomstate", "seed": 1, "craft": [M32, M32]}
        tiny = {"gen": "randomstate", "seed": 3, "craft": [0, 64]}
        return [
            # regression cases of fix fc545079 (all must pass with Spec true):
            # D7a: offset exactly 0 (genuine RandomState / Generator(MT19937) states)
            {"kind": "sus", "p": [1, 1, 1], "a": [10, 11, 12], "size": 3, "rng": z, "regime": "exact"},
            {"kind": "sus", "p": [3, 2, 1], "a": [5, 6, 7], "size": [2, 3], "rng": zg, "regime": "exact"},
            # D7a, binary64 variant: offset 2^-53 * spacing is absorbed by the first addition
            {"kind": "sus", "p": [1, 3, 0, 2], "a": [1, 2, 3, 4], "size": 36, "rng": tiny, "regime": "float"},
            # D7b: offset = spacing * (1 - 2^-53): arange yielded k-1 pointers
            {"kind": "sus", "p": [1, 1, 1], "a": [10, 11, 12], "size": 3, "rng": mx, "regime": "float"},
            {"kind": "sus", "p": [5, 1, 1, 1], "a": [1, 2, 3, 4], "size": [2, 2], "rng": mx, "regime": "float"},
            # D7b, k+1 pointers: offset 0 and tot/(tot/k) rounds above k
            {"kind": "sus", "p": ["1/4", "1/4", 1, "5/8", 1], "a": [1, 2, 3, 4, 5], "size": 29, "rng": z,
             "regime": "float"},
            # D7c: last pointer above cumsum[-1] (p.sum() != cumsum[-1] in binary64)
            {"kind": "sus", "p": canon.enc([0.1, 0.2, 0.3]), "a": [1, 2, 3], "size": 2, "rng": mx, "regime": "float"},
            {"kind": "sus", "p": [3, 2, 1], "a": [5, 6, 7], "size": 6, "rng": mx, "regime": "float"},
            {"kind": "sus", "p": [1, 1, 1, 1], "a": [1, 2, 3, 4], "size": [2, 2],
             "rng": {"gen": "mt19937", "seed": 9, "craft": [M32, M32 - 64 * 3]}, "regime": "float"},
            # offset 0 but no integral expected count at either end: within floor/ceil
            {"kind": "sus", "p": [2, 0, 3], "a": [7, 8, 9], "size": 29, "rng": z, "regime": "exact"},
            # pointers exactly on boundaries with an interior offset: within floor/ceil
            {"kind": "sus", "p": [1, 1, 1, 1], "a": [1, 2, 3, 4], "size": 8,
             "rng": {"gen": "scripted", "seed": 1, "u": "1/2"}, "regime": "exact"},
            {"kind": "sus", "p": [2, 1, 1, 0], "a": [4, 3, 2, 1], "size": [2, 2],
             "rng": {"gen": "scripted", "seed": 2, "u": "1/4"}, "regime": "exact"},
            {"kind": "sus", "p": [1], "a": [42], "size": 1, "rng": {"gen": "pcg64", "seed": 0}, "regime": "exact"},
            {"kind": "tiled", "a": [5, 6, 7], "size": 7, "replace": False, "p": None, "rng": {"gen": "pcg64", "seed": 1}},
            {"kind": "tiled", "a": [5, 6, 7], "size": [2, 3], "replace": False, "p": None,
             "rng": {"gen": "randomstate", "seed": 1}},
            {"kind": "tiled", "a": [5, 6, 7, 8], "size": 2, "replace": False, "p": ["1/2", "1/2", 0, 0],
             "rng": {"gen": "pcg64", "seed": 2}},
            {"kind": "tiled", "a": [1, 2], "size": 5, "replace": True, "p": None, "rng": {"gen": "pcg64", "seed": 3}},
            {"kind": "axis", "shape": [2, 3], "axis": 0, "rng": {"gen": "pcg64", "seed": 1}},
            {"kind": "axis", "shape": [2, 3], "axis": 1, "rng": {"gen": "randomstate", "seed": 1}},
            {"kind": "axis", "shape": [2, 3, 4], "axis": [0, 2], "rng": {"gen": "pcg64", "seed": 4}},
            {"kind": "axis", "shape": [4], "axis": [], "rng": {"gen": "pcg64", "seed": 5}},
            {"kind": "axis", "shape": [2, 2], "axis": [0, 1], "rng": {"gen": "pcg64", "seed": 5}},
            # inputs on which the seeded changes C17-a2 / b1 / b2 (and the mutants of the same kind) show
            {"kind": "axis", "shape": [3, 4, 5], "axis": [1, 0], "rng": {"gen": "pcg64", "seed": 4}},
            {"kind": "axis", "shape": [2, 3, 2], "axis": [2, 0], "rng": {"gen": "randomstate", "seed": 4}},
            {"kind": "slices", "shape": [3, 4, 5], "axis": [2, 0]},
            {"kind": "sus", "p": ["5/2", 2, "1/2"], "a": [1, 2, 3], "size": 5,
             "rng": {"gen": "scripted", "seed": 4, "u": "7/8"}, "regime": "exact"},
            {"kind": "sus", "p": [5, 4, 1], "a": [1, 2, 3], "size": [2, 5],
             "rng": {"gen": "scripted", "seed": 5, "u": "15/16"}, "regime": "exact"},
            {"kind": "outcross", "nrow": 4, "ncol": 2, "x": [1, 1, 2, 2, 1, 2, 1, 2], "layout": "C",
             "rng": {"gen": "pcg64", "seed": 4}},
            {"kind": "outcross", "nrow": 2, "ncol": 4, "x": [1, 1, 3, 4, 2, 2, 5, 6], "layout": "C",
             "rng": {"gen": "pcg64", "seed": 5}},
            # regression cases of the fixes f1943417 (empty request), 5d3f529a (non-contiguous table), 5396d924 (negative axis)
            {"kind": "sus", "p": [1, 2], "a": [1, 2], "size": 0, "rng": {"gen": "randomstate", "seed": 1}, "regime": "exact"},
            {"kind": "sus", "p": [1, 2], "a": [1, 2], "size": [2, 0], "rng": {"gen": "pcg64", "seed": 1}, "regime": "exact"},
            {"kind": "outcross", "nrow": 2, "ncol": 2, "x": [1, 1, 2, 2], "layout": "F", "rng": {"gen": "pcg64", "seed": 1}},
            {"kind": "outcross", "nrow": 3, "ncol": 2, "x": [1, 1, 2, 2, 3, 4], "layout": "colslice",
             "rng": {"gen": "pcg64", "seed": 1}},
            {"kind": "outcross", "nrow": 1, "ncol": 3, "x": [1, 1, 2], "layout": "F", "rng": {"gen": "pcg64", "seed": 1}},
            {"kind": "axis", "shape": [2, 2], "axis": -2, "rng": {"gen": "pcg64", "seed": 0}},
            {"kind": "axis", "shape": [2, 3], "axis": -1, "rng": {"gen": "pcg64", "seed": 0}},
            {"kind": "axis", "shape": [2, 3, 2], "axis": [0, -1], "rng": {"gen": "pcg64", "seed": 3}},
            {"kind": "slices", "shape": [2, 3, 2], "axis": [0, 2]},
            {"kind": "slices", "shape": [3], "axis": []},
            {"kind": "slices", "shape": [2, 0, 2], "axis": [1]},
            {"kind": "outcross", "nrow": 3, "ncol": 2, "x": [1, 1, 2, 2, 3, 4], "rng": {"gen": "pcg64", "seed": 1}},
            {"kind": "outcross", "nrow": 2, "ncol": 3, "x": [1, 1, 1, 1, 1, 2], "rng": {"gen": "randomstate", "seed": 2}},
            {"kind": "outcross", "nrow": 1, "ncol": 1, "x": [3], "rng": {"gen": "pcg64", "seed": 1}},
            {"kind": "outcross", "nrow": 2, "ncol": 2, "x": [1, 2, 3, 4], "rng": {"gen": "pcg64", "seed": 1}},
        ]

    @staticmethod
    def _rng_spec(rng):
        return {"gen": rng.choice(["pcg64", "pcg64", "mt19937", "randomstate"]), "seed": rng.randrange(1 << 30)}

    @staticmethod
    def _size(rng, k):
        """a size argument (int or tuple) with product k"""
        facs = [(a, b, k // (a * b)) for a in range(1, k + 1) if k % a == 0
                for b in range(1, k // a + 1) if (k // a) % b == 0]
        r = rng.random()
        if r < 0.4:
            return k
        if r < 0.55:
            return [k]
        a, b, c = rng.choice(facs)
        return [a, b * c] if r < 0.8 else [a, b, c]

    def _gen_sus(self, rng):
        n = rng.choice([1, 2, 2, 3, 3, 4, 5, 6, 9])
        a = rng.sample(range(-50, 200), n)
        style = rng.random()
        if style < 0.5:
            # exact regime: dyadic weights q_i, p = k'*q, k = k'*2^e so that the spacing is dyadic;
            # the scripted quantile puts pointers exactly on cumulative-weight boundaries
            kp = rng.choice([1, 1, 2, 3, 5, 6, 7])
            e = rng.choice([0, 1, 2, 3])
            den = rng.choice([1, 1, 2, 4])
            q = [Fraction(rng.choice([0, 1, 1, 2, 2, 3, 4, 6]), den) for _ in range(n)]
            if rng.random() < 0.4 and n > 1:          # ties
                for _ in range(rng.randint(1, n)):
                    q[rng.randrange(n)] = q[rng.randrange(n)]
            if not any(q):
                q[rng.randrange(n)] = Fraction(1, den)
            k = kp * (1 << e)
            p = [kp * v for v in q]
            r = rng.random()
            if r < 0.70:
                u = Fraction(rng.randint(1, 15), 16) if rng.random() < 0.8 else Fraction(rng.randint(1, 1023), 1024)
                spec = {"gen": "scripted", "seed": rng.randrange(1 << 30), "u": canon.enc(u)}
            elif r < 0.82:
                spec = {"gen": rng.choice(["randomstate", "mt19937"]), "seed": rng.randrange(1 << 30), "craft": [0, 0]}
            else:
                spec = self._rng_spec(rng)
            return {"kind": "sus", "p": canon.enc(p), "a": a, "size": self._size(rng, k), "rng": spec,
                    "regime": "exact" if spec["gen"] == "scripted" or "craft" in spec else "float"}
        k = rng.choice([1, 2, 3, 5, 7, 10, 12, 29, 36, 49, 64])
        if style < 0.75:
            p = [rng.random() * rng.choice([1, 1, 10]) for _ in range(n)]
        else:   # widely different magnitudes, zeros
            p = [rng.choice([1e-6, 2.5e-6, 1.0, 3.0, 1e6, 3e6, 0.0]) * rng.randint(1, 3) for _ in range(n)]
        if rng.random() < 0.2 and n > 1:
            p[rng.randrange(n)] = 0.0
        if sum(p) <= 0.0:
            p[rng.randrange(n)] = 1.0
        r = rng.random()
        if r < 0.06:
            spec = {"gen": rng.choice(["randomstate", "mt19937"]), "seed": rng.randrange(1 << 30),
                    "craft": rng.choice([[0, 0], [0, 64], [M32, M32], [M32, M32 - 64 * rng.randint(1, 9)]])}
        else:
            spec = self._rng_spec(rng)
        return {"kind": "sus", "p": canon.enc(p), "a": a, "size": self._size(rng, k), "rng": spec, "regime": "float"}

    def _gen_tiled(self, rng):
        n = rng.choice([1, 2, 3, 3, 4, 5, 7, 9])
        a = rng.sample(range(-20, 100), n)
        base = rng.choice([0, 1, 2, 3]) * n
        ns = max(0, base + rng.choice([-1, 0, 0, 1, 2, n // 2, n - 1]))
        ns = min(ns, 64)
        replace = rng.random() < 0.12
        p = None
        if rng.random() < 0.3:
            w = [rng.choice([1, 1, 2, 4]) for _ in range(n)]
            tot = sum(w)
            if tot & (tot - 1) == 0:               # dyadic probabilities that sum to exactly 1
                p = [canon.enc(Fraction(v, tot)) for v in w]
        size = self._size(rng, ns) if ns > 0 else rng.choice([0, [0], [2, 0]])
        return {"kind": "tiled", "a": a, "size": size, "replace": replace, "p": p, "rng": self._rng_spec(rng)}

    def _gen_axis(self, rng):
        nd = rng.choice([1, 2, 2, 3, 3, 4])
        shape = [rng.choice([1, 2, 2, 3, 3, 4, 5]) for _ in range(nd)]
        while _prod(shape) > 96:
            shape[rng.randrange(nd)] = 2
        r = rng.random()
        if r < 0.35:
            axis = rng.randrange(nd)
        else:
            axis = sorted(rng.sample(range(nd), rng.randint(0, nd if rng.random() < 0.1 else max(0, nd - 1))))
            if rng.random() < 0.45:
                rng.shuffle(axis)
            if nd >= 3 and rng.random() < 0.25:       # a descending pair of iterated axes
                hi = rng.randrange(1, nd)
                axis = [hi, rng.randrange(0, hi)]
            if rng.random() < 0.1:
                axis = axis + [nd + rng.randint(0, 2)]      # out-of-range entries are ignored by sliceaxisix
        return {"kind": "axis", "shape": shape, "axis": axis, "rng": self._rng_spec(rng)}

    @staticmethod
    def _negate_axes(rng, case):
        """the same request with some axes counted from the end (numpy convention)"""
        nd = len(case["shape"])
        ax = case["axis"]
        neg = lambda a: a - nd if (0 <= a < nd and rng.random() < 0.7) else a
        c = dict(case)
        c["axis"] = [neg(a) for a in ax] if isinstance(ax, list) else neg(ax)
        return c

    def _gen_outcross(self, rng):
        nrow = rng.choice([1, 2, 2, 3, 3, 4, 5, 6])
        ncol = rng.choice([1, 2, 2, 2, 3, 4])
        while nrow * ncol > 16:
            nrow -= 1
        ids = rng.choice([2, 3, 4, 6, 9])
        if nrow != ncol and rng.random() < 0.5:
            ids = rng.choice([2, 3])                  # many repeats on a non-square table
        x = [rng.randrange(ids) for _ in range(nrow * ncol)]
        if rng.random() < 0.5 and ncol > 1:       # forced selfs
            for r in range(nrow):
                if rng.random() < 0.5:
                    x[r * ncol + 1] = x[r * ncol]
        if rng.random() < 0.2:                      # balanced tiles, as produced by tiled_choice
            x = [(i % ids) for i in range(nrow * ncol)]
            rng.shuffle(x)
        layout = rng.choice(["C"] * 8 + ["F", "colslice"])
        return {"kind": "outcross", "nrow": nrow, "ncol": ncol, "x": x, "layout": layout, "rng": self._rng_spec(rng)}

    def exhaustive(self, tier):
        """thorough tier: every weight vector with <= 3 entries in {0..3} (positive sum) x 1..6 draws x
        offsets {0 (crafted MT19937 state), 1/4, 1/2, 3/4 of the spacing}; every 2x2 / 3x2 / 2x3 cross table
        over 3 ids; every option count 1..5 x sample size 0..11"""
        if tier != "thorough":
            return None
        import itertools
        out = []
        for n in (1, 2, 3):
            for w in itertools.product(range(4), repeat=n):
                if sum(w) == 0:
                    continue
                for k in range(1, 7):
                    dyadic = (Fraction(sum(w), k).denominator & (Fraction(sum(w), k).denominator - 1)) == 0
                    for u in ("0", "1/4", "1/2", "3/4"):
                        spec = {"gen": "randomstate", "seed": 11, "craft": [0, 0]} if u == "0" else \
                            {"gen": "scripted", "seed": 11, "u": u}
                        out.append({"kind": "sus", "p": list(w), "a": list(range(20, 20 + n)), "size": k,
                                    "rng": spec, "regime": "exact" if dyadic else "float"})
        for nrow, ncol in ((2, 2), (3, 2), (2, 3)):
            for x in itertools.product(range(3), repeat=nrow * ncol):
                out.append({"kind": "outcross", "nrow": nrow, "ncol": ncol, "x": list(x),
                            "rng": {"gen": "pcg64", "seed": 100 + sum(x)}})
        for no in range(1, 6):
            for ns in range(0, 12):
                out.append({"kind": "tiled", "a": list(range(30, 30 + no)), "size": ns, "replace": False, "p": None,
                            "rng": {"gen": "pcg64", "seed": 7 * no + ns}})
        return out

    def generate(self, rng, n, tier):
        out = []
        for _ in range(n):
            r = rng.random()
            if r < 0.45:
                c = self._gen_sus(rng)
                if rng.random() < 0.02:
                    c["size"] = rng.choice([0, [0], [2, 0], [0, 3]])     # an empty request
                out.append(c)
            elif r < 0.65:
                out.append(self._gen_tiled(rng))
            elif r < 0.80:
                c = self._gen_axis(rng)
                if rng.random() < 0.12:
                    c = self._negate_axes(rng, c)
                out.append(c)
            elif r < 0.84:
                c = self._gen_axis(rng)
                if rng.random() < 0.15:
                    c["shape"][rng.randrange(len(c["shape"]))] = 0
                out.append({"kind": "slices", "shape": c["shape"], "axis": c["axis"]})
            else:
                out.append(self._gen_outcross(rng))
        return out

    # ------------------------------------------------------------------ implementation
    def run_impl(self, case):
        S, A = _mods()
        k = case["kind"]
        if k == "slices":
            tup = list(A.sliceaxisix(tuple(case["shape"]), tuple(_axes(case))))
            return {"tuples": [[None if isinstance(v, slice) else int(v) for v in t] for t in tup],
                    "all_full_slices": all(v == slice(None) for t in tup for v in t if isinstance(v, slice))}
        rng = make_rng(case["rng"])
        if k == "sus":
            p = _farr(case["p"])
            a = numpy.array(case["a"], dtype=numpy.int64)
            p0, a0 = p.copy(), a.copy()
            out = S.stochastic_universal_sampling(a, p, _size_arg(case["size"]), rng)
            out = numpy.asarray(out)
            if _prod(_size_list(case["size"])) == 0:      # empty request answered (only after D7d is repaired)
                return {"out": [int(v) for v in out.ravel()], "shape": [int(v) for v in out.shape], "offset": 0,
                        "sigma": [int(v) for v in p.argsort()[::-1]], "perm": [],
                        "inputs_untouched": bool((p0 == p).all() and (a0 == a).all())}
            orc = _sus_oracle(case)
            return {"out": [int(v) for v in out.ravel()], "shape": [int(v) for v in out.shape],
                    "offset": canon.enc(orc["offset"]), "sigma": orc["sigma"], "perm": orc["perm"],
                    "inputs_untouched": bool((p0 == p).all() and (a0 == a).all())}
        if k == "tiled":
            a = numpy.array(case["a"], dtype=numpy.int64)
            a0 = a.copy()
            p = None if case.get("p") is None else _farr(case["p"])
            if len(a) == 0:
                try:
                    S.tiled_choice(a, _size_arg(case["size"]), case["replace"], p, rng)
                    return {"raised": None}
                except Exception as e:
                    return {"raised": canon.exc_tag(e)}
            out = numpy.asarray(S.tiled_choice(a, _size_arg(case["size"]), case["replace"], p, rng))
            orc = _tiled_oracle(case)
            return {"out": [int(v) for v in out.ravel()], "shape": [int(v) for v in out.shape],
                    "draw": orc["draw"], "perm": orc["perm"], "inputs_untouched": bool((a0 == a).all())}
        if k == "axis":
            shape = case["shape"]
            data = self._axis_data(case)
            arr = numpy.array(data, dtype=numpy.int64).reshape(shape)
            ax = case["axis"]
            ax = tuple(ax) if isinstance(ax, list) else int(ax)
            axes = set(a for a in _norm_axes(case) if 0 <= a < len(shape))
            if len(axes) == len(shape) and _prod(shape) > 0:
                # every axis iterated: a[s] is a 0-d item, rng.shuffle must reject it
                try:
                    S.axis_shuffle(arr, ax, rng)
                    return {"raised": None, "after": [int(v) for v in arr.ravel()]}
                except TypeError as e:
                    return {"raised": canon.exc_tag(e), "after": [int(v) for v in arr.ravel()]}
            S.axis_shuffle(arr, ax, rng)
            return {"after": [int(v) for v in arr.ravel()], "shape": [int(v) for v in arr.shape],
                    "perms": _axis_oracle(case)["perms"]}
        if k == "outcross":
            arr = numpy.array(case["x"], dtype=numpy.int64).reshape(case["nrow"], case["ncol"])
            layout = case.get("layout", "C")
            if layout == "F":
                arr = numpy.asfortranarray(arr)
            elif layout == "colslice":          # a view on the leading columns of a wider table
                wide = numpy.full((case["nrow"], case["ncol"] + 1), -7, dtype=numpy.int64)
                wide[:, :case["ncol"]] = arr
                arr = wide[:, :case["ncol"]]
            cc = bool(arr.flags["C_CONTIGUOUS"])
            S.outcross_shuffle(arr, rng)
            return {"after": [int(v) for v in arr.ravel()], "shape": [int(v) for v in arr.shape],
                    "c_contiguous": cc, "orders": _outcross_oracle(case)["orders"]}
        raise ValueError(k)

    @staticmethod
    def _axis_data(case):
        n = _prod(case["shape"])
        return [100 + 7 * i for i in range(n)]      # distinct values: a moved entry is always visible

    # ------------------------------------------------------------------ model requests
    def requests(self, case, obs):
        k = case["kind"]
        if k == "sus":
            size = _size_list(case["size"])
            return [{"op": "c17.sus", "p": case["p"], "a": case["a"], "size": size, "sigma": obs["sigma"],
                     "offset": obs["offset"], "perm": obs["perm"]},
                    {"op": "c17.spec_sus", "p": case["p"], "a": case["a"], "k": _prod(size), "out": obs["out"]}]
        if k == "tiled":
            size = _size_list(case["size"])
            if "raised" in obs:
                return [{"op": "c17.tiled", "a": case["a"], "size": size, "replace": case["replace"],
                         "draw": [], "perm": []}]
            return [{"op": "c17.tiled", "a": case["a"], "size": size, "replace": case["replace"],
                     "draw": obs["draw"], "perm": obs["perm"]},
                    {"op": "c17.spec_tiled", "a": case["a"], "out": obs["out"], "nsample": _prod(size)}]
        if k == "axis":
            data = self._axis_data(case)
            axes = _axes(case)
            if "raised" in obs:
                return [{"op": "c17.axis", "shape": case["shape"], "axis": axes, "data": data, "perms": []}]
            return [{"op": "c17.axis", "shape": case["shape"], "axis": axes, "data": data, "perms": obs["perms"]},
                    {"op": "c17.spec_axis", "shape": case["shape"], "axis": axes, "before": data,
                     "after": obs["after"]}]
        if k == "slices":
            return [{"op": "c17.sliceaxisix", "shape": case["shape"], "axis": _axes(case)}]
        if k == "outcross":
            return [{"op": "c17.outcross", "nrow": case["nrow"], "ncol": case["ncol"], "x": case["x"],
                     "orders": obs["orders"]},
                    {"op": "c17.spec_outcross", "nrow": case["nrow"], "ncol": case["ncol"], "before": case["x"],
                     "after": obs["after"]}]
        raise ValueError(k)

    # ------------------------------------------------------------------ judge
    @staticmethod
    def _near_tie(case, obs):
        """binary64 regime only: is some pointer within rounding distance of a boundary of the cumulative
        weights (or the offset within rounding distance of 0 / of the spacing)?  Then the exact model and
        the binary64 computation may legitimately resolve the tie differently."""
        p = [Fraction(v) for v in case["p"]]
        k = _prod(_size_list(case["size"]))
        tot = sum(p)
        d = tot / k
        o = Fraction(obs["offset"])
        eps = tot / (1 << 40)
        if o <= eps or d - o <= eps:
            return True
        cs, s = [], Fraction(0)
        for i in obs["sigma"]:
            s += p[i]
            cs.append(s)
        for j in range(k):
            t = o + j * d
            if any(abs(t - c) <= eps for c in cs):
                return True
        return False

    @staticmethod
    def _oracle_fault(m, case):
        """the model rejected the replayed draws (the implementation did not consume the generator the way the
        replay assumes): reported as a model/implementation disagreement, never as a Spec verdict"""
        return {"corr": False, "spec": True, "nontrivial": False,
                "detail": f"replayed draws rejected by the model: {m['error']}"}

    @staticmethod
    def _rounded_margin(case, obs):
        """does `sus_floor_ceil_rounded` apply to this call?  eps := (n + k + 2) rounding units of the total
        (a bound for the accumulated error of the sequential cumsum, of ptr_dist*j and of the final addition);
        the theorem needs every exact pointer more than 2*eps away from every exact cumulative boundary before
        the last element of positive weight, and the exact offset below the exact spacing"""
        p = [Fraction(v) for v in case["p"]]
        k = _prod(_size_list(case["size"]))
        if k == 0:
            return ""
        tot = sum(p)
        d = tot / k
        o = Fraction(obs["offset"])
        n = len(p)
        eps = (n + k + 2) * Fraction(float(numpy.spacing(float(tot))))
        last = sum(1 for v in p if v != 0) - 1
        cs, acc = [], Fraction(0)
        for i in obs["sigma"][:max(last, 0)]:
            acc += p[i]
            cs.append(acc)
        if not (0 <= o < d):
            return "[rounded theorem: n/a, offset not below the exact spacing]"
        gap = min((abs(o + j * d - c) for j in range(k) for c in cs), default=None)
        if gap is None or gap > 2 * eps:
            return "[rounded theorem applies]"
        return "[rounded theorem: n/a, a pointer is within 2*eps of an interior boundary (tie)]"

    def judge(self, case, obs, answers):
        k = case["kind"]
        for a in answers:
            if "err" in a:
                raise RuntimeError("driver error: " + a["err"])
        ans = [a["ok"] for a in answers]
        if k == "sus":
            m, s = ans
            size = _size_list(case["size"])
            shape_ok = obs["shape"] == size
            corr = m.get("out") == obs["out"] and obs["inputs_untouched"]
            note = ""
            if not corr and _prod(size) > 0 and case.get("regime") == "float" and self._near_tie(case, obs):
                corr, note = True, " [tie within binary64 rounding: model/implementation comparison waived]"
            elif "error" in m and str(m["error"]).startswith("oracle:"):
                return self._oracle_fault(m, case)
            spec = bool(s["ok"]) and shape_ok
            note += " " + self._rounded_margin(case, obs)
            p = [Fraction(v) for v in case["p"]]
            nontriv = sum(1 for v in p if v > 0) >= 2 and _prod(size) >= 2
            return {"corr": corr, "spec": spec, "nontrivial": nontriv,
                    "detail": f"sus shape_ok={shape_ok} spec={ {x: s[x] for x in s if x != 'ok'} } "
                              f"model={m.get('out', m.get('error'))} impl={obs['out']} offset={obs['offset']}{note}"}
        if k == "tiled":
            size = _size_list(case["size"])
            if "raised" in obs:
                m = ans[0]
                ok = obs["raised"] is not None and m.get("error") == obs["raised"]
                return {"corr": ok, "spec": True, "nontrivial": False,
                        "detail": f"tiled rejected input: impl={obs['raised']} model={m}"}
            m, s = ans
            if "error" in m and str(m["error"]).startswith("oracle:"):
                return self._oracle_fault(m, case)
            corr = m.get("out") == obs["out"] and obs["inputs_untouched"]
            shape_ok = obs["shape"] == size
            if case["replace"]:
                spec = shape_ok and len(obs["out"]) == _prod(size) and all(v in case["a"] for v in obs["out"])
            else:
                spec = bool(s["ok"]) and shape_ok
            ns, no = _prod(size), len(case["a"])
            nontriv = (not case["replace"]) and no >= 2 and ns >= 1 and (ns % no != 0 or ns >= no)
            return {"corr": corr, "spec": spec, "nontrivial": nontriv,
                    "detail": f"tiled shape_ok={shape_ok} {s['detail']} model={m.get('out', m.get('error'))} impl={obs['out']}"}
        if k == "axis":
            if "raised" in obs:
                m = ans[0]
                ok = obs["raised"] == "type" and m.get("error") == "type" and obs["after"] == self._axis_data(case)
                return {"corr": ok, "spec": True, "nontrivial": False,
                        "detail": f"axis: every axis iterated, impl raised={obs['raised']} model={m}"}
            m, s = ans
            if "error" in m and str(m["error"]).startswith("oracle:"):
                return self._oracle_fault(m, case)
            corr = m.get("out") == obs["after"]
            spec = bool(s["ok"]) and obs["shape"] == case["shape"]
            nontriv = len(obs["perms"]) >= 2 and len(obs["perms"][0]) >= 2
            return {"corr": corr, "spec": spec, "nontrivial": nontriv,
                    "detail": f"axis {s['detail']} model={m.get('out', m.get('error'))} impl={obs['after']}"}
        if k == "slices":
            m = ans[0]
            shape, axes = case["shape"], set(_axes(case))
            corr = m["tuples"] == obs["tuples"]
            # Spec, recomputed here: one tuple per combination of in-range coordinates at the iterated axes,
            # lexicographic order, slice(None) exactly at the other axes
            import itertools
            it = [d for d in range(len(shape)) if d in axes]
            want = []
            for combo in itertools.product(*[range(shape[d]) for d in it]):
                t = [None] * len(shape)
                for d, v in zip(it, combo):
                    t[d] = v
                want.append(t)
            spec = obs["tuples"] == want and obs["all_full_slices"] and m["keys"] == [[v for v in t if v is not None] for t in want]
            return {"corr": corr, "spec": spec, "nontrivial": len(want) >= 2 and len(it) < len(shape),
                    "detail": f"sliceaxisix model={m['tuples'][:6]} impl={obs['tuples'][:6]}"}
        if k == "outcross":
            m, s = ans
            if "error" in m and str(m["error"]).startswith("oracle: every"):
                return self._oracle_fault(m, case)
            corr = m.get("out") == obs["after"]
            spec = bool(s["ok"]) and obs["shape"] == [case["nrow"], case["ncol"]]
            nontriv = _score(case["x"], case["nrow"], case["ncol"]) > 0
            return {"corr": corr, "spec": spec, "nontrivial": nontriv,
                    "detail": f"outcross {s['detail']} model={m.get('out', m.get('error'))} impl={obs['after']}"}
        raise ValueError(k)

    # ------------------------------------------------------------------ signature of a failing case
    def signature(self, case, obs, verdict):
        """no finding is open for C17; the signature only describes a failure for the replay file"""
        kind = case["kind"]
        sig = {"kind": kind}
        if isinstance(obs, dict) and "__exception__" in obs:
            sig["fail"] = "exception"
            sig["exception_class"] = obs.get("text", "").split(":")[0]
        if kind == "sus":
            sig["size_zero"] = _prod(_size_list(case["size"])) == 0
        elif kind == "outcross":
            sig["layout"] = case.get("layout", "C")
        elif kind == "axis":
            sig["negative_axis"] = any(a < 0 for a in _axes(case))
        return sig

    # ------------------------------------------------------------------ shrinking
    def shrink(self, case):
        k = case["kind"]
        if k == "sus":
            n = len(case["p"])
            for i in range(n):
                if n > 1:
                    c = dict(case)
                    c["p"] = case["p"][:i] + case["p"][i + 1:]
                    c["a"] = case["a"][:i] + case["a"][i + 1:]
                    if any(Fraction(v) > 0 for v in c["p"]):
                        yield c
            kk = _prod(_size_list(case["size"]))
            for k2 in (kk // 2, kk - 1):
                if 1 <= k2 < kk:
                    c = dict(case)
                    c["size"] = k2
                    yield c
            if isinstance(case["size"], list):
                c = dict(case)
                c["size"] = kk
                yield c
        elif k == "tiled":
            n = len(case["a"])
            if n > 1 and case.get("p") is None:
                c = dict(case)
                c["a"] = case["a"][:-1]
                yield c
            ns = _prod(_size_list(case["size"]))
            for n2 in (ns // 2, ns - 1):
                if 0 <= n2 < ns:
                    c = dict(case)
                    c["size"] = n2
                    yield c
        elif k == "axis":
            sh = case["shape"]
            for i, v in enumerate(sh):
                if v > 1:
                    c = dict(case)
                    c["shape"] = sh[:i] + [v - 1] + sh[i + 1:]
                    yield c
        elif k == "outcross":
            nrow, ncol, x = case["nrow"], case["ncol"], case["x"]
            for r in range(nrow):
                if nrow > 1:
                    c = dict(case)
                    c["nrow"] = nrow - 1
                    c["x"] = x[:r * ncol] + x[(r + 1) * ncol:]
                    yield c
            for j in range(ncol):
                if ncol > 1:
                    c = dict(case)
                    c["ncol"] = ncol - 1
                    c["x"] = [v for i, v in enumerate(x) if i % ncol != j]
                    yield c

    # ------------------------------------------------------------------ self-test mutants
    def mutants(self):
        S, A = _mods()

        @contextlib.contextmanager
        def patch(mod, name, new):
            old = getattr(mod, name)
            setattr(mod, name, new)
            try:
                yield
            finally:
                setattr(mod, name, old)

        def sus_variant(fixed_offset=False, rule=None, ascending=False, noshuffle=False, ptr_skip=False,
                        linspace=False, empty_ok=True):
            """the function as it is (after fix fc545079) with one thing changed"""
            def f(a, p, size=None, rng=None):
                if isinstance(size, (int, numpy.integer)):
                    size = (size,)
                k = numpy.prod(size)
                if k == 0 and empty_ok:
                    return a[numpy.zeros(size, dtype=int)]
                tot = p.sum()
                d = tot / k
                ind = p.argsort() if ascending else p.argsort()[::-1]
                cs = p[ind].cumsum()
                off = rng.uniform(0.0, d)
                if fixed_offset:
                    off = d / 2
                sel = []
                ix = 0
                ptrs = off + d * numpy.arange(k)
                if linspace:        # pointers compressed towards the end: spacing (tot-off)/k instead of tot/k
                    ptrs = numpy.linspace(off, tot, int(k), endpoint=False)
                last = (len(p) - 1) if ascending else (numpy.count_nonzero(p) - 1)
                lo = (off < 0.5 * d) if rule is None else (rule == "le")
                for j, ptr in enumerate(ptrs):
                    if ptr_skip and j == len(ptrs) - 1 and k > 1:
                        ptr = off                            # last pointer re-uses the first position
                        ix = 0
                    while ix < last and (cs[ix] <= ptr if lo else cs[ix] < ptr):
                        ix += 1
                    sel.append(ind[ix])
                sel = numpy.array(sel)
                if not noshuffle:
                    rng.shuffle(sel)
                return a[sel.reshape(size)]
            return f

        def sus_prerepair(a, p, size=None, rng=None):
            """the function before fix fc545079, verbatim: a revert of the fix must be flagged"""
            if isinstance(size, (int, numpy.integer)):
                size = (size,)
            k = numpy.prod(size)
            tot_fit = p.sum()
            ptr_dist = tot_fit / k
            indices = p.argsort()[::-1]
            cumsum = p[indices].cumsum()
            offset = rng.uniform(0.0, ptr_dist)
            sel = []
            ix = 0
            ptrs = numpy.arange(offset, tot_fit, ptr_dist)
            for ptr in ptrs:
                while cumsum[ix] < ptr:
                    ix += 1
                sel.append(indices[ix])
            sel = numpy.array(sel)
            rng.shuffle(sel)
            sel = sel.reshape(size)
            return a[sel]

        def tiled_variant(rem_replace=False, one_tile_less=False):
            def f(a, size=None, replace=True, p=None, rng=None):
                if isinstance(size, (int, numpy.integer)):
                    size = (size,)
                ns = int(numpy.prod(size))
                if replace:
                    return rng.choice(a, size, replace, p)
                out = numpy.empty(ns, dtype=a.dtype)
                no = len(a)
                qu, re_ = divmod(ns, no)
                if one_tile_less and qu >= 1:
                    qu, re_ = qu - 1, re_ + no
                for i in range(qu):
                    out[i * no:(i + 1) * no] = a
                out[qu * no:] = rng.choice(a, re_, True if (rem_replace or one_tile_less) else False, p)
                rng.shuffle(out)
                return out.reshape(size)
            return f

        def axis_wrong(a, axis=None, rng=None):
            if isinstance(axis, (int, numpy.integer)):
                axis = (axis,)
            axis = tuple((x + 1) % a.ndim for x in axis)       # slices along the neighbouring axis
            for s in A.sliceaxisix(a.shape, axis):
                rng.shuffle(a[s])

        def axis_flat(a, axis=None, rng=None):
            if isinstance(axis, (int, numpy.integer)):
                axis = (axis,)
            for _ in A.sliceaxisix(a.shape, axis):
                pass
            flat = a.reshape(-1)
            rng.shuffle(flat)                                    # permutes across slices

        def axis_no_normalisation(a, axis=None, rng=None):
            if isinstance(axis, (int, numpy.integer)):
                axis = (axis,)
            for s_ in A.sliceaxisix(a.shape, axis):
                rng.shuffle(a[s_])

        def outcross_variant(first_pass_only=False, no_swap_back=False, ravel=False):
            def f(xconfig, rng=None):
                def objfn(x):
                    return sum(len(r) - len(numpy.unique(r)) for r in x)
                xr = xconfig.ravel() if ravel else xconfig.flat
                best = objfn(xconfig)
                ex = numpy.array([[i, j] for i in range(len(xr)) for j in range(i + 1, len(xr))])
                it = True
                while it:
                    rng.shuffle(ex)
                    loc = True
                    for i, j in ex:
                        xr[i], xr[j] = xr[j], xr[i]
                        sc = objfn(xconfig)
                        if sc < best:
                            best = sc
                            loc = False
                            break
                        if not no_swap_back:
                            xr[i], xr[j] = xr[j], xr[i]
                    it = (not loc) and not first_pass_only
            return f

        def outcross_pruned(xconfig, rng=None):
            """candidate exchanges pruned to 'different crosses', the cross of a flat position computed with
            shape[0] instead of shape[1]: on non-square tables genuine between-cross exchanges are never tried"""
            def objfn(x):
                return sum(len(r) - len(numpy.unique(r)) for r in x)
            xr = xconfig.ravel()
            best = objfn(xconfig)
            w = xconfig.shape[0]
            ex = numpy.array([[i, j] for i in range(len(xr)) for j in range(i + 1, len(xr)) if i // w != j // w])
            it = True
            while it:
                rng.shuffle(ex)
                loc = True
                for i, j in ex:
                    xr[i], xr[j] = xr[j], xr[i]
                    sc = objfn(xconfig)
                    if sc < best:
                        best = sc
                        loc = False
                        break
                    xr[i], xr[j] = xr[j], xr[i]
                it = not loc

        def outcross_overwrite(xconfig, rng=None):
            xr = xconfig.ravel()
            for r in range(xconfig.shape[0]):
                row = xconfig[r]
                for c in range(1, len(row)):
                    if row[c] in row[:c]:
                        row[c] = xr[(r * len(row) + c + 1) % len(xr)]    # copies instead of exchanging

        def slices_head_only(shape, axis):
            """membership test replaced by a head-only test on the axis tuple (assumes it ascends)"""
            def rec(l, a):
                d = len(l)
                if d == len(shape):
                    yield tuple(l)
                    return
                if a and d == a[0]:
                    for i in range(shape[d]):
                        yield from rec(l + [i], a[1:])
                else:
                    yield from rec(l + [slice(None)], a)
            yield from rec([], tuple(axis))

        def slices_variant(reverse=False, skip_last=False):
            def gen(shape, axis):
                def rec(l):
                    d = len(l)
                    if d == len(shape):
                        yield tuple(l)
                        return
                    if d in axis:
                        rng_ = range(shape[d] - 1) if skip_last else range(shape[d])
                        for i in (reversed(rng_) if reverse else rng_):
                            yield from rec(l + [i])
                    else:
                        yield from rec(l + [slice(None)])
                yield from rec([])
            return gen

        @contextlib.contextmanager
        def patch2(name, new):
            with patch(S, name, new):
                with patch(A, name, new):
                    yield

        sus = "stochastic_universal_sampling"
        return [
            ("sliceaxisix_reversed_order", lambda: patch2("sliceaxisix", slices_variant(reverse=True))),
            ("sliceaxisix_skips_last_index", lambda: patch2("sliceaxisix", slices_variant(skip_last=True))),
            ("sliceaxisix_assumes_ascending_axes", lambda: patch2("sliceaxisix", slices_head_only)),
            ("sus_pointers_by_linspace", lambda: patch(S, sus, sus_variant(linspace=True))),
            ("outcross_pruned_with_wrong_row_length", lambda: patch(S, "outcross_shuffle", outcross_pruned)),
            ("sus_revert_of_fix_fc545079", lambda: patch(S, sus, sus_prerepair)),
            ("sus_revert_of_fix_f1943417", lambda: patch(S, sus, sus_variant(empty_ok=False))),
            ("outcross_revert_of_fix_5d3f529a", lambda: patch(S, "outcross_shuffle", outcross_variant(ravel=True))),
            ("axis_revert_of_fix_5396d924", lambda: patch(S, "axis_shuffle", axis_no_normalisation)),
            ("sus_fixed_offset", lambda: patch(S, sus, sus_variant(fixed_offset=True))),
            ("sus_always_right_closed", lambda: patch(S, sus, sus_variant(rule="lt"))),
            ("sus_always_right_open", lambda: patch(S, sus, sus_variant(rule="le"))),
            ("sus_ascending_order", lambda: patch(S, sus, sus_variant(ascending=True))),
            ("sus_no_shuffle", lambda: patch(S, sus, sus_variant(noshuffle=True))),
            ("sus_pointer_reused", lambda: patch(S, sus, sus_variant(ptr_skip=True))),
            ("tiled_remainder_with_replacement", lambda: patch(S, "tiled_choice", tiled_variant(rem_replace=True))),
            ("tiled_one_tile_less", lambda: patch(S, "tiled_choice", tiled_variant(one_tile_less=True))),
            ("axis_neighbouring_axis", lambda: patch(S, "axis_shuffle", axis_wrong)),
            ("axis_flat_shuffle", lambda: patch(S, "axis_shuffle", axis_flat)),
            ("outcross_first_pass_only", lambda: patch(S, "outcross_shuffle", outcross_variant(first_pass_only=True))),
            ("outcross_no_swap_back", lambda: patch(S, "outcross_shuffle", outcross_variant(no_swap_back=True))),
            ("outcross_overwrite", lambda: patch(S, "outcross_shuffle", outcross_overwrite)),
        ]


PROP = C17()
