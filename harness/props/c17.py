"""C17 — sampling utilities: stochastic universal sampling, tiled choice, axis shuffle, outcross shuffle.

Randomness is an oracle input of the Lean model.  Every case carries a *generator specification*
(`rng`); the implementation is run with a generator built from it, and the draws the implementation
consumed are recovered by replaying the same call pattern on a second generator built from the same
specification (so a wrong assumption about the call pattern shows up as a model/implementation
disagreement).  Generator specifications:

  {"gen": "pcg64"|"mt19937"|"randomstate", "seed": s}            a genuine seeded generator
  {... "gen": "mt19937"|"randomstate", "craft": [w0, w1]}        the same, with the MT19937 state edited
        (tempering inverted) so that the next two 32-bit outputs are w0, w1: [0, 0] makes the next
        uniform variate exactly 0.0, [2^32-1, 2^32-1] makes it 1 - 2^-53.  Every 624-word vector is a
        state the generator passes through, so these are genuine generator states.
  {"gen": "scripted", "seed": s, "u": "n/d"}                     numpy Generator subclass whose
        `uniform(low, high)` returns low + (high-low)*u (used to put a pointer exactly on a boundary of
        the cumulative weights); everything else is PCG64(seed).
"""
import contextlib
import json
import math
import os
from collections import Counter
from fractions import Fraction

import numpy

from .. import canon, compat
from ..core import Prop

compat.install()

M32 = 0xFFFFFFFF


def _mods():
    compat.import_pybrops()
    import pybrops.core.random.sampling as S
    import pybrops.core.util.array as A
    return S, A


# ---------------------------------------------------------------------------------- generators
def _untemper(y):
    y &= M32
    y ^= y >> 18
    y ^= (y << 15) & 0xEFC60000
    t = y
    for _ in range(5):
        t = y ^ ((t << 7) & 0x9D2C5680)
    y = t & M32
    t = y
    for _ in range(3):
        t = y ^ (t >> 11)
    return t & M32


class ScriptedGenerator(numpy.random.Generator):
    """a numpy Generator whose uniform() returns a scripted quantile; all other draws are genuine"""

    def uniform(self, low=0.0, high=1.0, size=None):
        return low + (high - low) * float(self._u)


def make_rng(spec):
    gen = spec["gen"]
    seed = int(spec.get("seed", 0))
    craft = spec.get("craft")
    if gen == "pcg64":
        return numpy.random.Generator(numpy.random.PCG64(seed))
    if gen == "scripted":
        g = ScriptedGenerator(numpy.random.PCG64(seed))
        g._u = Fraction(spec["u"])
        return g
    if gen == "mt19937":
        bg = numpy.random.MT19937(seed)
        g = numpy.random.Generator(bg)
        if craft is not None:
            g.random()                                   # make sure the key block has been generated
            st = bg.state
            key = st["state"]["key"].copy()
            pos = int(st["state"]["pos"])
            if pos > 600:
                pos = 2
            key[pos] = _untemper(int(craft[0]))
            key[pos + 1] = _untemper(int(craft[1]))
            st["state"]["key"] = key
            st["state"]["pos"] = pos
            bg.state = st
        return g
    if gen == "randomstate":
        rs = numpy.random.RandomState(seed)
        if craft is not None:
            rs.random_sample()
            st = rs.get_state()
            key = st[1].copy()
            pos = int(st[2])
            if pos > 600:
                pos = 2
            key[pos] = _untemper(int(craft[0]))
            key[pos + 1] = _untemper(int(craft[1]))
            rs.set_state((st[0], key, pos, 0, 0.0))
        return rs
    raise ValueError(gen)


def _size_arg(size):
    return tuple(int(v) for v in size) if isinstance(size, list) else int(size)


def _size_list(size):
    return [int(v) for v in size] if isinstance(size, list) else [int(size)]


def _prod(l):
    r = 1
    for v in l:
        r *= int(v)
    return r


def _farr(vals):
    return numpy.array([float(Fraction(v)) for v in vals], dtype=float)


def _layout(arr, layout, fill):
    """the same 1-D content as a view that is not a plain contiguous array: every other entry of a wider
    buffer ("strided"), a reversed view ("rev"); `fill` pads the unused entries"""
    if layout in (None, "c"):
        return arr
    if layout == "strided":
        big = numpy.full(2 * len(arr) + 1, fill, dtype=arr.dtype)
        big[1::2] = arr
        return big[1::2]
    if layout == "rev":
        big = numpy.array(arr[::-1])
        return big[::-1]
    raise ValueError(layout)


def _big_mask(case):
    """which entries of a compactly described ("big") weight vector are zero: every `zero_every`-th one from
    `zero_phase` on, or a random subset (numpy RandomState(zero_seed), fraction zero_frac)"""
    n = int(case["n"])
    idx = numpy.arange(n)
    if "zero_seed" in case:
        mask = numpy.random.RandomState(int(case["zero_seed"])).random_sample(n) < float(Fraction(case["zero_frac"]))
    else:
        mask = (idx - int(case["zero_phase"])) % int(case["zero_every"]) == 0
    if mask.all():
        mask[n // 2] = False
    return mask


def _big_p(case):
    """a long weight vector given compactly: n entries, the values `w` cycled over the positions, zeros at `_big_mask`"""
    n = int(case["n"])
    w = numpy.array([float(Fraction(v)) for v in case["w"]], dtype=numpy.dtype(case.get("pdtype", "float64")))
    assert all(Fraction(float(x)) == Fraction(v) for x, v in zip(w, case["w"])), "weight not representable"
    p = w[numpy.arange(n) % len(w)]
    p[_big_mask(case)] = 0
    return p


def _big_spec(case, out, shape):
    """the SUS clause of the property evaluated in exact arithmetic on a long vector (a = 0..n-1): same fields as the
    Lean oracle c17.spec_sus (on the small cases the two are compared on every run)"""
    p = _big_p(case)
    n, k = len(p), _prod(_size_list(case["size"]))
    out = numpy.asarray(out, dtype=numpy.int64)
    members_ok = bool(((out >= 0) & (out < n)).all())
    cnt = numpy.bincount(out[(out >= 0) & (out < n)], minlength=n)
    vals = sorted(set(float(v) for v in numpy.unique(p)))
    tot = sum(Fraction(v) * int((p == v).sum()) for v in vals)
    outside = []
    for v in vals:
        e = k * Fraction(v) / tot
        ok_counts = [c for c in range(max(0, math.floor(e) - 1), math.ceil(e) + 2) if c < e + 1 and e < c + 1]
        bad = numpy.flatnonzero((p == v) & ~numpy.isin(cnt, ok_counts))
        outside.extend(int(i) for i in bad)
    zero = [int(i) for i in numpy.flatnonzero((p == 0) & (cnt != 0))]
    length_ok = len(out) == k
    return {"ok": bool(length_ok and members_ok and not outside and not zero), "length_ok": length_ok,
            "members_ok": members_ok, "outside_floor_ceil": sorted(outside)[:20], "zero_weight_selected": zero[:20]}


def _small_spec(case, out):
    """the same clause for an ordinary case, in exact arithmetic (compared with the Lean oracle's verdict)"""
    P = [Fraction(v) for v in case["p"]]
    k = _prod(_size_list(case["size"]))
    tot = sum(P)
    cnt = Counter(out)
    a = case["a"]
    outside = [i for i in range(len(P)) if not (cnt.get(a[i], 0) < k * P[i] / tot + 1 and k * P[i] / tot < cnt.get(a[i], 0) + 1)]
    zero = [i for i in range(len(P)) if P[i] == 0 and cnt.get(a[i], 0) != 0]
    return {"length_ok": len(out) == k, "members_ok": all(v in a for v in out), "outside_floor_ceil": outside,
            "zero_weight_selected": zero}


def _parr(case):
    """the weight vector exactly as the implementation receives it (dtype and memory layout of the case)"""
    if case.get("big"):
        return _big_p(case)
    dt = case.get("pdtype", "float64")
    if dt == "float64":
        arr = _farr(case["p"])
    else:
        vals = [Fraction(v) for v in case["p"]]
        arr = numpy.array([int(v) if v.denominator == 1 and not dt.startswith("float") else float(v) for v in vals],
                          dtype=numpy.dtype(dt))
        assert all(Fraction(float(x)) == v for x, v in zip(arr, vals)), "weight not representable in " + dt
    return _layout(arr, case.get("playout"), 0)


def _aarr(case):
    if case.get("big"):
        return numpy.arange(int(case["n"]))
    dt = case.get("adtype", "int64")
    if dt == "float64h":        # options that are not whole numbers: the case's integers + 1/2
        return _layout(numpy.array(case["a"], dtype=float) + 0.5, case.get("alayout"), -99)
    arr = numpy.array(case["a"], dtype=object if dt == "object" else numpy.dtype(dt))
    return _layout(arr, case.get("alayout"), -99)


def _outvals(case, out):
    """returned values as the integers of the case (`float64h`: minus 1/2; a value that is not one of the shifted
    options maps to a sentinel, so that the membership clause fails)"""
    if case.get("adtype") == "float64h":
        return [int(float(v) - 0.5) if float(v) - 0.5 == int(float(v) - 0.5) else -10 ** 9 for v in numpy.asarray(out).ravel()]
    return [int(v) for v in numpy.asarray(out).ravel()]


def _size_call(case):
    """the `size` argument in the form the case asks for: Python int / tuple (default), numpy integer,
    tuple of numpy integers"""
    size, form = case["size"], case.get("sizeform")
    if form == "npint":
        return tuple(numpy.int64(v) for v in size) if isinstance(size, list) else numpy.int64(size)
    if form == "np32":
        return tuple(numpy.int32(v) for v in size) if isinstance(size, list) else numpy.int32(size)
    return _size_arg(size)


# ---------------------------------------------------------------------------------- oracle replay
def _sus_oracle(case):
    """draws consumed by stochastic_universal_sampling, replayed on a second generator, plus the
    binary64 intermediates the signature of a failing case refers to"""
    p = _parr(case)
    k = _prod(_size_list(case["size"]))
    tot = p.sum()
    d = tot / numpy.int64(k)
    sigma = p.argsort()[::-1]
    clone = make_rng(case["rng"])
    off = clone.uniform(0.0, d)
    perm = numpy.arange(k)
    clone.shuffle(perm)
    ptrs = numpy.arange(off, tot, d)
    cs = p[sigma].cumsum()
    return {"offset": float(off), "sigma": [int(v) for v in sigma], "perm": [int(v) for v in perm],
            "k": k, "tot": float(tot), "d": float(d), "nptr": len(ptrs),
            "ptr_beyond_cumsum": bool(len(ptrs) > 0 and ptrs[-1] > cs[-1]),
            "offset_zero_or_absorbed": bool(off == 0.0 or off < numpy.spacing(tot))}


def _tiled_oracle(case):
    noption = len(case["a"])
    size = _size_arg(case["size"])
    nsample = _prod(_size_list(case["size"]))
    p = None if case.get("p") is None else _farr(case["p"])
    clone = make_rng(case["rng"])
    opts = numpy.arange(noption)
    if case["replace"]:
        draw = clone.choice(opts, size, True, p)
        return {"draw": [int(v) for v in numpy.ravel(draw)], "perm": []}
    re_ = nsample % noption
    draw = clone.choice(opts, numpy.int64(re_), False, p)
    perm = numpy.arange(nsample)
    clone.shuffle(perm)
    return {"draw": [int(v) for v in draw], "perm": [int(v) for v in perm]}


def _addon_oracle(case):
    """pymoo_addon.tiled_choice(a, size) draws from the numpy global stream: `size // a` permutations of
    range(a) through choice(a, a, replace=False), then choice(a, size % a, replace=False)"""
    a, n = int(case["noption"]), int(case["nsample"])
    st = numpy.random.get_state()
    try:
        numpy.random.seed(int(case["seed"]))
        tiles = [[int(v) for v in numpy.random.choice(a, a, replace=False)] for _ in range(n // a)]
        tiles.append([int(v) for v in numpy.random.choice(a, n % a, replace=False)])
    finally:
        numpy.random.set_state(st)
    return tiles


def _axes(case):
    ax = case["axis"]
    return [int(v) for v in ax] if isinstance(ax, list) else [int(ax)]


def _norm_axes(case):
    """axes as axis_shuffle reads them since fix 5396d924: a negative axis counts from the last one"""
    nd = len(case["shape"])
    return [a + nd if a < 0 else a for a in _axes(case)]


def _axis_oracle(case):
    shape = case["shape"]
    axes = set(a for a in _norm_axes(case) if 0 <= a < len(shape))
    free = [i for i in range(len(shape)) if i not in axes]
    if not free:
        return {"perms": []}
    nslice = _prod([shape[i] for i in sorted(axes)])
    clone = make_rng(case["rng"])
    perms = []
    for _ in range(nslice):
        q = numpy.arange(shape[free[0]])
        clone.shuffle(q)
        perms.append([int(v) for v in q])
    return {"perms": perms}


PAD = -7


def _memory(arr):
    """(the buffer that owns the memory of `arr`, as a flat view in memory order; the offset in it of every entry of
    `arr` in C order).  The owner is a single contiguous segment in all layouts built here."""
    root = arr
    while root.base is not None:
        root = root.base
    isz = arr.itemsize
    mem = numpy.lib.stride_tricks.as_strided(root, shape=(root.size,), strides=(isz,))
    off = (arr.__array_interface__["data"][0] - root.__array_interface__["data"][0]) // isz
    addr = [int(off + sum(i * st for i, st in zip(idx, arr.strides)) // isz) for idx in numpy.ndindex(*arr.shape)]
    return mem, addr


def _nd_layout(arr, layout):
    """the same logical N-d content in another memory layout; returns (array, check that the call wrote nowhere
    outside the array).  "C" contiguous, "F" Fortran order, "colslice" the leading columns of a table one column
    wider, "strided" every other entry along every axis of a buffer twice as large, "neg" a view with negative
    strides along the first axis"""
    ok = lambda: True
    if layout == "C":
        return numpy.ascontiguousarray(arr), ok
    if layout == "F":
        return numpy.asfortranarray(arr), ok
    if layout == "neg":
        return numpy.ascontiguousarray(arr[::-1])[::-1], ok
    if layout == "colslice":
        wide = numpy.full(arr.shape[:-1] + (arr.shape[-1] + 1,), PAD, dtype=arr.dtype)
        wide[..., :arr.shape[-1]] = arr
        npad = wide.size - arr.size
        return wide[..., :arr.shape[-1]], (lambda: int((wide == PAD).sum()) == npad)
    if layout == "strided":
        big = numpy.full(tuple(2 * v for v in arr.shape), PAD, dtype=arr.dtype)
        view = big[(slice(1, None, 2),) * arr.ndim]
        view[...] = arr
        npad = big.size - arr.size
        return view, (lambda: int((big == PAD).sum()) == npad)
    raise ValueError(layout)


def _dup(row):
    return len(row) - len(set(row))


def _score(x, nrow, ncol):
    return sum(_dup(x[r * ncol:(r + 1) * ncol]) for r in range(nrow))


def _outcross_oracle(case):
    x = case["x"]
    n = len(x)
    exch = numpy.array([[i, j] for i in range(n) for j in range(i + 1, n)])
    clone = make_rng(case["rng"])
    orders = []
    for _ in range(_score(x, case["nrow"], case["ncol"]) + 1):   # every pass but the last lowers the score
        clone.shuffle(exch)
        orders.append([[int(i), int(j)] for i, j in exch] if exch.ndim == 2 else [])
    return {"orders": orders}


# ---------------------------------------------------------------------------------- the property module
class C17(Prop):
    PID = "C17"
    MODULE = "PybropsModel.Props.C17"
    N_QUICK = 1100
    N_THOROUGH = 8000
    RULE = ("SUS: 1-9 weights (integers, dyadics, forced ties, zeros, all-equal; the same vectors scaled by 2^-40..2^30; "
            "a large common part 25000 / 2^24+1 / 2^30 / 10^9 (+ low bits) plus quarters or 1/4096ths; binary64 weights "
            "spanning 1e-12..1e12, all ~1e-8 / ~1e-5 / ~1e9), weights stored as uint8..uint64 / int8..int64 / float32 / "
            "float64, contiguous, strided or reversed views; 1-64 draws in 1-D to 4-D shapes, 127..1025 (thorough: 4097) "
            "draws from 1-4 elements, 128-300 elements mostly of weight zero; the top end of the walk: 3-50 weights that are not "
            "binary numbers, many ties, double or single precision, zeros in front / between / behind, offset 1-r*2^-53 or "
            "1-2^-m of the spacing (last pointer at or beyond the running cumulative end); 2000-20000 tied float32 weights "
            "with zeros spread over the vector and a request <= a third of the positive ones (Spec only); numpy integers "
            "in `size`, `a` of other dtypes incl. non-integer values, "
            "rng=None; scripted offsets that put pointers exactly on cumulative-weight boundaries, genuine "
            "PCG64/MT19937/RandomState states incl. crafted MT19937 states with next variate 0.0 / 2^-53 / 1-2^-53 / "
            "1-r*2^-53; tiled choice: 1-9 (rarely 129-200) options, sizes below / equal / above multiples of the option "
            "count up to 1025 (thorough 4099), optional probabilities incl. zeros, argument forms as for SUS; the second "
            "copy pymoo_addon.tiled_choice; axis shuffle: 1-D to 4-D arrays of distinct values in C / Fortran / strided / "
            "negative-stride / column-slice layouts, every subset of axes in any order, either sign, numpy integers, "
            "out-of-range entries; sliceaxisix itself incl. zero extents; outcross shuffle: tables of 1-6 crosses x 1-4 "
            "parents (up to 24 entries) over a small id range (also ids beyond 8/16/31 bits) with forced selfs, 4-8 selfed "
            "crosses of 2-5 parents (long descents in which positions of different crosses that start with the same "
            "individual end up with different ones), the same "
            "five memory layouts, the literal in-place loop replayed on the table's memory.  Non-trivial = SUS with "
            ">= 2 positive weights and >= 2 draws; tiled without replacement, >= 2 options, a remainder or >= 1 tile; "
            "axis case with >= 2 slices of length >= 2; outcross table with a repeated id in a row")
    TRUSTED = ["numpy generators: uniform(0,d) returns a value in [0,d), shuffle applies a rearrangement, "
               "choice(replace=False) returns distinct options (the model validates the replayed draws against this)",
               "the replay of the generator call pattern on a second generator built from the same specification "
               "(harness/props/c17.py:_*_oracle); a wrong replay shows as model/implementation disagreement",
               "binary64: the floor/ceiling claim is proved over exact scalars (sus_floor_ceil) and, for the standard "
               "model of floating-point arithmetic |fl x - x| <= u|x| applied to exactly the operations the code performs, "
               "whenever no exact pointer is within 2*eps of an interior cumulative boundary (sus_floor_ceil_binary64_partial, eps = "
               "max((1+u)^n - 1, (1+u)^3 (1+gamma) - 1) * sum(p)); the excluded ties do fail on binary64 (open finding D7g, "
               "sus_binary64_tie_counterexample evaluated on Lean's Float, corpus cases replayed on numpy); count, "
               "no-exception and zero-weight claims hold under ANY rounding (sus_loop_safe_under_any_rounding). Trusted: "
               "binary64 operations satisfy the standard model (no underflow), p.sum() has relative error <= (1+u)^(n-1) - 1",
               "long weight vectors (2000-20000 entries, kind sus/big): the Spec is evaluated on the implementation's output "
               "in exact arithmetic in Python (_big_spec; the same evaluation is compared with the Lean oracle c17.spec_sus "
               "on every ordinary SUS case); the model is not run on them (correspondence not checked there)",
               "numpy views: `xconfig.flat[q]` / `a[s]` address the element at the offset computed from the array's strides "
               "(the harness computes the offsets it hands to the literal-loop model from __array_interface__/strides)"]
    ASSUMPTIONS = ["weights non-negative with positive sum; sizes include the empty request (0, (2,0), ...)",
                   "cross tables and shuffled arrays in C order, Fortran order, as strided / negative-stride views and as "
                   "column slices of a wider array; memory outside the view must stay untouched (model: outcross_literal_any_layout)",
                   "axes of either sign (negative = counted from the last axis), duplicates and out-of-range entries",
                   "entries of `a` are distinct in generated cases, so that draws can be counted by value",
                   "a model/implementation difference in the binary64 stream is waived only when a pointer lies "
                   "within 2^-40 (relative to the total weight) of a cumulative-weight boundary; the Spec is never waived; "
                   "a Spec failure is attributed to finding D7g only when the call's binary64 arithmetic is inexact AND the "
                   "hypotheses of sus_floor_ceil_binary64_partial fail (both recomputed from the case in exact arithmetic)",
                   "single-precision weights: the tie waiver and the D7g attribution use the unit roundoff 2^-24 of the "
                   "arithmetic in which the total and the cumulative weights are then computed (theorem "
                   "sus_floor_ceil_binary64_partial is stated for any u); long vectors are generated only where the clause "
                   "is robust against the float32 gap between p.sum() and cumsum()[-1] (spacing >= 3 x largest weight)",
                   "documented but unsupported argument forms are not generated: tiled_choice(a=<int>) and size=None raise "
                   "on the unchanged tree (AttributeError / TypeError); the property text does not cover them"]

    # ------------------------------------------------------------------ generation
    def corpus(self):
        z = {"gen": "randomstate", "seed": 1, "craft": [0, 0]}
        zg = {"gen": "mt19937", "seed": 7, "craft": [0, 0]}
        mx = {"gen": "randomstate", "seed": 1, "craft": [M32, M32]}
        tiny = {"gen": "randomstate", "seed": 3, "craft": [0, 64]}
        return [
            # regression cases of fix fc545079 (all must pass with Spec true):
            # D7a: offset exactly 0 (genuine RandomState / Generator(MT19937) states)
            {"kind": "sus", "p": [1, 1, 1], "a": [10, 11, 12], "size": 3, "rng": z, "regime": "exact"},
            {"kind": "sus", "p": [3, 2, 1], "a": [5, 6, 7], "size": [2, 3], "rng": zg, "regime": "exact"},
            # D7a, binary64 variant: offset 2^-53 * spacing is absorbed by the first addition
            {"kind": "sus", "p": [1, 3, 0, 2], "a": [1, 2, 3, 4], "size": 36, "rng": tiny, "regime": "float"},
            # D7b: offset = spacing * (1 - 2^-53): arange yielded k-1 pointers
            {"kind": "sus", "p": [1, 1, 1], "a": [10, 11, 12], "size": 3, "rng": mx, "regime": "float"},
            {"kind": "sus", "p": [5, 1, 1, 1], "a": [1, 2, 3, 4], "size": [2, 2], "rng": mx, "regime": "float"},
            # D7b, k+1 pointers: offset 0 and tot/(tot/k) rounds above k
            {"kind": "sus", "p": ["1/4", "1/4", 1, "5/8", 1], "a": [1, 2, 3, 4, 5], "size": 29, "rng": z,
             "regime": "float"},
            # D7c: last pointer above cumsum[-1] (p.sum() != cumsum[-1] in binary64)
            {"kind": "sus", "p": canon.enc([0.1, 0.2, 0.3]), "a": [1, 2, 3], "size": 2, "rng": mx, "regime": "float"},
            {"kind": "sus", "p": [3, 2, 1], "a": [5, 6, 7], "size": 6, "rng": mx, "regime": "float"},
            {"kind": "sus", "p": [1, 1, 1, 1], "a": [1, 2, 3, 4], "size": [2, 2],
             "rng": {"gen": "mt19937", "seed": 9, "craft": [M32, M32 - 64 * 3]}, "regime": "float"},
            # offset 0 but no integral expected count at either end: within floor/ceil
            {"kind": "sus", "p": [2, 0, 3], "a": [7, 8, 9], "size": 29, "rng": z, "regime": "exact"},
            # pointers exactly on boundaries with an interior offset: within floor/ceil
            {"kind": "sus", "p": [1, 1, 1, 1], "a": [1, 2, 3, 4], "size": 8,
             "rng": {"gen": "scripted", "seed": 1, "u": "1/2"}, "regime": "exact"},
            {"kind": "sus", "p": [2, 1, 1, 0], "a": [4, 3, 2, 1], "size": [2, 2],
             "rng": {"gen": "scripted", "seed": 2, "u": "1/4"}, "regime": "exact"},
            {"kind": "sus", "p": [1], "a": [42], "size": 1, "rng": {"gen": "pcg64", "seed": 0}, "regime": "exact"},
            {"kind": "tiled", "a": [5, 6, 7], "size": 7, "replace": False, "p": None, "rng": {"gen": "pcg64", "seed": 1}},
            {"kind": "tiled", "a": [5, 6, 7], "size": [2, 3], "replace": False, "p": None,
             "rng": {"gen": "randomstate", "seed": 1}},
            {"kind": "tiled", "a": [5, 6, 7, 8], "size": 2, "replace": False, "p": ["1/2", "1/2", 0, 0],
             "rng": {"gen": "pcg64", "seed": 2}},
            {"kind": "tiled", "a": [1, 2], "size": 5, "replace": True, "p": None, "rng": {"gen": "pcg64", "seed": 3}},
            {"kind": "axis", "shape": [2, 3], "axis": 0, "rng": {"gen": "pcg64", "seed": 1}},
            {"kind": "axis", "shape": [2, 3], "axis": 1, "rng": {"gen": "randomstate", "seed": 1}},
            {"kind": "axis", "shape": [2, 3, 4], "axis": [0, 2], "rng": {"gen": "pcg64", "seed": 4}},
            {"kind": "axis", "shape": [4], "axis": [], "rng": {"gen": "pcg64", "seed": 5}},
            {"kind": "axis", "shape": [2, 2], "axis": [0, 1], "rng": {"gen": "pcg64", "seed": 5}},
            # inputs on which the seeded changes C17-a2 / b1 / b2 (and the mutants of the same kind) show
            {"kind": "axis", "shape": [3, 4, 5], "axis": [1, 0], "rng": {"gen": "pcg64", "seed": 4}},
            {"kind": "axis", "shape": [2, 3, 2], "axis": [2, 0], "rng": {"gen": "randomstate", "seed": 4}},
            {"kind": "slices", "shape": [3, 4, 5], "axis": [2, 0]},
            {"kind": "sus", "p": ["5/2", 2, "1/2"], "a": [1, 2, 3], "size": 5,
             "rng": {"gen": "scripted", "seed": 4, "u": "7/8"}, "regime": "exact"},
            {"kind": "sus", "p": [5, 4, 1], "a": [1, 2, 3], "size": [2, 5],
             "rng": {"gen": "scripted", "seed": 5, "u": "15/16"}, "regime": "exact"},
            {"kind": "outcross", "nrow": 4, "ncol": 2, "x": [1, 1, 2, 2, 1, 2, 1, 2], "layout": "C",
             "rng": {"gen": "pcg64", "seed": 4}},
            {"kind": "outcross", "nrow": 2, "ncol": 4, "x": [1, 1, 3, 4, 2, 2, 5, 6], "layout": "C",
             "rng": {"gen": "pcg64", "seed": 5}},
            # regression cases of the fixes f1943417 (empty request), 5d3f529a (non-contiguous table), 5396d924 (negative axis)
            {"kind": "sus", "p": [1, 2], "a": [1, 2], "size": 0, "rng": {"gen": "randomstate", "seed": 1}, "regime": "exact"},
            {"kind": "sus", "p": [1, 2], "a": [1, 2], "size": [2, 0], "rng": {"gen": "pcg64", "seed": 1}, "regime": "exact"},
            {"kind": "outcross", "nrow": 2, "ncol": 2, "x": [1, 1, 2, 2], "layout": "F", "rng": {"gen": "pcg64", "seed": 1}},
            {"kind": "outcross", "nrow": 3, "ncol": 2, "x": [1, 1, 2, 2, 3, 4], "layout": "colslice",
             "rng": {"gen": "pcg64", "seed": 1}},
            {"kind": "outcross", "nrow": 1, "ncol": 3, "x": [1, 1, 2], "layout": "F", "rng": {"gen": "pcg64", "seed": 1}},
            {"kind": "axis", "shape": [2, 2], "axis": -2, "rng": {"gen": "pcg64", "seed": 0}},
            {"kind": "axis", "shape": [2, 3], "axis": -1, "rng": {"gen": "pcg64", "seed": 0}},
            {"kind": "axis", "shape": [2, 3, 2], "axis": [0, -1], "rng": {"gen": "pcg64", "seed": 3}},
            {"kind": "slices", "shape": [2, 3, 2], "axis": [0, 2]},
            {"kind": "slices", "shape": [3], "axis": []},
            {"kind": "slices", "shape": [2, 0, 2], "axis": [1]},
            {"kind": "outcross", "nrow": 3, "ncol": 2, "x": [1, 1, 2, 2, 3, 4], "rng": {"gen": "pcg64", "seed": 1}},
            {"kind": "outcross", "nrow": 2, "ncol": 3, "x": [1, 1, 1, 1, 1, 2], "rng": {"gen": "randomstate", "seed": 2}},
            {"kind": "outcross", "nrow": 1, "ncol": 1, "x": [3], "rng": {"gen": "pcg64", "seed": 1}},
            {"kind": "outcross", "nrow": 2, "ncol": 2, "x": [1, 2, 3, 4], "rng": {"gen": "pcg64", "seed": 1}},
        ] + self._corpus_round4(z, mx) + self._corpus_round5(z, mx)

    @staticmethod
    def _corpus_round5(z, mx):
        pc = lambda s: {"gen": "pcg64", "seed": s}
        rs = lambda s: {"gen": "randomstate", "seed": s}
        f32 = lambda vals: canon.enc([float(numpy.float32(v)) for v in vals])
        top = lambda s, m: {"gen": "scripted", "seed": s, "u": canon.enc(1 - Fraction(1, 1 << m))}
        return [
            # few parents tiled over selfed crosses: several accepted exchanges, positions of different crosses that hold
            # the same individual at the start and different ones later (seeded change C17-c3 shows on these histories)
            {"kind": "outcross", "nrow": 4, "ncol": 2, "x": [1, 1, 2, 2, 2, 2, 0, 0], "layout": "C", "rng": pc(11)},
            {"kind": "outcross", "nrow": 4, "ncol": 2, "x": [1, 1, 2, 2, 2, 2, 0, 0], "layout": "C", "rng": rs(4)},
            {"kind": "outcross", "nrow": 4, "ncol": 2, "x": [1, 1, 2, 2, 2, 2, 0, 0], "layout": "F", "rng": rs(14)},
            {"kind": "outcross", "nrow": 4, "ncol": 2, "x": [0, 0, 2, 2, 0, 1, 2, 2], "layout": "C", "rng": pc(6)},
            {"kind": "outcross", "nrow": 6, "ncol": 3, "x": [1, 1, 1, 2, 2, 2, 0, 0, 0] * 2, "layout": "C", "rng": pc(0)},
            {"kind": "outcross", "nrow": 6, "ncol": 3, "x": [1, 1, 1, 2, 2, 2, 0, 0, 0] * 2, "layout": "C", "rng": rs(11)},
            # a table one exchange away from the optimum (flat positions 2 and 4)
            {"kind": "outcross", "nrow": 4, "ncol": 2, "x": [1, 2, 2, 2, 1, 0, 0, 2], "layout": "C", "rng": pc(1)},
            # zero weights in front of / between the positive ones, weights that are not binary numbers (p.sum() and
            # p[order].cumsum()[-1] round differently), offset at the very top of [0, spacing): the last pointer lies
            # beyond the end of the running cumulative weights and must stay on the last element of positive weight
            # (seeded change C17-e3 selects an element of weight zero here)
            {"kind": "sus", "p": canon.enc([0.0, 0.1, 0.2, 0.0, 0.3]), "a": [1, 2, 3, 4, 5], "size": 2, "rng": mx,
             "regime": "float"},
            {"kind": "sus", "p": canon.enc([0.0, 0.1, 0.0, 0.2, 0.3, 0.1, 0.0, 0.2, 0.3]), "a": list(range(9)), "size": [2, 3],
             "rng": mx, "regime": "float"},
            {"kind": "sus", "p": canon.enc([0.0] + [0.1] * 8 + [0.0, 0.1]), "a": list(range(11)), "size": 5, "rng": mx,
             "regime": "float"},
            {"kind": "sus", "p": canon.enc([0.0, 0.7, 1.1, 0.0, 0.3, 2.3, 0.0, 1.1, 0.7]), "a": list(range(9)), "size": 7,
             "rng": {"gen": "mt19937", "seed": 3, "craft": [M32, M32]}, "regime": "float"},
            # the same in single precision (the stored weights are the float32 neighbours of 0.1, 0.2, 0.3)
            {"kind": "sus", "p": f32([0.0, 0.1, 0.2, 0.0, 0.3] * 4), "pdtype": "float32", "a": list(range(20)), "size": 7,
             "rng": mx, "regime": "float"},
            {"kind": "sus", "p": f32([0.1, 0.0] * 25), "pdtype": "float32", "a": list(range(50)), "size": 12,
             "rng": top(3, 20), "regime": "float"},
            {"kind": "sus", "p": f32([0.0, 0.7, 1.1, 0.3, 2.3] * 4), "pdtype": "float32", "a": list(range(20)), "size": [3, 4],
             "rng": top(4, 12), "regime": "float"},
            # options / elements that are not whole numbers (a = the integers + 1/2)
            {"kind": "tiled", "a": [5, 6, 7], "adtype": "float64h", "size": 8, "replace": False, "p": None, "rng": pc(6)},
            {"kind": "tiled", "a": [5, 6, 7], "adtype": "float64h", "size": [2, 2], "replace": True, "p": None, "rng": pc(7)},
            {"kind": "sus", "p": [3, 0, 2, 1], "a": [1, 2, 3, 4], "adtype": "float64h", "size": 6,
             "rng": {"gen": "scripted", "seed": 18, "u": "3/4"}, "regime": "exact"},
            # thousands of tied single-precision weights, zeros spread over the vector: the gap between p.sum() and the
            # running cumulative sum is macroscopic (1e-4 of the total), an ordinary offset puts a pointer beyond the end
            {"kind": "sus", "big": True, "n": 20000, "w": f32([0.1]), "zero_every": 10, "zero_phase": 0, "size": [40, 50],
             "pdtype": "float32", "rng": rs(8), "regime": "float"},
            {"kind": "sus", "big": True, "n": 20000, "w": f32([1.1]), "zero_every": 3, "zero_phase": 1, "size": 2000,
             "pdtype": "float32", "rng": top(5, 3), "regime": "float"},
            {"kind": "sus", "big": True, "n": 5000, "w": f32([0.7]), "zero_every": 7, "zero_phase": 2, "size": 600,
             "pdtype": "float32", "rng": top(6, 6), "regime": "float"},
            {"kind": "sus", "big": True, "n": 20000, "w": canon.enc([0.1]), "zero_every": 10, "zero_phase": 0, "size": 2000,
             "pdtype": "float64", "rng": pc(9), "regime": "float"},
        ]

    @staticmethod
    def _corpus_round4(z, mx):
        sc = lambda s, u: {"gen": "scripted", "seed": s, "u": u}
        pc = lambda s: {"gen": "pcg64", "seed": s}
        return [
            # finding D7g (open): binary64 ties.  Equal weights that are not binary64 numbers, every expected count
            # exactly 1 (or 2); offset exactly 0 / u = 1 - 2^-53 (genuine RandomState states): counts (0,1,2), (2,1,1,0,..)
            {"kind": "sus", "p": canon.enc([0.7, 0.7, 0.7]), "a": [1, 2, 3], "size": 3, "rng": z, "regime": "float"},
            {"kind": "sus", "p": canon.enc([0.1] * 10), "a": list(range(10)), "size": 10, "rng": mx, "regime": "float"},
            {"kind": "sus", "p": canon.enc([0.1] * 10), "a": list(range(10)), "size": [4, 5], "rng": mx, "regime": "float"},
            {"kind": "sus", "p": canon.enc([0.1, 0.2, 0.3]), "a": [1, 2, 3], "size": 6, "rng": mx, "regime": "float"},
            # the same weights with interior offsets: within floor/ceil
            {"kind": "sus", "p": canon.enc([0.7, 0.7, 0.7]), "a": [1, 2, 3], "size": 3, "rng": pc(3), "regime": "float"},
            {"kind": "sus", "p": canon.enc([0.1] * 10), "a": list(range(10)), "size": 10, "rng": pc(4), "regime": "float"},
            # weights stored as counts (unsigned / signed integers of every width), zeros among them (seeded change C17-c1)
            {"kind": "sus", "p": [0, 0, 0, 5], "pdtype": "uint8", "a": [1, 2, 3, 4], "size": 1, "rng": pc(2), "regime": "float"},
            {"kind": "sus", "p": [0, 3, 1, 0, 2], "pdtype": "uint8", "a": [1, 2, 3, 4, 5], "size": 6, "rng": sc(1, "1/2"),
             "regime": "exact"},
            {"kind": "sus", "p": [0, 3, 1, 0, 2], "pdtype": "uint64", "a": [1, 2, 3, 4, 5], "size": [2, 3], "rng": sc(2, "1/4"),
             "regime": "exact"},
            {"kind": "sus", "p": [2, 0, 1, 1], "pdtype": "uint16", "a": [1, 2, 3, 4], "size": 4, "rng": z, "regime": "exact"},
            {"kind": "sus", "p": [100, 90, 0, 66], "pdtype": "int8", "a": [1, 2, 3, 4], "size": 4, "rng": sc(3, "3/4"),
             "regime": "exact"},
            {"kind": "sus", "p": [200, 100, 0, 212], "pdtype": "uint8", "a": [1, 2, 3, 4], "size": 8, "rng": sc(3, "1/8"),
             "regime": "exact"},
            {"kind": "sus", "p": ["3/2", "1/4", 0, "9/4"], "pdtype": "float32", "a": [1, 2, 3, 4], "size": 8,
             "rng": sc(4, "1/2"), "regime": "exact"},
            # the same vector at other magnitudes (2^-30 ~ 1e-9, 2^-17 ~ 1e-5, 2^30), all-equal weights, one draw
            {"kind": "sus", "p": canon.enc([Fraction(v, 1 << 30) for v in (3, 2, 0, 1)]), "a": [1, 2, 3, 4], "size": 6,
             "rng": sc(5, "1/2"), "regime": "exact"},
            {"kind": "sus", "p": canon.enc([Fraction(v, 1 << 17) for v in (1, 1, 1, 1)]), "a": [1, 2, 3, 4], "size": 8,
             "rng": sc(6, "1/4"), "regime": "exact"},
            {"kind": "sus", "p": [3 << 30, 2 << 30, 0, 1 << 30], "a": [1, 2, 3, 4], "size": [3, 2], "rng": sc(7, "3/4"),
             "regime": "exact"},
            {"kind": "sus", "p": [2, 2, 2], "a": [1, 2, 3], "size": 1, "rng": pc(8), "regime": "float"},
            {"kind": "sus", "p": canon.enc([1e-12, 1e12, 1.0, 0.0, 3e-9]), "a": [1, 2, 3, 4, 5], "size": 7, "rng": pc(9),
             "regime": "float"},
            # a large common part: 25000 + quarters, 10^9 + halves
            {"kind": "sus", "p": ["100001/4", "50001/2", 25000, 0], "a": [1, 2, 3, 4], "size": 8, "rng": sc(10, "5/16"),
             "regime": "exact"},
            {"kind": "sus", "p": ["2000000001/2", "1999999999/2", 1000000000], "a": [1, 2, 3], "size": [2, 2],
             "rng": sc(11, "1/2"), "regime": "exact"},
            {"kind": "sus", "p": ["4294967297/4"] * 3, "a": [1, 2, 3], "size": 6, "rng": z, "regime": "exact"},
            {"kind": "sus", "p": ["4294967681/4"] * 3, "a": [1, 2, 3], "size": 6, "rng": z, "regime": "exact"},
            {"kind": "sus", "p": ["102400003/4096"] * 4, "a": [1, 2, 3, 4], "size": 8, "rng": z, "regime": "exact"},
            {"kind": "sus", "p": [16777217, 16777217, 16777217], "a": [1, 2, 3], "size": 3, "rng": z, "regime": "exact"},
            {"kind": "sus", "p": ["4000000003/4"] * 4, "a": [1, 2, 3, 4], "size": [4, 2], "rng": z, "regime": "exact"},
            # many more draws than elements (past 127 / 1024), many elements (past 127)
            {"kind": "sus", "p": [1025, 0, 2050], "a": [1, 2, 3], "size": 1025, "rng": sc(12, "1/2"), "regime": "exact"},
            {"kind": "sus", "p": [129, 258], "pdtype": "uint16", "a": [1, 2], "size": 129, "rng": sc(13, "7/8"),
             "regime": "exact"},
            {"kind": "sus", "p": [1, 0, 2, 1], "pdtype": "uint8", "a": [1, 2, 3, 4], "size": [16, 32], "rng": sc(13, "3/8"),
             "regime": "exact"},
            {"kind": "sus", "p": [3, 5], "pdtype": "int8", "a": [1, 2], "size": 256, "rng": sc(14, "5/8"), "regime": "exact"},
            {"kind": "sus", "p": [(1 if i % 37 == 5 else 0) for i in range(130)], "pdtype": "uint8", "a": list(range(130)),
             "size": 8, "rng": sc(14, "1/2"), "regime": "exact"},
            {"kind": "sus", "p": [1] * 130, "a": list(range(130)), "size": 260, "rng": pc(15), "regime": "float"},
            # argument forms: strided / reversed views, numpy integers in size, a of another dtype, rng=None
            {"kind": "sus", "p": [3, 0, 2, 1], "playout": "strided", "alayout": "rev", "a": [1, 2, 3, 4], "size": 6,
             "rng": sc(16, "1/2"), "regime": "exact"},
            {"kind": "sus", "p": [3, 0, 2, 1], "playout": "rev", "alayout": "strided", "adtype": "object", "a": [1, 2, 3, 4],
             "size": [2, 3], "sizeform": "npint", "rng": sc(17, "1/4"), "regime": "exact"},
            {"kind": "sus", "p": [3, 0, 2, 1], "a": [1, 2, 3, 4], "adtype": "float64", "size": 6, "sizeform": "np32",
             "rng_none": True, "rng": sc(18, "3/4"), "regime": "exact"},
            {"kind": "sus", "p": [1, 2, 3, 2], "a": [1, 2, 3, 4], "size": [2, 1, 2, 2], "rng": sc(19, "1/2"), "regime": "exact"},
            # tiled choice: many tiles / many options, probabilities with zeros, argument forms
            {"kind": "tiled", "a": [5, 6], "size": 1025, "replace": False, "p": None, "rng": pc(1)},
            {"kind": "tiled", "a": list(range(100, 230)), "size": 131, "replace": False, "p": None, "rng": pc(2)},
            {"kind": "tiled", "a": [5, 6, 7, 8], "size": [3, 2], "replace": False, "p": [0, "1/2", "1/2", 0], "rng": pc(3)},
            {"kind": "tiled", "a": [5, 6, 7], "alayout": "strided", "adtype": "object", "size": [2, 2], "sizeform": "npint",
             "replace": False, "p": None, "rng": {"gen": "randomstate", "seed": 4}},
            {"kind": "tiled", "a": [5, 6, 7], "alayout": "rev", "adtype": "float64", "size": 8, "replace": False, "p": None,
             "rng_none": True, "rng": pc(5)},
            # the second copy of the tiling mechanism (opt/algo/pymoo_addon.py)
            {"kind": "tiled_addon", "noption": 3, "nsample": 7, "seed": 1},
            {"kind": "tiled_addon", "noption": 4, "nsample": 4, "seed": 2},
            {"kind": "tiled_addon", "noption": 5, "nsample": 0, "seed": 3},
            {"kind": "tiled_addon", "noption": 1, "nsample": 3, "seed": 4},
            {"kind": "tiled_addon", "noption": 130, "nsample": 131, "seed": 5},
            # axis shuffle / outcross shuffle on arrays that are not C-contiguous
            {"kind": "axis", "shape": [3, 4], "axis": 0, "layout": "F", "rng": pc(1)},
            {"kind": "axis", "shape": [3, 4], "axis": 1, "layout": "F", "rng": {"gen": "randomstate", "seed": 1}},
            {"kind": "axis", "shape": [2, 3, 4], "axis": [2, 0], "layout": "strided", "rng": pc(2)},
            {"kind": "axis", "shape": [2, 3, 4], "axis": [1], "layout": "neg", "dtype": "float64", "rng": pc(3)},
            {"kind": "axis", "shape": [2, 3, 2, 2], "axis": [3, -3], "layout": "colslice", "axisform": "npint", "rng": pc(4)},
            {"kind": "axis", "shape": [3, 2], "axis": 0, "rng_none": True, "rng": pc(5)},
            {"kind": "outcross", "nrow": 3, "ncol": 2, "x": [1, 1, 2, 2, 3, 4], "layout": "strided", "rng": pc(1)},
            {"kind": "outcross", "nrow": 3, "ncol": 2, "x": [1, 1, 2, 2, 3, 4], "layout": "neg", "dtype": "int32", "rng": pc(2)},
            {"kind": "outcross", "nrow": 2, "ncol": 3, "x": [65536, 65536, 0, 0, 1, 65537], "rng": pc(3)},
            {"kind": "outcross", "nrow": 6, "ncol": 4, "x": [i % 5 for i in range(24)], "rng_none": True, "rng": pc(4)},
        ]

    @staticmethod
    def _rng_spec(rng):
        return {"gen": rng.choice(["pcg64", "pcg64", "mt19937", "randomstate"]), "seed": rng.randrange(1 << 30)}

    @staticmethod
    def _size(rng, k):
        """a size argument (int or tuple) with product k"""
        facs = [(a, b, k // (a * b)) for a in range(1, k + 1) if k % a == 0
                for b in range(1, k // a + 1) if (k // a) % b == 0]
        r = rng.random()
        if r < 0.4:
            return k
        if r < 0.55:
            return [k]
        a, b, c = rng.choice(facs)
        return [a, b * c] if r < 0.8 else [a, b, c]

    INT_DTYPES = ["uint8", "uint16", "uint32", "uint64", "int8", "int16", "int32", "int64"]

    @staticmethod
    def _call_forms(rng, c, arrays=True):
        """rarely used forms of the same call: numpy integers in `size`, `a` of another dtype or as a strided /
        reversed view, `rng=None` (module-level generator)"""
        if rng.random() < 0.08:
            c["sizeform"] = rng.choice(["npint", "np32"])
        if arrays and rng.random() < 0.08:
            c["alayout"] = rng.choice(["strided", "rev"])
        if arrays and rng.random() < 0.08:
            c["adtype"] = rng.choice(["float64", "float64h", "float64h", "int32", "object"])
        if rng.random() < 0.03:
            c["rng_none"] = True
        return c

    def _scripted(self, rng):
        u = Fraction(rng.randint(1, 15), 16) if rng.random() < 0.8 else Fraction(rng.randint(1, 1023), 1024)
        return {"gen": "scripted", "seed": rng.randrange(1 << 30), "u": canon.enc(u)}

    def _exact_spec(self, rng):
        r = rng.random()
        if r < 0.70:
            return self._scripted(rng)
        if r < 0.82:
            return {"gen": rng.choice(["randomstate", "mt19937"]), "seed": rng.randrange(1 << 30), "craft": [0, 0]}
        return self._rng_spec(rng)

    @staticmethod
    def _regime(spec):
        return "exact" if spec["gen"] == "scripted" or "craft" in spec else "float"

    def _gen_sus_large(self, rng, tier):
        """sizes past internal constants: many more draws than elements (127 .. 4097), many elements (128 .. 300,
        mostly of weight zero); integer weights, so every binary64 operation of the call is exact or a single
        correctly rounded division"""
        r = rng.random()
        if r < 0.25:
            # a power-of-two request with small weights of any dtype (8-bit counts included): the spacing is dyadic
            n = rng.choice([1, 2, 3, 4])
            p = [rng.choice([0, 1, 1, 2, 3, 5]) for _ in range(n)]
            if not any(p):
                p[rng.randrange(n)] = 1
            k = rng.choice([128, 256, 512, 1024] + ([2048, 4096] if tier == "thorough" else []))
            spec = self._exact_spec(rng)
            c = {"kind": "sus", "p": p, "a": rng.sample(range(-50, 200), n), "size": self._size(rng, k),
                 "rng": spec, "regime": self._regime(spec)}
            if rng.random() < 0.7:
                c["pdtype"] = rng.choice(self.INT_DTYPES + ["float32"])
            return c
        if r < 0.6:
            n = rng.choice([1, 2, 3, 4])
            q = [rng.choice([0, 1, 1, 2, 3]) for _ in range(n)]
            if not any(q):
                q[rng.randrange(n)] = 1
            kp = rng.choice([127, 128, 129, 255, 257, 1000, 1024, 1025] + ([2049, 4097] if tier == "thorough" else []))
            p = [kp * v for v in q]
            spec = self._exact_spec(rng)
            c = {"kind": "sus", "p": p, "a": rng.sample(range(-50, 200), n), "size": self._size(rng, kp) if kp < 300 else kp,
                 "rng": spec, "regime": self._regime(spec)}
            if rng.random() < 0.4:
                c["pdtype"] = rng.choice(["uint32", "uint64", "int32", "int64"])
            return c
        n = rng.choice([128, 130, 200, 300])
        if rng.random() < 0.6:
            p = [0] * n
            for i in rng.sample(range(n), rng.randint(2, 8)):
                p[i] = rng.choice([1, 1, 2, 3, 5])
        else:
            p = [rng.choice([1, 1, 1, 2, 3]) for _ in range(n)]
            if rng.random() < 0.5:
                p = [p[0]] * n
        k = rng.choice([1, 7, 64, n, n + 1, 2 * n])
        c = {"kind": "sus", "p": p, "a": rng.sample(range(-50, 1000), n), "size": k, "rng": self._rng_spec(rng),
             "regime": "float"}
        if rng.random() < 0.5:
            c["pdtype"] = rng.choice(self.INT_DTYPES)
        return c

    def _gen_sus_offset(self, rng):
        """weights that share a large common part (25000, 2^30, 10^9) and differ by quarters; power-of-two request,
        scripted dyadic offset: every binary64 operation of the call is exact"""
        n = rng.choice([2, 3, 4, 6])
        base = rng.choice([25000, 1 << 30, 10 ** 9, (1 << 24) + 1]) + rng.choice([0, 0, 1, 37, 96, 101])
        den = rng.choice([4, 4, 4096])
        p = [base + Fraction(rng.choice([0, 0, 1, 2, 3, 5, 8, 12]), den) for _ in range(n)]
        if rng.random() < 0.3:
            p[rng.randrange(n)] = Fraction(0)
        if not any(p):
            p[0] = Fraction(base)
        k = 1 << rng.choice([0, 1, 2, 3, 4, 5])
        spec = self._exact_spec(rng)
        if rng.random() < 0.35:
            # all weights equal: every expected count is the integer 2^e and, with the offset exactly 0, every
            # (r+1)*2^e-th pointer sits exactly on a cumulative boundary that needs more than 24 significant bits
            w = base + Fraction(rng.choice([1, 2, 3, 5]), den)
            p = [w] * n
            k = n * (1 << rng.choice([0, 1, 2, 3]))
            if rng.random() < 0.6:
                spec = {"gen": rng.choice(["randomstate", "mt19937"]), "seed": rng.randrange(1 << 30), "craft": [0, 0]}
        return {"kind": "sus", "p": canon.enc(p), "a": rng.sample(range(-50, 200), n), "size": self._size(rng, k),
                "rng": spec, "regime": self._regime(spec)}

    TIE_SETS = [[0.1], [0.1, 0.2, 0.3], [0.7, 1.1, 0.3, 2.3], [0.3, 0.6], [1.7, 0.9, 0.1], [1e-3, 2e-3, 7e-3]]

    def _gen_sus_top(self, rng):
        """the top end of the walk: weights that are not binary numbers with many ties (so that p.sum() and
        p[order].cumsum()[-1], computed in different orders, round differently), stored in double or single precision,
        zero weights anywhere (in front, between, behind the positive ones), and an offset at the very top of
        [0, spacing) (genuine MT19937 states whose next variate is 1 - r*2^-53, or a scripted quantile 1 - 2^-m): the
        last pointer then lies at or beyond the end of the running cumulative weights"""
        n = rng.choice([3, 5, 5, 9, 9, 12, 20, 20, 50])
        vals = rng.choice(self.TIE_SETS)
        if rng.random() < 0.2:
            vals = [round(rng.uniform(0.05, 3.0), rng.choice([1, 2])) for _ in range(rng.randint(1, 4))]
        dt = rng.choice(["float64", "float32"])
        cast = (lambda v: float(numpy.float32(v))) if dt == "float32" else float
        p = [cast(rng.choice(vals)) for _ in range(n)]
        zr = rng.choice([0.15, 0.3, 0.5])
        for i in range(n):
            if rng.random() < zr:
                p[i] = 0.0
        if rng.random() < 0.5:
            p[0] = 0.0                               # a zero in front of every positive weight
        if rng.random() < 0.2:
            p[-1] = 0.0
        if not any(p):
            p[rng.randrange(n)] = cast(vals[0])
        if all(p[i] == 0 for i in range(n - 1)) and n > 1:
            p[rng.randrange(n - 1)] = cast(vals[-1])
        k = rng.choice([1, 2, 3, 5, 7, 12, 29, 64])
        r = rng.random()
        if r < 0.6:
            spec = {"gen": rng.choice(["randomstate", "mt19937"]), "seed": rng.randrange(1 << 30), "craft": [M32, M32]}
        elif r < 0.75:
            spec = {"gen": rng.choice(["randomstate", "mt19937"]), "seed": rng.randrange(1 << 30),
                    "craft": [M32, M32 - 64 * rng.randint(1, 9)]}
        else:
            spec = {"gen": "scripted", "seed": rng.randrange(1 << 30),
                    "u": canon.enc(1 - Fraction(1, 1 << rng.choice([6, 8, 12, 20, 30, 52])))}
        c = {"kind": "sus", "p": canon.enc(p), "a": rng.sample(range(-50, 400), n), "size": self._size(rng, k),
             "rng": spec, "regime": "float"}
        if dt == "float32":
            c["pdtype"] = "float32"
        if rng.random() < 0.08:
            c["playout"] = rng.choice(["strided", "rev"])
        return c

    def _gen_sus_big(self, rng):
        """thousands of tied weights in single (rarely double) precision with zeros spread over the vector: the running
        float32 cumulative sum and the pairwise float32 total differ by up to ~2e-4 of the total, i.e. by a sizeable
        part of the pointer spacing.  The request stays small against the number of positive weights (spacing >= 3 x
        the largest weight), where the clause is robust: every expected count is below 1/2, an element may be drawn 0
        or 1 times and a zero-weight element never.  Spec only (evaluated in exact arithmetic in Python)."""
        n = rng.choice([2000, 5000, 10000, 20000, 20000, 20000])
        dt = "float32" if rng.random() < 0.85 else "float64"
        cast = (lambda v: float(numpy.float32(v))) if dt == "float32" else float
        w = [cast(v) for v in rng.choice([[0.1], [0.2], [1.1], [0.7], [0.3], [0.1, 0.2], [1.1, 0.7, 0.3]])]
        c = {"kind": "sus", "big": True, "n": n, "w": canon.enc(w), "pdtype": dt, "regime": "float"}
        if rng.random() < 0.6:
            c["zero_every"] = rng.choice([2, 3, 7, 10])
            c["zero_phase"] = rng.randrange(c["zero_every"])
        else:
            c["zero_seed"] = rng.randrange(1 << 30)
            c["zero_frac"] = canon.enc(Fraction(rng.choice([1, 2, 3, 5]), 10))
        p = _big_p(c)
        npos = int(numpy.count_nonzero(p))
        tot = sum(Fraction(float(v)) * int((p == v).sum()) for v in numpy.unique(p))
        kmax = max(1, int(tot / (3 * Fraction(float(p.max())))))
        k = rng.randint(max(1, kmax // 4), kmax)
        c["size"] = self._size(rng, k) if k < 300 else rng.choice([k, [k]])
        if k >= 300 and k % 10 == 0 and rng.random() < 0.5:
            c["size"] = [k // 10, 10]
        if rng.random() < 0.5:
            c["rng"] = {"gen": "scripted", "seed": rng.randrange(1 << 30),
                        "u": canon.enc(1 - Fraction(1, 1 << rng.choice([1, 2, 3, 4, 6, 10])))}
        else:
            c["rng"] = self._rng_spec(rng)
        return c

    def _gen_sus(self, rng, tier="quick"):
        r0 = rng.random()
        if r0 < 0.035:
            return self._call_forms(rng, self._gen_sus_large(rng, tier))
        if r0 < 0.09:
            return self._call_forms(rng, self._gen_sus_offset(rng))
        if r0 < 0.15:
            return self._call_forms(rng, self._gen_sus_top(rng))
        if r0 < 0.18:
            return self._gen_sus_big(rng)
        n = rng.choice([1, 2, 2, 3, 3, 4, 5, 6, 9])
        a = rng.sample(range(-50, 200), n)
        style = rng.random()
        if style < 0.5:
            # exact regime: dyadic weights q_i, p = k'*q, k = k'*2^e so that the spacing is dyadic;
            # the scripted quantile puts pointers exactly on cumulative-weight boundaries
            kp = rng.choice([1, 1, 2, 3, 5, 6, 7])
            e = rng.choice([0, 1, 2, 3])
            den = rng.choice([1, 1, 2, 4])
            q = [Fraction(rng.choice([0, 1, 1, 2, 2, 3, 4, 6]), den) for _ in range(n)]
            if rng.random() < 0.4 and n > 1:          # ties
                for _ in range(rng.randint(1, n)):
                    q[rng.randrange(n)] = q[rng.randrange(n)]
            if rng.random() < 0.08:                   # all weights equal
                q = [Fraction(rng.choice([1, 2, 3]), den)] * n
            if not any(q):
                q[rng.randrange(n)] = Fraction(1, den)
            k = kp * (1 << e)
            p = [kp * v for v in q]
            spec = self._exact_spec(rng)
            c = {"kind": "sus", "p": canon.enc(p), "a": a, "size": self._size(rng, k), "rng": spec,
                 "regime": self._regime(spec)}
            r = rng.random()
            if r < 0.30 and all(v.denominator == 1 for v in p):
                c["pdtype"] = rng.choice(self.INT_DTYPES)          # counts as weights
            elif r < 0.38:
                c["pdtype"] = "float32"                            # small dyadics are float32 numbers
            elif r < 0.60:
                # the same vector at another magnitude (exact scaling by a power of two): ~1e-12, 1e-9, 1e-5, 1e-2, 1e3, 1e9
                sc = Fraction(2) ** rng.choice([-40, -30, -17, -7, 10, 30])
                c["p"] = canon.enc([v * sc for v in p])
            if rng.random() < 0.08:
                c["playout"] = rng.choice(["strided", "rev"])
            return self._call_forms(rng, c)
        k = rng.choice([1, 2, 3, 5, 7, 10, 12, 29, 36, 49, 64])
        if style < 0.72:
            p = [rng.random() * rng.choice([1, 1, 10]) for _ in range(n)]
        elif style < 0.80:   # everything tiny (~1e-8, ~1e-5) or everything huge
            sc = rng.choice([1e-8, 1e-5, 1e9])
            p = [rng.random() * sc for _ in range(n)]
        elif style < 0.90:   # widely different magnitudes, zeros
            p = [rng.choice([1e-6, 2.5e-6, 1.0, 3.0, 1e6, 3e6, 0.0]) * rng.randint(1, 3) for _ in range(n)]
        else:                # 1e-12 .. 1e12
            p = [rng.choice([1e-12, 1e-9, 1e-5, 1.0, 1e5, 1e9, 1e12, 0.0]) * rng.randint(1, 3) for _ in range(n)]
        if rng.random() < 0.2 and n > 1:
            p[rng.randrange(n)] = 0.0
        if sum(p) <= 0.0:
            p[rng.randrange(n)] = 1.0
        r = rng.random()
        if r < 0.06:
            spec = {"gen": rng.choice(["randomstate", "mt19937"]), "seed": rng.randrange(1 << 30),
                    "craft": rng.choice([[0, 0], [0, 64], [M32, M32], [M32, M32 - 64 * rng.randint(1, 9)]])}
        else:
            spec = self._rng_spec(rng)
        c = {"kind": "sus", "p": canon.enc(p), "a": a, "size": self._size(rng, k), "rng": spec, "regime": "float"}
        if rng.random() < 0.08:
            c["playout"] = rng.choice(["strided", "rev"])
        return self._call_forms(rng, c)

    def _gen_tiled(self, rng, tier="quick"):
        if rng.random() < 0.03:
            # sizes past internal constants (chunks of 1024 / 4096, 8-bit counters)
            n, ns = rng.choice([(3, 385), (2, 1025), (5, 1024), (130, 131), (130, 389), (200, 100), (129, 263)]
                               + ([(7, 4099), (3, 4097)] if tier == "thorough" else []))
            return self._call_forms(rng, {"kind": "tiled", "a": rng.sample(range(-20, 1000), n), "size": ns,
                                          "replace": False, "p": None, "rng": self._rng_spec(rng)})
        n = rng.choice([1, 2, 3, 3, 4, 5, 7, 9])
        a = rng.sample(range(-20, 100), n)
        base = rng.choice([0, 1, 2, 3]) * n
        ns = max(0, base + rng.choice([-1, 0, 0, 1, 2, n // 2, n - 1]))
        ns = min(ns, 64)
        replace = rng.random() < 0.12
        p = None
        if rng.random() < 0.35:
            w = [rng.choice([0, 1, 1, 2, 4]) for _ in range(n)]
            tot = sum(w)
            # dyadic probabilities that sum to exactly 1; without replacement numpy needs at least `re` non-zero ones
            if tot > 0 and tot & (tot - 1) == 0 and (replace or sum(1 for v in w if v) >= ns % n):
                p = [canon.enc(Fraction(v, tot)) for v in w]
        size = self._size(rng, ns) if ns > 0 else rng.choice([0, [0], [2, 0]])
        return self._call_forms(rng, {"kind": "tiled", "a": a, "size": size, "replace": replace, "p": p,
                                      "rng": self._rng_spec(rng)})

    @staticmethod
    def _gen_addon(rng):
        """opt/algo/pymoo_addon.py:tiled_choice(a, size), the second copy of the tiling mechanism"""
        n = rng.choice([1, 2, 3, 3, 4, 5, 7, 9]) if rng.random() < 0.95 else rng.choice([128, 130])
        ns = max(0, rng.choice([0, 1, 2, 3]) * n + rng.choice([-1, 0, 0, 1, 2, n // 2, n - 1]))
        return {"kind": "tiled_addon", "noption": n, "nsample": ns, "seed": rng.randrange(1 << 30)}

    def _gen_axis(self, rng):
        nd = rng.choice([1, 2, 2, 3, 3, 4])
        shape = [rng.choice([1, 2, 2, 3, 3, 4, 5]) for _ in range(nd)]
        while _prod(shape) > 96:
            shape[rng.randrange(nd)] = 2
        r = rng.random()
        if r < 0.35:
            axis = rng.randrange(nd)
        else:
            axis = sorted(rng.sample(range(nd), rng.randint(0, nd if rng.random() < 0.1 else max(0, nd - 1))))
            if rng.random() < 0.45:
                rng.shuffle(axis)
            if nd >= 3 and rng.random() < 0.25:       # a descending pair of iterated axes
                hi = rng.randrange(1, nd)
                axis = [hi, rng.randrange(0, hi)]
            if rng.random() < 0.1:
                axis = axis + [nd + rng.randint(0, 2)]      # out-of-range entries are ignored by sliceaxisix
        c = {"kind": "axis", "shape": shape, "axis": axis, "rng": self._rng_spec(rng)}
        if rng.random() < 0.2:
            c["layout"] = rng.choice(["F", "strided", "neg", "colslice"])
        if rng.random() < 0.06:
            c["dtype"] = rng.choice(["float64", "int32", "int16"])
        if rng.random() < 0.06:
            c["axisform"] = "npint"
        if rng.random() < 0.03:
            c["rng_none"] = True
        return c

    @staticmethod
    def _negate_axes(rng, case):
        """the same request with some axes counted from the end (numpy convention)"""
        nd = len(case["shape"])
        ax = case["axis"]
        neg = lambda a: a - nd if (0 <= a < nd and rng.random() < 0.7) else a
        c = dict(case)
        c["axis"] = [neg(a) for a in ax] if isinstance(ax, list) else neg(ax)
        return c

    def _gen_outcross_selfed(self, rng):
        """few parents tiled over many selfed crosses (a selection of 2-4 parents, each cross a self or nearly so): the
        descent needs several accepted exchanges, the same individual sits at many positions of different crosses at
        the start, and what a position holds changes on the way (so anything computed once from the initial content -
        a pruned candidate list, a cached score - is stale later)"""
        nrow, ncol = rng.choice([(4, 2), (4, 2), (5, 2), (6, 2), (6, 2), (8, 2), (4, 3), (5, 3), (6, 3), (6, 3), (8, 3)])
        ids = rng.choice([3, 3, 4, 4, 2, 5])
        pr = rng.choice([1.0, 1.0, 0.85, 0.7])
        x = []
        for _ in range(nrow):
            v = rng.randrange(ids)
            x.extend([v] * ncol if rng.random() < pr else [rng.randrange(ids) for _ in range(ncol)])
        if rng.random() < 0.3:                     # the balanced variant: every parent in the same number of crosses
            x = []
            for r in range(nrow):
                x.extend([r % ids] * ncol)
        if rng.random() < 0.05:
            off = rng.choice([127, 255, 65535])
            x = [v + off for v in x]
        layout = rng.choice(["C"] * 8 + ["F", "colslice", "strided", "neg"])
        return {"kind": "outcross", "nrow": nrow, "ncol": ncol, "x": x, "layout": layout, "rng": self._rng_spec(rng)}

    def _gen_outcross(self, rng):
        if rng.random() < 0.3:
            return self._gen_outcross_selfed(rng)
        nrow = rng.choice([1, 2, 2, 3, 3, 4, 5, 6])
        ncol = rng.choice([1, 2, 2, 2, 3, 4])
        while nrow * ncol > (24 if rng.random() < 0.1 else 16):
            nrow -= 1
        ids = rng.choice([2, 3, 4, 6, 9])
        if nrow != ncol and rng.random() < 0.5:
            ids = rng.choice([2, 3])                  # many repeats on a non-square table
        x = [rng.randrange(ids) for _ in range(nrow * ncol)]
        if rng.random() < 0.5 and ncol > 1:       # forced selfs
            for r in range(nrow):
                if rng.random() < 0.5:
                    x[r * ncol + 1] = x[r * ncol]
        if rng.random() < 0.2:                      # balanced tiles, as produced by tiled_choice
            x = [(i % ids) for i in range(nrow * ncol)]
            rng.shuffle(x)
        if rng.random() < 0.05:                     # ids far apart / beyond 8 and 16 bits
            off = rng.choice([127, 255, 32767, 65535, 1 << 31])
            x = [v + off for v in x]
        layout = rng.choice(["C"] * 7 + ["F", "colslice", "strided", "neg"])
        c = {"kind": "outcross", "nrow": nrow, "ncol": ncol, "x": x, "layout": layout, "rng": self._rng_spec(rng)}
        if rng.random() < 0.06:
            c["dtype"] = rng.choice(["float64", "int32", "int16"]) if max(x) < 32767 else "float64"
        if rng.random() < 0.03:
            c["rng_none"] = True
        return c

    def exhaustive(self, tier):
        """thorough tier: every weight vector with <= 3 entries in {0..3} (positive sum) x 1..6 draws x
        offsets {0 (crafted MT19937 state), 1/4, 1/2, 3/4 of the spacing}; every 2x2 / 3x2 / 2x3 cross table
        over 3 ids; every option count 1..5 x sample size 0..11"""
        if tier != "thorough":
            return None
        import itertools
        out = []
        for n in (1, 2, 3):
            for w in itertools.product(range(4), repeat=n):
                if sum(w) == 0:
                    continue
                for k in range(1, 7):
                    dyadic = (Fraction(sum(w), k).denominator & (Fraction(sum(w), k).denominator - 1)) == 0
                    for u in ("0", "1/4", "1/2", "3/4"):
                        spec = {"gen": "randomstate", "seed": 11, "craft": [0, 0]} if u == "0" else \
                            {"gen": "scripted", "seed": 11, "u": u}
                        out.append({"kind": "sus", "p": list(w), "a": list(range(20, 20 + n)), "size": k,
                                    "rng": spec, "regime": "exact" if dyadic else "float"})
        for nrow, ncol in ((2, 2), (3, 2), (2, 3)):
            for x in itertools.product(range(3), repeat=nrow * ncol):
                out.append({"kind": "outcross", "nrow": nrow, "ncol": ncol, "x": list(x),
                            "rng": {"gen": "pcg64", "seed": 100 + sum(x)}})
        for no in range(1, 6):
            for ns in range(0, 12):
                out.append({"kind": "tiled", "a": list(range(30, 30 + no)), "size": ns, "replace": False, "p": None,
                            "rng": {"gen": "pcg64", "seed": 7 * no + ns}})
        return out

    def _gen_seq(self, rng, tier):
        """two or three consecutive calls of the same function with arguments of the same shape but different content
        (what a memo keyed by shape / size / id would confuse)"""
        kind = rng.choice(["sus", "sus", "tiled", "outcross", "axis"])
        steps = []
        if kind == "sus":
            first = self._gen_sus(rng, "quick")
            while first.get("big") or len(first["p"]) > 9 or _prod(_size_list(first["size"])) > 64:
                first = self._gen_sus(rng, "quick")
            steps.append(first)
            for _ in range(rng.choice([1, 2])):
                c = json.loads(json.dumps(first))
                vals = [Fraction(v) for v in first["p"]]
                rng.shuffle(vals)                       # the same multiset of weights on other elements
                if rng.random() < 0.5 and len(vals) > 1 and ("pdtype" not in first or max(vals) * 2 <= 127):
                    i, j = rng.sample(range(len(vals)), 2)
                    vals[i], vals[j] = vals[i] + vals[j], Fraction(0)     # same total, another split
                c["p"] = canon.enc(vals)
                c["rng"] = dict(first["rng"], seed=rng.randrange(1 << 30))
                steps.append(c)
        elif kind == "tiled":
            first = self._gen_tiled(rng, "quick")
            steps.append(first)
            c = json.loads(json.dumps(first))
            c["a"] = [v + 1000 for v in first["a"]]
            c["rng"] = self._rng_spec(rng)
            steps.append(c)
        elif kind == "outcross":
            first = self._gen_outcross(rng)
            steps.append(first)
            c = json.loads(json.dumps(first))
            x = list(first["x"])
            rng.shuffle(x)
            c["x"] = x
            c["rng"] = self._rng_spec(rng)
            steps.append(c)
        else:
            first = self._gen_axis(rng)
            steps.append(first)
            c = json.loads(json.dumps(first))
            nd = len(first["shape"])
            c["axis"] = rng.randrange(nd)
            c["rng"] = self._rng_spec(rng)
            steps.append(c)
        return {"kind": "seq", "steps": steps}

    def generate(self, rng, n, tier):
        out = []
        for _ in range(n):
            r = rng.random()
            if r < 0.04:
                out.append(self._gen_seq(rng, tier))
            elif r < 0.43:
                c = self._gen_sus(rng, tier)
                if rng.random() < 0.02 and not c.get("big"):
                    c["size"] = rng.choice([0, [0], [2, 0], [0, 3]])     # an empty request
                out.append(c)
            elif r < 0.62:
                out.append(self._gen_tiled(rng, tier))
            elif r < 0.65:
                out.append(self._gen_addon(rng))
            elif r < 0.80:
                c = self._gen_axis(rng)
                if rng.random() < 0.12:
                    c = self._negate_axes(rng, c)
                out.append(c)
            elif r < 0.84:
                c = self._gen_axis(rng)
                if rng.random() < 0.15:
                    c["shape"][rng.randrange(len(c["shape"]))] = 0
                out.append({"kind": "slices", "shape": c["shape"], "axis": c["axis"]})
            else:
                out.append(self._gen_outcross(rng))
        return out

    # ------------------------------------------------------------------ implementation
    def run_impl(self, case):
        S, A = _mods()
        k = case["kind"]
        if k == "seq":
            # a history: the calls are made one after the other in this process (module-level state, if a changed
            # tree keeps any, is carried from one call to the next); every call is judged on its own
            return {"steps": [self.run_impl(c) for c in case["steps"]]}
        if k == "slices":
            tup = list(A.sliceaxisix(tuple(case["shape"]), tuple(_axes(case))))
            return {"tuples": [[None if isinstance(v, slice) else int(v) for v in t] for t in tup],
                    "all_full_slices": all(v == slice(None) for t in tup for v in t if isinstance(v, slice))}
        rng = make_rng(case["rng"]) if "rng" in case else None
        if k == "sus":
            p = _parr(case)
            a = _aarr(case)
            p0, a0 = p.copy(), a.copy()
            with self._global_rng(S, case, rng) as r:
                out = S.stochastic_universal_sampling(a, p, _size_call(case), r)
            out = numpy.asarray(out)
            untouched = bool((p0 == p).all() and (a0 == a).all() and self._pads_ok(p, 0) and self._pads_ok(a, -99))
            if _prod(_size_list(case["size"])) == 0:      # empty request answered (only after D7d is repaired)
                return {"out": [int(v) for v in out.ravel()], "shape": [int(v) for v in out.shape], "offset": 0,
                        "sigma": [int(v) for v in p.argsort()[::-1]], "perm": [],
                        "inputs_untouched": untouched}
            orc = _sus_oracle(case)
            if case.get("big"):     # long vectors: Spec only (the sort order and the shuffle are not handed to the model)
                return {"out": [int(v) for v in out.ravel()], "shape": [int(v) for v in out.shape],
                        "offset": canon.enc(orc["offset"]), "inputs_untouched": untouched,
                        "ptr_beyond_cumsum": orc["ptr_beyond_cumsum"]}
            return {"out": _outvals(case, out), "shape": [int(v) for v in out.shape],
                    "offset": canon.enc(orc["offset"]), "sigma": orc["sigma"], "perm": orc["perm"],
                    "inputs_untouched": untouched}
        if k == "tiled":
            a = _aarr(case)
            a0 = a.copy()
            p = None if case.get("p") is None else _farr(case["p"])
            p0 = None if p is None else p.copy()
            if len(a) == 0:
                try:
                    S.tiled_choice(a, _size_call(case), case["replace"], p, rng)
                    return {"raised": None}
                except Exception as e:
                    return {"raised": canon.exc_tag(e)}
            with self._global_rng(S, case, rng) as r:
                out = numpy.asarray(S.tiled_choice(a, _size_call(case), case["replace"], p, r))
            orc = _tiled_oracle(case)
            untouched = bool((a0 == a).all() and self._pads_ok(a, -99) and (p is None or (p0 == p).all()))
            return {"out": _outvals(case, out), "shape": [int(v) for v in out.shape],
                    "draw": orc["draw"], "perm": orc["perm"], "inputs_untouched": untouched}
        if k == "tiled_addon":
            import pybrops.opt.algo.pymoo_addon as addon
            st = numpy.random.get_state()
            try:
                numpy.random.seed(int(case["seed"]))
                out = numpy.asarray(addon.tiled_choice(int(case["noption"]), int(case["nsample"])))
            finally:
                numpy.random.set_state(st)
            return {"out": [int(v) for v in out.ravel()], "shape": [int(v) for v in out.shape],
                    "tiles": _addon_oracle(case)}
        if k == "axis":
            shape = case["shape"]
            data = self._axis_data(case)
            arr, pads_ok = _nd_layout(numpy.array(data, dtype=numpy.dtype(case.get("dtype", "int64"))).reshape(shape),
                                      case.get("layout", "C"))
            ax = case["axis"]
            if case.get("axisform") == "npint":
                ax = tuple(numpy.int64(v) for v in ax) if isinstance(ax, list) else numpy.int64(ax)
            else:
                ax = tuple(ax) if isinstance(ax, list) else int(ax)
            axes = set(a for a in _norm_axes(case) if 0 <= a < len(shape))
            if len(axes) == len(shape) and _prod(shape) > 0:
                # every axis iterated: a[s] is a 0-d item, rng.shuffle must reject it
                try:
                    S.axis_shuffle(arr, ax, rng)
                    return {"raised": None, "after": [int(v) for v in arr.ravel()]}
                except TypeError as e:
                    return {"raised": canon.exc_tag(e), "after": [int(v) for v in arr.ravel()]}
            with self._global_rng(S, case, rng) as r:
                S.axis_shuffle(arr, ax, r)
            return {"after": [int(v) for v in arr.ravel()], "shape": [int(v) for v in arr.shape],
                    "perms": _axis_oracle(case)["perms"], "pads_untouched": pads_ok()}
        if k == "outcross":
            arr, pads_ok = _nd_layout(numpy.array(case["x"], dtype=numpy.dtype(case.get("dtype", "int64")))
                                      .reshape(case["nrow"], case["ncol"]), case.get("layout", "C"))
            cc = bool(arr.flags["C_CONTIGUOUS"])
            mem, addr = _memory(arr)
            buf0 = [int(v) for v in mem]
            with self._global_rng(S, case, rng) as r:
                S.outcross_shuffle(arr, r)
            return {"after": [int(v) for v in arr.ravel()], "shape": [int(v) for v in arr.shape],
                    "c_contiguous": cc, "orders": _outcross_oracle(case)["orders"], "pads_untouched": pads_ok(),
                    "buf_before": buf0, "addr": addr, "buf_after": [int(v) for v in mem]}
        raise ValueError(k)

    @staticmethod
    @contextlib.contextmanager
    def _global_rng(S, case, rng):
        """`rng=None` form of a call: the functions then fall back on the module-level generator
        `pybrops.core.random.prng.global_prng` (bound in the sampling module at import time); for such a case that
        name is bound to the case's generator for the duration of the call and `None` is passed"""
        if not case.get("rng_none"):
            yield rng
            return
        old = S.global_prng
        S.global_prng = rng
        try:
            yield None
        finally:
            S.global_prng = old

    @staticmethod
    def _pads_ok(view, fill):
        """for a strided view: the entries of the underlying buffer that do not belong to the view still hold
        the padding value (the call wrote nowhere but into the view)"""
        base = view.base
        if base is None or base.shape == view.shape:
            return True
        return bool(all(v == fill for v in base[0::2]))

    @staticmethod
    def _axis_data(case):
        n = _prod(case["shape"])
        return [100 + 7 * i for i in range(n)]      # distinct values: a moved entry is always visible

    # ------------------------------------------------------------------ model requests
    def requests(self, case, obs):
        k = case["kind"]
        if k == "seq":
            out = []
            for c, o in zip(case["steps"], obs["steps"]):
                out.extend(self.requests(c, o))
            return out
        if k == "sus" and case.get("big"):
            return []
        if k == "sus":
            size = _size_list(case["size"])
            return [{"op": "c17.sus", "p": case["p"], "a": case["a"], "size": size, "sigma": obs["sigma"],
                     "offset": obs["offset"], "perm": obs["perm"]},
                    {"op": "c17.spec_sus", "p": case["p"], "a": case["a"], "k": _prod(size), "out": obs["out"]}]
        if k == "tiled":
            size = _size_list(case["size"])
            if "raised" in obs:
                return [{"op": "c17.tiled", "a": case["a"], "size": size, "replace": case["replace"],
                         "draw": [], "perm": []}]
            return [{"op": "c17.tiled", "a": case["a"], "size": size, "replace": case["replace"],
                     "draw": obs["draw"], "perm": obs["perm"]},
                    {"op": "c17.spec_tiled", "a": case["a"], "out": obs["out"], "nsample": _prod(size)}]
        if k == "tiled_addon":
            return [{"op": "c17.tiled_addon", "noption": case["noption"], "nsample": case["nsample"],
                     "tiles": obs["tiles"]},
                    {"op": "c17.spec_tiled", "a": list(range(case["noption"])), "out": obs["out"],
                     "nsample": case["nsample"]}]
        if k == "axis":
            data = self._axis_data(case)
            axes = _axes(case)
            if "raised" in obs:
                return [{"op": "c17.axis", "shape": case["shape"], "axis": axes, "data": data, "perms": []}]
            return [{"op": "c17.axis", "shape": case["shape"], "axis": axes, "data": data, "perms": obs["perms"]},
                    {"op": "c17.spec_axis", "shape": case["shape"], "axis": axes, "before": data,
                     "after": obs["after"]}]
        if k == "slices":
            return [{"op": "c17.sliceaxisix", "shape": case["shape"], "axis": _axes(case)},
                    {"op": "c17.spec_slices", "shape": case["shape"], "axis": _axes(case), "tuples": obs["tuples"]}]
        if k == "outcross":
            return [{"op": "c17.outcross", "nrow": case["nrow"], "ncol": case["ncol"], "x": case["x"],
                     "orders": obs["orders"]},
                    {"op": "c17.spec_outcross", "nrow": case["nrow"], "ncol": case["ncol"], "before": case["x"],
                     "after": obs["after"]},
                    # the literal in-place loop on the memory of the table (any layout)
                    {"op": "c17.outcross_buf", "nrow": case["nrow"], "ncol": case["ncol"], "buf": obs["buf_before"],
                     "addr": obs["addr"], "orders": obs["orders"]}]
        raise ValueError(k)

    # ------------------------------------------------------------------ judge
    @staticmethod
    def _exact_p(case):
        """the weights as exact rationals (a compactly described long vector is expanded)"""
        if case.get("big"):
            return [Fraction(float(x)) for x in _big_p(case)]
        return [Fraction(v) for v in case["p"]]

    @staticmethod
    def _sigma(case, obs):
        return obs["sigma"] if "sigma" in obs else [int(v) for v in _parr(case).argsort()[::-1]]

    @staticmethod
    def _unit_roundoff(case):
        """unit roundoff of the least precise arithmetic of the call: the total and the cumulative weights are
        computed in the dtype of the weights (float32 stays float32; integers are summed exactly), everything else in
        binary64"""
        return Fraction(1, 1 << 24) if case.get("pdtype") == "float32" else Fraction(1, 1 << 53)

    @staticmethod
    def _near_tie(case, obs):
        """binary64 regime only: is some pointer within rounding distance of a boundary of the cumulative
        weights (or the offset within rounding distance of 0 / of the spacing)?  Then the exact model and
        the binary64 computation may legitimately resolve the tie differently."""
        p = [Fraction(v) for v in case["p"]]
        k = _prod(_size_list(case["size"]))
        tot = sum(p)
        d = tot / k
        o = Fraction(obs["offset"])
        eps = tot / (1 << 40)
        if case.get("pdtype") == "float32":     # single-precision total / cumulative weights: n roundings of 2^-24 each
            eps = tot * (len(p) + 2) / (1 << 23)
        if o <= eps or d - o <= eps:
            return True
        cs, s = [], Fraction(0)
        for i in obs["sigma"]:
            s += p[i]
            cs.append(s)
        for j in range(k):
            t = o + j * d
            if any(abs(t - c) <= eps for c in cs):
                return True
        return False

    @staticmethod
    def _oracle_fault(m, case):
        """the model rejected the replayed draws (the implementation did not consume the generator the way the
        replay assumes): reported as a model/implementation disagreement, never as a Spec verdict"""
        return {"corr": False, "spec": True, "nontrivial": False,
                "detail": f"replayed draws rejected by the model: {m['error']}"}

    @staticmethod
    def _rounded_margin(case, obs):
        """does Props/C17 `sus_floor_ceil_binary64_partial` apply to this call?  With u = 2^-53 (binary64, standard model) and
        gamma = (1+u)^(n-1) - 1 (a bound for the relative error of p.sum() in any summation order) the theorem's
        eps = max((1+u)^n - 1, (1+u)^3 (1+gamma) - 1) * sum(p); it needs every exact pointer more than 2*eps away
        from every exact cumulative boundary before the last element of positive weight, and the exact offset in
        [0, exact spacing).  Everything is recomputed from the case in exact arithmetic."""
        p = C17._exact_p(case)
        k = _prod(_size_list(case["size"]))
        if k == 0:
            return ""
        import bisect
        tot = sum(p)
        d = tot / k
        o = Fraction(obs["offset"])
        n = len(p)
        u = C17._unit_roundoff(case)
        if n <= 400:
            gamma = (1 + u) ** (n - 1) - 1
            eps = max((1 + u) ** n - 1, (1 + u) ** 3 * (1 + gamma) - 1) * tot
        else:
            # long vectors: an upper bound of the same quantity, (1+u)^m - 1 <= m*u / (1 - m*u); a larger eps only makes
            # the statement "the theorem applies" rarer
            m = n + 2
            eps = (m * u / (1 - m * u)) * tot
        last = sum(1 for v in p if v != 0) - 1
        cs, acc = [], Fraction(0)
        for i in C17._sigma(case, obs)[:max(last, 0)]:
            acc += p[i]
            cs.append(acc)
        if not (0 <= o < d):
            return "[fl theorem: n/a, offset not below the exact spacing]"
        for j in range(k):                  # cs ascends: the nearest boundaries of a pointer are its two neighbours
            t = o + j * d
            q = bisect.bisect_left(cs, t)
            for c in cs[max(q - 1, 0):q + 1]:
                if abs(t - c) <= 2 * eps:
                    return "[fl theorem: n/a, a pointer is within 2*eps of an interior boundary (tie)]"
        return "[fl theorem applies]"

    @staticmethod
    def _binary64_inexact(case, obs):
        """does any binary64 value the loop compares (cumulative weights before the last positive one, pointers)
        differ from its exact value?  Recomputed the way the code computes them, from the case alone."""
        p = _parr(case)
        k = _prod(_size_list(case["size"]))
        P = C17._exact_p(case)
        T = sum(P)
        D = T / k
        off = float(Fraction(obs["offset"]))
        tot = p.sum()
        d = tot / numpy.int64(k)
        sigma = C17._sigma(case, obs)
        cs = p[numpy.array(sigma)].cumsum()
        ptrs = off + d * numpy.arange(k)
        acc, CS = Fraction(0), []
        for i in sigma:
            acc += P[i]
            CS.append(acc)
        last = sum(1 for v in P if v != 0) - 1
        if any(Fraction(float(cs[r])) != CS[r] for r in range(max(last, 0))):
            return True
        return any(Fraction(float(ptrs[j])) != Fraction(off) + j * D for j in range(k))

    def judge(self, case, obs, answers):
        k = case["kind"]
        if k == "seq":
            pos, vs = 0, []
            for c, o in zip(case["steps"], obs["steps"]):
                n = len(self.requests(c, o))
                vs.append(self.judge(c, o, answers[pos:pos + n]))
                pos += n
            bad = [i for i, v in enumerate(vs) if not (v["corr"] and v["spec"])]
            return {"corr": all(v["corr"] for v in vs), "spec": all(v["spec"] for v in vs),
                    "nontrivial": any(v["nontrivial"] for v in vs), "step_verdicts": vs,
                    "detail": f"history of {len(vs)} calls, failing steps {bad}: " + " || ".join(
                        vs[i]["detail"][:400] for i in (bad or [0]))}
        for a in answers:
            if "err" in a:
                raise RuntimeError("driver error: " + a["err"])
        ans = [a["ok"] for a in answers]
        if k == "sus" and case.get("big"):
            size = _size_list(case["size"])
            shape_ok = obs["shape"] == size
            s = _big_spec(case, obs["out"], obs["shape"])
            return {"corr": bool(obs["inputs_untouched"]), "spec": bool(s["ok"]) and shape_ok, "nontrivial": True,
                    "parts": s, "shape_ok": shape_ok,
                    "detail": f"sus (long vector, n={case['n']}, Spec only) shape_ok={shape_ok} "
                              f"spec={ {x: s[x] for x in s if x != 'ok'} } offset={obs['offset']} "
                              f"pointer_beyond_cumsum={obs.get('ptr_beyond_cumsum')}"}
        if k == "sus":
            m, s = ans
            size = _size_list(case["size"])
            py = _small_spec(case, obs["out"])
            if any(py[x] != s[x] for x in py):
                raise RuntimeError(f"c17.spec_sus disagrees with the exact-arithmetic evaluation: {py} vs {s}")
            shape_ok = obs["shape"] == size
            corr = m.get("out") == obs["out"] and obs["inputs_untouched"]
            note = ""
            if not corr and _prod(size) > 0 and case.get("regime") == "float" and self._near_tie(case, obs):
                corr, note = True, " [tie within binary64 rounding: model/implementation comparison waived]"
            elif "error" in m and str(m["error"]).startswith("oracle:"):
                return self._oracle_fault(m, case)
            spec = bool(s["ok"]) and shape_ok
            note += " " + self._rounded_margin(case, obs)
            p = [Fraction(v) for v in case["p"]]
            nontriv = sum(1 for v in p if v > 0) >= 2 and _prod(size) >= 2
            return {"corr": corr, "spec": spec, "nontrivial": nontriv, "parts": s, "shape_ok": shape_ok,
                    "detail": f"sus shape_ok={shape_ok} spec={ {x: s[x] for x in s if x != 'ok'} } "
                              f"model={m.get('out', m.get('error'))} impl={obs['out']} offset={obs['offset']}{note}"}
        if k == "tiled":
            size = _size_list(case["size"])
            if "raised" in obs:
                m = ans[0]
                ok = obs["raised"] is not None and m.get("error") == obs["raised"]
                return {"corr": ok, "spec": True, "nontrivial": False,
                        "detail": f"tiled rejected input: impl={obs['raised']} model={m}"}
            m, s = ans
            if "error" in m and str(m["error"]).startswith("oracle:"):
                return self._oracle_fault(m, case)
            corr = m.get("out") == obs["out"] and obs["inputs_untouched"]
            shape_ok = obs["shape"] == size
            if case["replace"]:
                spec = shape_ok and len(obs["out"]) == _prod(size) and all(v in case["a"] for v in obs["out"])
            else:
                spec = bool(s["ok"]) and shape_ok
            ns, no = _prod(size), len(case["a"])
            nontriv = (not case["replace"]) and no >= 2 and ns >= 1 and (ns % no != 0 or ns >= no)
            return {"corr": corr, "spec": spec, "nontrivial": nontriv,
                    "detail": f"tiled shape_ok={shape_ok} {s['detail']} model={m.get('out', m.get('error'))} impl={obs['out']}"}
        if k == "tiled_addon":
            m, s = ans
            if "error" in m and str(m["error"]).startswith("oracle:"):
                return self._oracle_fault(m, case)
            corr = m.get("out") == obs["out"]
            spec = bool(s["ok"]) and obs["shape"] == [case["nsample"]]
            return {"corr": corr, "spec": spec,
                    "nontrivial": case["noption"] >= 2 and case["nsample"] >= 1,
                    "detail": f"pymoo_addon.tiled_choice {s['detail']} model={m.get('out', m.get('error'))} impl={obs['out']}"}
        if k == "axis":
            if "raised" in obs:
                m = ans[0]
                ok = obs["raised"] == "type" and m.get("error") == "type" and obs["after"] == self._axis_data(case)
                return {"corr": ok, "spec": True, "nontrivial": False,
                        "detail": f"axis: every axis iterated, impl raised={obs['raised']} model={m}"}
            m, s = ans
            if "error" in m and str(m["error"]).startswith("oracle:"):
                return self._oracle_fault(m, case)
            corr = m.get("out") == obs["after"] and obs.get("pads_untouched", True)
            spec = bool(s["ok"]) and obs["shape"] == case["shape"]
            nontriv = len(obs["perms"]) >= 2 and len(obs["perms"][0]) >= 2
            return {"corr": corr, "spec": spec, "nontrivial": nontriv,
                    "detail": f"axis {s['detail']} model={m.get('out', m.get('error'))} impl={obs['after']}"}
        if k == "slices":
            m, sp = ans
            shape, axes = case["shape"], set(_axes(case))
            corr = m["tuples"] == obs["tuples"]
            # Spec = Lean oracle `specSlices` on the implementation's tuples (Props/C17 slices_spec_iff), cross-checked
            # against an independent enumeration: one tuple per combination of in-range coordinates at the iterated
            # axes, lexicographic order, slice(None) exactly at the other axes
            import itertools
            it = [d for d in range(len(shape)) if d in axes]
            want = []
            for combo in itertools.product(*[range(shape[d]) for d in it]):
                t = [None] * len(shape)
                for d, v in zip(it, combo):
                    t[d] = v
                want.append(t)
            spec = bool(sp["ok"]) and obs["all_full_slices"]
            if spec != (obs["tuples"] == want and obs["all_full_slices"]):
                raise RuntimeError("c17.spec_slices disagrees with the independent enumeration")
            return {"corr": corr, "spec": spec, "nontrivial": len(want) >= 2 and len(it) < len(shape),
                    "detail": f"sliceaxisix model={m['tuples'][:6]} impl={obs['tuples'][:6]}"}
        if k == "outcross":
            m, s, mb = ans
            if "error" in m and str(m["error"]).startswith("oracle: every"):
                return self._oracle_fault(m, case)
            corr = (m.get("out") == obs["after"] and obs.get("pads_untouched", True)
                    and mb.get("out") == obs["buf_after"])
            spec = bool(s["ok"]) and obs["shape"] == [case["nrow"], case["ncol"]]
            nontriv = _score(case["x"], case["nrow"], case["ncol"]) > 0
            return {"corr": corr, "spec": spec, "nontrivial": nontriv,
                    "detail": f"outcross {s['detail']} model={m.get('out', m.get('error'))} impl={obs['after']}"}
        raise ValueError(k)

    # ------------------------------------------------------------------ signature of a failing case
    def signature(self, case, obs, verdict):
        """attributes the matcher of finding D7g refers to (all recomputed from the case), and a description of
        any other failure for the replay file"""
        kind = case["kind"]
        sig = {"kind": kind}
        if kind == "seq":
            # a failing history is described by its first failing call (so that a known finding met inside a history
            # is recognised); an exception aborts the whole history and is described as such
            vs = verdict.get("step_verdicts") if isinstance(verdict, dict) else None
            if vs and isinstance(obs, dict) and "steps" in obs:
                for c, o, v in zip(case["steps"], obs["steps"], vs):
                    if not v["spec"]:
                        return self.signature(c, o, v)
            return sig
        if isinstance(obs, dict) and "__exception__" in obs:
            sig["fail"] = "exception"
            sig["exception_class"] = obs.get("text", "").split(":")[0]
        if kind == "sus":
            sig["size_zero"] = _prod(_size_list(case["size"])) == 0
            parts = verdict.get("parts") if isinstance(verdict, dict) else None
            if parts and not sig["size_zero"] and "fail" not in sig:
                only_counts = bool(parts.get("length_ok") and parts.get("members_ok") and verdict.get("shape_ok")
                                   and not parts.get("zero_weight_selected"))
                sig["fail"] = "count_outside_floor_ceil" if only_counts else "length_shape_member_or_zero_weight"
                if only_counts:
                    # D7g: the binary64 computation of the call is inexact AND some exact pointer lies within the
                    # accumulated rounding error of an exact cumulative boundary (or the offset of 0 / the spacing):
                    # the complement of the hypotheses of Props/C17 `sus_floor_ceil_rounded_partial`
                    sig["binary64_inexact"] = self._binary64_inexact(case, obs)
                    sig["within_rounding_of_tie"] = "n/a" in self._rounded_margin(case, obs)
        elif kind == "outcross":
            sig["layout"] = case.get("layout", "C")
        elif kind == "axis":
            sig["negative_axis"] = any(a < 0 for a in _axes(case))
        return sig

    # ------------------------------------------------------------------ shrinking
    def shrink(self, case):
        k = case["kind"]
        if k == "seq":
            for i in range(len(case["steps"])):
                if len(case["steps"]) > 1:
                    yield {"kind": "seq", "steps": case["steps"][:i] + case["steps"][i + 1:]}
            return
        if k == "sus" and case.get("big"):
            if case["n"] > 2000:
                yield dict(case, n=case["n"] // 2, size=max(1, _prod(_size_list(case["size"])) // 2))
            return
        if k == "sus":
            def keeps_regime(c):
                # an "exact" case stays one in which every binary64 operation of the call is exact (dyadic spacing);
                # otherwise a shrunk case could be an instance of the binary64 finding D7g instead of the failure found
                if c.get("regime") != "exact":
                    return True
                kk_ = _prod(_size_list(c["size"]))
                if kk_ == 0:
                    return True
                den = (sum(Fraction(v) for v in c["p"]) / kk_).denominator
                return den & (den - 1) == 0
            n = len(case["p"])
            for i in range(n):
                if n > 1:
                    c = dict(case)
                    c["p"] = case["p"][:i] + case["p"][i + 1:]
                    c["a"] = case["a"][:i] + case["a"][i + 1:]
                    if any(Fraction(v) > 0 for v in c["p"]) and keeps_regime(c):
                        yield c
            kk = _prod(_size_list(case["size"]))
            for k2 in (kk // 2, kk - 1):
                if 1 <= k2 < kk:
                    c = dict(case)
                    c["size"] = k2
                    if keeps_regime(c):
                        yield c
            if isinstance(case["size"], list):
                c = dict(case)
                c["size"] = kk
                yield c
        elif k == "tiled":
            n = len(case["a"])
            if n > 1 and case.get("p") is None:
                c = dict(case)
                c["a"] = case["a"][:-1]
                yield c
            ns = _prod(_size_list(case["size"]))
            # numpy's choice(replace=False, p) needs at least `re` options of non-zero probability: keep the case valid
            nz = n if case.get("p") is None else sum(1 for v in case["p"] if Fraction(v) > 0)
            for n2 in (ns // 2, ns - 1):
                if 0 <= n2 < ns and (case["replace"] or n2 % n <= nz):
                    c = dict(case)
                    c["size"] = n2
                    yield c
        elif k == "axis":
            sh = case["shape"]
            for i, v in enumerate(sh):
                if v > 1:
                    c = dict(case)
                    c["shape"] = sh[:i] + [v - 1] + sh[i + 1:]
                    yield c
        elif k == "outcross":
            nrow, ncol, x = case["nrow"], case["ncol"], case["x"]
            for r in range(nrow):
                if nrow > 1:
                    c = dict(case)
                    c["nrow"] = nrow - 1
                    c["x"] = x[:r * ncol] + x[(r + 1) * ncol:]
                    yield c
            for j in range(ncol):
                if ncol > 1:
                    c = dict(case)
                    c["ncol"] = ncol - 1
                    c["x"] = [v for i, v in enumerate(x) if i % ncol != j]
                    yield c

    # ------------------------------------------------------------------ self-test mutants
    def mutants(self):
        S, A = _mods()

        @contextlib.contextmanager
        def patch(mod, name, new):
            old = getattr(mod, name)
            setattr(mod, name, new)
            try:
                yield
            finally:
                setattr(mod, name, old)

        def sus_variant(fixed_offset=False, rule=None, ascending=False, noshuffle=False, ptr_skip=False,
                        linspace=False, empty_ok=True, neg_stable=False, zero_isclose=False, tolerant=False,
                        wrap1024=False, cumsum_dtype=False, int8_counts=False, last_orig=False):
            """the function as it is (after fix fc545079) with one thing changed"""
            def f(a, p, size=None, rng=None):
                if rng is None:
                    rng = S.global_prng
                if isinstance(size, (int, numpy.integer)):
                    size = (size,)
                k = numpy.prod(size)
                if k == 0 and empty_ok:
                    return a[numpy.zeros(size, dtype=int)]
                tot = p.sum()
                d = tot / k
                ind = p.argsort() if ascending else p.argsort()[::-1]
                if neg_stable:          # seeded change C17-c1: negation wraps around for unsigned weights
                    ind = numpy.argsort(-p, kind="stable")
                cs = p[ind].cumsum()
                if cumsum_dtype:        # cumulative weights kept in the dtype of the weights (8-bit counts overflow)
                    cs = p[ind].cumsum(dtype=p.dtype)
                off = rng.uniform(0.0, d)
                if fixed_offset:
                    off = d / 2
                sel = []
                ix = 0
                ptrs = off + d * numpy.arange(k)
                if wrap1024:            # pointers generated in chunks of 1024, each chunk restarting at the offset
                    ptrs = off + d * (numpy.arange(k) % 1024)
                    ptrs.sort()
                if linspace:        # pointers compressed towards the end: spacing (tot-off)/k instead of tot/k
                    ptrs = numpy.linspace(off, tot, int(k), endpoint=False)
                last = (len(p) - 1) if ascending else (numpy.count_nonzero(p) - 1)
                if zero_isclose:        # 'zero weight' decided with a tolerance
                    last = numpy.count_nonzero(~numpy.isclose(p, 0.0)) - 1
                if last_orig:           # seeded change C17-e3: the guard is the position of the last positive weight in
                    last = numpy.flatnonzero(p)[-1]     # the ORIGINAL order (right only when all zeros are at the end)
                lo = (off < 0.5 * d) if rule is None else (rule == "le")
                for j, ptr in enumerate(ptrs):
                    if ptr_skip and j == len(ptrs) - 1 and k > 1:
                        ptr = off                            # last pointer re-uses the first position
                        ix = 0
                    while ix < last and ((cs[ix] <= ptr if lo else cs[ix] < ptr)
                                         or (tolerant and numpy.isclose(cs[ix], ptr))):
                        ix += 1
                    sel.append(ind[ix])
                if int8_counts and k > 127:     # draws tallied per element in 8-bit counters, then expanded again
                    cnt = numpy.bincount(numpy.array(sel), minlength=len(p)).astype(numpy.int8)
                    sel = list(numpy.repeat(numpy.arange(len(p)), numpy.abs(cnt.astype(int))))
                    sel = (sel + [sel[-1]] * int(k))[:int(k)]
                sel = numpy.array(sel)
                if not noshuffle:
                    rng.shuffle(sel)
                return a[sel.reshape(size)]
            return f

        memo = {}

        def sus_memo(a, p, size=None, rng=None):
            """the sort order and the cumulative weights are memoised per (number of elements, number of draws): a
            second call with other weights of the same shape walks along the cumulative weights of the first"""
            if rng is None:
                rng = S.global_prng
            if isinstance(size, (int, numpy.integer)):
                size = (size,)
            k = numpy.prod(size)
            if k == 0:
                return a[numpy.zeros(size, dtype=int)]
            key = (len(p), int(k), str(p.dtype))
            if key not in memo:
                ind = p.argsort()[::-1]
                memo[key] = (ind, p[ind].cumsum(), p.sum(), numpy.count_nonzero(p) - 1)
            ind, cs, tot, last = memo[key]
            d = tot / k
            off = rng.uniform(0.0, d)
            ptrs = off + d * numpy.arange(k)
            lo = off < 0.5 * d
            sel, ix = [], 0
            for ptr in ptrs:
                while ix < last and (cs[ix] <= ptr if lo else cs[ix] < ptr):
                    ix += 1
                sel.append(ind[ix])
            sel = numpy.array(sel)
            rng.shuffle(sel)
            return a[sel.reshape(size)]

        @contextlib.contextmanager
        def fresh_memo():
            memo.clear()
            with patch(S, "stochastic_universal_sampling", sus_memo):
                yield

        def sus_prerepair(a, p, size=None, rng=None):
            """the function before fix fc545079, verbatim: a revert of the fix must be flagged"""
            if rng is None:
                rng = S.global_prng
            if isinstance(size, (int, numpy.integer)):
                size = (size,)
            k = numpy.prod(size)
            tot_fit = p.sum()
            ptr_dist = tot_fit / k
            indices = p.argsort()[::-1]
            cumsum = p[indices].cumsum()
            offset = rng.uniform(0.0, ptr_dist)
            sel = []
            ix = 0
            ptrs = numpy.arange(offset, tot_fit, ptr_dist)
            for ptr in ptrs:
                while cumsum[ix] < ptr:
                    ix += 1
                sel.append(indices[ix])
            sel = numpy.array(sel)
            rng.shuffle(sel)
            sel = sel.reshape(size)
            return a[sel]

        def tiled_variant(rem_replace=False, one_tile_less=False, cap256=False):
            def f(a, size=None, replace=True, p=None, rng=None):
                if rng is None:
                    rng = S.global_prng
                if isinstance(size, (int, numpy.integer)):
                    size = (size,)
                ns = int(numpy.prod(size))
                if replace:
                    return rng.choice(a, size, replace, p)
                out = numpy.empty(ns, dtype=a.dtype)
                no = len(a)
                qu, re_ = divmod(ns, no)
                if cap256 and qu > 256:          # at most 256 whole tiles; the rest comes from one weighted draw
                    out[:256 * no] = numpy.tile(a, 256)
                    out[256 * no:] = rng.choice(a, ns - 256 * no, True, p)
                    rng.shuffle(out)
                    return out.reshape(size)
                if one_tile_less and qu >= 1:
                    qu, re_ = qu - 1, re_ + no
                for i in range(qu):
                    out[i * no:(i + 1) * no] = a
                out[qu * no:] = rng.choice(a, re_, True if (rem_replace or one_tile_less) else False, p)
                rng.shuffle(out)
                return out.reshape(size)
            return f

        def axis_wrong(a, axis=None, rng=None):
            if rng is None:
                rng = S.global_prng
            if isinstance(axis, (int, numpy.integer)):
                axis = (axis,)
            axis = tuple((x + 1) % a.ndim for x in axis)       # slices along the neighbouring axis
            for s in A.sliceaxisix(a.shape, axis):
                rng.shuffle(a[s])

        def axis_fortran_transposed(a, axis=None, rng=None):
            """'iterate in memory order': a Fortran-ordered array is handled through its transpose, the axis
            numbers are not mirrored"""
            if rng is None:
                rng = S.global_prng
            if isinstance(axis, (int, numpy.integer)):
                axis = (axis,)
            axis = tuple(x + a.ndim if x < 0 else x for x in axis)
            if a.ndim > 1 and a.flags["F_CONTIGUOUS"] and not a.flags["C_CONTIGUOUS"]:
                a = a.T
            for s_ in A.sliceaxisix(a.shape, axis):
                rng.shuffle(a[s_])

        def axis_noncontig_writeback(a, axis=None, rng=None):
            """an array that is not C-contiguous is shuffled on a contiguous copy and written back 'in its own
            layout' (order="F"): the values land on other positions"""
            if rng is None:
                rng = S.global_prng
            if isinstance(axis, (int, numpy.integer)):
                axis = (axis,)
            axis = tuple(x + a.ndim if x < 0 else x for x in axis)
            if a.flags["C_CONTIGUOUS"]:
                for s_ in A.sliceaxisix(a.shape, axis):
                    rng.shuffle(a[s_])
                return
            c = numpy.ascontiguousarray(a)
            for s_ in A.sliceaxisix(c.shape, axis):
                rng.shuffle(c[s_])
            a[...] = c.ravel().reshape(a.shape, order="F")

        def addon_tile_with_replacement(a, size):
            out = numpy.empty(size, int)
            ndiv, nrem = size // a, size % a
            for i in range(ndiv):
                out[a * i:a * (i + 1)] = numpy.random.choice(a, a, replace=True)
            out[a * ndiv:] = numpy.random.choice(a, nrem, replace=False)
            return out

        def axis_flat(a, axis=None, rng=None):
            if rng is None:
                rng = S.global_prng
            if isinstance(axis, (int, numpy.integer)):
                axis = (axis,)
            for _ in A.sliceaxisix(a.shape, axis):
                pass
            flat = a.reshape(-1)
            rng.shuffle(flat)                                    # permutes across slices

        def axis_no_normalisation(a, axis=None, rng=None):
            if rng is None:
                rng = S.global_prng
            if isinstance(axis, (int, numpy.integer)):
                axis = (axis,)
            for s_ in A.sliceaxisix(a.shape, axis):
                rng.shuffle(a[s_])

        def outcross_variant(first_pass_only=False, no_swap_back=False, ravel=False, int16=False):
            def f(xconfig, rng=None):
                if rng is None:
                    rng = S.global_prng
                def objfn(x):
                    if int16:       # individuals compared after a cast to 16 bits
                        return sum(len(r) - len(numpy.unique(r.astype(numpy.int16))) for r in x)
                    return sum(len(r) - len(numpy.unique(r)) for r in x)
                xr = xconfig.ravel() if ravel else xconfig.flat
                best = objfn(xconfig)
                ex = numpy.array([[i, j] for i in range(len(xr)) for j in range(i + 1, len(xr))])
                it = True
                while it:
                    rng.shuffle(ex)
                    loc = True
                    for i, j in ex:
                        xr[i], xr[j] = xr[j], xr[i]
                        sc = objfn(xconfig)
                        if sc < best:
                            best = sc
                            loc = False
                            break
                        if not no_swap_back:
                            xr[i], xr[j] = xr[j], xr[i]
                    it = (not loc) and not first_pass_only
            return f

        def outcross_pruned(xconfig, rng=None):
            """candidate exchanges pruned to 'different crosses', the cross of a flat position computed with
            shape[0] instead of shape[1]: on non-square tables genuine between-cross exchanges are never tried"""
            if rng is None:
                rng = S.global_prng
            def objfn(x):
                return sum(len(r) - len(numpy.unique(r)) for r in x)
            xr = xconfig.ravel()
            best = objfn(xconfig)
            w = xconfig.shape[0]
            ex = numpy.array([[i, j] for i in range(len(xr)) for j in range(i + 1, len(xr)) if i // w != j // w])
            it = True
            while it:
                rng.shuffle(ex)
                loc = True
                for i, j in ex:
                    xr[i], xr[j] = xr[j], xr[i]
                    sc = objfn(xconfig)
                    if sc < best:
                        best = sc
                        loc = False
                        break
                    xr[i], xr[j] = xr[j], xr[i]
                it = not loc

        def outcross_stale_candidates(xconfig, rng=None):
            """seeded change C17-c3: the candidate list is built once and leaves out the pairs of positions that hold the
            same individual AT THAT MOMENT; after accepted exchanges those positions hold different individuals, but the
            pair is never tried"""
            if rng is None:
                rng = S.global_prng
            def objfn(x):
                return sum(len(r) - len(numpy.unique(r)) for r in x)
            xr = xconfig.flat
            best = objfn(xconfig)
            ex = numpy.array([[i, j] for i in range(len(xr)) for j in range(i + 1, len(xr)) if xr[i] != xr[j]])
            it = True
            while it:
                rng.shuffle(ex)
                loc = True
                for i, j in ex:
                    xr[i], xr[j] = xr[j], xr[i]
                    sc = objfn(xconfig)
                    if sc < best:
                        best = sc
                        loc = False
                        break
                    xr[i], xr[j] = xr[j], xr[i]
                it = not loc

        def outcross_overwrite(xconfig, rng=None):
            if rng is None:
                rng = S.global_prng
            xr = xconfig.ravel()
            for r in range(xconfig.shape[0]):
                row = xconfig[r]
                for c in range(1, len(row)):
                    if row[c] in row[:c]:
                        row[c] = xr[(r * len(row) + c + 1) % len(xr)]    # copies instead of exchanging

        def slices_head_only(shape, axis):
            """membership test replaced by a head-only test on the axis tuple (assumes it ascends)"""
            def rec(l, a):
                d = len(l)
                if d == len(shape):
                    yield tuple(l)
                    return
                if a and d == a[0]:
                    for i in range(shape[d]):
                        yield from rec(l + [i], a[1:])
                else:
                    yield from rec(l + [slice(None)], a)
            yield from rec([], tuple(axis))

        def slices_variant(reverse=False, skip_last=False):
            def gen(shape, axis):
                def rec(l):
                    d = len(l)
                    if d == len(shape):
                        yield tuple(l)
                        return
                    if d in axis:
                        rng_ = range(shape[d] - 1) if skip_last else range(shape[d])
                        for i in (reversed(rng_) if reverse else rng_):
                            yield from rec(l + [i])
                    else:
                        yield from rec(l + [slice(None)])
                yield from rec([])
            return gen

        @contextlib.contextmanager
        def patch2(name, new):
            with patch(S, name, new):
                with patch(A, name, new):
                    yield

        sus = "stochastic_universal_sampling"
        import pybrops.opt.algo.pymoo_addon as addon
        round4 = [
            ("sus_memo_keyed_by_shape", fresh_memo),
            ("sus_argsort_negated_stable", lambda: patch(S, sus, sus_variant(neg_stable=True))),
            ("sus_zero_weight_by_isclose", lambda: patch(S, sus, sus_variant(zero_isclose=True))),
            ("sus_tolerant_boundary_compare", lambda: patch(S, sus, sus_variant(tolerant=True))),
            ("sus_pointer_chunks_of_1024", lambda: patch(S, sus, sus_variant(wrap1024=True))),
            ("sus_cumsum_in_weight_dtype", lambda: patch(S, sus, sus_variant(cumsum_dtype=True))),
            ("sus_counts_in_int8", lambda: patch(S, sus, sus_variant(int8_counts=True))),
            ("tiled_at_most_256_tiles", lambda: patch(S, "tiled_choice", tiled_variant(cap256=True))),
            ("tiled_addon_tile_with_replacement", lambda: patch(addon, "tiled_choice", addon_tile_with_replacement)),
            ("axis_fortran_handled_through_transpose", lambda: patch(S, "axis_shuffle", axis_fortran_transposed)),
            ("axis_noncontiguous_written_back_in_F_order", lambda: patch(S, "axis_shuffle", axis_noncontig_writeback)),
            ("outcross_ids_compared_as_int16", lambda: patch(S, "outcross_shuffle", outcross_variant(int16=True))),
        ]
        round5 = [
            ("sus_guard_last_positive_in_original_order", lambda: patch(S, sus, sus_variant(last_orig=True))),
            ("outcross_candidate_list_pruned_once_by_content", lambda: patch(S, "outcross_shuffle", outcross_stale_candidates)),
        ]
        return round5 + round4 + [
            ("sliceaxisix_reversed_order", lambda: patch2("sliceaxisix", slices_variant(reverse=True))),
            ("sliceaxisix_skips_last_index", lambda: patch2("sliceaxisix", slices_variant(skip_last=True))),
            ("sliceaxisix_assumes_ascending_axes", lambda: patch2("sliceaxisix", slices_head_only)),
            ("sus_pointers_by_linspace", lambda: patch(S, sus, sus_variant(linspace=True))),
            ("outcross_pruned_with_wrong_row_length", lambda: patch(S, "outcross_shuffle", outcross_pruned)),
            ("sus_revert_of_fix_fc545079", lambda: patch(S, sus, sus_prerepair)),
            ("sus_revert_of_fix_f1943417", lambda: patch(S, sus, sus_variant(empty_ok=False))),
            ("outcross_revert_of_fix_5d3f529a", lambda: patch(S, "outcross_shuffle", outcross_variant(ravel=True))),
            ("axis_revert_of_fix_5396d924", lambda: patch(S, "axis_shuffle", axis_no_normalisation)),
            ("sus_fixed_offset", lambda: patch(S, sus, sus_variant(fixed_offset=True))),
            ("sus_always_right_closed", lambda: patch(S, sus, sus_variant(rule="lt"))),
            ("sus_always_right_open", lambda: patch(S, sus, sus_variant(rule="le"))),
            ("sus_ascending_order", lambda: patch(S, sus, sus_variant(ascending=True))),
            ("sus_no_shuffle", lambda: patch(S, sus, sus_variant(noshuffle=True))),
            ("sus_pointer_reused", lambda: patch(S, sus, sus_variant(ptr_skip=True))),
            ("tiled_remainder_with_replacement", lambda: patch(S, "tiled_choice", tiled_variant(rem_replace=True))),
            ("tiled_one_tile_less", lambda: patch(S, "tiled_choice", tiled_variant(one_tile_less=True))),
            ("axis_neighbouring_axis", lambda: patch(S, "axis_shuffle", axis_wrong)),
            ("axis_flat_shuffle", lambda: patch(S, "axis_shuffle", axis_flat)),
            ("outcross_first_pass_only", lambda: patch(S, "outcross_shuffle", outcross_variant(first_pass_only=True))),
            ("outcross_no_swap_back", lambda: patch(S, "outcross_shuffle", outcross_variant(no_swap_back=True))),
            ("outcross_overwrite", lambda: patch(S, "outcross_shuffle", outcross_overwrite)),
        ]


PROP = C17()
