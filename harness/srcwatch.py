"""Source watch (DESIGN 5.6): has the pybrops source under test changed since the baseline was recorded?

A change never raises an alarm.  It only escalates the quick run of every property to a deeper
exploration (more generated cases from additional PRNG streams), so that an edit of /repo is always met
with more than the every-commit budget, and it is recorded in the evidence.  The baseline
(`/verif/srcwatch.json`: sha1 of every pybrops/**/*.py at the /repo commit the evidence was produced
for) is rewritten only by `tools/srcwatch_update.py`, never at check time.
"""
import hashlib
import json
import os

VERIF = os.path.dirname(os.path.dirname(os.path.abspath(__file__)))
BASELINE = os.path.join(VERIF, "srcwatch.json")


def hashes(repo):
    out = {}
    root = os.path.join(repo, "pybrops")
    for d, dirs, files in os.walk(root):
        dirs[:] = [x for x in dirs if x != "__pycache__"]
        for fn in files:
            if fn.endswith(".py"):
                p = os.path.join(d, fn)
                with open(p, "rb") as f:
                    out[os.path.relpath(p, repo)] = hashlib.sha1(f.read()).hexdigest()
    return out


def changed(repo):
    """-> (list of changed/added/removed source files relative to the baseline, baseline commit);
    (None, None) when no baseline is recorded."""
    if not os.path.exists(BASELINE):
        return None, None
    base = json.load(open(BASELINE))
    cur = hashes(repo)
    old = base.get("files", {})
    diff = sorted(k for k in set(cur) | set(old) if cur.get(k) != old.get(k))
    return diff, base.get("repo_head")
