"""KNOWN_FINDINGS.txt: line-oriented, never written at run time.

finding: property=C18 id=D10 match={"site":"haplobin","cond":"empty_bin"} <what fails>
fixed:   property=C09 <commit> <what failed>
A `finding:` line matches a failing case when every key of its `match` object equals the
corresponding key of the signature the property module computes for that case.
"""
import json
import os
import re

PATH = os.path.join(os.path.dirname(os.path.dirname(os.path.abspath(__file__))), "KNOWN_FINDINGS.txt")
_LINE = re.compile(r"^finding:\s+property=(\S+)\s+id=(\S+)\s+match=(\{.*?\})\s+(.*)$")


def load(pid):
    out = []
    if not os.path.exists(PATH):
        return out
    for line in open(PATH):
        line = line.strip()
        m = _LINE.match(line)
        if m and m.group(1) == pid:
            out.append({"id": m.group(2), "match": json.loads(m.group(3)), "text": m.group(4)})
    return out


def match(findings, sig):
    for f in findings:
        if all(sig.get(k) == v for k, v in f["match"].items()):
            return f
    return None
