#!/bin/sh
# usage: tools/seeded_sweep.sh [tier] [P] [ids...]  -- run every seeded change (or the listed ones) through its property's check
# in scratch worktrees.  Changes of ONE property run one after the other (a check regenerates Generated/* of its property from the
# tree it is pointed at; two changed trees of the same property must not do that at the same time); properties run in parallel.
tier="${1:-quick}"; P="${2:-6}"; shift; shift
cd "$(dirname "$0")/.." || exit 2
ids="$*"; [ -z "$ids" ] && ids="$(ls seeded)"
out=/tmp/seeded_sweep; mkdir -p $out
props=$(for i in $ids; do echo "$i" | cut -c1-3; done | sort -u)
for p in $props; do
  l=""; for i in $ids; do case "$i" in $p-*) l="$l $i";; esac; done
  echo "$l"
done | xargs -P "$P" -I{} sh -c "for i in {}; do /venv/bin/python tools/seeded.py run \$i $tier > $out/\$i.log 2>&1; done"
echo "seeded sweep done"
