#!/bin/sh
# usage: tools/seeded_sweep.sh [tier] [P] [ids...]  -- run every seeded change (or the listed ones) through its property's check
# in scratch worktrees; C08/C20 (which rewrite Generated/) are run one at a time after the parallel batch.
tier="${1:-quick}"; P="${2:-6}"; shift; shift
cd "$(dirname "$0")/.." || exit 2
ids="$*"; [ -z "$ids" ] && ids="$(ls seeded)"
par=""; seq_=""
for i in $ids; do case "$i" in C08*|C20*) seq_="$seq_ $i";; *) par="$par $i";; esac; done
out=/tmp/seeded_sweep; mkdir -p $out
echo $par | tr ' ' '\n' | grep . | xargs -P "$P" -I{} sh -c "/venv/bin/python tools/seeded.py run {} $tier > $out/{}.log 2>&1"
for i in $seq_; do /venv/bin/python tools/seeded.py run $i $tier > $out/$i.log 2>&1; done
echo "seeded sweep done"
