#!/bin/sh
# usage: tools/verify_batch.sh C14 d   -- verify /tmp/seed/C14d/m{1,2,3} and keep them as seeded/C14-d{1,2,3}
cd "$(dirname "$0")/.." || exit 2
for i in 1 2 3; do [ -d /tmp/seed/$1$2/m$i ] && /venv/bin/python tools/seeded.py verify /tmp/seed/$1$2/m$i $1-$2$i 2>&1 | tail -2; done
