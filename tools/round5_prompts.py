#!/usr/bin/env python3
"""Round 5 task text (short round: detection breadth only) for the builder of one property."""
import sys, os
sys.path.insert(0, os.path.dirname(os.path.abspath(__file__)))
import round3_prompts as r3

T = """Round 5 (SHORT, about 90 minutes of work, detection breadth only) for {pid} of the Lean-4 verification framework for pybrops (source at /repo, read-only for you). Your check is integrated in /verif, builds, and passes on /repo HEAD.

SETUP:  mkdir -p /tmp/wk/{pid} && rm -rf /tmp/wk/{pid}/verif && cp -a /verif /tmp/wk/{pid}/verif && cd /tmp/wk/{pid}/verif
Work ONLY inside /tmp/wk/{pid}/ (own built lean/.lake; `cd lean && lake build PybropsModel AuditCmd` is incremental). NEVER write to /verif or /repo, never run git commit/checkout/apply there, never run `vp`, never kill processes by name pattern (other agents run ./check concurrently; kill only PIDs you started), never use `git stash` (the stash is shared by all worktrees of /repo). Scratch worktree for trying a change: `git -C /repo worktree add --detach /tmp/wk/{pid}/wt HEAD`, run `PYBROPS_REPO=/tmp/wk/{pid}/wt VERIF_NO_ESCALATE=1 ./check {pid}`, reset with `git -C /tmp/wk/{pid}/wt checkout -- .`, remove it with `git -C /repo worktree remove --force /tmp/wk/{pid}/wt` at the end.
READ: AGENT_GUIDE.md (rules unchanged: no sorry/admit/axiom/native_decide/bv_decide/implemented_by/unsafe/maxHeartbeats 0; only propext, Classical.choice, Quot.sound; Props/{pid}.lean = property theorems + examples only; `_partial` / `_counterexample` naming; model files import no Mathlib; do not edit shared infrastructure nor other properties' files), the line of properties.jsonl with "id": "{pid}" (fixed), DESIGN.md 13.5 if your property has translated kernels (Generated/PyK_{pid}.lean, Lemmas/PyKEq_{pid}.lean, registry harness/py2lean_kernels.py: keep them building), your own files.

THE TASK.  A fifth series of independently written breaking changes (written by agents who saw only the property text) was run against your check.  The ones NOT caught with a failing input are listed below.  Each tells you about a CLASS of inputs / histories / argument forms your generator + Spec never explore - never special-case the patch.  For each: (1) apply it in the scratch worktree, understand which class of input it needs; (2) add case kinds / corpus cases / Spec clauses so that the check reports `VIOLATION ... replay=...` with a concrete failing input (quick tier, no escalation); the Spec must demand exactly what the property states - if a change does NOT violate the property as stated (harmless), say so and leave it as `no-failing-input-found` or silent; (3) add one in-memory mutant per class to mutants(); (4) where the class is cheap to put into the Lean model (a new argument form, a dtype, a history op) do so and extend the theorems, otherwise state in TRUSTED/ASSUMPTIONS what is correspondence/Spec only.  Then, if time remains, try three further breaking changes of your own of the same subtle kind at other sites.
{missed}
If you find a genuine defect of the unchanged tree on the way: model as is, `finding:` line + corpus case so your check exits 0, minimal patch as /tmp/wk/{pid}/patch_<id>.diff (not applied), report it.
ACCEPTANCE: lake build green; `./check {pid}` exits 0 for VERIF_SEED=0,1,2 on /repo HEAD (quick tier <= 60 s alone); `./check {pid} --selftest` kills every mutant; each listed change re-run and its verdict stated.  Do NOT run the thorough tier (no time); keep N_THOROUGH as is.
REPLY with a short report: files changed, new case kinds / mutants / theorems, verdict per listed change (caught with failing input / harmless because ...), findings, false alarms corrected, and (only if the text changed) the final `_c("{pid}", "text", "note")` entry as ONE python code block with plain string literals."""

def text(pid):
    return T.format(pid=pid, missed=r3.auto_missed(pid))

if __name__ == "__main__":
    pid = sys.argv[1]
    t = text(pid)
    if pid == "C09":
        t = t.replace("for C09 of", "for C09 AND C10 (you own both) of")
    print(t)
