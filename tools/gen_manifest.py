#!/usr/bin/env python3
"""Writes /verif/MANIFEST.json from tools/props_table.py and properties.jsonl."""
import json
import re
import os
import sys

here = os.path.dirname(os.path.abspath(__file__))
root = os.path.dirname(here)
sys.path.insert(0, here)
import props_table as T  # noqa: E402

pids = [json.loads(l)["id"] for l in open(os.path.join(root, "properties.jsonl")) if l.strip()]
checks, na = [], []
for pid in pids:
    if pid in T.CLAIMED and pid not in getattr(T, 'PENDING', {}):
        c = T.CLAIMED[pid]
        checks.append({
            "property_id": pid,
            "quick_cmd": f"./check {pid} --tier quick",
            "thorough_cmd": f"./check {pid} --tier thorough",
            "evidence_file": f"evidence/{pid}.json",
            "replay_cmd_template": "./check {property} --replay {path}".replace("{property}", pid),
            "engine": "lean4-model+correspondence",
            "level_claimed": {"category": "proof", "text": re.sub(r"^\d+ theorems \(", "Theorems (", c["level_text"]), "design_ref": c["design_ref"]},
            "level_note": c["level_note"],
            "technique": c["technique"],
        })
    else:
        na.append({"property_id": pid, "reason": getattr(T, 'PENDING', {}).get(pid) or getattr(T, "NA_REASONS", {}).get(pid, T.NOT_YET)})
man = {
    "version": 1,
    "setup_cmd": "cd lean && lake build PybropsModel AuditCmd",
    "hooks": {
        "guard": "PYBROPS_VERIF",
        "enable": "no hooks in /repo: the harness imports /repo's working tree in-process and sets PYBROPS_VERIF=1 (nothing in /repo reads it)",
        "baseline_off_cmd": "cd /repo && env -u PYBROPS_VERIF /venv/bin/python -m pytest -ra -q -p no:cacheprovider --timeout=900 --continue-on-collection-errors",
        "source_commits": [],
        "add_only": True,
    },
    "engines": [{
        "name": "lean4-model+correspondence",
        "path": "lean/ (model, theorems, driver) + harness/ (correspondence, Spec oracle, failing-input search)",
        "serves_properties": [c["property_id"] for c in checks],
        "kind_free_text": "machine-checked proof in Lean 4 about a hand-written executable model; model tied to the code by a differential correspondence check on every run",
    }],
    "checks": checks,
    "notes": "See DESIGN.md.  Exit codes: 0 held, 1 violation (VIOLATION line), 2 harness/tool failure.",
    "not_applicable": na,
}
json.dump(man, open(os.path.join(root, "MANIFEST.json"), "w"), indent=1)
print(f"claimed={len(checks)} not_applicable={len(na)}")
