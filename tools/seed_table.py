#!/usr/bin/env python3
"""Prints a markdown table of seeded changes and what the checks reported (from seeded/*/meta.json)."""
import json, os, glob
root = os.path.join(os.path.dirname(os.path.dirname(os.path.abspath(__file__))), "seeded")
print("| seeded change | what it does / needs | quick check |")
print("|---|---|---|")
for d in sorted(glob.glob(os.path.join(root, "*"))):
    m = json.load(open(os.path.join(d, "meta.json")))
    r = (m.get("check_results") or {}).get("quick")
    if m.get("superseded"):
        res = "superseded by a fix commit (no longer breaking)"
    elif r is None:
        res = "not run yet"
    elif r.get("caught") is None:
        res = r.get("note", "n/a")
    elif r["caught"]:
        res = "VIOLATION with failing input" if r["with_failing_input"] else "VIOLATION no-failing-input-found"
    else:
        res = "**missed**"
    if (m.get("check_results") or {}).get("thorough", {}).get("caught"):
        res += " (thorough: caught)"
    print(f"| {os.path.basename(d)} | {m.get('summary','')[:160].replace('|','/')} | {res} |")
