#!/usr/bin/env python3
"""usage: set_prop_entry.py C16 [/tmp/wk/C16/REPORT4.md]  -- replace the _c("C16", ...) entry of tools/props_table.py by the one
found in the builder's report (first occurrence of `_c("C16",` up to its balanced closing parenthesis), then regenerate MANIFEST.json."""
import sys, os, re, subprocess, html
pid = sys.argv[1]
rep = sys.argv[2] if len(sys.argv) > 2 else f"/tmp/wk/{pid}/REPORT4.md"
here = os.path.dirname(os.path.abspath(__file__))
def block(s, start):
    i = s.index(start)
    depth, j, instr, esc = 0, i, None, False
    while j < len(s):
        c = s[j]
        if instr:
            if esc: esc = False
            elif c == "\\": esc = True
            elif c == instr: instr = None
        else:
            if c in "\"'": instr = c
            elif c == "(": depth += 1
            elif c == ")":
                depth -= 1
                if depth == 0:
                    return i, j + 1
        j += 1
    raise SystemExit("unbalanced")
r = html.unescape(open(rep).read())
new = None
pos = 0
key = f'_c("{pid}",'
while True:
    k = r.find(key, pos)
    if k < 0:
        break
    pos = k + 1
    try:
        a, b = block(r[k:], key)
        cand = r[k:][a:b]
        compile(cand, "x", "eval")   # must be a python call expression
        new = cand      # keep the LAST well-formed occurrence
    except (SystemExit, SyntaxError, ValueError):
        continue
if new is None:
    raise SystemExit("no well-formed entry found in " + rep)
p = os.path.join(here, "props_table.py")
s = open(p).read()
if f'_c("{pid}",' in s:
    a, b = block(s, f'_c("{pid}",')
    s = s[:a] + new + s[b:]
else:       # entry so far given as a literal dict in CLAIMED: a later _c(...) call overrides it
    s = s.rstrip("\n") + "\n" + new + "\n"
open(p, "w").write(s)
subprocess.check_call([sys.executable, os.path.join(here, "gen_manifest.py")])
print("entry", pid, "replaced;", len(new), "chars")
