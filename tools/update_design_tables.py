#!/usr/bin/env python3
"""Rewrites the generated regions of DESIGN.md (between <!-- X-BEGIN --> and <!-- X-END --> markers):
SEED-TABLE (from seeded/*/meta.json), FINDINGS (from KNOWN_FINDINGS.txt)."""
import json, os, glob, re, subprocess, sys, collections
root = os.path.dirname(os.path.dirname(os.path.abspath(__file__)))

def seed_table():
    rows = []
    stat = collections.Counter()
    per = collections.defaultdict(lambda: collections.Counter())
    for d in sorted(glob.glob(os.path.join(root, "seeded", "*"))):
        m = json.load(open(os.path.join(d, "meta.json")))
        sid = os.path.basename(d)
        r = (m.get("check_results") or {}).get("quick")
        if m.get("superseded") or (r and r.get("caught") is None):
            res = "superseded (patch no longer applies after a `fix:` commit)"; key = "superseded"
        elif r is None:
            res = "not run yet"; key = "notrun"
        elif r["caught"]:
            res = "VIOLATION, failing input" if r["with_failing_input"] else "VIOLATION, no-failing-input-found"
            key = "caught_input" if r["with_failing_input"] else "caught_noinput"
        else:
            res = "**missed**"; key = "missed"
        t = (m.get("check_results") or {}).get("thorough")
        if t and t.get("caught") and key == "missed":
            res += " (thorough: caught)"
        stat[key] += 1; per[sid[:3]][key] += 1
        summ = re.sub(r"\s+", " ", m.get("summary", ""))[:150].replace("|", "/")
        need = re.sub(r"\s+", " ", m.get("needs_to_manifest", ""))[:110].replace("|", "/")
        rows.append(f"| {sid} | {summ} | {need} | {res} |")
    head = [f"Totals over {sum(stat.values())} independently written changes (quick tier of the property's check, `tools/seeded_sweep.sh`): "
            + ", ".join(f"{k} = {v}" for k, v in sorted(stat.items())) + ".", "",
            "| property | caught with failing input | caught, no input found | missed | superseded / not run |", "|---|---|---|---|---|"]
    for p in sorted(per):
        c = per[p]
        head.append(f"| {p} | {c['caught_input']} | {c['caught_noinput']} | {c['missed']} | {c['superseded'] + c['notrun']} |")
    head += ["", "| change | what it does | needs | quick check of its property |", "|---|---|---|---|"]
    return "\n".join(head + rows)

def findings():
    out = ["| kind | property | id / commit | text |", "|---|---|---|---|"]
    for l in open(os.path.join(root, "KNOWN_FINDINGS.txt")):
        l = l.strip()
        if l.startswith("finding:"):
            m = re.match(r"finding:\s+property=(\S+)\s+id=(\S+)\s+match=(\{.*?\})\s+(.*)", l)
            if m:
                out.append(f"| finding | {m.group(1)} | {m.group(2)} | {m.group(4)[:260].replace('|','/')} |")
        elif l.startswith("fixed:"):
            m = re.match(r"fixed:\s+property=(\S+)\s+(\S+)\s+(.*)", l)
            if m:
                out.append(f"| fixed | {m.group(1)} | {m.group(2)} | {m.group(3)[:260].replace('|','/')} |")
    return "\n".join(out)

GEN = {"SEED-TABLE": seed_table, "FINDINGS": findings}
p = os.path.join(root, "DESIGN.md")
s = open(p).read()
for k, fn in GEN.items():
    b, e = f"<!-- {k}-BEGIN -->", f"<!-- {k}-END -->"
    if b in s and e in s:
        i, j = s.index(b) + len(b), s.index(e)
        s = s[:i] + "\n" + fn() + "\n" + s[j:]
open(p, "w").write(s)
print("DESIGN.md tables updated")
