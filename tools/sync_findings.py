#!/usr/bin/env python3
"""Replace /verif/KNOWN_FINDINGS.txt lines of property <pid> by those in the builder's copy."""
import sys, re
pid = sys.argv[1]
src = f"/tmp/wk/{sys.argv[2] if len(sys.argv) > 2 else pid}/verif/KNOWN_FINDINGS.txt"
dst = "/verif/KNOWN_FINDINGS.txt"
mine = [l for l in open(src).read().splitlines() if re.match(rf"^(finding|fixed):\s+property={pid}\s", l)]
keep = [l for l in open(dst).read().splitlines() if not re.match(rf"^(finding|fixed):\s+property={pid}\s", l)]
open(dst, "w").write("\n".join(keep + mine) + "\n")
for l in mine: print(l[:170])
