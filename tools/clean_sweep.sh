#!/bin/sh
# usage: tools/clean_sweep.sh "0 1 2" [P]   -- every property's quick check for each seed on the unchanged tree; prints non-zero exits
seeds="${1:-0 1 2}"; P="${2:-8}"
cd "$(dirname "$0")/.." || exit 2
out=/tmp/clean_sweep; rm -rf $out; mkdir -p $out
for s in $seeds; do for i in $(seq -w 1 20); do echo "$s C$i"; done; done | \
  xargs -P "$P" -L 1 sh -c 'VERIF_SEED=$0 ./check $1 --tier quick > '$out'/$1_$0.log 2>&1; echo "$1 seed=$0 exit=$? $(grep -c "^VIOLATION" '$out'/$1_$0.log) violations; $(tail -1 '$out'/$1_$0.log | sed "s/.*wall=/wall=/")"' | sort | tee $out/summary.txt | grep -v "exit=0 0 violations" ; echo "sweep done: $(grep -c "exit=0 0 violations" $out/summary.txt) ok of $(wc -l < $out/summary.txt)"
