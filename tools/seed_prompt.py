#!/usr/bin/env python3
"""Task text for an independent 'breaker' agent: gets only the property text and a scratch worktree."""
import json, sys
pid, n = sys.argv[1], (sys.argv[2] if len(sys.argv) > 2 else "a")
prop = [json.loads(l) for l in open("/verif/properties.jsonl") if json.loads(l)["id"] == pid][0]
wt = f"/tmp/seed/{pid}{n}/wt"
import glob, os
prev = []
for d in sorted(glob.glob(f"/verif/seeded/{pid}-*")):
    try:
        prev.append("  - " + json.load(open(os.path.join(d, "meta.json"))).get("summary", "")[:300].replace("\n", " "))
    except Exception:
        pass
PREV = ("\nEARLIER BREAKERS ALREADY PRODUCED THESE CHANGES — yours must be DIFFERENT (another mechanism, another code site, or another kind of trigger; prefer mechanisms and files not touched below, multi-step histories, interactions between two methods, dtype/shape/aliasing effects, rarely used options):\n" + "\n".join(prev) + "\n") if prev else ""
print(f"""You are testing the robustness of a Python library's semantics. The library is pybrops (plant-breeding simulation, numpy based). A git worktree of it for you alone is created like this (do it first):

  mkdir -p /tmp/seed/{pid}{n} && git -C /repo worktree add --detach {wt} HEAD

Work ONLY inside /tmp/seed/{pid}{n}/ (the worktree {wt} and scratch files next to it). Never modify /repo itself, never read or write anything under /verif.

Environment notes: use the interpreter /venv/bin/python. `import pybrops` fails under the installed numpy 2 unless two removed numpy names are re-created first, so every script of yours must start with:
    import sys, numpy
    sys.path.insert(0, "{wt}")
    numpy.float_ = numpy.float64
    numpy.in1d = lambda a, b, **k: numpy.isin(numpy.ravel(a), b, **k)
The project's pinned test command (92 tests pass, hundreds of collection errors are expected and normal) is, run from the worktree:
    cd {wt} && /venv/bin/python -m pytest -q -p no:cacheprovider --timeout=900 --continue-on-collection-errors 2>&1 | tail -3
Many source files use CRLF line endings; preserve them (edit with care, e.g. open(..., newline='')).

THE PROPERTY (a semantic property the library is supposed to satisfy):

  id: {prop['id']} — {prop['title']}
  statement: {prop['statement']}
  quantifier: {prop['quantifier']['text']}
  anchored in: {', '.join(prop['anchors']['files'])}
  mechanisms: {json.dumps(prop['anchors']['mechanism'])}

{PREV}
YOUR TASK: produce THREE different, independent, realistic code changes (as a maintainer might plausibly introduce in a refactoring, optimisation or 'fix') to the library source in the worktree, each of which BREAKS this property while (1) the package still imports and (2) the pinned test command above still reports 92 passed. Each change must need something specific to manifest — an unusual input, a particular size or tie, a multi-step sequence of operations, a rarely taken branch, or two cooperating edits that each look fine alone — NOT something that any ordinary call would expose at once. The three changes should hit different mechanisms of the property. Keep each change small (a few lines).

For each change i = 1..3 deliver, under /tmp/seed/{pid}{n}/m<i>/:
  - patch.diff : `git -C {wt} diff` of exactly that change alone against HEAD (reset the worktree with `git -C {wt} checkout -- .` between changes);
  - demo.py    : a small standalone program (starting with the header above, but taking the source root from sys.argv[1] instead of the hard-coded path) that exits 0 on the unmodified source and exits 1 (printing what went wrong) with the change applied — it must demonstrate a violation of the property *as stated*, not of some stronger expectation;
  - meta.json  : {{"property": "{pid}", "summary": "...", "needs_to_manifest": "...", "files": [...], "ran": ["commands you ran and their outcome"]}}.
Verify each yourself: demo passes on clean source, fails with the patch, the pinned tests still give 92 passed with the patch. When all three are done, remove the worktree (`git -C /repo worktree remove --force {wt}`) and reply with a short list: for each change one line saying what it does and what it needs to manifest.""")
