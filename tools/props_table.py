"""Single source for MANIFEST.json: per property, whether a check is claimed and its texts."""

NOT_YET = "check not built yet in this round (design in DESIGN.md section 6); will be claimed when its Props file, driver ops and harness exist"

# checks that exist but are temporarily not claimed (reason shown under not_applicable)
PENDING = {
}

# pid -> dict(technique, level_text, level_note, design_ref)   (only claimed properties)
CLAIMED = {
    "C19": dict(
        technique="Lean 4 proof (invariant induction over the filter loop; order-theoretic lemmas) + differential correspondence with the Python implementation",
        level_text=("Theorems in lean/PybropsModel/Props/C19.lean about an executable Lean model of is_pareto_efficient / "
                    "dominates / the distance transformations, for all point sets, weights and sizes; the model is tied to "
                    "/repo on every run by running model and implementation on the same generated inputs and by evaluating "
                    "the decidable Spec on the implementation's outputs."),
        level_note=("Trusted: Lean kernel, axioms propext/Classical.choice/Quot.sound, Mathlib; harness + Driver.lean; numpy primitives and "
                    "float arithmetic (exact on the generated dyadic inputs, tolerance 1e-9 for distances); numpy.linalg.norm."),
        design_ref="6 C19",
    ),
}

TECH = "Lean 4 proof about an executable hand-written model + differential correspondence with the Python implementation (Spec oracle evaluated on the implementation's outputs)"
COMMON_NOTE = ("Trusted: Lean kernel, axioms propext/Classical.choice/Quot.sound, the Mathlib modules imported by the proof files; "
               "harness + Driver.lean + JSON codec (differential testing, not proof); numpy primitives as modelled; IEEE arithmetic abstracted "
               "as exact arithmetic with tolerance on integer/dyadic inputs. ")

def _c(pid, text, note, ref=None, technique=None):
    CLAIMED[pid] = dict(technique=technique or TECH, level_text=text, level_note=COMMON_NOTE + note, design_ref=ref or f"6 {pid}, 12")

_c("C02",
   "82 theorems (Props/C02.lean): the segment-copy loop of mat_meiosis AND of its twin dense_meiosis equals the parity mosaic with strict `<`; under independent "
   "Bernoulli(x_k) crossover indicators the pairwise/adjacent/segregation/joint/independence/parity laws hold for all marker counts and vectors; map-derived "
   "probabilities are 1/2 at chromosome starts (any map function, sorted or merely grouped labels; the numpy.unique loop proved equal to the model) and Haldane composes "
   "over any number of intervals (over R); the correct non-adjacent law for any map function, Kosambi's failure proved; push-forward from grid-uniform draws with a total-variation "
   "bound m*2^-53; weak law for repeated meioses; through C01's protocol model: every meiosis of every protocol is a single-meiosis instance on its own draw rows, the number of draw "
   "matrices consumed, and the recombination law after ANY number of selfing generations (one copy, the two copies of a plant, doubled haploids) with closed form and the "
   "Haldane-Waddington limit; from_gmod's doubled haploids. Spec oracles (cell-wise, partly observable provenance, chromosome starts) proved sound and characterised exactly. "
   "Correspondence: six meiosis functions + seven protocols (every progeny cell incl. selfing, second cycles) + from_gmod with scripted, crafted-genuine and recorded generators; "
   "crossover probabilities from both map classes, both map functions, five entry points.",
   "Generator contract (independent draws uniform on k/2^53) is trusted; statistical runs (fixed and generated seeds, Bernstein budget 1e-12 per statistic, dense panels, selfing depth 1-4, "
   "identical-gamete lags) are supporting evidence and decide only when a tree consumes randomness in another pattern than the model. C01's Mating.mate is the protocol model (tied by C01's run). "
   "Partial (hypothesis proved necessary by a counterexample, full-strength replacement in the file): spec_iff_model_partial, spec_obs_iff_model_partial, draws_pushforward_exact_partial, "
   "gdist1g_loop_eq_model_partial. Inside a chromosome the xoprob Spec compares with libm exp/tanh in floating point (1e-12). No open finding.")
_c("C11",
   "86 theorems (Props/C11.lean): Haldane/Kosambi zero, limit 1/2, range, (strict) monotonicity, both inverse directions over R on [0,inf], "
   "round-trip conditioning and the same laws under any monotone rounding; pairwise distances symmetric, zero diagonal, additive, +inf exactly across "
   "chromosomes, sequential = adjacent pairwise, slice arguments = parts of the full arrays; interpolation at own markers, linear between flanking "
   "markers, order preserving on congruent maps, NaN exactly for absent chromosomes, independent of row order (stored arrays incl. riding columns); "
   "xoprob definition; both map classes (MapClassLaws). Operation histories: every object reachable through group/ungroup/reorder/sort/remove/select/"
   "remove_discrepancies/build_spline/interp_genpos/re-assignment/interp_gmap has metadata describing its own arrays, the methods as written never "
   "raise on it and equal their closed forms, a grouped one has sorted labels; closure of all laws under interp_gmap (D110 fixed in /repo, "
   "pre-repair counterexample kept). Literal transcriptions proved equal to closed forms: numpy.unique loop of gdist1g, congruence() loop, "
   "searchsorted/clip, three-pass lexsort and its argsort+fancy-index form in sort(). All four Spec oracles tied to the theorems "
   "(accepts-model / exact-sound / iff).",
   "scipy interp1d entered through its transcribed formula (re-checked per case); libm exp/log/tanh/atanh compared at 1e-12; quadratic/cubic splines, "
   "the three large maps and the from_pandas/from_csv/from_egmap factories are checked against the Spec only (no Lean model). Partial: gdist1 loop = "
   "closed form needs contiguous labels (documented precondition; proved for every constructed and every reachable grouped map; counterexample), "
   "xoprob_range_partial (each hypothesis shown necessary), remove_discrepancies needs up to n passes (counterexample). No open finding.")
_c("C13",
   "40 theorems (Props/C13.lean): molecular coancestry = twice mean IBS (allele-pair counting) for ploidy 1/2 and all sizes; VanRaden/Yang (as written, any sqrt)/weighted "
   "formulas entry by entry; symmetry; PSD in Gram form; commutation with any taxa index list (permutation, subset, repeats) for supplied frequencies incl. labels; kinship = half; "
   "max/min/mean/max_inbreeding specs; min_inbreeding optimal and attained under the inverse contract (Cauchy-Schwarz).",
   "numpy.linalg.inv / eigvals entered through contracts (A*Ainv = I re-checked against exact Gauss-Jordan on well-conditioned cases). Partial: min_inbreeding_*_partial "
   "(solver contract). apply_jitter, group metadata, I/O not modelled.")
_c("C20",
   "13 theorems (Props/C20.lean): for every schedule equal to the canonical skeleton up to no-ops, ALL replicate/generation counts, operators (arbitrary functions with internal state that may mutate, alias "
   "and allocate, constrained only by a frame condition), heaps and initial states: the recorded trace is (evaluate@0, log, (pselect,log,mate,log,evaluate,log,sselect,log)@g)^nrep, each call is handed its predecessor's "
   "result, the clock advances once per generation, every replicate starts from a fresh equal copy, start containers keep their contents. The schedule is REGENERATED from "
   "RecurrentSelectionBreedingProgram.py by an ast translator on every run; `WellFormed C20Schedule.evolve` is closed by `decide` and breaks when the call skeleton changes.",
   "copy.deepcopy = fresh cell with equal content (trusted); the ast->Lean translator (validated each run: the regenerated schedule is executed by the driver and its trace compared with the real class); "
   "concrete operator classes are the quantified parameter.",
   technique="Lean 4 proof (invariant over a heap semantics) about a schedule regenerated from the source by a translator + trace correspondence with the real class")
_c("C01",
   "52 theorems (Props/C01.lean) about an executable model of mat_meiosis/mat_mate/mat_dh, their duplicates dense_meiosis/dense_dh/dense_cross (buffer-level, proved equal whatever numpy.empty held) and the seven mate() methods, "
   "for all sizes, selfing depths, counters and draws: the literal segment-copy loop equals the parity mosaic; the source copy switches only where xoprob > 0; every progeny copy is a mosaic of exactly the haplotypes the cross "
   "configuration assigns to that side and every progeny has the pedigree of intermediate hybrids its configuration row prescribes (lineage, decided exactly by the joint hidden-state test pedCheck); all doubled haploids of one mating are "
   "gametes of ONE line and back-cross / four-way progeny of one mating share their F1(s); DH progeny homozygous; count = sum nmating*nprogeny with the per-cross product formed in int64, exact for every count dtype up to 32 bits "
   "(D70 repaired, pre-repair counterexample kept); family labels, names (injective), counters, closed form of the taxa-group metadata; row order characterised for ALL counters (the unique strictly (family, name-string)-sorted arrangement); "
   "all 13 marker-metadata fields carried over; numpy's negative-index rule; parents untouched on a heap model of mate()'s array traffic; every valid input accepted; the Spec oracle is sound (spec_sound), equivalent to the stated Prop "
   "(spec_iff), and complete for the self / two-way protocols with up to two selfings and for the three utilities.",
   "numpy repeat/lexsort/unique/multiply(dtype=int64) as modelled (differentially tested each run); generator contract 0 <= u; heap model read off the source and probed by snapshot / aliasing / stale-result checks on every case; "
   "DensePhasedGenotypeMatrix constructor and group_taxa as modelled. Partial: order_preserved_partial (generation order needs progeny_counter+count <= 10^7 because group_taxa sorts names as strings; counterexample proved; "
   "order_characterised is the full statement); count_product_exact_int64_partial (64-bit counts: exact below 2^63; counterexample 2^32 x 2^32); the completeness theorems gamete_realised_partial, util_spec_complete_partial, "
   "spec_complete_twoWay_partial, spec_complete_selfed_partial, selfing_chain_realised_partial need xoprob[0] > 0, names below the overflow, self/two-way and nself <= 2 - each restriction shown necessary by a proved counterexample "
   "(gamete_start_, spec_complete_names_, spec_complete_siblings_counterexample). Fixed: D18 (7fe10396), D70 (927aac93). No open finding.")
_c("C14",
   "21 theorems (Props/C14.lean): the transcribed env/rep double loop equals its closed form; exactly one record per (taxon, env, rep) with that taxon's labels, for any layout and draw stream; zero noise returns the true values; "
   "heritability algebra (var_A/(var_A+var_err) = h2, necessity of var_A > 0, per-trait setter); mean-phenotype breeding values equal each taxon's arithmetic mean over its records, are aligned to any genotype taxa list "
   "(re-ordering, subsetting, repeats), missing for unphenotyped taxa, invariant under row permutation; noiseless end-to-end pipeline returns truth.",
   "pandas groupby entered through the contract 'one row per distinct key, per-column mean' (re-checked by the Spec); multivariate_normal draws are oracle inputs (call pattern and covariance arguments compared). "
   "Partial: realised_error_variance_partial (the almost-sure limit of realised variances needs the generator's law; only tested statistically at fixed seeds with a 7-sigma band); meanBV_eq_mean_partial (one name, one group).")
_c("C08",
   "26 theorems (Props/C08.lean) about an abstract stream model (python stream, numpy global, OS entropy oracle, caller generators, spawned handles) with ARBITRARY component semantics constrained only by a dependency set: "
   "after seed s the outputs of any program whose components do not read OS entropy coincide for all prior histories; a component that depends only on the generator it is handed returns a function of that generator and leaves "
   "python/numpy globals untouched, whatever is interleaved; spawn is a deterministic function of the python stream. The dependency table of 39 real components (mating x7, phenotyping, samplers, sampled configurations, "
   "optimisers, jitter, EMBV, select(), spawn) is MEASURED on every run (state digests, interception of os.urandom/default_rng/numpy.random.*, perturbation runs) and written to Generated/C08Deps.lean; the obligations "
   "table_unseeded_known / table_leaks_known are closed by `decide` and stop compiling when a component starts reading an unseeded source or leaks out of its explicit generator.",
   "The theorems are conditional on the measured table (dynamic, per explored call) - partial by construction: table_reproducible_partial, table_isolated_partial; sha1 digests stand for bit-identity; hash randomisation, threads, BLAS outside the model. "
   "Known findings D11b, D12b (what remains after the D11/D12 repairs).",
   technique="Lean 4 proof (agreement/frame invariants over an abstract stream semantics) + dependency table regenerated from measurements of the real components on every run, obligations closed by decide + whole-program differential replays")
_c("C04",
   "82 theorems (Props/C04.lean) over any ordered field and all sizes: GEBV/GEGV/predict (additive, dominance, miscellaneous effects) are the stated linear forms (intercept contrast [1,1/q,..]); "
   "equivariance under any taxon index list with labels, also for the dominance model; TrueBreedingValue.estimate ignores the phenotype object and carries the genotype input's labels; phased = unphased projection = raw dosage; "
   "marker-block additivity for the additive AND the dominance design; var_A/var_G/var_a/afreq/bulmer/score definitions; R^2 through a BreedingValueMatrix with ANY stored location/scale is 1-SSE/SST of the unscaled values about their own column mean; "
   "the twelve favourable/deleterious/neutral allele functions equal their definitions and are mutually consistent; rrBLUP: intercept = training mean, monomorphic markers exactly 0, Gauss-Seidel never raises the energy so penalised SSE(u_hat) <= penalised SSE(0) for every tolerance and sweep limit, "
   "the returned iterate is always one sweep from its predecessor with residual_i = sum_{j>i} A_ij (last step)_j (characterises what is returned at maxiter), convergence within an explicit sweep count under strict diagonal dominance (ridge_dominance_iff); "
   "spec_sound + spec_complete for the values/statistics/alleles oracles, spec_sound for the Gauss-Seidel oracle and for clauses shapes/1/2/3 of the fitted-model oracle.",
   "Nelder-Mead/eigh only through 'ridge > 0' (ml_ridge_positive: exp/exp > 0; ridge recorded); BreedingValueMatrix.from_numpy round trip is C15's; plain numpy outputs compared at 2^-45, matrix outputs at 1e-9. "
   "Partial: normal_equations_partial / rrblup_normal_equations_partial (|residual| <= atol*row sums only when the loop stopped by tolerance), gegv_raw_eq_gm_partial (raw-array branch of the dominance model is diploid by documentation). "
   "Known findings: D22 gauss_seidel returns the unconverged iterate after maxiter=1000 sweeps on ill-conditioned n>p training sets; D22b rrBLUP_ML0(gsatol=0) performs no sweep and returns all-zero effects "
   "(counterexamples proved with decide +kernel; proposed patches patches/C04_D22.diff, patches/C04_D22b.diff).")
_c("C07",
   "28 theorems (Props/C07.lean): for every duplicate-free decision, shape and draw sequence the subset configuration has shape (ncross,nparent), entries in the decision, each member used q or q+1 times, and on exit no exchange of two entries lowers the "
   "number of self-pairings (hill-climb terminates; for two-way crosses no self-pairing at all); integer/binary encodings: support and count bounds; mate selection rows are cross-map rows; the cross map lists exactly the ascending k-tuples once; "
   "the sorting optimiser returns the top-k set (unique and permutation-equivariant when values are distinct, value-equivariant with ties); multi-objective choice = first argmax of weighted transformed front.",
   "stochastic_universal_sampling is an oracle input here (C17 owns it); objective evaluation is C05's; stochastic optimisers replaced by scripted fronts (C06). Partial: integer_share_partial, real_xconfig_partial, mate_real_xconfig_partial, "
   "truncation_unique_partial, truncation_perm_equivariant_partial. Known findings: D7 (SUS pointer count, C17's), D20 (integer remainder drawn from repeated options: shares off by up to d_i), "
   "D21 (UC integer problem bounds raise for ncross >= 2).")
_c("C18",
   "66 theorems (Props/C18.lean) about the model of the code WITH the repair of D10: block counts per chromosome are >= 1 and sum to the request for any positions "
   "and any request, never exceed the chromosome's marker count for totals up to the marker count (greedy loop incl. the literal numpy.where(full, inf, diff).argmin() "
   "= closed form); every marker gets one label, labels monotone, chromosome ranges disjoint, every label used; haplobin_bounds is the run-length partition of [0,p); "
   "FULL uses_requested_total: every valid layout (clustered positions, boundary ties; exact or any admissibly rounded linspace) and every total between chromosome "
   "count and marker count gives exactly n blocks, chromosome i exactly nblk[i], refusals exactly outside that range; all n block columns written and summing to g.u "
   "(hmat_fibre_conserved, haplomat_finite); OHV = ploidy * sum of per-block best candidates >= every block-boundary doubled haploid (any ploidy, sign, all traits), "
   "attained, monotone in / dependent only on the parent set; cross map = exactly the increasing parent tuples; chunk loop = row-wise for every mem; OPV / OHV latent "
   "(subset, weighted) / GB definitions; spec_sound for every clause incl. total, spec_iff for structural and value clauses.",
   "numpy linspace / argmin / unique / dot as modelled (layout executed at Float bit for bit and compared on every case; rounding contract RoundOK / ChromRoundOK "
   "derived from a relative-error model). No partial theorem. The code before the repair is kept as ...Prerepair with empty_bin_ / boundary_marker_ / "
   "guard_refusal_prerepair_counterexample and its exact characterisation (fewer_blocks_iff_empty_bin_prerepair, unwritten_columns_prerepair). "
   "No open finding (D10 fixed in /repo).")
_c("C09",
 "53 theorems (Props/C09.lean) over any ordered field, all matrices / sizes / ploidies / phase counts: every statistic equals its textbook definition on the raw calls; afreq in [0,1] and exactly 0/1 iff all copies equal; afixed = not apoly (both classes); ploidy+1 genotype classes summing to ntaxa; all 13 outputs of a phased matrix equal those of its projection; the literal {-1,m,1} column loop equals its closed form; div_form_exact for ANY monotone rounding fixing 0,1,e,1-e, instantiated by the concrete IEEE models roundBin t (t=52 binary64, 23 float32, 10 float16 - all compared bit for bit with numpy) and lifted through afreq/afixed/apoly/tafreq/maf and dtype casts; integer dtypes = truncation (cast frequency is 1 iff fixed at 1); spec_sound (unphased; phased + projection) and spec_iff (boundary clauses) for the 18-clause Spec oracle; memo soundness for an object-with-cache model iff every write invalidates.",
 "numpy integer sums, the correctly rounded division and the casts are entered through models compared bit for bit (float64/32/16) or exactly (integer casts) on every case. Partial, size bound ploidy*ntaxa*halfulp <= 1 proved tight (rounded_exact_full_statement_counterexample, ieee_size_bound_counterexample, narrow_float_size_bound_counterexample): afreq_rounded_exact_partial, pafreq_rounded_exact_partial, afreq_cast_exact_partial, afreq_ieee_exact_partial, afreq_float32/float16_exact_partial, afreq_int_cast_exact_partial, afreq_int64_exact_partial, tafreq_maf_ieee_exact_partial, gtfreq_div_form_exact_partial; in an integer dtype the '= 0 iff no copy' half is false for every implementation (afreq_int_cast_zero_half_counterexample). Stateful single-object histories, layouts, metadata, HDF5 round trips: harness kind history; statelessness itself: the cache model. D1/D16, D2 fixed in /repo (kept as counterexamples); no open finding. Observation: gtfreq uses (1/n)*count (patch proposed).")
_c("C10",
 "26 theorems (Props/C10.lean): lsl <= gebv(member) <= usl and collapse when all loci are fixed, for every population (phased with any number of phases, unphased of any ploidy), effect vector, trait and fixed effects (unscaled form); each of the seven mating protocols (literal segment-copy loop, any draws, nself, counts), select_taxa and IN-PLACE culling is a closed step; marker order is preserved through mating (tied to C01.metadata_carried_over); hence along EVERY closed history - phased, and unphased of any ploidy at dosage level - usl never increases, lsl never decreases, every descendant lies within every ancestor's limits, lost alleles stay lost; spec_sound of the trajectory Spec for both kinds of history, spec_iff of the step oracles.",
 "Partial: limits_rounded_exact_partial, limits_ieee_exact_partial, limits_rounded_exact_phased_partial (ploidy*ntaxa <= 2^53; bound necessary: limits_rounded_full_statement_counterexample). Z@u and BreedingValueMatrix scale/unscale compared with tolerance 1e-9; draws recorded and replayed for matings up to 900 uniforms (3600 scripted); mating exists for diploids only, so non-diploid histories are selection-only; limits also observed through usl(Z)/lsl(Z) with the default ploidy for diploids. D1 fixed in /repo; no open finding.")
_c("C15",
   "82 theorems (Props/C15.lean) over any ordered field and ANY sqrt function unless a part of its contract is named: unscale(from_numpy(raw)) = raw for every matrix incl. constant, NaN-bearing, all-NaN traits and 0 taxa; NaN stays NaN and does not influence other taxa; "
   "stored traits are centred with unit variance, a constant trait has location = the constant and scale 1 for EVERY sqrt (constancy is read off the data since the fix of D26); tmax/tmin/trange/tmean/tstd/tvar/targmax/targmin (unscale=True) equal numpy's on the raw trait, "
   "and (all but tmean) on unscale() in ANY state of the object and along every history of all nine taxa operations as they are; with ARBITRARY results of numpy.nanmean / nanstd in from_numpy / rescale the round trip, NaN positions, the constant-trait clause, every summary but tmean "
   "and every history of select/delete/insert/adjoin still hold exactly (history_refines_from_numpy_any_rounding); histories of the four class-defined operations (list or numpy index objects) refine the same edits of the raw data; exact as-is characterisations of the five inherited "
   "routines; the proposed overrides meet the full statement for all nine; Spec soundness / Spec<->Prop lemmas; DenseScaledMatrix transform/untransform/rescale/unscale on columns and on a heap of arrays with identities.",
   "numpy.sqrt through its contract; the affine arithmetic is exact (only the two reductions may round); taxa labels and numpy index normalisation are C03's; sort/group enter as the observed lexsort permutation. Partial: history_refines_from_numpy_partial, "
   "history_ix_refines_from_numpy_partial, history_preserves_raw_partial, history_summaries_partial, spec_sound_history_partial (operation set restricted because of D23-D25; necessity by the concat/append/incorp/remove_stale_location counterexamples). D9 and D26 fixed in /repo "
   "(tstd_prerepair_counterexample, inexact_mean_prerepair_counterexample kept). Known findings: D23 (inherited concat_taxa concatenates standardised values / TypeError for the estimated classes), D24 (inherited in-place append/incorp use the receiver's location/scale), "
   "D25 (in-place remove leaves location/scale stale); patch patches/C15_D23_D25.diff evaluated (0 Spec failures with it).")
_c("C05",
   "39 theorems (Props/C05.lean) over any ordered field and any square-root function: for every duplicate-free decision the subset, integer-count, binary-indicator and real (1/k) encodings give the same latent vector for every criterion family "
   "(EBV/GEBV/wGEBV/gwGEBV/random/EMBV/UC/OHV linear forms, OCS, mean relationship, mean heterozygosity, L1, L2, family, PAFD/PAU/MOGS); order independence for all families; the reported objectives are weights times the user transformation of the latent vector; "
   "norm via factor (C^T C = K => |Cc|^2 = c^T K c); cross map lists exactly the parent tuples once; factory data rows follow the taxa; UC / EMBV / OHV block-maximum definitions; the repaired PAU class equals its definition for every target frequency.",
   "Cholesky/jitter under the contract C^T C = K (re-checked on every factory case); variance factories stubbed (C12); haplotype bounds observed (C18); numpy.power/arcsin values handed to the model. "
   "Partial: scale_invariant_partial and encodings_agree_real_total_partial (outside the 1e-10 total guard; counterexample inside). D50-D54 fixed in /repo (pre-repair counterexamples kept).")
_c("C17",
   "27 theorems (Props/C17.lean) over any ordered field with floor, all lengths/sizes/shapes and every value the generator can deliver: SUS returns exactly prod(size) draws, every draw is an index of p, each element is chosen floor or ceiling of its expected count "
   "for EVERY offset in [0, ptr_dist) incl. 0, zero weight is never selected; sus_loop_safe_under_any_rounding: with pointers, cumulative sums and comparison outcomes arbitrary the guarded loop still yields one index per pointer, never raises, never selects zero weight; "
   "tiled_choice: counts differ by at most one, exactly n mod m options get the extra use; axis_shuffle permutes only within the requested slices (literal sliceaxisix recursion characterised); outcross_shuffle preserves the multiset, never increases "
   "the repeats (total and per row), terminates, and on exit no exchange of two entries lowers the total.",
   "argsort/shuffle/choice/uniform results are oracle inputs validated against what the call can return and replayed on a second generator (crafted MT19937 states give u = 0, 2^-53, 1-2^-53). Binary64 residual: the floor/ceil clause is proved over exact scalars; "
   "an interior pointer within one rounding unit of a cumulative boundary is covered by correspondence + per-run Spec only. axis_shuffle is modelled in gather form (tied to the in-place slice loop by correspondence). D7a/b/c fixed in /repo (pre-repair counterexamples kept).")
_c("C16",
   "44 theorems (Props/C16.lean): an HDF5 file as a finite map path -> dataset (a group made on purpose = a marker entry); for ANY sequence of overwriting to_hdf5 calls of ANY persistable class "
   "(the 11 classes of the property incl. the parameter-free TruePhenotyping, the 7 base classes of core.mat, the (n,n,t,t) covariance matrices) whose datasets / group markers are prefix-free, "
   "from_hdf5 at a location - by path and by group NAME in any spelling - returns exactly the object written there last (poorer-over-richer included), other groups do not interfere and a group made on purpose persists "
   "(hdf5_last_write_wins, hdf5_named_group_roundtrip, tp_hdf5_roundtrip: all full); overwrite=False refuses and leaves the file unchanged; group strings matter only through their normalised path; "
   "shallow and deep copies equal the source, deep copies share no cell (flat model and copy.deepcopy on object graphs with memo / nested instances), shallow copies share exactly the arrays inside dictionaries; "
   "VCF import reproduces names, coordinates, identifiers and every phased call in (phase, taxon, variant) order (grouped: a permutation, labels and calls travel together); "
   "every data-frame layout (breeding values wide, coancestry wide, variance long for any number of parental axes, both genetic maps with matching units, model dictionaries) round-trips with matching options, CSV through an abstract lawful dialect; "
   "Spec oracles: spec_obj_iff, hdf5_/copy_/vcf_spec_sound.",
   "h5py / pandas / CSV cell printing+parsing / cyvcf2 / scipy interp1d entered through 'a dataset (column, record field) read equals the one written'; from_numpy re-standardisation is C15's; "
   "interpolation splines of genetic maps are compared by behaviour (Spec only); implicit HDF5 groups are not tracked (they never become empty in a history of complete writes). "
   "No _partial theorem and no open finding. D8, D29, D30 fixed in /repo (pre-repair counterexamples kept: stale_field_, str_hyperparam_, tp_named_group_prerepair_counterexample).")
_c("C03",
   "58 theorems (Props/C03.lean) about a generic label-bundle model (3-level array, or r nested taxa axes over a trait vector, + taxa/vrnt/trait label bundles + group metadata + class schema): every numpy primitive used commutes with map, so data and each label array move by ONE index list; "
   "for every history of select/delete/remove/reorder/sort/group/ungroup/adjoin/append/insert/incorp/concat (every index form incl. boolean masks and unsorted numpy.insert positions, any length) every labelled cell of the result is a labelled cell of the initial state or of an operand block; "
   "growing a square matrix loses no data cell and puts the fill value into the cross blocks only (square_adjoin_keeps_every_data_cell, full); a matrix that reports itself grouped has metadata that are a true contiguous partition, preserved by EVERY history (grouped_invariant, full; square_nd_grouped_invariant for any number of taxa axes); "
   "mutating = pure; generic = specific (full); histories over several live objects that share label arrays refine the value semantics (shared_arrays_history_refines_values, operation_leaves_other_objects_unchanged); masked / unphased genotyping keep cells attached (full for DensePhasedGenotypeMatrix) and partitions true; "
   "every Bool oracle of the driver has spec_sound / spec_iff (partition, consistent, lcells, grouped, N-D, fill balance). 22 classes (incl. three-/four-way variance matrices and DenseSquareTraitMatrix) + 3 genotyping protocols are driven through random and directed (alias) histories with full state comparison of ALL live objects after every step.",
   "numpy primitives as modelled (differentially tested each run incl. the scalar-insert rule, mask / unsorted insert); copy.deepcopy trusted; ndarray identity / shares_memory as the observation of sharing. Partial: operand_op_attached_partial / history_preserves_entities_partial / unary_op_attached_partial / mutating_eq_pure_partial / insert_any_position_form_attached_partial / insert_zero_dim_leading_axis_attached_partial exclude exactly the known findings, each with its counterexample theorem: "
   "D14 (square-taxa single-axis insert/incorp/concat: non-square result), D14b (the same in DenseSquareTraitMatrix' own code), D17b (0-d ndarray insert position on a non-leading axis is not wrapped), D27 (square-taxa-trait pure ops drop the other bundle's labels). "
   "Repairs exist as patches/C03_D14.diff, C03_D14b.diff, C03_D17b.diff, C03_D27.diff; the repaired models are proved (square_*_repaired_*, square_taxa_trait_repaired_history_attached) and the patched tree passes the check in repair-validation mode (C03_REPAIRED=1: 4840 cases, corr and Spec hold, no finding consulted). "
   "DenseBreedingValueMatrix in-place append/incorp/concat are C15's (D23/D24); progeny covariance classes (two square bundles, 4-D/5-D) not exercised. D3, D4, D17, D28 fixed in /repo.")
_c("C12",
   "57 theorems (Props/C12.lean) over any field of characteristic 0 (ordered field where an order is needed; R for Haldane): the chunked double sums tile [lst,lsp) for every step (exact multiples and one-marker groups as explicit theorems), so every cell is independent of `mem`; the loops of from_algmod as written (zeros, +=, *= 0.25, mirror loop; the genic loops over numpy.empty) compute the closed forms and write every cell; for the two-, three-, four-way and dihybrid schemes, ALL parent tuples (self hybrids included) and EVERY finite selfing depth the cell equals the covariance of doubled-haploid values obtained by exhaustive enumeration of all crossover masks of all meioses (second-moment selfing recursion proved: nself > 0 is a theorem); rprob_filial / cov_D1s / cov_D2s / cov_D1st / cov_D2st closed forms for every k, monotone, geometric limit; nself = inf is the limit with explicit error term; genic matrices = free-recombination enumeration (all four classes, diagonal included); symmetry in exchangeable parents and in the trait pair, zero for identical parents, taxa equivariance, variances >= 0, progeny mean; the cross map lists exactly the (strictly) increasing tuples; every row of the UC matrix for ANY list of configurations, with the repaired cell formula mean + i*sqrt(max(var,0)), equals mean + i*sqrt(enumerated variance) (the clip is the identity by variance_nonneg); with Haldane positions the code's pairwise r composes as required (eq_enum_haldane over R); Spec oracle spec_iff / spec_sound; pair_marginal justifies the pairwise oracle.",
   "Trusted: independence of crossover indicators (C01/C02), numpy.exp, the normal pdf/ppf of the selection intensity, IEEE arithmetic as exact arithmetic to 1e-12 of the natural scale. Spec = equality with enumeration computed three ways (Lean covOf up to 11 mask bits; exact Fraction enumerator; pairwise enumerator for deep selfing / many markers / float positions). No partial theorem; the uc_def / ucmat_rows theorems assume crossover probabilities in [0,1]. D15, D30-D33 and D37 fixed in /repo (pre-repair counterexamples kept; D37: Float witness uc_sqrt_of_rounded_variance_prerepair_counterexample, Float example that the repaired expression returns the parental mean, regression case in the corpus, mutant that undoes the repair). Not covered: the four pcvmat *ProgenyGenicCovarianceMatrix classes (marked UNDER CONSTRUCTION, not constructible).")
_c("C06",
   "51 theorems (Props/C06.lean): the sorting optimiser's k-prefix minimises c*sum(key) over all duplicate-free selections for ANY tie order numpy's argsort may return, is feasible, and satisfies the brute-force Spec oracle (optimum_spec_iff, sorting_spec_sound); both steepest-descent hill climbers and the older steepest-ascent copy terminate (proved, not assumed) for every evaluation function, keep soln++wrk a permutation, report the evaluation of the returned decision, and on exit no single exchange has a lexicographically smaller (cv, score) - exact comparison, every magnitude - which is exactly the Spec oracle (local_opt_spec_iff, hillclimb_spec_sound); sampling is feasible iff replace=False; crossover, mutation, memetic neighbourhoods, MutatorA/B.hillclimb and the stochastic climb preserve feasibility for every draw, hence every individual reachable through ANY history of operators and arbitrary re-selection is feasible; the Solution assembled from res.X/F/G/H of ANY final member set is truthful row by row, signed constraint values included (ga_solution_truthful, truthful_spec_iff; exact optimisers: exact_solution_truthful); non-domination oracle characterised (nondominated_spec_iff); integer operators: clamp + round-half-even stays integral and inside integer bounds for every raw value and negative bounds (integer_ops_in_bounds, full).",
   "pymoo's evolutionary loop and SBX/PM arithmetic before the final clamp are not modelled: that each returned member carries the vectors Problem._evaluate handed over, and mutual non-domination of what the 16 optimiser classes return, are relational checks (Lean Spec on every returned Solution, c06.assemble on the recorded res arrays) on every run; NSGA-III reference directions not modelled; statelessness across calls (histories: re-assigned weights / candidate set / bounds, released problem objects, edited Solutions) is correspondence + Spec only. numpy argsort returns some sorting permutation; np.random draws inside pymoo_addon recorded through a proxy module and replayed through the model. Partial: integer_round_in_bounds_partial (bare rounding; necessity by integer_round_without_clamp_counterexample), evaluate_batch_partial (elementwise=True; D42 counterexample), hillclimb_local_opt_violation_key_partial (penalty-style constraint functions; D41 counterexample). Findings: D41 (climbers rank by the raw sum of signed constraint values), D42 (Problem._evaluate vectorised branch `v *args`), patches proposed. D6, D34, D35 fixed in /repo.")
