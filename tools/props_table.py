"""Single source for MANIFEST.json: per property, whether a check is claimed and its texts."""

NOT_YET = "check not built yet in this round (design in DESIGN.md section 6); will be claimed when its Props file, driver ops and harness exist"

# pid -> dict(technique, level_text, level_note, design_ref)   (only claimed properties)
CLAIMED = {
    "C19": dict(
        technique="Lean 4 proof (invariant induction over the filter loop; order-theoretic lemmas) + differential correspondence with the Python implementation",
        level_text=("Theorems in lean/PybropsModel/Props/C19.lean about an executable Lean model of is_pareto_efficient / "
                    "dominates / the distance transformations, for all point sets, weights and sizes; the model is tied to "
                    "/repo on every run by running model and implementation on the same generated inputs and by evaluating "
                    "the decidable Spec on the implementation's outputs."),
        level_note=("Trusted: Lean kernel, axioms propext/Classical.choice/Quot.sound, Mathlib; harness + Driver.lean; numpy primitives and "
                    "float arithmetic (exact on the generated dyadic inputs, tolerance 1e-9 for distances); numpy.linalg.norm."),
        design_ref="6 C19",
    ),
}
