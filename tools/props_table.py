"""Single source for MANIFEST.json: per property, whether a check is claimed and its texts."""

NOT_YET = "check not built yet in this round (design in DESIGN.md section 6); will be claimed when its Props file, driver ops and harness exist"

# pid -> dict(technique, level_text, level_note, design_ref)   (only claimed properties)
CLAIMED = {
    "C19": dict(
        technique="Lean 4 proof (invariant induction over the filter loop; order-theoretic lemmas) + differential correspondence with the Python implementation",
        level_text=("Theorems in lean/PybropsModel/Props/C19.lean about an executable Lean model of is_pareto_efficient / "
                    "dominates / the distance transformations, for all point sets, weights and sizes; the model is tied to "
                    "/repo on every run by running model and implementation on the same generated inputs and by evaluating "
                    "the decidable Spec on the implementation's outputs."),
        level_note=("Trusted: Lean kernel, axioms propext/Classical.choice/Quot.sound, Mathlib; harness + Driver.lean; numpy primitives and "
                    "float arithmetic (exact on the generated dyadic inputs, tolerance 1e-9 for distances); numpy.linalg.norm."),
        design_ref="6 C19",
    ),
}

TECH = "Lean 4 proof about an executable hand-written model + differential correspondence with the Python implementation (Spec oracle evaluated on the implementation's outputs)"
COMMON_NOTE = ("Trusted: Lean kernel, axioms propext/Classical.choice/Quot.sound, the Mathlib modules imported by the proof files; "
               "harness + Driver.lean + JSON codec (differential testing, not proof); numpy primitives as modelled; IEEE arithmetic abstracted "
               "as exact arithmetic with tolerance on integer/dyadic inputs. ")

def _c(pid, text, note, ref=None, technique=None):
    CLAIMED[pid] = dict(technique=technique or TECH, level_text=text, level_note=COMMON_NOTE + note, design_ref=ref or f"6 {pid}, 12")

_c("C02",
   "36 theorems (Props/C02.lean): the segment-copy loop equals the parity mosaic with strict `<`; under independent Bernoulli(x_k) crossover "
   "indicators the pairwise/adjacent/segregation/joint/independence laws hold for all marker counts and vectors; map-derived probabilities are 1/2 at "
   "chromosome starts and Haldane composes over any number of intervals (over R); push-forward from grid-uniform draws; weak law for repeated meioses. "
   "Correspondence: six meiosis functions + seven protocols with scripted and crafted genuine generator states (ties, 0, 1-2^-53).",
   "Generator contract (independent draws uniform on k/2^53) is trusted; statistical runs at fixed seeds with a Bernstein budget are supporting evidence only. "
   "Partial: draws_pushforward_exact_partial, spec_iff_model_partial. Kosambi composition for non-adjacent markers not covered.")
_c("C11",
   "34 theorems (Props/C11.lean): Haldane/Kosambi zero, limit 1/2, range, (strict) monotonicity and both inverse directions over R on [0,inf]; pairwise distances symmetric, "
   "zero diagonal, additive for ordered markers, +inf exactly across chromosomes, sequential = adjacent pairwise; interpolation returns stored positions at markers, is linear between, "
   "order preserving on congruent maps, NaN exactly for absent chromosomes, independent of row order; xoprob definition. The literal numpy.unique loop and the searchsorted/clip "
   "transcription are proved equal to their closed forms.",
   "scipy interp1d entered through its transcribed formula (re-checked per case); libm exp/tanh compared at 1e-12; partial: gdist1 loop = closed form needs contiguous labels "
   "(documented precondition), xoprob_range_partial.")
_c("C13",
   "40 theorems (Props/C13.lean): molecular coancestry = twice mean IBS (allele-pair counting) for ploidy 1/2 and all sizes; VanRaden/Yang (as written, any sqrt)/weighted "
   "formulas entry by entry; symmetry; PSD in Gram form; commutation with any taxa index list (permutation, subset, repeats) for supplied frequencies incl. labels; kinship = half; "
   "max/min/mean/max_inbreeding specs; min_inbreeding optimal and attained under the inverse contract (Cauchy-Schwarz).",
   "numpy.linalg.inv / eigvals entered through contracts (A*Ainv = I re-checked against exact Gauss-Jordan on well-conditioned cases). Partial: min_inbreeding_*_partial "
   "(solver contract). apply_jitter, group metadata, I/O not modelled.")
_c("C20",
   "13 theorems (Props/C20.lean): for every schedule equal to the canonical skeleton up to no-ops, ALL replicate/generation counts, operators (arbitrary functions with internal state that may mutate, alias "
   "and allocate, constrained only by a frame condition), heaps and initial states: the recorded trace is (evaluate@0, log, (pselect,log,mate,log,evaluate,log,sselect,log)@g)^nrep, each call is handed its predecessor's "
   "result, the clock advances once per generation, every replicate starts from a fresh equal copy, start containers keep their contents. The schedule is REGENERATED from "
   "RecurrentSelectionBreedingProgram.py by an ast translator on every run; `WellFormed C20Schedule.evolve` is closed by `decide` and breaks when the call skeleton changes.",
   "copy.deepcopy = fresh cell with equal content (trusted); the ast->Lean translator (validated each run: the regenerated schedule is executed by the driver and its trace compared with the real class); "
   "concrete operator classes are the quantified parameter.",
   technique="Lean 4 proof (invariant over a heap semantics) about a schedule regenerated from the source by a translator + trace correspondence with the real class")
_c("C01",
   "17 theorems (Props/C01.lean) about an executable model of mat_meiosis/mat_mate/mat_dh and the seven mate() methods, for all sizes, selfing depths, counters and draws: the literal segment-copy loop equals "
   "the parity mosaic; the source copy switches only where xoprob > 0; every progeny copy is a mosaic of exactly the haplotypes the cross configuration assigns to that side (and the pedigree of intermediate hybrids exists); "
   "DH progeny homozygous; count = sum nmating*nprogeny; family labels, names, counters; the Spec oracle (a reachability DP) is proved to decide the mosaic predicate and to accept every model output.",
   "numpy repeat/lexsort/unique as modelled (differentially tested each run); generator contract 0 <= u; marker metadata and parents-untouched are pass-through checked by snapshots. "
   "Partial: order_preserved_partial (generation order needs progeny_counter+count <= 10^7 because group_taxa sorts names lexicographically; counterexample proved).")
_c("C14",
   "21 theorems (Props/C14.lean): the transcribed env/rep double loop equals its closed form; exactly one record per (taxon, env, rep) with that taxon's labels, for any layout and draw stream; zero noise returns the true values; "
   "heritability algebra (var_A/(var_A+var_err) = h2, necessity of var_A > 0, per-trait setter); mean-phenotype breeding values equal each taxon's arithmetic mean over its records, are aligned to any genotype taxa list "
   "(re-ordering, subsetting, repeats), missing for unphenotyped taxa, invariant under row permutation; noiseless end-to-end pipeline returns truth.",
   "pandas groupby entered through the contract 'one row per distinct key, per-column mean' (re-checked by the Spec); multivariate_normal draws are oracle inputs (call pattern and covariance arguments compared). "
   "Partial: realised_error_variance_partial (the almost-sure limit of realised variances needs the generator's law; only tested statistically at fixed seeds with a 7-sigma band); meanBV_eq_mean_partial (one name, one group).")
_c("C08",
   "26 theorems (Props/C08.lean) about an abstract stream model (python stream, numpy global, OS entropy oracle, caller generators, spawned handles) with ARBITRARY component semantics constrained only by a dependency set: "
   "after seed s the outputs of any program whose components do not read OS entropy coincide for all prior histories; a component that depends only on the generator it is handed returns a function of that generator and leaves "
   "python/numpy globals untouched, whatever is interleaved; spawn is a deterministic function of the python stream. The dependency table of 39 real components (mating x7, phenotyping, samplers, sampled configurations, "
   "optimisers, jitter, EMBV, select(), spawn) is MEASURED on every run (state digests, interception of os.urandom/default_rng/numpy.random.*, perturbation runs) and written to Generated/C08Deps.lean; the obligations "
   "table_unseeded_known / table_leaks_known are closed by `decide` and stop compiling when a component starts reading an unseeded source or leaks out of its explicit generator.",
   "The theorems are conditional on the measured table (dynamic, per explored call) - partial by construction: table_reproducible_partial, table_isolated_partial; sha1 digests stand for bit-identity; hash randomisation, threads, BLAS outside the model. "
   "Known findings D11b, D12b (what remains after the D11/D12 repairs).",
   technique="Lean 4 proof (agreement/frame invariants over an abstract stream semantics) + dependency table regenerated from measurements of the real components on every run, obligations closed by decide + whole-program differential replays")
