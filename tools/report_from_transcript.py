#!/usr/bin/env python3
"""usage: report_from_transcript.py <agent transcript .output (JSONL)> <pid>  -- writes /tmp/wk/<pid>/REPORT4.md from the LAST assistant
text block of the transcript that contains `_c("<pid>",` (builders whose Write tool refused the report file)."""
import json, sys, os
path, pid = sys.argv[1], sys.argv[2]
best = None
def texts(o):
    if isinstance(o, dict):
        if o.get("type") == "text" and isinstance(o.get("text"), str):
            yield o["text"]
        for v in o.values():
            yield from texts(v)
    elif isinstance(o, list):
        for v in o:
            yield from texts(v)
for line in open(path, errors="replace"):
    try:
        o = json.loads(line)
    except Exception:
        continue
    for t in texts(o):
        if f'_c("{pid}",' in t:
            best = t
if best is None:
    raise SystemExit("no text block with the entry found")
os.makedirs(f"/tmp/wk/{pid}", exist_ok=True)
open(f"/tmp/wk/{pid}/REPORT4.md", "w").write(best)
print("wrote", f"/tmp/wk/{pid}/REPORT4.md", len(best))
