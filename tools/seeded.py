#!/usr/bin/env python3
"""Seeded-change bookkeeping.
  seeded.py verify <src_dir> <id>   confirm demo passes clean / fails patched / pinned tests still 92 passed
                                    in a scratch worktree, then keep it as /verif/seeded/<id>/
  seeded.py run <id> [tier]         apply seeded/<id>/patch.diff to /repo, run the property's check, undo
"""
import json, os, shutil, subprocess, sys, re, time
VERIF = os.path.dirname(os.path.dirname(os.path.abspath(__file__)))
PY = "/venv/bin/python"

def sh(cmd, cwd=None, timeout=3600):
    p = subprocess.run(cmd, shell=True, cwd=cwd, capture_output=True, text=True, timeout=timeout)
    return p.returncode, (p.stdout + p.stderr)

def verify(src, sid):
    meta = json.load(open(os.path.join(src, "meta.json")))
    wt = f"/tmp/sw_{sid}"
    sh(f"git -C /repo worktree remove --force {wt}")
    rc, out = sh(f"git -C /repo worktree add --detach {wt} HEAD")
    assert rc == 0, out
    ran = []
    try:
        rc0, o0 = sh(f"{PY} {src}/demo.py {wt}", timeout=1800)
        ran.append(f"demo on clean worktree: exit {rc0}")
        rc, out = sh(f"git -C {wt} apply {src}/patch.diff")
        assert rc == 0, "patch does not apply: " + out
        rc1, o1 = sh(f"{PY} {src}/demo.py {wt}", timeout=1800)
        ran.append(f"demo with patch: exit {rc1}: {o1.strip().splitlines()[-1][:200] if o1.strip() else ''}")
        rc2, o2 = sh(f"{PY} -m pytest -q -p no:cacheprovider --timeout=900 --continue-on-collection-errors 2>&1 | tail -1", cwd=wt)
        ran.append("pinned tests with patch: " + o2.strip())
        ok = rc0 == 0 and rc1 != 0 and re.search(r"\b92 passed", o2) is not None
    finally:
        sh(f"git -C /repo worktree remove --force {wt}")
    print("\n".join(ran))
    if not ok:
        print("NOT CONFIRMED"); return 1
    dst = os.path.join(VERIF, "seeded", sid)
    os.makedirs(dst, exist_ok=True)
    shutil.copy2(os.path.join(src, "patch.diff"), dst)
    shutil.copy2(os.path.join(src, "demo.py"), dst)
    meta["confirmed"] = ran
    json.dump(meta, open(os.path.join(dst, "meta.json"), "w"), indent=1)
    print("kept as", dst); return 0

def run(sid, tier="quick"):
    """apply the seeded patch in a scratch worktree of /repo's HEAD and run the property's check on it
    (PYBROPS_REPO=<worktree>), so that other work using /repo is not disturbed; `run_inplace` applies it to
    /repo itself exactly as the brief describes."""
    d = os.path.join(VERIF, "seeded", sid)
    meta = json.load(open(os.path.join(d, "meta.json")))
    pid = meta["property"]
    wt = f"/tmp/sr_{sid}"
    sh(f"git -C /repo worktree remove --force {wt}")
    rc, out = sh(f"git -C /repo worktree add --detach {wt} HEAD")
    assert rc == 0, out
    t = time.time()
    gen = os.path.join(VERIF, "lean", "PybropsModel", "Generated")
    bak = f"/tmp/sr_{sid}_generated"
    regen = pid in ("C08", "C20")      # these checks rewrite Generated/C08*, C20*; PyK_<pid>.lean is restored per file below
    pyk = os.path.join(gen, f"PyK_{pid}.lean")
    r_, pyk_head = sh(f"git -C {VERIF} show HEAD:lean/PybropsModel/Generated/PyK_{pid}.lean")
    pyk_bak = pyk_head if (r_ == 0 and os.path.exists(pyk)) else None     # the committed snapshot (kernels of /repo HEAD)
    if regen:
        shutil.rmtree(bak, ignore_errors=True)
        shutil.copytree(gen, bak)      # regenerated files are put back exactly as they were before this run
    try:
        rc, out = sh(f"git -C {wt} apply {d}/patch.diff")
        if rc != 0:
            print(sid, "patch does not apply to current HEAD:", out.strip()[:200])
            meta.setdefault("check_results", {})[tier] = {"tier": tier, "caught": None, "note": "patch no longer applies to /repo HEAD (superseded by a fix commit)"}
            json.dump(meta, open(os.path.join(d, "meta.json"), "w"), indent=1)
            return 0
        rc, out = sh(f"PYBROPS_REPO={wt} ./check {pid} --tier {tier}", cwd=VERIF, timeout=7200)
    finally:
        sh(f"git -C /repo worktree remove --force {wt}")
        if regen:
            for fn in os.listdir(bak):
                if not fn.startswith("PyK_"):
                    shutil.copy2(os.path.join(bak, fn), os.path.join(gen, fn))
            shutil.rmtree(bak, ignore_errors=True)
        if pyk_bak is not None and open(pyk).read() != pyk_bak:
            open(pyk, "w").write(pyk_bak)     # kernel file regenerated from the mutant tree: put the snapshot back
    lines = [l for l in out.splitlines() if l.startswith(("VIOLATION", "KNOWN-FINDING", "HARNESS-ERROR", f"[{pid}]"))]
    res = {"tier": tier, "exit": rc, "caught": rc == 1 and any(l.startswith("VIOLATION") for l in lines),
           "with_failing_input": any(l.startswith("VIOLATION") and "no-failing-input-found" not in l for l in lines),
           "lines": [l[:400] for l in lines][-6:], "wall_s": round(time.time() - t, 1),
           "repo_head": sh("git -C /repo rev-parse --short=8 HEAD")[1].strip()}
    meta.setdefault("check_results", {})[tier] = res
    json.dump(meta, open(os.path.join(d, "meta.json"), "w"), indent=1)
    print(sid, json.dumps(res)[:900])
    return 0

if __name__ == "__main__":
    if sys.argv[1] == "verify":
        sys.exit(verify(sys.argv[2], sys.argv[3]))
    sys.exit(run(sys.argv[2], *(sys.argv[3:4])))
