#!/usr/bin/env python3
"""Copies a builder's files from /tmp/wk/<pid>/verif into /verif.  New files are copied; changes to
shared tracked files are only listed (to be merged by hand); KNOWN_FINDINGS lines are appended."""
import os, shutil, subprocess, sys
pid = sys.argv[1]
src = f"/tmp/wk/{pid}/verif"
dst = os.path.dirname(os.path.dirname(os.path.abspath(__file__)))
out = subprocess.run(["git", "-C", src, "status", "--porcelain", "-uall"], capture_output=True, text=True).stdout
SHARED_OK = {"lean/PybropsModel/Drv/All.lean", "lean/PybropsModel.lean", "KNOWN_FINDINGS.txt", "MANIFEST.json"}
# shared infrastructure: never overwritten from a builder's copy (changes there are merged by hand)
INFRA = {"harness/core.py", "harness/bridge.py", "harness/canon.py", "harness/compat.py", "harness/findings.py", "harness/main.py",
         "harness/__init__.py", "lean/PybropsModel/J.lean", "lean/PybropsModel/Np.lean", "lean/Driver.lean", "lean/AuditCmd.lean",
         "lean/lakefile.toml", "check", "DESIGN.md", "AGENT_GUIDE.md", "properties.jsonl"}
OWN = sys.argv[2:] or None      # optional: only take files whose path mentions one of these substrings (e.g. C09 C10 Genotype SelLimit)
for line in out.splitlines():
    st, path = line[:2], line[3:]
    if path.startswith(("evidence/", "seeded/", "tools/", "lean/.lake")) or "__pycache__" in path:
        continue
    if path.startswith("patches/") and pid not in path:
        continue
    if st.strip() == "??" or st.strip() == "A":
        os.makedirs(os.path.dirname(os.path.join(dst, path)) or dst, exist_ok=True)
        shutil.copy2(os.path.join(src, path), os.path.join(dst, path))
        print("copied ", path)
    elif path == "KNOWN_FINDINGS.txt":
        have = set(open(os.path.join(dst, path)).read().splitlines())
        new = [l for l in open(os.path.join(src, path)).read().splitlines() if l not in have and f"property={pid} " in l]
        if pid == "C09":
            new += [l for l in open(os.path.join(src, path)).read().splitlines() if l not in have and "property=C10 " in l]
        with open(os.path.join(dst, path), "a") as f:
            for l in new:
                f.write(l + "\n")
                print("finding ", l[:150])
    elif path in SHARED_OK or path.startswith(("tools/", "seeded/")):
        pass
    elif path in INFRA:
        print("MODIFIED shared file (merge by hand):", path)
    elif st.strip() in ("M", "MM", "AM"):
        low = pid.lower()
        # a builder that started from a fresh copy modifies its own (tracked) files: take them; other properties' files are left alone
        owner_ok = (pid in path or low in path) or (OWN and any(o in path for o in OWN))
        if owner_ok or not any(f"C{n:02d}" in path or f"c{n:02d}" in path for n in range(1, 21)):
            base = subprocess.run(["git", "-C", src, "show", f"HEAD:{path}"], capture_output=True).stdout
            cur = open(os.path.join(dst, path), "rb").read() if os.path.exists(os.path.join(dst, path)) else base
            if cur == base:
                shutil.copy2(os.path.join(src, path), os.path.join(dst, path))
                print("updated", path)
            else:
                # the shared tree changed this file after the builder copied it (another property's integration): 3-way merge
                import tempfile
                with tempfile.TemporaryDirectory() as td:
                    open(os.path.join(td, "base"), "wb").write(base)
                    r = subprocess.run(["git", "merge-file", "-p", os.path.join(dst, path), os.path.join(td, "base"), os.path.join(src, path)],
                                       capture_output=True)
                if r.returncode == 0:
                    open(os.path.join(dst, path), "wb").write(r.stdout)
                    print("MERGED (3-way, clean)", path)
                else:
                    shutil.copy2(os.path.join(src, path), os.path.join(dst, path) + ".theirs")
                    print("CONFLICT (left as is; builder's version saved as .theirs):", path)
        else:
            print("SKIPPED (belongs to another property):", path)
subprocess.run([sys.executable, os.path.join(dst, "tools", "regen_lean_index.py")])
