#!/usr/bin/env python3
"""Copies a builder's files from /tmp/wk/<pid>/verif into /verif.  New files are copied; changes to
shared tracked files are only listed (to be merged by hand); KNOWN_FINDINGS lines are appended."""
import os, shutil, subprocess, sys
pid = sys.argv[1]
src = f"/tmp/wk/{pid}/verif"
dst = os.path.dirname(os.path.dirname(os.path.abspath(__file__)))
out = subprocess.run(["git", "-C", src, "status", "--porcelain", "-uall"], capture_output=True, text=True).stdout
SHARED_OK = {"lean/PybropsModel/Drv/All.lean", "lean/PybropsModel.lean", "KNOWN_FINDINGS.txt", "MANIFEST.json"}
for line in out.splitlines():
    st, path = line[:2], line[3:]
    if path.startswith("evidence/") or "__pycache__" in path or path.startswith("lean/.lake"):
        continue
    if st.strip() == "??" or st.strip() == "A":
        os.makedirs(os.path.dirname(os.path.join(dst, path)) or dst, exist_ok=True)
        shutil.copy2(os.path.join(src, path), os.path.join(dst, path))
        print("copied ", path)
    elif path == "KNOWN_FINDINGS.txt":
        have = set(open(os.path.join(dst, path)).read().splitlines())
        new = [l for l in open(os.path.join(src, path)).read().splitlines() if l not in have]
        with open(os.path.join(dst, path), "a") as f:
            for l in new:
                f.write(l + "\n")
                print("finding ", l[:150])
    elif path in SHARED_OK:
        pass
    else:
        print("MODIFIED shared file (merge by hand):", path)
subprocess.run([sys.executable, os.path.join(dst, "tools", "regen_lean_index.py")])
