#!/usr/bin/env python3
"""Record the source-watch baseline for /repo's HEAD (run after every fix: commit; requires a clean tree)."""
import json, os, subprocess, sys
here = os.path.dirname(os.path.abspath(__file__))
sys.path.insert(0, os.path.dirname(here))
from harness import srcwatch
st = subprocess.run(["git", "-C", "/repo", "status", "--porcelain", "--", "pybrops"], capture_output=True, text=True).stdout.strip()
if st:
    sys.exit("refusing: /repo working tree has uncommitted changes under pybrops/:\n" + st)
head = subprocess.run(["git", "-C", "/repo", "rev-parse", "HEAD"], capture_output=True, text=True).stdout.strip()
json.dump({"repo_head": head, "files": srcwatch.hashes("/repo")}, open(srcwatch.BASELINE, "w"), indent=0, sort_keys=True)
print("baseline recorded for", head)
