#!/usr/bin/env python3
"""Round 4 task text for the builder of one property (private copy /tmp/wk/<pid>/verif).
Round 4 = (F) follow the repairs of known findings that are about to be committed to /repo as `fix:` commits,
(A) catch the seeded changes still missed, (B) more of the code in the model / more full theorems / tighter tie."""
import sys, os
sys.path.insert(0, os.path.dirname(os.path.abspath(__file__)))
import round3_prompts as r3

FIXES = {
"C01": ("D70", "/verif/patches/C01_D70.diff", "SelfCross / TwoWayCross / ThreeWayCross form nmating*nprogeny in int64 (no wrap-around for narrow count dtypes)"),
"C11": ("D110", "/verif/patches/C11_D110.diff", "interp_gmap leaves the derived map ungrouped instead of copying the parent's stale group metadata"),
"C14": ("D60", "/verif/patches/C14_D60.diff", "G_E_Phenotyping.nenv setter keeps the replicate array consistent"),
"C15": ("D26", "/verif/patches/C15_D26.diff", "constant trait (min == max) gets location = value, scale = 1 whatever the float mean rounds to (DenseBreedingValueMatrix.from_numpy and DenseScaledMatrix.rescale)"),
"C16": ("D30", "/verif/patches/C16_D30.diff", "TruePhenotyping.to_hdf5 creates the named group"),
"C18": ("D10", "/verif/patches/C18_D10.diff", "nhaploblk_chrom never gives a chromosome more blocks than markers; haplobin falls back to equal-count blocks when an equal-width bin is empty"),
}

FIXTXT = """GOAL F (FIRST) — FOLLOW A REPAIR.  The known finding {did} of {pid} is a genuine defect with a small safe patch: {path}  ({what}).  It is going to be committed to /repo as an unguarded `fix:` commit as soon as your model follows it.  Do this first:
  git -C /repo worktree add --detach /tmp/wk/{pid}/wt HEAD && git -C /tmp/wk/{pid}/wt apply {path}
  (review the patch critically: if it is wrong, incomplete, or not what a maintainer would accept, write a better minimal one as /tmp/wk/{pid}/patch_{did}.diff and say why; the 92 pinned tests must still pass: `cd /tmp/wk/{pid}/wt && /venv/bin/python -m pytest -q -p no:cacheprovider --timeout=900 --continue-on-collection-errors 2>&1 | tail -1` gives `1 failed, 92 passed, 305 errors` on the unchanged tree too).
  Then make the model mirror the REPAIRED code: keep the old definition under a `…Prerepair` name with its `…_prerepair_counterexample` (as was done for the earlier fixes, e.g. C03.reorder_after_group_prerepair_counterexample), prove the FULL statement for the repaired model (remove the `_partial` hypotheses that only existed because of {did}), turn the finding's corpus case into a regression case that must now PASS, delete the `finding:` line(s) of {did} from KNOWN_FINDINGS.txt in your copy and add `fixed: property={pid} <commit> {did} <what failed>` (write the literal text `<commit>`; the hash is filled in centrally).  From then on run everything against the patched worktree: `PYBROPS_REPO=/tmp/wk/{pid}/wt ./check {pid}` — that is your 'unchanged tree' for the acceptance runs.  Also confirm that on /repo HEAD itself (without the patch) your new check reports a VIOLATION with a failing input for {did} (it is no longer a listed finding) — that shows the regression would be caught if it ever returned.
"""

EXTRA_B = """Additional B items for round 4: (v) your `_c("{pid}", …)` entry in tools/props_table.py may be stale (fixed defects still listed as findings, new findings missing): give the corrected text in the report; (vi) a separate builder is writing a Python→Lean kernel translator (harness/py2lean.py, Generated/PyK_<pid>.lean, Lemmas/PyKEq_<pid>.lean) for small pure arithmetic kernels — do not duplicate that, but list in your report which small pure functions of your anchored code would be good translation targets and which model defs they correspond to; (vii) remaining findings of {pid} without a fix: for each, say in the report whether a small safe patch exists (write it as /tmp/wk/{pid}/patch_<id>.diff and evaluate it in a scratch worktree) or why not."""

def text(pid):
    t = r3.COMMON.replace("Round 3 for", "Round 4 for").replace("REPORT3.md", "REPORT4.md")
    fix = ""
    if pid in FIXES:
        did, path, what = FIXES[pid]
        fix = FIXTXT.format(pid=pid, did=did, path=path, what=what)
    t = t.replace("TWO GOALS, in this order of priority.\n", "GOALS, in this order of priority.\n\n" + fix + "\n")
    items = r3.ITEMS[pid] + "\n (Items above were the round-3 list: read your Props file and MANIFEST level_note to see which are done; continue with the ones that are not, then go beyond.)\n" + EXTRA_B.format(pid=pid)
    return t.format(pid=pid, low=pid.lower(), missed=r3.auto_missed(pid) + "NOTES ON CLASSES (from earlier rounds, for orientation): " + r3.MISSED[pid], items=items)

if __name__ == "__main__":
    pid = sys.argv[1]
    t = text(pid)
    if pid == "C09":
        t = t.replace("Round 4 for C09 of", "Round 4 for C09 AND C10 (you own both; files c09.py, c10.py, Props/C09.lean, Props/C10.lean, ...; run the acceptance for both) of")
    print(t)
