/-
Line-protocol driver: one JSON request per input line  {"op": "<name>", ...}
one JSON answer per output line {"ok": <json>} or {"err": "<text>"}.
Run:  lake env lean --run Driver.lean < requests.jsonl > answers.jsonl
-/
import PybropsModel.Drv.All
open Lean

def dispatch (tbl : Std.HashMap String J.Op) (line : String) : Json :=
  match Json.parse line with
  | .error e => J.obj [("err", J.ofStr s!"parse: {e}")]
  | .ok j =>
    match J.field j "op" J.str with
    | .error e => J.obj [("err", J.ofStr e)]
    | .ok name =>
      match tbl.get? name with
      | none => J.obj [("err", J.ofStr s!"unknown op {name}")]
      | some f =>
        match f j with
        | .ok r => J.obj [("ok", r)]
        | .error e => J.obj [("err", J.ofStr e)]

partial def loop (tbl : Std.HashMap String J.Op) (h : IO.FS.Stream) (out : IO.FS.Stream) : IO Unit := do
  let line ← h.getLine
  if line.isEmpty then return ()
  let t := line.trimAscii.toString
  if !t.isEmpty then
    out.putStrLn (dispatch tbl t).compress
  loop tbl h out

def main : IO Unit := do
  let tbl : Std.HashMap String J.Op := Std.HashMap.ofList Drv.allOps
  let out ← IO.getStdout
  loop tbl (← IO.getStdin) out
  out.flush
