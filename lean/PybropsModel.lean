-- root of the library: everything that `lake build` must check
import PybropsModel.Drv.All
import PybropsModel.Props.C19
