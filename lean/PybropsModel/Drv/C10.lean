import PybropsModel.J
import PybropsModel.Model.SelLimit
open Lean

/-!
Driver ops of C10.
  c10.limits  population + additive model ↦ afreq, usl, lsl (with and without location), gebv
  c10.mate    one mating protocol with the draws the generator returned ↦ progeny genotypes
  c10.select  select_taxa ↦ selected parents
  c10.spec    a closed breeding history (raw genotypes of every generation) + the IMPLEMENTATION's
              limits and breeding values ↦ verdict of the property's decidable Spec
-/
namespace Drv.C10
open Genotype SelLimit

/-- a population as the driver receives it: phased (`G`), unphased (`Z`, `ploidy`), or run-length
    compressed (`rows` = distinct dosage rows, `mult` = how many taxa carry each; very large populations) -/
structure PopIn where
  ploidy : Nat
  nt : Nat
  Z : UMat                 -- dosage rows (projection when phased; distinct rows when compressed)
  G : Option PMat
  mult : Option (List Nat)

def decPop (nv : Nat) (j : Json) : J.R PopIn := do
  let nt ← J.field j "nt" J.nat
  match ← J.fieldOpt j "G" (J.list (J.mat J.int)) with
  | some G => pure { ploidy := G.length, nt := nt, Z := psum nt nv G, G := some G, mult := none }
  | none =>
    let pl ← J.field j "ploidy" J.nat
    match ← J.fieldOpt j "rows" (J.mat J.int) with
    | some rows =>
      let mult ← J.field j "mult" (J.list J.nat)
      pure { ploidy := pl, nt := nt, Z := rows, G := none, mult := some mult }
    | none =>
      let Z ← J.field j "Z" (J.mat J.int)
      pure { ploidy := pl, nt := nt, Z := Z, G := none, mult := none }

def popFreq (nv : Nat) (P : PopIn) : List Rat :=
  match P.G, P.mult with
  | some G, _ => pafreq (α := Rat) P.nt nv G
  | none, some mult => afreqW (α := Rat) P.ploidy P.nt nv P.Z mult
  | none, none => afreq (α := Rat) P.ploidy nv P.Z

def popValid (nv : Nat) (P : PopIn) : Bool :=
  match P.G, P.mult with
  | some G, _ => decide (ValidP P.nt nv G)
  | none, some mult => decide (ValidU P.ploidy nv P.Z) && mult.length == P.Z.length && mult.sum == P.nt
      && mult.all (0 < ·)
  | none, none => decide (ValidU P.ploidy nv P.Z) && P.Z.length == P.nt

/-- {"op":"c10.limits","nv","ntrait","U","beta","pop":{..}} -/
def opLimits : J.Op := fun j => do
  let nv ← J.field j "nv" J.nat
  let ntr ← J.field j "ntrait" J.nat
  let U ← J.field j "U" (J.mat J.rat)
  let beta ← J.field j "beta" (J.mat J.rat)
  let P ← J.field j "pop" (decPop nv)
  let p := popFreq nv P
  let loc := (List.range ntr).map (location beta)
  let us := usl P.ploidy nv ntr U p
  let ls := lsl P.ploidy nv ntr U p
  let gv := gebv nv ntr U P.Z
  let addLoc (v : List Rat) : List Rat := List.zipWith (· + ·) v loc
  let valid : Bool := popValid nv P
  pure <| J.obj [("afreq", J.ofList J.ofRat p), ("usl", J.ofList J.ofRat us), ("lsl", J.ofList J.ofRat ls),
    ("usl_un", J.ofList J.ofRat (addLoc us)), ("lsl_un", J.ofList J.ofRat (addLoc ls)),
    ("gebv_raw", J.ofMat J.ofRat gv), ("gebv_un", J.ofMat J.ofRat (gv.map addLoc)),
    ("valid", J.ofBool valid)]

def decProtocol (s : String) : J.R Protocol :=
  match s with
  | "SelfCross" => pure .selfCross | "TwoWayCross" => pure .twoWay | "TwoWayDHCross" => pure .twoWayDH
  | "ThreeWayCross" => pure .threeWay | "ThreeWayDHCross" => pure .threeWayDH
  | "FourWayCross" => pure .fourWay | "FourWayDHCross" => pure .fourWayDH
  | _ => J.fail s!"unknown protocol {s}"

/-- {"op":"c10.mate","protocol","geno","xo","xconfig","nmating","nprogeny","nself","draws"} -/
def opMate : J.Op := fun j => do
  let pr ← J.field j "protocol" (fun x => J.str x >>= decProtocol)
  let geno ← J.field j "geno" (J.list (J.mat J.int))
  let xo ← J.field j "xo" (J.list J.rat)
  let xc ← J.field j "xconfig" (J.mat J.nat)
  let nm ← J.field j "nmating" (J.list J.nat)
  let np ← J.field j "nprogeny" (J.list J.nat)
  let ns ← J.field j "nself" J.nat
  let draws ← J.field j "draws" (J.list (J.mat J.rat))
  pure <| J.ofList (J.ofMat J.ofInt) (mateProtocol pr geno xo xc nm np ns draws)

/-- {"op":"c10.select","G","idx"}: `select_taxa` -/
def opSelect : J.Op := fun j => do
  let G ← J.field j "G" (J.list (J.mat J.int))
  let idx ← J.field j "idx" (J.list J.nat)
  pure <| J.ofList (J.ofMat J.ofInt) (selectTaxa idx G)

/-! ## Spec -/

structure ObsGen where
  usl : List Rat
  lsl : List Rat
  uslUn : List Rat
  lslUn : List Rat
  gebvRaw : List (List Rat)
  gebvUn : List (List Rat)

def decObs (j : Json) : J.R ObsGen := do
  pure { usl := ← J.field j "usl" (J.list J.rat), lsl := ← J.field j "lsl" (J.list J.rat),
         uslUn := ← J.field j "usl_un" (J.list J.rat), lslUn := ← J.field j "lsl_un" (J.list J.rat),
         gebvRaw := ← J.field j "gebv_raw" (J.mat J.rat), gebvUn := ← J.field j "gebv_un" (J.mat J.rat) }

def absQ (q : Rat) : Rat := if q < 0 then -q else q
def maxQ (a b : Rat) : Rat := if a < b then b else a
/-- `a ≤ b` up to the float tolerance -/
def leTol (tol a b : Rat) : Bool := decide (a ≤ b + tol * maxQ 1 (maxQ (absQ a) (absQ b)))
def eqTol (tol a b : Rat) : Bool := leTol tol a b && leTol tol b a

/-- every reported value of every member lies between the reported limits -/
def bracketB (tol : Rat) (lo hi : List Rat) (vals : List (List Rat)) : Bool :=
  vals.all (fun row => row.length == lo.length && row.length == hi.length &&
    (List.zip row (List.zip lo hi)).all (fun x => leTol tol x.2.1 x.1 && leTol tol x.1 x.2.2))

/-- the population is fixed at every locus (raw calls) -/
def allFixedB (nv : Nat) (P : PopIn) : Bool :=
  (List.range nv).all (fun j =>
    P.Z.all (fun r => entry r j == 0) || P.Z.all (fun r => entry r j == (P.ploidy : Int)))

def collapseB (tol : Rat) (o : ObsGen) : Bool :=
  (List.zip o.usl o.lsl).all (fun x => eqTol tol x.1 x.2) &&
  (List.zip o.uslUn o.lslUn).all (fun x => eqTol tol x.1 x.2) &&
  o.gebvRaw.all (fun row => (List.zip row o.usl).all (fun x => eqTol tol x.1 x.2)) &&
  o.gebvUn.all (fun row => (List.zip row o.uslUn).all (fun x => eqTol tol x.1 x.2))

def vecLe (tol : Rat) (a b : List Rat) : Bool :=
  a.length == b.length && (List.zip a b).all (fun x => leTol tol x.1 x.2)

def specHistory (nv ntr : Nat) (tol : Rat) (pops : List PopIn) (obs : List ObsGen) : List String :=
  let n := pops.length
  if obs.length != n then ["obs/pops length"] else
  let gens := List.zip (List.range n) (List.zip pops obs)
  let shape := gens.filterMap (fun g =>
    let o := g.2.2
    if o.usl.length == ntr && o.lsl.length == ntr && o.uslUn.length == ntr && o.lslUn.length == ntr
       && o.gebvRaw.length == g.2.1.Z.length && o.gebvUn.length == g.2.1.Z.length then none
    else some s!"gen{g.1}:shape")
  let own := gens.flatMap (fun g =>
    let o := g.2.2
    (if bracketB tol o.lsl o.usl o.gebvRaw then [] else [s!"gen{g.1}:bracket(lsl<=gebv<=usl)"]) ++
    (if bracketB tol o.lslUn o.uslUn o.gebvUn then [] else [s!"gen{g.1}:bracket(unscaled)"]) ++
    (if !allFixedB nv g.2.1 || collapseB tol o then [] else [s!"gen{g.1}:fixed population: usl=lsl=gebv"]))
  let pairs := gens.flatMap (fun a => gens.filterMap (fun b => if a.1 < b.1 then some (a, b) else none))
  let cross := pairs.flatMap (fun ab =>
    let a := ab.1; let b := ab.2
    let oa := a.2.2; let ob := b.2.2
    (if vecLe tol ob.usl oa.usl && vecLe tol ob.uslUn oa.uslUn then [] else [s!"usl increases gen{a.1}->gen{b.1}"]) ++
    (if vecLe tol oa.lsl ob.lsl && vecLe tol oa.lslUn ob.lslUn then [] else [s!"lsl decreases gen{a.1}->gen{b.1}"]) ++
    (if bracketB tol oa.lsl oa.usl ob.gebvRaw && bracketB tol oa.lslUn oa.uslUn ob.gebvUn then []
     else [s!"descendant of gen{b.1} outside limits of gen{a.1}"]))
  let steps := (List.zip gens gens.tail).filterMap (fun ab =>
    match ab.1.2.1.G, ab.2.2.1.G with
    | some Ga, some Gb =>
      if closedStepB nv ⟨ab.1.2.1.nt, Ga⟩ ⟨ab.2.2.1.nt, Gb⟩ then none
      else some s!"allele absent in gen{ab.1.1} present in gen{ab.2.1}"
    | _, _ => some s!"gen{ab.1.1}->gen{ab.2.1}: history needs phased genotypes")
  shape ++ own ++ cross ++ steps

/-- {"op":"c10.spec","nv","ntrait","tol","pops":[pop..],"obs":[{..}..]} -/
def opSpec : J.Op := fun j => do
  let nv ← J.field j "nv" J.nat
  let ntr ← J.field j "ntrait" J.nat
  let tol ← J.field j "tol" J.rat
  let pops ← J.field j "pops" (J.list (decPop nv))
  let obs ← J.field j "obs" (J.list decObs)
  let fails := specHistory nv ntr tol pops obs
  pure <| J.obj [("ok", J.ofBool fails.isEmpty), ("detail", J.ofStr (", ".intercalate (fails.take 8)))]

def ops : List (String × J.Op) :=
  [("c10.limits", opLimits), ("c10.mate", opMate), ("c10.select", opSelect), ("c10.spec", opSpec)]

end Drv.C10
