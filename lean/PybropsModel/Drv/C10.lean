import PybropsModel.J
import PybropsModel.Model.SelLimitSpec
open Lean

/-!
Driver ops of C10.
  c10.limits  population + additive model ↦ afreq, usl, lsl (with and without location), gebv
  c10.mate    one mating protocol with the draws the generator returned ↦ progeny genotypes
  c10.select  select_taxa / remove_taxa (in-place culling), phased (`G`) or unphased (`Z`) ↦ surviving parents
  c10.spec    a closed breeding history (raw genotypes of every generation) + the IMPLEMENTATION's
              limits and breeding values ↦ verdict of the property's decidable Spec
-/
namespace Drv.C10
open Genotype SelLimit SelLimitSpec

def decPop (nv : Nat) (j : Json) : J.R PopIn := do
  let nt ← J.field j "nt" J.nat
  match ← J.fieldOpt j "G" (J.list (J.mat J.int)) with
  | some G => pure { ploidy := G.length, nt := nt, Z := psum nt nv G, G := some G, mult := none }
  | none =>
    let pl ← J.field j "ploidy" J.nat
    match ← J.fieldOpt j "rows" (J.mat J.int) with
    | some rows =>
      let mult ← J.field j "mult" (J.list J.nat)
      pure { ploidy := pl, nt := nt, Z := rows, G := none, mult := some mult }
    | none =>
      let Z ← J.field j "Z" (J.mat J.int)
      pure { ploidy := pl, nt := nt, Z := Z, G := none, mult := none }

def popFreq (nv : Nat) (P : PopIn) : List Rat :=
  match P.G, P.mult with
  | some G, _ => pafreq (α := Rat) P.nt nv G
  | none, some mult => afreqW (α := Rat) P.ploidy P.nt nv P.Z mult
  | none, none => afreq (α := Rat) P.ploidy nv P.Z

def popValid (nv : Nat) (P : PopIn) : Bool :=
  match P.G, P.mult with
  | some G, _ => decide (ValidP P.nt nv G)
  | none, some mult => decide (ValidU P.ploidy nv P.Z) && mult.length == P.Z.length && mult.sum == P.nt
      && mult.all (0 < ·)
  | none, none => decide (ValidU P.ploidy nv P.Z) && P.Z.length == P.nt

def decEdit (j : Json) : J.R (Edit Rat) := do
  let op ← J.field j "op" J.str
  match op with
  | "scale_col" => pure (.scaleCol (← J.field j "t" J.nat) (← J.field j "c" J.rat))
  | "set" => pure (.setCell (← J.field j "j" J.nat) (← J.field j "t" J.nat) (← J.field j "v" J.rat))
  | "add" => pure (.addAll (← J.field j "v" J.rat))
  | _ => J.fail s!"unknown edit {op}"

/-- {"op":"c10.limits","nv","ntrait","U","beta","pop":{..}} — or, for a model object with a history,
    "U0","beta0","edits_u","edits_b" (the arrays at construction and the in-place edits) and optionally "u_misc" -/
def opLimits : J.Op := fun j => do
  let nv ← J.field j "nv" J.nat
  let ntr ← J.field j "ntrait" J.nat
  let uMisc ← J.fieldD j "u_misc" (J.mat J.rat) []
  let M : ModelObj Rat ← (do
    match ← J.fieldOpt j "U0" (J.mat J.rat) with
    | some U0 =>
      let beta0 ← J.field j "beta0" (J.mat J.rat)
      let eu ← J.fieldD j "edits_u" (J.list decEdit) []
      let eb ← J.fieldD j "edits_b" (J.list decEdit) []
      pure ((ModelObj.mk beta0 uMisc U0).edit eu eb).copy
    | none =>
      pure (ModelObj.mk (← J.field j "beta" (J.mat J.rat)) uMisc (← J.field j "U" (J.mat J.rat))))
  let U := M.uA          -- `self.u_a`; `u_misc` is read by nothing here
  let beta := M.beta
  let P ← J.field j "pop" (decPop nv)
  -- `ploidy` handed over as a numpy intN scalar: `int(ploidy) * shape[0]` is a Python-int product (D62 repaired); the
  -- wrapped pre-repair frequency is only computed on request ("prerepair": true, used by nobody on the repaired tree)
  let pre ← J.fieldD j "prerepair" J.bool false
  let p := match ← J.fieldOpt j "ploidy_bits" J.nat with
    | some bits => if pre then afreqNpPloidyPrerepair (α := Rat) bits P.ploidy nv P.Z else popFreq nv P
    | none => popFreq nv P
  let o := modelObs nv ntr U beta P.ploidy P.Z p
  let valid : Bool := popValid nv P
  pure <| J.obj [("afreq", J.ofList J.ofRat p), ("usl", J.ofList J.ofRat o.usl), ("lsl", J.ofList J.ofRat o.lsl),
    ("usl_un", J.ofList J.ofRat o.uslUn), ("lsl_un", J.ofList J.ofRat o.lslUn),
    ("gebv_raw", J.ofMat J.ofRat o.gebvRaw), ("gebv_un", J.ofMat J.ofRat o.gebvUn),
    ("valid", J.ofBool valid), ("U_eff", J.ofMat J.ofRat U), ("beta_eff", J.ofMat J.ofRat beta)]

def decProtocol (s : String) : J.R Protocol :=
  match s with
  | "SelfCross" => pure .selfCross | "TwoWayCross" => pure .twoWay | "TwoWayDHCross" => pure .twoWayDH
  | "ThreeWayCross" => pure .threeWay | "ThreeWayDHCross" => pure .threeWayDH
  | "FourWayCross" => pure .fourWay | "FourWayDHCross" => pure .fourWayDH
  | _ => J.fail s!"unknown protocol {s}"

/-- {"op":"c10.mate","protocol","geno","xo","xconfig","nmating","nprogeny","nself","draws"} -/
def opMate : J.Op := fun j => do
  let pr ← J.field j "protocol" (fun x => J.str x >>= decProtocol)
  let geno ← J.field j "geno" (J.list (J.mat J.int))
  let xo ← J.field j "xo" (J.list J.rat)
  let xc ← J.field j "xconfig" (J.mat J.nat)
  let nm ← J.field j "nmating" (J.list J.nat)
  let np ← J.field j "nprogeny" (J.list J.nat)
  let ns ← J.field j "nself" J.nat
  let draws ← J.field j "draws" (J.list (J.mat J.rat))
  pure <| J.ofList (J.ofMat J.ofInt) (mateProtocol pr geno xo xc nm np ns draws)

/-- {"op":"c10.select","G","idx"}: `select_taxa` -/
def opSelect : J.Op := fun j => do
  let idx ← J.field j "idx" (J.list J.nat)
  let remove ← J.fieldD j "remove" J.bool false
  match ← J.fieldOpt j "G" (J.list (J.mat J.int)) with
  | some G => pure <| J.ofList (J.ofMat J.ofInt) (if remove then removeTaxa idx G else selectTaxa idx G)
  | none =>
    let Z ← J.field j "Z" (J.mat J.int)
    pure <| J.ofMat J.ofInt (if remove then removeTaxaU idx Z else selectTaxaU idx Z)

/-! ## Spec -/

def decObs (j : Json) : J.R (ObsGen Rat) := do
  pure { usl := ← J.field j "usl" (J.list J.rat), lsl := ← J.field j "lsl" (J.list J.rat),
         uslUn := ← J.field j "usl_un" (J.list J.rat), lslUn := ← J.field j "lsl_un" (J.list J.rat),
         gebvRaw := ← J.field j "gebv_raw" (J.mat J.rat), gebvUn := ← J.field j "gebv_un" (J.mat J.rat) }

/-- {"op":"c10.spec","nv","ntrait","tol","pops":[pop..],"obs":[{..}..]} -/
def opSpec : J.Op := fun j => do
  let nv ← J.field j "nv" J.nat
  let ntr ← J.field j "ntrait" J.nat
  let tol ← J.field j "tol" J.rat
  let pops ← J.field j "pops" (J.list (decPop nv))
  let obs ← J.field j "obs" (J.list decObs)
  let fails := specHistory nv ntr tol pops obs
  pure <| J.obj [("ok", J.ofBool fails.isEmpty), ("detail", J.ofStr (", ".intercalate (fails.take 8)))]

def ops : List (String × J.Op) :=
  [("c10.limits", opLimits), ("c10.mate", opMate), ("c10.select", opSelect), ("c10.spec", opSpec)]

end Drv.C10
