import PybropsModel.J
import PybropsModel.Model.Pheno
import PybropsModel.Model.PhenoSpec
open Lean

namespace Drv.C14
open Pheno

abbrev R := Rec String Int Rat

/-! ### codec -/

def draw (j : Json) : J.R (Draw Rat) :=
  match j.getObjVal? "v" with
  | .ok v => Draw.vec <$> J.list J.rat v
  | .error _ =>
    match j.getObjVal? "m" with
    | .ok m => Draw.mat <$> J.mat J.rat m
    | .error _ => J.fail "draw: neither v nor m"

def recIn (j : Json) : J.R R := do
  let taxa ← J.field j "taxa" J.str
  let grp ← J.fieldOpt j "grp" J.int
  -- (a negative label can never name a cell: it is read as 0, which no cell carries)
  let env ← J.fieldD j "env" J.int 0
  let rep ← J.fieldD j "rep" J.int 0
  let vals ← J.field j "vals" (J.list J.rat)
  pure { taxa, grp, env := env.toNat, rep := rep.toNat, vals }

def recOut (r : R) : Json :=
  J.obj [("taxa", J.ofStr r.taxa), ("grp", J.ofOpt J.ofInt r.grp), ("env", J.ofNat r.env),
         ("rep", J.ofNat r.rep), ("vals", J.ofList J.ofRat r.vals)]

def nrepIn (j : Json) : J.R (Nat ⊕ List Nat) :=
  match j with
  | .arr _ => Sum.inr <$> J.list J.nat j
  | _ => Sum.inl <$> J.nat j

/-! ### model ops -/

def varArgIn (j : Json) : J.R (VarArg Rat) :=
  match j with
  | .null => pure .none
  | .arr _ => VarArg.array <$> J.list J.rat j
  | _ => VarArg.scalar <$> J.rat j

def cfgOpIn (j : Json) : J.R (CfgOp Rat) := do
  let attr ← J.field j "attr" J.str
  match attr with
  | "nenv" => CfgOp.setNenv <$> J.field j "value" J.nat
  | "nrep" => CfgOp.setNrep <$> J.field j "value" nrepIn
  | "var_env" => CfgOp.setVarEnv <$> J.fieldD j "value" varArgIn .none
  | "var_rep" => CfgOp.setVarRep <$> J.fieldD j "value" varArgIn .none
  | "var_err" => CfgOp.setVarErr <$> J.fieldD j "value" varArgIn .none
  | _ => J.fail s!"cfg op: unknown attribute {attr}"

/-- `phenotype()` on a protocol constructed with `nenv`, `nrep` and then modified by the setter calls `ops` (the repaired
    `nenv` setter makes the replicate array follow; `phenotype` refuses a configuration without one count per environment) -/
def opPhenotype : J.Op := fun j => do
  let gv ← J.field j "gv" (J.mat J.rat)
  let taxa ← J.fieldOpt j "taxa" (J.list J.str)
  let grp ← J.fieldOpt j "grp" (J.list J.int)
  let trait ← J.fieldOpt j "trait" (J.list J.str)
  let ntrait ← J.field j "ntrait" J.nat
  let nenv ← J.field j "nenv" J.nat
  let nrepRaw ← J.field j "nrep" nrepIn
  let draws ← J.field j "draws" (J.list draw)
  let nenvAfter ← J.fieldOpt j "nenvAfter" J.nat        -- `pt.nenv = ...` after construction (older replay files)
  let ops ← J.fieldD j "ops" (J.list cfgOpIn) []        -- setter calls after construction, in order
  let ops := (match nenvAfter with | some m => [CfgOp.setNenv m] | none => []) ++ ops
  match cfgInit (α := Rat) ntrait nenv nrepRaw .none .none .none with
  | none => pure (J.obj [("rejected", J.ofStr "nrep")])
  | some c0 =>
    match cfgRun ntrait c0 ops with
    | none => pure (J.obj [("rejected", J.ofStr "setter")])
    | some c =>
    match phenotype gv taxa grp trait ntrait c.nenv c.nrep draws with
    | none => pure (J.obj [("rejected", J.ofStr "phenotype"), ("nenv", J.ofNat c.nenv), ("nrep", J.ofList J.ofNat c.nrep)])
    | some (cols, rows) =>
      pure (J.obj [("cols", J.ofList J.ofStr cols), ("rows", J.ofList recOut rows),
                   ("nrep", J.ofList J.ofNat c.nrep)])

def opTruePheno : J.Op := fun j => do
  let gv ← J.field j "gv" (J.mat J.rat)
  let taxa ← J.fieldOpt j "taxa" (J.list J.str)
  let grp ← J.fieldOpt j "grp" (J.list J.int)
  let trait ← J.fieldOpt j "trait" (J.list J.str)
  let ntrait ← J.field j "ntrait" J.nat
  match truePhenotype gv taxa grp trait ntrait with
  | none => pure (J.obj [("rejected", J.ofStr "truephenotype")])
  | some (cols, rows) =>
    pure (J.obj [("cols", J.ofList J.ofStr cols),
      ("rows", J.ofList (fun (r : String × Option Int × List Rat) =>
        J.obj [("taxa", J.ofStr r.1), ("grp", J.ofOpt J.ofInt r.2.1), ("vals", J.ofList J.ofRat r.2.2)]) rows)])

def opH2 : J.Op := fun j => do
  let gv ← J.field j "gv" (J.mat J.rat)
  let ntrait ← J.field j "ntrait" J.nat
  let h2 ← J.field j "h2" (J.list J.rat)
  let varA := varCols ntrait gv
  pure (J.obj [("varA", J.ofList J.ofRat varA), ("varErr", J.ofOpt (J.ofList J.ofRat) (setH2 h2 varA))])

def opMeanBV : J.Op := fun j => do
  let recs ← J.field j "recs" (J.list recIn)
  let useGrp ← J.field j "useGrp" J.bool
  let t ← J.field j "ntrait" J.nat
  let gt ← J.fieldOpt j "gtTaxa" (J.list J.str)
  match gt with
  | some gtTaxa =>
    pure (J.obj [("rows", J.ofList (J.ofOpt (J.ofList J.ofRat)) (meanBV keyLe useGrp t recs gtTaxa))])
  | none =>
    let (taxa, grp, rows) := meanBVNoGt keyLe useGrp t recs
    pure (J.obj [("taxa", J.ofList J.ofStr taxa), ("grp", J.ofOpt (J.ofList J.ofInt) grp),
                 ("rows", J.ofList (J.ofList J.ofRat) rows)])

/-! ### Spec oracles (defined in Model/PhenoSpec.lean), evaluated on the IMPLEMENTATION's outputs -/

def opSpecPheno : J.Op := fun j => do
  let gv ← J.field j "gv" (J.mat J.rat)
  let taxa ← J.fieldOpt j "taxa" (J.list J.str)
  let grp ← J.fieldOpt j "grp" (J.list J.int)
  let nrep ← J.field j "nrep" (J.list J.nat)
  let zero ← J.field j "zeroNoise" J.bool
  let rows ← J.field j "rows" (J.list recIn)
  let count := specPhenoCount gv.length nrep rows
  let (keys, vals) := match taxa with
    | some tx => (specPhenoKeys gv (labels tx grp) nrep rows, !zero || specPhenoVals gv (labels tx grp) nrep rows)
    | none => (specPhenoKeysUnnamed gv.length grp nrep rows, !zero || specPhenoValsUnnamed gv nrep rows)
  pure (J.obj [("ok", J.ofBool (specPheno gv taxa grp nrep zero rows)),
    ("detail", J.ofStr s!"count={count} one_record_per_key_with_labels={keys} zero_noise_exact={vals}")])

def resCellIn (j : Json) : J.R ResCell := do
  let env ← J.field j "env" J.nat
  let rep ← J.field j "rep" J.nat
  let res ← J.field j "res" (J.list J.rat)
  pure { env, rep, res }

/-- the noise-structure oracle on the residuals `record − true value` of the implementation's frame (computed by the
    harness in exact arithmetic, each record against the true value of the taxon it names) -/
def opSpecNoise : J.Op := fun j => do
  let tol ← J.field j "tol" J.rat
  let ve ← J.field j "var_env" (J.list J.rat)
  let vr ← J.field j "var_rep" (J.list J.rat)
  let vx ← J.field j "var_err" (J.list J.rat)
  let genuine ← J.field j "genuine" J.bool
  let cells ← J.field j "cells" (J.list (J.list resCellIn))
  let per := (List.zip cells (List.zip ve (List.zip vr vx))).map
    (fun x => specNoiseTrait tol x.2.1 x.2.2.1 x.2.2.2 genuine x.1)
  pure (J.obj [("ok", J.ofBool (specNoise tol ve vr vx genuine cells)),
    ("detail", J.ofStr s!"noise_structure_per_trait={per}")])

/-- Spec of the heritability clause on the implementation's `var_err` (and the population's genetic variance) -/
def opSpecH2 : J.Op := fun j => do
  let h2 ← J.field j "h2" (J.list J.rat)
  let varA ← J.field j "varA" (J.list J.rat)
  let varE ← J.field j "varErr" (J.list J.rat)
  let lens := h2.length == varA.length && varA.length == varE.length
  pure (J.obj [("ok", J.ofBool (specH2 h2 varA varE)),
    ("detail", J.ofStr s!"lengths={lens} error_variance_fixes_target={specH2 h2 varA varE}")])

def opSpecMeanBV : J.Op := fun j => do
  let recs ← J.field j "recs" (J.list recIn)
  let t ← J.field j "ntrait" J.nat
  let gtTaxa ← J.field j "gtTaxa" (J.list J.str)
  let gtGrp ← J.fieldOpt j "gtGrp" (J.list J.int)
  let traits ← J.field j "traits" (J.list J.str)
  let outTaxa ← J.field j "outTaxa" (J.list J.str)
  let outGrp ← J.fieldOpt j "outGrp" (J.list J.int)
  let outTrait ← J.field j "outTrait" (J.list J.str)
  let outRows ← J.field j "outRows" (J.list (J.list (J.opt J.rat)))
  let labelsOk := outTaxa == gtTaxa && outGrp == gtGrp && outTrait == traits
  let rowsOk := specMeanRows recs t gtTaxa outRows
  pure (J.obj [("ok", J.ofBool (specMeanBV recs t gtTaxa gtGrp traits outTaxa outGrp outTrait outRows)),
    ("detail", J.ofStr s!"labels_aligned={labelsOk} mean_or_missing={rowsOk}")])

def opSpecMeanBVNoGt : J.Op := fun j => do
  let recs ← J.field j "recs" (J.list recIn)
  let t ← J.field j "ntrait" J.nat
  let outTaxa ← J.field j "outTaxa" (J.list J.str)
  let outRows ← J.field j "outRows" (J.list (J.list (J.opt J.rat)))
  let cover := msetEq outTaxa (recs.map (·.taxa)).eraseDups
  let rowsOk := specMeanRows recs t outTaxa outRows
  pure (J.obj [("ok", J.ofBool (specMeanBVNoGt recs t outTaxa outRows)),
    ("detail", J.ofStr s!"one_row_per_name={cover} mean={rowsOk}")])

/-! ### tables with missing values (NaN = null) -/

abbrev RN := Rec String Int (Option Rat)

def recInNan (j : Json) : J.R RN := do
  let taxa ← J.field j "taxa" J.str
  let grp ← J.fieldOpt j "grp" J.int
  let env ← J.fieldD j "env" J.nat 0
  let rep ← J.fieldD j "rep" J.nat 0
  let vals ← J.field j "vals" (J.list (J.opt J.rat))
  pure { taxa, grp, env, rep, vals }

def opMeanBVNan : J.Op := fun j => do
  let recs ← J.field j "recs" (J.list recInNan)
  let useGrp ← J.field j "useGrp" J.bool
  let t ← J.field j "ntrait" J.nat
  let gt ← J.fieldOpt j "gtTaxa" (J.list J.str)
  match gt with
  | some gtTaxa =>
    pure (J.obj [("rows", J.ofList (J.ofList (J.ofOpt J.ofRat)) (meanBVNan keyLe useGrp t recs gtTaxa))])
  | none =>
    let (taxa, rows) := meanBVNanNoGt keyLe useGrp t recs
    pure (J.obj [("taxa", J.ofList J.ofStr taxa), ("rows", J.ofList (J.ofList (J.ofOpt J.ofRat)) rows)])

def opSpecMeanBVNan : J.Op := fun j => do
  let recs ← J.field j "recs" (J.list recInNan)
  let t ← J.field j "ntrait" J.nat
  let gtTaxa ← J.field j "gtTaxa" (J.list J.str)
  let gtGrp ← J.fieldOpt j "gtGrp" (J.list J.int)
  let traits ← J.field j "traits" (J.list J.str)
  let outTaxa ← J.field j "outTaxa" (J.list J.str)
  let outGrp ← J.fieldOpt j "outGrp" (J.list J.int)
  let outTrait ← J.field j "outTrait" (J.list J.str)
  let outRows ← J.field j "outRows" (J.list (J.list (J.opt J.rat)))
  let labelsOk := outTaxa == gtTaxa && outGrp == gtGrp && outTrait == traits
  let rowsOk := specMeanRowsNan recs t gtTaxa outRows
  pure (J.obj [("ok", J.ofBool (specMeanBVNan recs t gtTaxa gtGrp traits outTaxa outGrp outTrait outRows)),
    ("detail", J.ofStr s!"labels_aligned={labelsOk} skipnan_mean_or_missing={rowsOk}")])

def opSpecMeanBVNanNoGt : J.Op := fun j => do
  let recs ← J.field j "recs" (J.list recInNan)
  let t ← J.field j "ntrait" J.nat
  let outTaxa ← J.field j "outTaxa" (J.list J.str)
  let outRows ← J.field j "outRows" (J.list (J.list (J.opt J.rat)))
  let cover := msetEq outTaxa (recs.map (·.taxa)).eraseDups
  let rowsOk := specMeanRowsNan recs t outTaxa outRows
  pure (J.obj [("ok", J.ofBool (specMeanBVNanNoGt recs t outTaxa outRows)),
    ("detail", J.ofStr s!"one_row_per_name={cover} skipnan_mean_or_missing={rowsOk}")])

/-! ### the configuration object: constructor + setter history, layout, generator-call plan -/

/-- constructor arguments + the setter calls made so far ⇒ stored attributes, the layout `phenotype()` walks through and
    the sequence of `multivariate_normal` calls it makes for `ntaxa` taxa -/
def opConfig : J.Op := fun j => do
  let ntrait ← J.field j "ntrait" J.nat
  let ntaxa ← J.field j "ntaxa" J.nat
  let nenv ← J.field j "nenv" J.nat
  let nrep ← J.field j "nrep" nrepIn
  let ve ← J.fieldD j "var_env" varArgIn .none
  let vr ← J.fieldD j "var_rep" varArgIn .none
  let vx ← J.fieldD j "var_err" varArgIn .none
  let ops ← J.fieldD j "ops" (J.list cfgOpIn) []
  match (cfgInit ntrait nenv nrep ve vr vx).bind (fun c => cfgRun ntrait c ops) with
  | none => pure (J.obj [("rejected", J.ofBool true)])
  | some c =>
    pure (J.obj [("nenv", J.ofNat c.nenv), ("nrep", J.ofList J.ofNat c.nrep),
      ("var_env", J.ofList J.ofRat c.varEnv), ("var_rep", J.ofList J.ofRat c.varRep), ("var_err", J.ofList J.ofRat c.varErr),
      ("layout", J.ofList J.ofNat c.layout),
      ("plan", J.ofList (fun (d : DrawCall Rat) =>
        J.obj [("cov", J.ofList J.ofRat d.covDiag), ("size", J.ofOpt J.ofNat d.size)]) (drawPlan c ntaxa))])

def ops : List (String × J.Op) :=
  [("c14.phenotype", opPhenotype), ("c14.truepheno", opTruePheno), ("c14.h2", opH2), ("c14.meanbv", opMeanBV),
   ("c14.spec_pheno", opSpecPheno), ("c14.spec_h2", opSpecH2), ("c14.spec_meanbv", opSpecMeanBV),
   ("c14.spec_meanbv_nogt", opSpecMeanBVNoGt), ("c14.meanbv_nan", opMeanBVNan),
   ("c14.spec_meanbv_nan", opSpecMeanBVNan), ("c14.spec_meanbv_nan_nogt", opSpecMeanBVNanNoGt),
   ("c14.config", opConfig), ("c14.spec_noise", opSpecNoise)]

end Drv.C14
