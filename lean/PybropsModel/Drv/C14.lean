import PybropsModel.J
import PybropsModel.Model.Pheno
open Lean

namespace Drv.C14
open Pheno

abbrev R := Rec String Int Rat

/-! ### codec -/

def draw (j : Json) : J.R (Draw Rat) :=
  match j.getObjVal? "v" with
  | .ok v => Draw.vec <$> J.list J.rat v
  | .error _ =>
    match j.getObjVal? "m" with
    | .ok m => Draw.mat <$> J.mat J.rat m
    | .error _ => J.fail "draw: neither v nor m"

def recIn (j : Json) : J.R R := do
  let taxa ← J.field j "taxa" J.str
  let grp ← J.fieldOpt j "grp" J.int
  let env ← J.fieldD j "env" J.nat 0
  let rep ← J.fieldD j "rep" J.nat 0
  let vals ← J.field j "vals" (J.list J.rat)
  pure { taxa, grp, env, rep, vals }

def recOut (r : R) : Json :=
  J.obj [("taxa", J.ofStr r.taxa), ("grp", J.ofOpt J.ofInt r.grp), ("env", J.ofNat r.env),
         ("rep", J.ofNat r.rep), ("vals", J.ofList J.ofRat r.vals)]

def nrepIn (j : Json) : J.R (Nat ⊕ List Nat) :=
  match j with
  | .arr _ => Sum.inr <$> J.list J.nat j
  | _ => Sum.inl <$> J.nat j

/-! ### tolerant comparison over `Rat` (the implementation computes in binary64) -/
def rabs (q : Rat) : Rat := if q < 0 then -q else q
def rmax (a b : Rat) : Rat := if a < b then b else a
def close (a b : Rat) : Bool :=
  let d := rabs (a - b)
  d ≤ (1 : Rat) / 1000000000000 || d ≤ ((1 : Rat) / 1000000000) * rmax (rabs a) (rabs b)

/-- multiset equality of two lists (quadratic; the tables are small) -/
def msetEq {β} [BEq β] (a b : List β) : Bool :=
  a.length == b.length && a.all (fun x => a.count x == b.count x)

/-! ### model ops -/

def opPhenotype : J.Op := fun j => do
  let gv ← J.field j "gv" (J.mat J.rat)
  let taxa ← J.fieldOpt j "taxa" (J.list J.str)
  let grp ← J.fieldOpt j "grp" (J.list J.int)
  let trait ← J.fieldOpt j "trait" (J.list J.str)
  let ntrait ← J.field j "ntrait" J.nat
  let nenv ← J.field j "nenv" J.nat
  let nrepRaw ← J.field j "nrep" nrepIn
  let draws ← J.field j "draws" (J.list draw)
  let nenvAfter ← J.fieldOpt j "nenvAfter" J.nat        -- `pt.nenv = ...` after construction
  match nrepSetter nenv nrepRaw with
  | none => pure (J.obj [("rejected", J.ofStr "nrep")])
  | some nrep0 =>
    match (match nenvAfter with | some m => reassignNenv m (nenv, nrep0) | none => some (nenv, nrep0)) with
    | none => pure (J.obj [("rejected", J.ofStr "nenv")])
    | some (nenv, nrep) =>
    match phenotype gv taxa grp trait ntrait nenv nrep draws with
    | none => pure (J.obj [("rejected", J.ofStr "phenotype")])
    | some (cols, rows) =>
      pure (J.obj [("cols", J.ofList J.ofStr cols), ("rows", J.ofList recOut rows),
                   ("nrep", J.ofList J.ofNat nrep)])

def opTruePheno : J.Op := fun j => do
  let gv ← J.field j "gv" (J.mat J.rat)
  let taxa ← J.fieldOpt j "taxa" (J.list J.str)
  let grp ← J.fieldOpt j "grp" (J.list J.int)
  let trait ← J.fieldOpt j "trait" (J.list J.str)
  let ntrait ← J.field j "ntrait" J.nat
  match truePhenotype gv taxa grp trait ntrait with
  | none => pure (J.obj [("rejected", J.ofStr "truephenotype")])
  | some (cols, rows) =>
    pure (J.obj [("cols", J.ofList J.ofStr cols),
      ("rows", J.ofList (fun (r : String × Option Int × List Rat) =>
        J.obj [("taxa", J.ofStr r.1), ("grp", J.ofOpt J.ofInt r.2.1), ("vals", J.ofList J.ofRat r.2.2)]) rows)])

def opH2 : J.Op := fun j => do
  let gv ← J.field j "gv" (J.mat J.rat)
  let ntrait ← J.field j "ntrait" J.nat
  let h2 ← J.field j "h2" (J.list J.rat)
  let varA := varCols ntrait gv
  pure (J.obj [("varA", J.ofList J.ofRat varA), ("varErr", J.ofOpt (J.ofList J.ofRat) (setH2 h2 varA))])

def opMeanBV : J.Op := fun j => do
  let recs ← J.field j "recs" (J.list recIn)
  let useGrp ← J.field j "useGrp" J.bool
  let t ← J.field j "ntrait" J.nat
  let gt ← J.fieldOpt j "gtTaxa" (J.list J.str)
  match gt with
  | some gtTaxa =>
    pure (J.obj [("rows", J.ofList (J.ofOpt (J.ofList J.ofRat)) (meanBV keyLe useGrp t recs gtTaxa))])
  | none =>
    let (taxa, grp, rows) := meanBVNoGt keyLe useGrp t recs
    pure (J.obj [("taxa", J.ofList J.ofStr taxa), ("grp", J.ofOpt (J.ofList J.ofInt) grp),
                 ("rows", J.ofList (J.ofList J.ofRat) rows)])

/-! ### Spec oracles, evaluated on the IMPLEMENTATION's outputs -/

/-- Spec of the field-trial clause.  `rows` = the data frame returned by the real `phenotype()`.
    * exactly one record per (taxon, environment, replicate), each carrying that taxon's labels:
      the multiset of `(taxa, taxa_grp, env, rep)` over the rows equals the multiset of
      `(taxa[i], taxa_grp[i], e+1, r+1)` over all `i < n, e < nenv, r < nrep[e]`;
      when the population carries no names, instead: every `(env, rep)` cell holds `n` rows with pairwise
      distinct names, the same names in every cell;
    * zero noise: every record equals the true genotypic value of its taxon (exactly): the multiset of
      `(labels, env, rep, vals)` equals the one built from `gv`; without names: per cell the multiset of
      value rows equals `gv`'s and a name is paired with one value row throughout. -/
def specPheno (gv : List (List Rat)) (taxa : Option (List String)) (grp : Option (List Int))
    (nrep : List Nat) (zeroNoise : Bool) (rows : List R) : Bool × String :=
  let n := gv.length
  let cells : List (Nat × Nat) := nrep.zipIdx.flatMap (fun ke => (List.range ke.1).map (fun r => (ke.2 + 1, r + 1)))
  let count := rows.length == n * cells.length
  let grpAt (i : Nat) : Option Int := grp.bind (·[i]?)
  match taxa with
  | some tx =>
    let expect : List (String × Option Int × Nat × Nat × List Rat) :=
      cells.flatMap (fun c => (List.range n).map (fun i => (tx.getD i "", grpAt i, c.1, c.2, gv.getD i [])))
    let keys := msetEq (rows.map (fun r => (r.taxa, r.grp, r.env, r.rep)))
                       (expect.map (fun x => (x.1, x.2.1, x.2.2.1, x.2.2.2.1)))
    let vals := !zeroNoise || msetEq (rows.map (fun r => (r.taxa, r.grp, r.env, r.rep, r.vals))) expect
    (count && keys && vals, s!"count={count} one_record_per_key_with_labels={keys} zero_noise_exact={vals}")
  | none =>
    let cell (c : Nat × Nat) := rows.filter (fun r => r.env == c.1 && r.rep == c.2)
    let names0 := (cell (1, 1)).map (·.taxa)
    let keys := cells.all (fun c =>
      let rs := cell c
      rs.length == n && (rs.map (·.taxa)).eraseDups.length == n && msetEq (rs.map (·.taxa)) names0
        && msetEq (rs.map (·.grp)) ((List.range n).map grpAt))
    let vals := !zeroNoise || (cells.all (fun c => msetEq ((cell c).map (·.vals)) gv)
        && (rows.map (fun r => (r.taxa, r.vals))).eraseDups.length == n)
    (count && keys && vals, s!"count={count} one_record_per_key_distinct_names={keys} zero_noise_exact={vals}")

def opSpecPheno : J.Op := fun j => do
  let gv ← J.field j "gv" (J.mat J.rat)
  let taxa ← J.fieldOpt j "taxa" (J.list J.str)
  let grp ← J.fieldOpt j "grp" (J.list J.int)
  let nrep ← J.field j "nrep" (J.list J.nat)
  let zero ← J.field j "zeroNoise" J.bool
  let rows ← J.field j "rows" (J.list recIn)
  let (ok, msg) := specPheno gv taxa grp nrep zero rows
  pure (J.obj [("ok", J.ofBool ok), ("detail", J.ofStr msg)])

/-- Spec of the heritability clause on the implementation's numbers: the error variance is a variance (≥ 0) and
    `var_A / (var_A + var_err) = h2` for every trait with `var_A > 0` -/
def opSpecH2 : J.Op := fun j => do
  let h2 ← J.field j "h2" (J.list J.rat)
  let varA ← J.field j "varA" (J.list J.rat)
  let varE ← J.field j "varErr" (J.list J.rat)
  let lens := h2.length == varA.length && varA.length == varE.length
  let each := (List.zip h2 (List.zip varA varE)).all (fun x =>
    let h := x.1; let a := x.2.1; let e := x.2.2
    decide (0 ≤ e) && (!(decide (0 < a)) || close (heritability a e) h))
  pure (J.obj [("ok", J.ofBool (lens && each)), ("detail", J.ofStr s!"lengths={lens} ratio_eq_target={each}")])

/-- Spec of the breeding-value clause.  `recs` = the phenotype table handed to `estimate`, `out*` = the matrix it
    returned (`unscale()`d; NaN = null).  Taxon = name:
    * labels: `out.taxa = gtobj.taxa`, `out.taxa_grp = gtobj.taxa_grp`, `out.trait = trait_cols`;
    * a genotype taxon with at least one record: every trait equals the arithmetic mean over its records;
    * a genotype taxon without record: missing in every trait. -/
def specMeanBV (recs : List R) (t : Nat) (gtTaxa : List String) (gtGrp : Option (List Int)) (traits : List String)
    (outTaxa : List String) (outGrp : Option (List Int)) (outTrait : List String)
    (outRows : List (List (Option Rat))) : Bool × String :=
  let labelsOk := outTaxa == gtTaxa && outGrp == gtGrp && outTrait == traits
  let shape := outRows.length == gtTaxa.length && outRows.all (fun r => r.length == t)
  let rowsOk := (List.zip gtTaxa outRows).all (fun nr =>
    let mine := (recs.filter (fun r => r.taxa == nr.1)).map (·.vals)
    if mine.isEmpty then nr.2.all Option.isNone
    else
      let want := colMeans t mine
      (List.zip nr.2 want).all (fun ow => match ow.1 with | some o => close o ow.2 | none => false))
  (labelsOk && shape && rowsOk, s!"labels_aligned={labelsOk} shape={shape} mean_or_missing={rowsOk}")

def opSpecMeanBV : J.Op := fun j => do
  let recs ← J.field j "recs" (J.list recIn)
  let t ← J.field j "ntrait" J.nat
  let gtTaxa ← J.field j "gtTaxa" (J.list J.str)
  let gtGrp ← J.fieldOpt j "gtGrp" (J.list J.int)
  let traits ← J.field j "traits" (J.list J.str)
  let outTaxa ← J.field j "outTaxa" (J.list J.str)
  let outGrp ← J.fieldOpt j "outGrp" (J.list J.int)
  let outTrait ← J.field j "outTrait" (J.list J.str)
  let outRows ← J.field j "outRows" (J.list (J.list (J.opt J.rat)))
  let (ok, msg) := specMeanBV recs t gtTaxa gtGrp traits outTaxa outGrp outTrait outRows
  pure (J.obj [("ok", J.ofBool ok), ("detail", J.ofStr msg)])

/-- Spec of the estimate without genotype matrix: one row per distinct taxon name, each the mean over its records -/
def opSpecMeanBVNoGt : J.Op := fun j => do
  let recs ← J.field j "recs" (J.list recIn)
  let t ← J.field j "ntrait" J.nat
  let outTaxa ← J.field j "outTaxa" (J.list J.str)
  let outRows ← J.field j "outRows" (J.list (J.list (J.opt J.rat)))
  let names := (recs.map (·.taxa)).eraseDups
  let cover := msetEq outTaxa names
  let rowsOk := outRows.length == outTaxa.length && (List.zip outTaxa outRows).all (fun nr =>
    let want := colMeans t ((recs.filter (fun r => r.taxa == nr.1)).map (·.vals))
    nr.2.length == t && (List.zip nr.2 want).all (fun ow => match ow.1 with | some o => close o ow.2 | none => false))
  pure (J.obj [("ok", J.ofBool (cover && rowsOk)), ("detail", J.ofStr s!"one_row_per_name={cover} mean={rowsOk}")])

/-! ### tables with missing values (NaN = null) -/

abbrev RN := Rec String Int (Option Rat)

def recInNan (j : Json) : J.R RN := do
  let taxa ← J.field j "taxa" J.str
  let grp ← J.fieldOpt j "grp" J.int
  let env ← J.fieldD j "env" J.nat 0
  let rep ← J.fieldD j "rep" J.nat 0
  let vals ← J.field j "vals" (J.list (J.opt J.rat))
  pure { taxa, grp, env, rep, vals }

def opMeanBVNan : J.Op := fun j => do
  let recs ← J.field j "recs" (J.list recInNan)
  let useGrp ← J.field j "useGrp" J.bool
  let t ← J.field j "ntrait" J.nat
  let gt ← J.fieldOpt j "gtTaxa" (J.list J.str)
  match gt with
  | some gtTaxa =>
    pure (J.obj [("rows", J.ofList (J.ofList (J.ofOpt J.ofRat)) (meanBVNan keyLe useGrp t recs gtTaxa))])
  | none =>
    let (taxa, rows) := meanBVNanNoGt keyLe useGrp t recs
    pure (J.obj [("taxa", J.ofList J.ofStr taxa), ("rows", J.ofList (J.ofList (J.ofOpt J.ofRat)) rows)])

/-- Spec with NaN cells.  Taxon = name.  Labels aligned as before.  Per (genotype taxon, trait):
    * no record of the taxon has a value (in particular: no record at all) ⇒ the entry is missing;
    * every record of the taxon has a value ⇒ the entry is their arithmetic mean;
    * some records lack the value ⇒ the property text does not say whether the mean skips them or is missing:
      the entry must be the mean over the records that have a value, or missing (the correspondence pins it to pandas'
      skip-NaN behaviour). -/
def specMeanBVNan (recs : List RN) (t : Nat) (gtTaxa : List String) (outRows : List (List (Option Rat))) : Bool × String :=
  let shape := outRows.length == gtTaxa.length && outRows.all (fun r => r.length == t)
  let rowsOk := (List.zip gtTaxa outRows).all (fun nr =>
    let mine := (recs.filter (fun r => r.taxa == nr.1)).map (·.vals)
    (List.range t).all (fun j =>
      let cells := mine.map (fun v => (v[j]?).join)
      let present := cells.filterMap id
      let out := (nr.2[j]?).join
      if present.isEmpty then out.isNone
      else
        let m := mean present
        match out with
        | some o => close o m
        | none => present.length != cells.length))
  (shape && rowsOk, s!"shape={shape} skipnan_mean_or_missing={rowsOk}")

def opSpecMeanBVNan : J.Op := fun j => do
  let recs ← J.field j "recs" (J.list recInNan)
  let t ← J.field j "ntrait" J.nat
  let gtTaxa ← J.field j "gtTaxa" (J.list J.str)
  let gtGrp ← J.fieldOpt j "gtGrp" (J.list J.int)
  let traits ← J.field j "traits" (J.list J.str)
  let outTaxa ← J.field j "outTaxa" (J.list J.str)
  let outGrp ← J.fieldOpt j "outGrp" (J.list J.int)
  let outTrait ← J.field j "outTrait" (J.list J.str)
  let outRows ← J.field j "outRows" (J.list (J.list (J.opt J.rat)))
  let labelsOk := outTaxa == gtTaxa && outGrp == gtGrp && outTrait == traits
  let (ok, msg) := specMeanBVNan recs t gtTaxa outRows
  pure (J.obj [("ok", J.ofBool (labelsOk && ok)), ("detail", J.ofStr s!"labels_aligned={labelsOk} {msg}")])

/-- without genotype matrix: one row per distinct taxon name, entries as above -/
def opSpecMeanBVNanNoGt : J.Op := fun j => do
  let recs ← J.field j "recs" (J.list recInNan)
  let t ← J.field j "ntrait" J.nat
  let outTaxa ← J.field j "outTaxa" (J.list J.str)
  let outRows ← J.field j "outRows" (J.list (J.list (J.opt J.rat)))
  let names := (recs.map (·.taxa)).eraseDups
  let cover := msetEq outTaxa names
  let (ok, msg) := specMeanBVNan recs t outTaxa outRows
  pure (J.obj [("ok", J.ofBool (cover && ok)), ("detail", J.ofStr s!"one_row_per_name={cover} {msg}")])

def ops : List (String × J.Op) :=
  [("c14.phenotype", opPhenotype), ("c14.truepheno", opTruePheno), ("c14.h2", opH2), ("c14.meanbv", opMeanBV),
   ("c14.spec_pheno", opSpecPheno), ("c14.spec_h2", opSpecH2), ("c14.spec_meanbv", opSpecMeanBV),
   ("c14.spec_meanbv_nogt", opSpecMeanBVNoGt), ("c14.meanbv_nan", opMeanBVNan),
   ("c14.spec_meanbv_nan", opSpecMeanBVNan), ("c14.spec_meanbv_nan_nogt", opSpecMeanBVNanNoGt)]

end Drv.C14
