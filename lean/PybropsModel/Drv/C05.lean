import PybropsModel.J
import PybropsModel.Model.Selection
import PybropsModel.Model.SelectionSpec
import PybropsModel.Model.SelectionObj
import PybropsModel.Model.Coancestry
open Lean

namespace Drv.C05
open Selection Selection.Spec

/-- square root used when the model is *executed* at `Rat`: exact on perfect squares, otherwise rounded
    down to 30 decimal digits (the harness compares with tolerance 1e-9) -/
def ratSqrt (q : Rat) : Rat :=
  if q ≤ 0 then 0 else
  let n := q.num.toNat
  let d := q.den
  let sn := Nat.sqrt n
  let sd := Nat.sqrt d
  if sn * sn == n && sd * sd == d then mkRat sn sd
  else mkRat (Nat.sqrt (n * d * 10 ^ 60)) (d * 10 ^ 30)

instance : HasSqrt Rat := ⟨ratSqrt⟩

def eps : Rat := mkRat 1 (10 ^ 10)

def mat3 : Json → J.R (List (List (List Rat))) := J.list (J.mat J.rat)
def mat4 : Json → J.R (List (List (List (List Rat)))) := J.list mat3

def crit (j : Json) : J.R (Crit Rat) := do
  let k ← J.field j "crit" J.str
  match k with
  | "lin" => pure (.lin (← J.field j "guard" J.bool) (← J.field j "D" (J.mat J.rat)))
  | "ocs" => pure (.ocs (← J.field j "C" (J.mat J.rat)) (← J.field j "D" (J.mat J.rat)))
  | "mgr" => pure (.mgr (← J.field j "C" (J.mat J.rat)))
  | "meh" => pure (.meh (← J.field j "C" (J.mat J.rat)))
  | "l1" => pure (.l1 (← J.field j "V" mat3))
  | "l2" => pure (.l2 (← J.field j "C" mat3))
  | "family" => pure (.family (← J.field j "D" (J.mat J.rat)) (← J.field j "fix" (J.list J.nat))
      (← J.field j "nfam" J.nat))
  | "opv" => pure (.opv (← J.field j "H" mat4))
  | "gb" => pure (.gb (← J.field j "H" mat4) (← J.field j "nbest" J.nat))
  | "pafd" | "pau" | "mogs" =>
    let g ← J.field j "geno" (J.mat J.rat)
    let p ← J.field j "ploidy" J.nat
    let w ← J.field j "mkrwt" (J.mat J.rat)
    let tf ← J.field j "tfreq" (J.mat J.rat)
    pure (if k == "pafd" then .pafd g p w tf else if k == "pau" then .pau g p w tf else .mogs g p w tf)
  | _ => J.fail s!"unknown criterion {k}"

def decn (j : Json) : J.R (Decn Rat) := do
  match ← J.fieldOpt j "S" (J.list J.nat) with
  | some S => pure (.subset S)
  | none => pure (.vec (← J.field j "x" (J.list J.rat)))

/-- model of `problem.latentfn(x)` -/
def opLatent : J.Op := fun j => do
  let c ← crit j
  let d ← decn j
  match d with
  | .subset S =>
    if S.isEmpty then J.fail "value: empty subset"
    if !S.all (· < c.ncand) then J.fail "index"
  | .vec x =>
    if x.length != c.ncand then J.fail "shape"
    if !c.guarded && Np.sum x == 0 then J.fail "value: zero total contribution (division by zero)"
  match latent eps c d with
  | some l => pure (J.ofList J.ofRat l)
  | none => J.fail "unsupported encoding"

/-! ### Spec oracle: `Selection.Spec.definition` (Model/SelectionSpec.lean) executed at `Rat` -/

/-- request: criterion data, `shares` (Σ = 1), `supp` (indices with positive share),
    `reported`: list of latent vectors returned by the implementation for encodings of these shares -/
def opSpecLatent : J.Op := fun j => do
  let cr ← crit j
  let c ← J.field j "shares" (J.list J.rat)
  let supp ← J.field j "supp" (J.list J.nat)
  let reported ← J.field j "reported" (J.list (J.list J.rat))
  let rel ← J.fieldD j "rel" J.rat (mkRat 1 (10 ^ 9))
  let abs_ ← J.fieldD j "abs" J.rat (mkRat 1 (10 ^ 12))
  if c.length != cr.ncand then J.fail "shape"
  let d := definition cr c supp
  let bad := reported.zipIdx.filter fun (l, _) => !(accepts rel abs_ d l)
  pure <| J.obj [("ok", J.ofBool bad.isEmpty),
    ("bad", J.ofList J.ofNat (bad.map Prod.snd)),
    ("definition", J.ofList (fun e : Entry Rat => J.ofList J.ofRat [e.a, e.b, e.q]) d)]

/-! ### evalfn -/

def trans (j : Json) : J.R (Trans Rat) := do
  let k ← J.field j "t" J.str
  match k with
  | "identity" => pure .identity
  | "sum" => pure .sum
  | "dot" => pure (.dot (← J.field j "w" (J.list J.rat)))
  | "empty" => pure .empty
  | "decn_sum_eq" => pure (.decnSumEq (← J.field j "target" J.rat))
  | "slice" => pure .slice
  | "penalty" => pure (.penalty (← J.field j "thr" J.rat))
  | "affine" => pure (.affine (← J.field j "m" J.rat) (← J.field j "c" J.rat))
  | _ => J.fail s!"unknown transformation {k}"

def opEvalfn : J.Op := fun j => do
  let x ← J.field j "x" (J.list J.rat)
  let l ← J.field j "latent" (J.list J.rat)
  let ow ← J.field j "obj_wt" (J.list J.rat)
  let iw ← J.field j "ineqcv_wt" (J.list J.rat)
  let ew ← J.field j "eqcv_wt" (J.list J.rat)
  let to ← J.field j "obj_trans" trans
  let ti ← J.field j "ineqcv_trans" trans
  let te ← J.field j "eqcv_trans" trans
  let (o, i, e) := evalfn ow iw ew to ti te x l
  pure <| J.obj [("obj", J.ofList J.ofRat o), ("ineqcv", J.ofList J.ofRat i), ("eqcv", J.ofList J.ofRat e)]

def evalCfg (j : Json) : J.R (EvalCfg Rat) := do
  pure { objWt := ← J.field j "obj_wt" (J.list J.rat), ineqWt := ← J.field j "ineqcv_wt" (J.list J.rat),
         eqWt := ← J.field j "eqcv_wt" (J.list J.rat), tObj := ← J.field j "obj_trans" trans,
         tIneq := ← J.field j "ineqcv_trans" trans, tEq := ← J.field j "eqcv_trans" trans }

/-- Spec oracle of evalfn, `Selection.evalOk`, on the three vectors the implementation reported for decision `x`
    with latent vector `latent` (`abs` is supplied by the harness: float cancellation in sums) -/
def opSpecEvalfn : J.Op := fun j => do
  let cfg ← evalCfg j
  let x ← J.field j "x" (J.list J.rat)
  let l ← J.field j "latent" (J.list J.rat)
  let o ← J.field j "obj" (J.list J.rat)
  let i ← J.field j "ineqcv" (J.list J.rat)
  let e ← J.field j "eqcv" (J.list J.rat)
  let rel ← J.fieldD j "rel" J.rat (mkRat 1 (10 ^ 12))
  let abs_ ← J.fieldD j "abs" J.rat (mkRat 1 (10 ^ 14))
  let (wo, wi, we) := evalfn cfg.objWt cfg.ineqWt cfg.eqWt cfg.tObj cfg.tIneq cfg.tEq x l
  pure <| J.obj [("ok", J.ofBool (evalOk rel abs_ cfg x l o i e)),
    ("bad", J.ofList J.ofStr ((if vecClose rel abs_ wo o then [] else ["obj"]) ++
      (if vecClose rel abs_ wi i then [] else ["ineqcv"]) ++ (if vecClose rel abs_ we e then [] else ["eqcv"]))),
    ("want", J.obj [("obj", J.ofList J.ofRat wo), ("ineqcv", J.ofList J.ofRat wi), ("eqcv", J.ofList J.ofRat we)])]

/-! ### problem objects with state (Model/SelectionObj.lean) -/

def tfOp (j : Json) : J.R (TfOp Rat) := do
  match ← J.field j "set" J.str with
  | "geno" => pure (.setGeno (← J.field j "value" (J.mat J.rat)))
  | "ploidy" => pure (.setPloidy (← J.field j "value" J.nat))
  | "mkrwt" => pure (.setMkrwt (← J.field j "value" (J.mat J.rat)))
  | "tfreq" => pure (.setTfreq (← J.field j "value" (J.mat J.rat)))
  | s => J.fail s!"unknown field {s}"

/-- an allele-frequency problem object built by its constructor, a history of assignments, then `latentfn(S)`
    of the class `cls` reading the stored masks -/
def opTfHistory : J.Op := fun j => do
  let o := TfObj.new (← J.field j "geno" (J.mat J.rat)) (← J.field j "ploidy" J.nat)
    (← J.field j "mkrwt" (J.mat J.rat)) (← J.field j "tfreq" (J.mat J.rat))
  let ops ← J.field j "ops" (J.list tfOp)
  let S ← J.field j "S" (J.list J.nat)
  let o := o.run ops
  match ← J.field j "cls" J.str with
  | "pau" => pure (J.ofList J.ofRat (o.latentPau S))
  | "pafd" => pure (J.ofList J.ofRat (o.latentPafd S))
  | "mogs" => pure (J.ofList J.ofRat (o.latentMogs S))
  | s => J.fail s!"unknown class {s}"

/-- `numpy.unique(familyid, return_inverse = True)` -/
def opFamilyIndex : J.Op := fun j => do
  let r := uniqueInverse (← J.field j "ids" (J.list J.nat))
  pure <| J.obj [("family", J.ofList J.ofNat r.1), ("familyix", J.ofList J.ofNat r.2)]

def pOp (j : Json) : J.R (Nat × POp Rat) := do
  let i ← J.field j "i" J.nat
  match ← J.field j "set" J.str with
  | "crit" => pure (i, .setCrit (← J.field j "value" crit))
  | "obj_wt" => pure (i, .setObjWt (← J.field j "value" (J.list J.rat)))
  | "ineqcv_wt" => pure (i, .setIneqWt (← J.field j "value" (J.list J.rat)))
  | "eqcv_wt" => pure (i, .setEqWt (← J.field j "value" (J.list J.rat)))
  | "obj_trans" => pure (i, .setObjTrans (← J.field j "value" trans))
  | "ineqcv_trans" => pure (i, .setIneqTrans (← J.field j "value" trans))
  | "eqcv_trans" => pure (i, .setEqTrans (← J.field j "value" trans))
  | s => J.fail s!"unknown field {s}"

/-- several problem objects, a history of assignments naming their targets, then `latentfn` / `evalfn` of every
    object on its own decision (`Store.run`, `Problem.query`) -/
def opStoreHistory : J.Op := fun j => do
  let parts ← J.field j "problems" (J.list fun pj => do
    let c ← crit pj
    let cfg ← evalCfg pj
    let d ← decn pj
    pure ((⟨c, cfg⟩ : Problem Rat), d))
  let ops ← J.field j "ops" (J.list pOp)
  let st := Store.run (parts.map Prod.fst) ops
  let outs ← (List.zip st (parts.map Prod.snd)).mapM fun (p, d) => do
    let x : List Rat := match d with | .subset S => S.map fun (i : Nat) => ((i : Nat) : Rat) | .vec x => x
    match p.query eps d x with
    | none => J.fail "unsupported encoding"
    | some (l, o, i, e) =>
      pure (J.obj [("latent", J.ofList J.ofRat l), ("obj", J.ofList J.ofRat o), ("ineqcv", J.ofList J.ofRat i),
                   ("eqcv", J.ofList J.ofRat e)])
  pure (Json.arr outs.toArray)

/-! ### factory data paths -/

def opBvData : J.Op := fun j => do
  pure <| J.ofMat J.ofRat (bvData (← J.field j "unscale" J.bool) (← J.field j "mat" (J.mat J.rat))
    (← J.field j "location" (J.list J.rat)) (← J.field j "scale" (J.list J.rat)))

def opWgebv : J.Op := fun j => do
  pure <| J.ofMat J.ofRat (wgebvData (← J.field j "Z" (J.mat J.rat)) (← J.field j "u" (J.mat J.rat))
    (← J.field j "pw" (J.mat J.rat)))

/-- the guards of the weighted breeding values: `tmp[tmp == 0] = 1` and the masked `p (1 - p)` -/
def opGuard : J.Op := fun j => do
  let ff ← J.field j "fafreq" (J.mat J.rat)
  pure <| J.obj [("tmp", J.ofMat J.ofRat (guardZero ff)),
                 ("pq", J.ofMat J.ofRat (ff.map fun r => r.map pqGuard))]

def opCalcV : J.Op := fun j => do
  pure <| J.ofList (J.ofMat J.ofRat) (calcV (← J.field j "mkrwt" (J.mat J.rat))
    (← J.field j "tafreq" (J.mat J.rat)) (← J.field j "tfreq" (J.mat J.rat)))

def opXmap : J.Op := fun j => do
  pure <| J.ofMat J.ofNat (calcXmap (← J.field j "ntaxa" J.nat) (← J.field j "nparent" J.nat)
    (← J.field j "unique_parents" J.bool))

def opUc : J.Op := fun j => do
  pure <| J.ofMat J.ofRat (calcUc (← J.field j "epgc" (J.list J.rat)) (← J.field j "bv" (J.mat J.rat))
    (← J.field j "intensity" J.rat) (← J.field j "xmap" (J.mat J.nat)) (← J.field j "pvar" (J.mat J.rat)))

def opHaplomat : J.Op := fun j => do
  let b ← J.field j "bounds" (J.mat J.nat)
  pure <| J.ofList (J.ofList (J.ofMat J.ofRat)) (calcHaplomat (← J.field j "mat" mat3)
    (← J.field j "u" (J.mat J.rat)) (b.map fun p => (p.getD 0 0, p.getD 1 0)))

def opOhvmat : J.Op := fun j => do
  pure <| J.ofMat J.ofRat (calcOhvmat (← J.field j "H" mat4) (← J.field j "xmap" (J.mat J.nat)))

/-- `_calc_ohvmat` with its chunk loop (`mem`: integer or null); also returns the closed form -/
def opOhvmatChunked : J.Op := fun j => do
  let H ← match ← J.fieldOpt j "H" mat4 with
    | some H => pure H
    | none => do
      let b ← J.field j "bounds" (J.mat J.nat)
      pure (calcHaplomat (← J.field j "mat" mat3) (← J.field j "u" (J.mat J.rat)) (b.map fun p => (p.getD 0 0, p.getD 1 0)))
  let xm ← J.field j "xmap" (J.mat J.nat)
  let mem ← J.field j "mem" (J.opt J.nat)
  match calcOhvmatChunked mem H xm with
  | none => J.fail "value: range() arg 3 must not be zero"
  | some o => pure <| J.obj [("chunked", J.ofMat J.ofRat o), ("closed", J.ofMat J.ofRat (calcOhvmat H xm))]

/-- `DenseExpectedMaximumBreedingValueMatrix.from_gmod` given the scripted progeny breeding values -/
def opEmbvMat : J.Op := fun j => do
  pure <| J.ofMat J.ofRat (embvMat (← J.field j "nrep" (J.list J.nat)) (← J.field j "prog" (J.list mat3))
    (← J.field j "ntrait" J.nat))

def opEmbv : J.Op := fun j => do
  pure <| J.ofMat J.ofRat (calcEmbv (← J.field j "nrep" J.nat) (← J.field j "tmaxs" mat3)
    (← J.field j "ntrait" J.nat))

/-- Spec for the kinship-factor contract: `CᵀC = K` (within tolerance) -/
def opSpecFactor : J.Op := fun j => do
  let C ← J.field j "C" (J.mat J.rat)
  let K ← J.field j "K" (J.mat J.rat)
  let rel ← J.fieldD j "rel" J.rat (mkRat 1 (10 ^ 8))
  let abs_ ← J.fieldD j "abs" J.rat (mkRat 1 (10 ^ 10))
  pure <| J.obj [("ok", J.ofBool (factorOk rel abs_ C K))]

/-- the kinship matrix of a population computed by the **C13 model** (Model/Coancestry.lean) from the
    genotype counts: the independent `K` of the contract `CᵀC = K` in the factory cases.
    `method`: "mol" | "vr" (reference frequencies = the population's own) | "gw" (weights `w`, frequencies `p`) -/
def opKinship : J.Op := fun j => do
  let method ← J.field j "method" J.str
  let X ← J.field j "X" (J.mat J.rat)
  let ploidy ← J.field j "ploidy" J.nat
  let m := ncols X
  let G : Except Coancestry.Err (List (List Rat)) ← match method with
    | "mol" => pure (Coancestry.molecular ploidy m X)
    | "vr" => pure (Coancestry.vanraden ploidy (Coancestry.afreq ploidy X.length m X) X)
    | "gw" => do
        let w ← J.field j "w" (J.list J.rat)
        let p ← J.field j "p" (J.list J.rat)
        pure (.ok (Coancestry.gw ploidy w p X))
    | s => J.fail s!"unknown method {s}"
  match G with
  | .error e => pure (J.obj [("err", J.ofStr e.tag)])
  | .ok G => pure (J.obj [("K", J.ofMat J.ofRat (Coancestry.asFormat true G))])

/-- one selection step of the look-ahead simulation: scores and the selected index set -/
def opLaStep : J.Op := fun j => do
  let sc := laScores (← J.field j "Z" (J.mat J.rat)) (← J.field j "u" (J.mat J.rat)) (← J.field j "pw" (J.mat J.rat))
  pure <| J.obj [("scores", J.ofList J.ofRat sc), ("sel", J.ofList J.ofNat (laSelect sc (← J.field j "nparent" J.nat)))]

def opLaLatent : J.Op := fun j => do
  pure <| J.ofList J.ofRat (laLatent (← J.field j "ploidy" J.nat) (← J.field j "u" (J.mat J.rat))
    (← J.field j "finals" mat3))

def ops : List (String × J.Op) :=
  [("c05.latent", opLatent), ("c05.spec_latent", opSpecLatent), ("c05.evalfn", opEvalfn),
   ("c05.spec_evalfn", opSpecEvalfn), ("c05.tf_history", opTfHistory), ("c05.store_history", opStoreHistory), ("c05.family_index", opFamilyIndex),
   ("c05.bvdata", opBvData), ("c05.wgebv", opWgebv), ("c05.guard", opGuard), ("c05.calcV", opCalcV), ("c05.xmap", opXmap),
   ("c05.uc", opUc), ("c05.haplomat", opHaplomat), ("c05.ohvmat", opOhvmat), ("c05.ohvmat_chunked", opOhvmatChunked), ("c05.embvmat", opEmbvMat), ("c05.embv", opEmbv),
   ("c05.spec_factor", opSpecFactor), ("c05.kinship", opKinship), ("c05.la_step", opLaStep),
   ("c05.la_latent", opLaLatent)]

end Drv.C05
