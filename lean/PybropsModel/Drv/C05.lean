import PybropsModel.J
import PybropsModel.Model.Selection
open Lean

namespace Drv.C05
open Selection

/-- square root used when the model is *executed* at `Rat`: exact on perfect squares, otherwise rounded
    down to 30 decimal digits (the harness compares with tolerance 1e-9) -/
def ratSqrt (q : Rat) : Rat :=
  if q ≤ 0 then 0 else
  let n := q.num.toNat
  let d := q.den
  let sn := Nat.sqrt n
  let sd := Nat.sqrt d
  if sn * sn == n && sd * sd == d then mkRat sn sd
  else mkRat (Nat.sqrt (n * d * 10 ^ 60)) (d * 10 ^ 30)

instance : HasSqrt Rat := ⟨ratSqrt⟩

def eps : Rat := mkRat 1 (10 ^ 10)

def mat3 : Json → J.R (List (List (List Rat))) := J.list (J.mat J.rat)
def mat4 : Json → J.R (List (List (List (List Rat)))) := J.list mat3

def crit (j : Json) : J.R (Crit Rat) := do
  let k ← J.field j "crit" J.str
  match k with
  | "lin" => pure (.lin (← J.field j "guard" J.bool) (← J.field j "D" (J.mat J.rat)))
  | "ocs" => pure (.ocs (← J.field j "C" (J.mat J.rat)) (← J.field j "D" (J.mat J.rat)))
  | "mgr" => pure (.mgr (← J.field j "C" (J.mat J.rat)))
  | "meh" => pure (.meh (← J.field j "C" (J.mat J.rat)))
  | "l1" => pure (.l1 (← J.field j "V" mat3))
  | "l2" => pure (.l2 (← J.field j "C" mat3))
  | "family" => pure (.family (← J.field j "D" (J.mat J.rat)) (← J.field j "fix" (J.list J.nat))
      (← J.field j "nfam" J.nat))
  | "opv" => pure (.opv (← J.field j "H" mat4))
  | "pafd" | "pau" | "mogs" =>
    let g ← J.field j "geno" (J.mat J.rat)
    let p ← J.field j "ploidy" J.nat
    let w ← J.field j "mkrwt" (J.mat J.rat)
    let tf ← J.field j "tfreq" (J.mat J.rat)
    pure (if k == "pafd" then .pafd g p w tf else if k == "pau" then .pau g p w tf else .mogs g p w tf)
  | _ => J.fail s!"unknown criterion {k}"

def decn (j : Json) : J.R (Decn Rat) := do
  match ← J.fieldOpt j "S" (J.list J.nat) with
  | some S => pure (.subset S)
  | none => pure (.vec (← J.field j "x" (J.list J.rat)))

/-- model of `problem.latentfn(x)` -/
def opLatent : J.Op := fun j => do
  let c ← crit j
  let d ← decn j
  match d with
  | .subset S =>
    if S.isEmpty then J.fail "value: empty subset"
    if !S.all (· < c.ncand) then J.fail "index"
  | .vec x =>
    if x.length != c.ncand then J.fail "shape"
    if !c.guarded && Np.sum x == 0 then J.fail "value: zero total contribution (division by zero)"
  match latent eps c d with
  | some l => pure (J.ofList J.ofRat l)
  | none => J.fail "unsupported encoding"

/-! ### Spec oracle: the criterion's definition recomputed from the underlying data, independent of the
    decision encoding.  Input: the parental contribution shares `c` (Σ c = 1), the chosen set, and a latent
    vector reported by the implementation. -/

/-- a definitional latent entry: `a + b·√q` -/
structure Entry where
  a : Rat
  b : Rat
  q : Rat

def Entry.val (v : Rat) : Entry := ⟨v, 0, 0⟩

def absQ (a : Rat) : Rat := if a < 0 then -a else a
def maxQ (a b : Rat) : Rat := if a < b then b else a

def closeQ (rel abs_ : Rat) (a b : Rat) : Bool :=
  let d := absQ (a - b)
  d ≤ abs_ || d ≤ rel * maxQ (absQ a) (absQ b)

/-- does the reported value `l` equal `a + b·√q` (within tolerance)? -/
def Entry.holds (rel abs_ : Rat) (e : Entry) (l : Rat) : Bool :=
  if e.b == 0 then closeQ rel abs_ l e.a
  else
    let r := (l - e.a) / e.b            -- should be √q
    (0 - abs_ ≤ r) && closeQ (2 * rel) abs_ (r * r) e.q

def column (M : List (List Rat)) (j : Nat) : List Rat := M.map fun r => r.getD j 0

/-- cᵀ (CᵀC) c with K = CᵀC formed explicitly -/
def quadForm (C : List (List Rat)) (c : List Rat) : Rat :=
  let Ct := Np.transpose C
  let K := Ct.map fun ci => Ct.map fun cj => Np.dot ci cj
  Np.dot c (K.map fun row => Np.dot row c)

def linDef (D : List (List Rat)) (c : List Rat) : List Entry :=
  (List.range (ncols D)).map fun j => Entry.val (-(Np.dot c (column D j)))

def listMax (l : List Rat) : Rat := l.foldl maxQ (l.headD 0)

def freqDef (geno : List (List Rat)) (ploidy : Nat) (c : List Rat) (m : Nat) : Rat :=
  Np.dot c (column geno m) / (ploidy : Rat)

def pafdDef (geno : List (List Rat)) (ploidy : Nat) (w tf : List (List Rat)) (c : List Rat) : List Entry :=
  (List.range (ncols w)).map fun j => Entry.val <|
    Np.sum ((List.range w.length).map fun m => (w.getD m []).getD j 0 * absQ ((tf.getD m []).getD j 0 - freqDef geno ploidy c m))

/-- allele unavailability by its definition: the target frequency cannot be attained from the selected
    parents: target 0 needs p < 1, target 1 needs p > 0, an intermediate target needs 0 < p < 1 -/
def pauDef (geno : List (List Rat)) (ploidy : Nat) (w tf : List (List Rat)) (c : List Rat) : List Entry :=
  (List.range (ncols w)).map fun j => Entry.val <|
    Np.sum ((List.range w.length).map fun m =>
      let p := freqDef geno ploidy c m
      let t := (tf.getD m []).getD j 0
      let attainable := if t ≤ 0 then p < 1 else if 1 ≤ t then 0 < p else (0 < p && p < 1)
      if attainable then 0 else (w.getD m []).getD j 0)

def definition (cr : Crit Rat) (c : List Rat) (supp : List Nat) : List Entry :=
  match cr with
  | .lin _ D => linDef D c
  | .ocs C D => ⟨0, 1, quadForm C c⟩ :: linDef D c
  | .mgr C => [⟨0, 1, quadForm C c⟩]
  | .meh C => [⟨-1, 1, quadForm C c⟩]
  | .l1 V => V.map fun Vt => Entry.val (Np.sum (Vt.map fun row => absQ (Np.dot row c)))
  | .l2 C => C.map fun Ct => ⟨0, 1, quadForm Ct c⟩
  | .family D fix nfam => linDef D c ++ (List.range nfam).map fun f =>
      Entry.val (-(Np.sum ((List.zip fix c).filterMap fun p => if p.1 == f then some p.2 else none)))
  | .opv H =>
      let nblk := ((H.headD []).headD []).length
      let ntrait := (((H.headD []).headD []).headD []).length
      (List.range ntrait).map fun j => Entry.val <|
        -((H.length : Rat) * Np.sum ((List.range nblk).map fun b =>
            listMax (H.flatMap fun Hp => supp.map fun i => ((Hp.getD i []).getD b []).getD j 0)))
  | .pafd g p w tf => pafdDef g p w tf c
  | .pau g p w tf => pauDef g p w tf c
  | .mogs g p w tf => pauDef g p w tf c ++ pafdDef g p w tf c

/-- request: criterion data, `shares` (Σ = 1), `supp` (indices with positive share),
    `reported`: list of latent vectors returned by the implementation for encodings of these shares -/
def opSpecLatent : J.Op := fun j => do
  let cr ← crit j
  let c ← J.field j "shares" (J.list J.rat)
  let supp ← J.field j "supp" (J.list J.nat)
  let reported ← J.field j "reported" (J.list (J.list J.rat))
  let rel ← J.fieldD j "rel" J.rat (mkRat 1 (10 ^ 9))
  let abs_ ← J.fieldD j "abs" J.rat (mkRat 1 (10 ^ 12))
  if c.length != cr.ncand then J.fail "shape"
  let d := definition cr c supp
  let bad := reported.zipIdx.filter fun (l, _) =>
    !(l.length == d.length && (List.zip d l).all fun (e, v) => e.holds rel abs_ v)
  pure <| J.obj [("ok", J.ofBool bad.isEmpty),
    ("bad", J.ofList J.ofNat (bad.map Prod.snd)),
    ("definition", J.ofList (fun e : Entry => J.ofList J.ofRat [e.a, e.b, e.q]) d)]

/-! ### evalfn -/

def trans (j : Json) : J.R (Trans Rat) := do
  let k ← J.field j "t" J.str
  match k with
  | "identity" => pure .identity
  | "sum" => pure .sum
  | "dot" => pure (.dot (← J.field j "w" (J.list J.rat)))
  | "empty" => pure .empty
  | "decn_sum_eq" => pure (.decnSumEq (← J.field j "target" J.rat))
  | _ => J.fail s!"unknown transformation {k}"

def opEvalfn : J.Op := fun j => do
  let x ← J.field j "x" (J.list J.rat)
  let l ← J.field j "latent" (J.list J.rat)
  let ow ← J.field j "obj_wt" (J.list J.rat)
  let iw ← J.field j "ineqcv_wt" (J.list J.rat)
  let ew ← J.field j "eqcv_wt" (J.list J.rat)
  let to ← J.field j "obj_trans" trans
  let ti ← J.field j "ineqcv_trans" trans
  let te ← J.field j "eqcv_trans" trans
  let (o, i, e) := evalfn ow iw ew to ti te x l
  pure <| J.obj [("obj", J.ofList J.ofRat o), ("ineqcv", J.ofList J.ofRat i), ("eqcv", J.ofList J.ofRat e)]

/-! ### factory data paths -/

def opBvData : J.Op := fun j => do
  pure <| J.ofMat J.ofRat (bvData (← J.field j "unscale" J.bool) (← J.field j "mat" (J.mat J.rat))
    (← J.field j "location" (J.list J.rat)) (← J.field j "scale" (J.list J.rat)))

def opWgebv : J.Op := fun j => do
  pure <| J.ofMat J.ofRat (wgebvData (← J.field j "Z" (J.mat J.rat)) (← J.field j "u" (J.mat J.rat))
    (← J.field j "pw" (J.mat J.rat)))

/-- the guards of the weighted breeding values: `tmp[tmp == 0] = 1` and the masked `p (1 - p)` -/
def opGuard : J.Op := fun j => do
  let ff ← J.field j "fafreq" (J.mat J.rat)
  pure <| J.obj [("tmp", J.ofMat J.ofRat (guardZero ff)),
                 ("pq", J.ofMat J.ofRat (ff.map fun r => r.map pqGuard))]

def opCalcV : J.Op := fun j => do
  pure <| J.ofList (J.ofMat J.ofRat) (calcV (← J.field j "mkrwt" (J.mat J.rat))
    (← J.field j "tafreq" (J.mat J.rat)) (← J.field j "tfreq" (J.mat J.rat)))

def opXmap : J.Op := fun j => do
  pure <| J.ofMat J.ofNat (calcXmap (← J.field j "ntaxa" J.nat) (← J.field j "nparent" J.nat)
    (← J.field j "unique_parents" J.bool))

def opUc : J.Op := fun j => do
  pure <| J.ofMat J.ofRat (calcUc (← J.field j "epgc" (J.list J.rat)) (← J.field j "bv" (J.mat J.rat))
    (← J.field j "intensity" J.rat) (← J.field j "xmap" (J.mat J.nat)) (← J.field j "pvar" (J.mat J.rat)))

def opHaplomat : J.Op := fun j => do
  let b ← J.field j "bounds" (J.mat J.nat)
  pure <| J.ofList (J.ofList (J.ofMat J.ofRat)) (calcHaplomat (← J.field j "mat" mat3)
    (← J.field j "u" (J.mat J.rat)) (b.map fun p => (p.getD 0 0, p.getD 1 0)))

def opOhvmat : J.Op := fun j => do
  pure <| J.ofMat J.ofRat (calcOhvmat (← J.field j "H" mat4) (← J.field j "xmap" (J.mat J.nat)))

def opEmbv : J.Op := fun j => do
  pure <| J.ofMat J.ofRat (calcEmbv (← J.field j "nrep" J.nat) (← J.field j "tmaxs" mat3)
    (← J.field j "ntrait" J.nat))

/-- Spec for the kinship-factor contract: `CᵀC = K` (within tolerance) -/
def opSpecFactor : J.Op := fun j => do
  let C ← J.field j "C" (J.mat J.rat)
  let K ← J.field j "K" (J.mat J.rat)
  let rel ← J.fieldD j "rel" J.rat (mkRat 1 (10 ^ 8))
  let abs_ ← J.fieldD j "abs" J.rat (mkRat 1 (10 ^ 10))
  let Ct := Np.transpose C
  let G := Ct.map fun ci => Ct.map fun cj => Np.dot ci cj
  let ok := G.length == K.length && (List.zip G K).all fun (g, k) =>
    g.length == k.length && (List.zip g k).all fun (a, b) => closeQ rel abs_ a b
  pure <| J.obj [("ok", J.ofBool ok)]

def ops : List (String × J.Op) :=
  [("c05.latent", opLatent), ("c05.spec_latent", opSpecLatent), ("c05.evalfn", opEvalfn),
   ("c05.bvdata", opBvData), ("c05.wgebv", opWgebv), ("c05.guard", opGuard), ("c05.calcV", opCalcV), ("c05.xmap", opXmap),
   ("c05.uc", opUc), ("c05.haplomat", opHaplomat), ("c05.ohvmat", opOhvmat), ("c05.embv", opEmbv),
   ("c05.spec_factor", opSpecFactor)]

end Drv.C05
