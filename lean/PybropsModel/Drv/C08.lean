import PybropsModel.J
import PybropsModel.Model.Prng
import PybropsModel.Generated.C08Deps
import PybropsModel.Generated.C08Static
open Lean

/-!
Driver ops for C08.

`c08.predict`       run a program over the measured components on the toy instance of the model from
                    two prior states that differ in `py`, `np`, `os` (same caller generators) and report,
                    per step, which streams the step advances and which observables coincide between
                    the two executions (false = "may differ").
`c08.spec_repro`    Spec clause 1 on the implementation's output digests of two executions.
`c08.spec_isolated` Spec clause 2 on the implementation's observations of one explicit-generator call
                    in two executions.
`c08.table`         the compiled dependency table (to check that Lean and harness talk about the same one).
-/
namespace Drv.C08
open Prng

def findRow (name : String) : Option (Nat × Row) :=
  (C08Deps.table.zipIdx.find? (fun p => p.1.name == name)).map (fun p => (p.2, p.1))

def parseArg (j : Json) : J.R RngArg :=
  match j with
  | .str "glob" => .ok .glob
  | .arr a =>
    match a.toList with
    | [.str "ext", k] => do let k ← J.nat k; pure (.ext k)
    | [.str "spawned", k] => do let k ← J.nat k; pure (.spawned k)
    | _ => J.fail s!"bad rng argument {j.compress}"
  | _ => J.fail s!"bad rng argument {j.compress}"

def rowFor (name : String) : J.R (Nat × Row) :=
  match findRow name with
  | none => J.fail s!"component {name} is not in the measured table"
  | some x => pure x

def clsOf (i : Nat) (r : Row) : Cls Nat Nat := toyCls (i + 1) r.ctorDeps r.deps r.cached

def parseOp (j : Json) : J.R (Op Nat Nat) := do
  match ← J.fieldOpt j "seed" J.nat with
  | some s => pure (.seed s)
  | none =>
    match ← J.fieldOpt j "spawn" J.nat with
    | some n =>
      let bg ← J.fieldD j "bg" J.nat 0
      let bits ← J.fieldD j "bits" J.nat 64
      pure (.spawn n ⟨bg, bits⟩)
    | none =>
      match ← J.fieldOpt j "new" J.str with
      | some name =>
        let arg ← J.field j "rng" parseArg
        let (i, r) ← rowFor name
        if !r.accepts && !arg.isGlob then J.fail s!"component {name} has no rng parameter" else
        pure (.new (clsOf i r) arg)
      | none =>
        match ← J.fieldOpt j "use" J.nat with
        | some k =>
          let name ← J.field j "c" J.str
          let (i, r) ← rowFor name
          pure (.use (clsOf i r) k)
        | none =>
          match ← J.fieldOpt j "setrng" J.nat with
          | some k =>
            let name ← J.field j "c" J.str
            let arg ← J.field j "rng" parseArg
            let (i, r) ← rowFor name
            if !r.accepts && !arg.isGlob then J.fail s!"component {name} has no rng parameter" else
            pure (.setrng (clsOf i r) k arg)
          | none =>
            match ← J.fieldOpt j "copy" J.nat with
            | some k => pure (.copy k)
            | none =>
            let name ← J.field j "c" J.str
            let arg ← J.field j "rng" parseArg
            let (i, r) ← rowFor name
            if !r.accepts && !arg.isGlob then J.fail s!"component {name} has no rng parameter" else
            pure (.call (toyComp (i + 1) r.deps) arg)

/-- states after each step (stops at the first failing step) -/
def trace (P : Prim Nat) : List (Op Nat Nat) → St Nat → List (Option (Out Nat Nat × St Nat))
  | [], _ => []
  | op :: rest, st =>
    match step P op st with
    | none => [none]
    | some r => some r :: trace P rest r.2

def touched (a b : St Nat) : List String :=
  (if a.py != b.py then ["py"] else []) ++ (if a.np != b.np then ["np"] else [])
  ++ (if a.os != b.os then ["os"] else [])
  ++ ((List.range (max a.ext.length b.ext.length)).filter (fun i => a.ext[i]? != b.ext[i]?)).map (fun i => s!"ext{i}")
  ++ ((List.range (max a.spawned.length b.spawned.length)).filter (fun i => a.spawned[i]? != b.spawned[i]?)).map (fun i => s!"spawned{i}")

/-- `setup` (optional) is run before `prog`.  Without `share` both executions run `setup ++ prog`
    from two states that differ in `py`, `np`, `os`.  With `share` the second execution continues
    from the FINAL state of the first one (same long-lived objects, their private state as the first
    execution left it) with different `py`, `np`, `os`, and runs `prog` only. -/
def opPredict : J.Op := fun j => do
  let setup ← J.fieldD j "setup" (J.list parseOp) []
  let prog ← J.field j "prog" (J.list parseOp)
  let nExt ← J.fieldD j "n_ext" J.nat 0
  let share ← J.fieldD j "share" J.bool false
  let ext := (List.range nExt).map (fun i => mix i 77)
  let sA : St Nat := ⟨1001, 2002, 3003, ext, [], []⟩
  let full := setup ++ prog
  let tA := trace toyPrim full sA
  let finA : St Nat := ((tA.getLast?).bind (fun r => r.map Prod.snd)).getD sA
  let sB : St Nat := if share then { finA with py := 4004, np := 5005, os := 6006 } else ⟨4004, 5005, 6006, ext, [], []⟩
  let tB := trace toyPrim (if share then prog else full) sB
  let befA := sA :: tA.filterMap (fun r => r.map Prod.snd)
  let pad : List (Option (Out Nat Nat × St Nat)) := if share then setup.map (fun _ => none) else []
  let tB' := pad ++ tB
  let rows := (tA.zip tB').zipIdx.map (fun p =>
    let before := befA.getD p.2 sA
    match p.1.1, p.1.2 with
    | some (oa, a), some (ob, b) =>
      J.obj [("ok", J.ofBool true), ("touched", J.ofList J.ofStr (touched before a)),
             ("eq_out", J.ofBool (oa == ob)), ("eq_py", J.ofBool (a.py == b.py)),
             ("eq_np", J.ofBool (a.np == b.np)),
             ("eq_gens", J.ofBool (a.ext == b.ext && a.spawned == b.spawned))]
    | some (_, a), none =>
      if share && p.2 < setup.length then
        J.obj [("ok", J.ofBool true), ("touched", J.ofList J.ofStr (touched before a)),
               ("eq_out", J.ofBool false), ("eq_py", J.ofBool false), ("eq_np", J.ofBool false),
               ("eq_gens", J.ofBool false)]
      else J.obj [("ok", J.ofBool false)]
    | _, _ => J.obj [("ok", J.ofBool false)])
  pure <| J.obj [("steps", .arr rows.toArray),
    ("complete", J.ofBool (tA.length == full.length && tA.all Option.isSome
        && tB.length == (if share then prog.length else full.length) && tB.all Option.isSome))]

def opSpecRepro : J.Op := fun j => do
  let a ← J.field j "a" (J.list J.str)
  let b ← J.field j "b" (J.list J.str)
  let ok := specRepro a b
  let firstDiff := ((a.zip b).zipIdx.find? (fun p => p.1.1 != p.1.2)).map (·.2)
  pure <| J.obj [("ok", J.ofBool ok), ("first_diff", J.ofOpt J.ofNat firstDiff),
                 ("detail", J.ofStr s!"lengths {a.length}/{b.length} first differing step {firstDiff}")]

def parseIso (j : Json) : J.R (IsoObs String String) := do
  pure ⟨← J.field j "py0" J.str, ← J.field j "py1" J.str, ← J.field j "np0" J.str, ← J.field j "np1" J.str,
        ← J.field j "out" J.str⟩

def opSpecIsolated : J.Op := fun j => do
  let a ← J.field j "a" parseIso
  let b ← J.field j "b" parseIso
  let needEq ← J.fieldD j "same_generator" J.bool true
  let ua := specUntouched a
  let ub := specUntouched b
  let eo := a.out == b.out
  let ok := if needEq then specIsolated a b else ua && ub
  pure <| J.obj [("ok", J.ofBool ok),
    ("detail", J.ofStr s!"globals untouched: run A {ua} (py {a.pyBefore == a.pyAfter}, np {a.npBefore == a.npAfter}), run B {ub}; results equal {eo}")]

def ofDeps (d : Deps) : Json := J.obj [("rng", J.ofBool d.rng), ("py", J.ofBool d.py), ("np", J.ofBool d.np), ("os", J.ofBool d.os)]

def opTable : J.Op := fun _ => do
  pure <| J.obj [
    ("rows", J.ofList (fun (r : Row) => J.obj [("name", J.ofStr r.name), ("accepts", J.ofBool r.accepts),
        ("deps", ofDeps r.deps), ("osSites", J.ofList J.ofStr r.osSites), ("leakSites", J.ofList J.ofStr r.leakSites),
        ("ctorDeps", ofDeps r.ctorDeps), ("cached", J.ofBool r.cached),
        ("cached_known", J.ofBool (r.cachedKnown C08Deps.knownCached)),
        ("consistent", J.ofBool r.consistent),
        ("unseeded_known", J.ofBool (r.unseededKnown C08Deps.knownOsSites)),
        ("leaks_known", J.ofBool (r.leaksKnown C08Deps.knownLeakSites))]) C08Deps.table),
    ("knownOsSites", J.ofList J.ofStr C08Deps.knownOsSites),
    ("knownLeakSites", J.ofList J.ofStr C08Deps.knownLeakSites)]

def opStatic : J.Op := fun _ => do
  pure <| J.obj [
    ("sites", J.ofList (fun (x : Site) => J.obj [("module", J.ofStr x.module), ("func", J.ofStr x.func),
        ("kind", J.ofStr x.kind), ("what", J.ofStr x.what), ("count", J.ofNat x.count),
        ("reached", J.ofList J.ofNat x.reached), ("scoped", J.ofBool x.opScope),
        ("covered", J.ofBool (x.covered C08Deps.table C08Static.allow))]) C08Static.sites),
    ("allow", J.ofList (fun (a : String × String × String) => J.ofList J.ofStr [a.1, a.2.1, a.2.2]) C08Static.allow)]

/-! `c08.prim_run`: the literal model of `seed()` / `spawn()` (Model/Prng `seed`, `spawnGo`) executed on the
    REAL primitives: generator states are digests (strings), the four primitives are finite tables recorded
    by the harness from the standard library (`random.seed`, `random.randint`, `numpy.random.seed`,
    `Generator(BitGenerator(v))`).  The harness compares the states the model computes with those the
    real `prng.seed` / `prng.spawn` leave behind. -/
def lookup1 (t : List (String × String)) (k : String) : String :=
  ((t.find? (fun p => p.1 == k)).map (·.2)).getD ("?" ++ k)

def opPrimRun : J.Op := fun j => do
  let pair : Json → J.R (String × String) := fun x => do
    match x with
    | .arr a => match a.toList with
      | [k, v] => do pure (← J.str k, ← J.str v)
      | _ => J.fail "pair expected"
    | _ => J.fail "pair expected"
  let quad : Json → J.R (Nat × String × Nat × String) := fun x => do
    match x with
    | .arr a => match a.toList with
      | [b, k, v, n] => do pure (← J.nat b, ← J.str k, ← J.nat v, ← J.str n)
      | _ => J.fail "quadruple expected"
    | _ => J.fail "quadruple expected"
  let gtriple : Json → J.R (Nat × String × String) := fun x => do
    match x with
    | .arr a => match a.toList with
      | [b, k, v] => do pure (← J.nat b, ← J.str k, ← J.str v)
      | _ => J.fail "triple expected"
    | _ => J.fail "triple expected"
  let pySeedT ← J.field j "py_seed" (J.list pair)
  let pyDrawT ← J.field j "py_draw" (J.list quad)
  let npSeedT ← J.field j "np_seed" (J.list pair)
  let genSeedT ← J.field j "gen_seed" (J.list gtriple)
  let P : Prim String :=
    { pySeed := fun s => lookup1 pySeedT (toString s),
      pyDraw := fun bits x => match pyDrawT.find? (fun p => p.1 == bits && p.2.1 == x) with
        | some p => (p.2.2.1, p.2.2.2)
        | none => (0, "?" ++ x),
      npSeed := fun v => lookup1 npSeedT (toString v),
      genSeed := fun bg v => match genSeedT.find? (fun p => p.1 == bg && p.2.1 == toString v) with
        | some p => p.2.2
        | none => "?" ++ toString v }
  let py0 ← J.field j "py" J.str
  let np0 ← J.field j "np" J.str
  let prog ← J.field j "ops" (J.list (fun o => do
    match ← J.fieldOpt o "seed" J.nat with
    | some s => pure (Op.seed s : Op String Nat)
    | none => do
      let n ← J.field o "spawn" J.nat
      let bg ← J.fieldD o "bg" J.nat 0
      let bits ← J.fieldD o "bits" J.nat 64
      pure (Op.spawn n ⟨bg, bits⟩)))
  let rec go (ops : List (Op String Nat)) (st : St String) (acc : List Json) : List Json :=
    match ops with
    | [] => acc.reverse
    | op :: rest =>
      match step P op st with
      | none => acc.reverse
      | some (o, st') =>
        let gens := match o with
          | .gens g => g
          | _ => []
        go rest st' (J.obj [("py", J.ofStr st'.py), ("np", J.ofStr st'.np), ("gens", J.ofList J.ofStr gens)] :: acc)
  pure <| J.obj [("steps", .arr (go prog ⟨py0, np0, "os", [], [], []⟩ []).toArray)]

def ops : List (String × J.Op) :=
  [("c08.predict", opPredict), ("c08.spec_repro", opSpecRepro), ("c08.spec_isolated", opSpecIsolated),
   ("c08.table", opTable), ("c08.static", opStatic), ("c08.prim_run", opPrimRun)]

end Drv.C08
