import PybropsModel.J
import PybropsModel.Model.Prng
import PybropsModel.Generated.C08Deps
open Lean

/-!
Driver ops for C08.

`c08.predict`       run a program over the measured components on the toy instance of the model from
                    two prior states that differ in `py`, `np`, `os` (same caller generators) and report,
                    per step, which streams the step advances and which observables coincide between
                    the two executions (false = "may differ").
`c08.spec_repro`    Spec clause 1 on the implementation's output digests of two executions.
`c08.spec_isolated` Spec clause 2 on the implementation's observations of one explicit-generator call
                    in two executions.
`c08.table`         the compiled dependency table (to check that Lean and harness talk about the same one).
-/
namespace Drv.C08
open Prng

def findRow (name : String) : Option (Nat × Row) :=
  (C08Deps.table.zipIdx.find? (fun p => p.1.name == name)).map (fun p => (p.2, p.1))

def parseArg (j : Json) : J.R RngArg :=
  match j with
  | .str "glob" => .ok .glob
  | .arr a =>
    match a.toList with
    | [.str "ext", k] => do let k ← J.nat k; pure (.ext k)
    | [.str "spawned", k] => do let k ← J.nat k; pure (.spawned k)
    | _ => J.fail s!"bad rng argument {j.compress}"
  | _ => J.fail s!"bad rng argument {j.compress}"

def parseOp (j : Json) : J.R (Op Nat Nat) := do
  match ← J.fieldOpt j "seed" J.nat with
  | some s => pure (.seed s)
  | none =>
    match ← J.fieldOpt j "spawn" J.nat with
    | some n => pure (.spawn n)
    | none =>
      let name ← J.field j "c" J.str
      let arg ← J.field j "rng" parseArg
      match findRow name with
      | none => J.fail s!"component {name} is not in the measured table"
      | some (i, r) =>
        if !r.accepts && !arg.isGlob then J.fail s!"component {name} has no rng parameter" else
        pure (.call (toyComp (i + 1) r.deps) arg)

/-- states after each step (stops at the first failing step) -/
def trace (P : Prim Nat) : List (Op Nat Nat) → St Nat → List (Option (Out Nat Nat × St Nat))
  | [], _ => []
  | op :: rest, st =>
    match step P op st with
    | none => [none]
    | some r => some r :: trace P rest r.2

def touched (a b : St Nat) : List String :=
  (if a.py != b.py then ["py"] else []) ++ (if a.np != b.np then ["np"] else [])
  ++ (if a.os != b.os then ["os"] else [])
  ++ ((List.range (max a.ext.length b.ext.length)).filter (fun i => a.ext[i]? != b.ext[i]?)).map (fun i => s!"ext{i}")
  ++ ((List.range (max a.spawned.length b.spawned.length)).filter (fun i => a.spawned[i]? != b.spawned[i]?)).map (fun i => s!"spawned{i}")

def opPredict : J.Op := fun j => do
  let prog ← J.field j "prog" (J.list parseOp)
  let nExt ← J.fieldD j "n_ext" J.nat 0
  let ext := (List.range nExt).map (fun i => mix i 77)
  let sA : St Nat := ⟨1001, 2002, 3003, ext, []⟩
  let sB : St Nat := ⟨4004, 5005, 6006, ext, []⟩
  let tA := trace toyPrim prog sA
  let tB := trace toyPrim prog sB
  let befA := sA :: tA.filterMap (fun r => r.map Prod.snd)
  let rows := (tA.zip tB).zipIdx.map (fun p =>
    match p.1.1, p.1.2 with
    | some (oa, a), some (ob, b) =>
      let before := befA.getD p.2 sA
      J.obj [("ok", J.ofBool true), ("touched", J.ofList J.ofStr (touched before a)),
             ("eq_out", J.ofBool (oa == ob)), ("eq_py", J.ofBool (a.py == b.py)),
             ("eq_np", J.ofBool (a.np == b.np)),
             ("eq_gens", J.ofBool (a.ext == b.ext && a.spawned == b.spawned))]
    | _, _ => J.obj [("ok", J.ofBool false)])
  pure <| J.obj [("steps", .arr rows.toArray), ("complete", J.ofBool (tA.length == prog.length && tA.all Option.isSome))]

def opSpecRepro : J.Op := fun j => do
  let a ← J.field j "a" (J.list J.str)
  let b ← J.field j "b" (J.list J.str)
  let ok := specRepro a b
  let firstDiff := ((a.zip b).zipIdx.find? (fun p => p.1.1 != p.1.2)).map (·.2)
  pure <| J.obj [("ok", J.ofBool ok), ("first_diff", J.ofOpt J.ofNat firstDiff),
                 ("detail", J.ofStr s!"lengths {a.length}/{b.length} first differing step {firstDiff}")]

def parseIso (j : Json) : J.R (IsoObs String String) := do
  pure ⟨← J.field j "py0" J.str, ← J.field j "py1" J.str, ← J.field j "np0" J.str, ← J.field j "np1" J.str,
        ← J.field j "out" J.str⟩

def opSpecIsolated : J.Op := fun j => do
  let a ← J.field j "a" parseIso
  let b ← J.field j "b" parseIso
  let needEq ← J.fieldD j "same_generator" J.bool true
  let ua := specUntouched a
  let ub := specUntouched b
  let eo := a.out == b.out
  let ok := if needEq then specIsolated a b else ua && ub
  pure <| J.obj [("ok", J.ofBool ok),
    ("detail", J.ofStr s!"globals untouched: run A {ua} (py {a.pyBefore == a.pyAfter}, np {a.npBefore == a.npAfter}), run B {ub}; results equal {eo}")]

def ofDeps (d : Deps) : Json := J.obj [("rng", J.ofBool d.rng), ("py", J.ofBool d.py), ("np", J.ofBool d.np), ("os", J.ofBool d.os)]

def opTable : J.Op := fun _ => do
  pure <| J.obj [
    ("rows", J.ofList (fun (r : Row) => J.obj [("name", J.ofStr r.name), ("accepts", J.ofBool r.accepts),
        ("deps", ofDeps r.deps), ("osSites", J.ofList J.ofStr r.osSites), ("leakSites", J.ofList J.ofStr r.leakSites),
        ("consistent", J.ofBool r.consistent),
        ("unseeded_known", J.ofBool (r.unseededKnown C08Deps.knownOsSites)),
        ("leaks_known", J.ofBool (r.leaksKnown C08Deps.knownLeakSites))]) C08Deps.table),
    ("knownOsSites", J.ofList J.ofStr C08Deps.knownOsSites),
    ("knownLeakSites", J.ofList J.ofStr C08Deps.knownLeakSites)]

def ops : List (String × J.Op) :=
  [("c08.predict", opPredict), ("c08.spec_repro", opSpecRepro), ("c08.spec_isolated", opSpecIsolated),
   ("c08.table", opTable)]

end Drv.C08
