import PybropsModel.J
import PybropsModel.Model.Pedigree
import PybropsModel.Model.DenseMate
open Lean

namespace Drv.C01
open Meiosis Mating

def protoOf (s : String) : J.R Proto :=
  match s with
  | "self" => pure .self
  | "2w" => pure .twoWay
  | "2wdh" => pure .twoWayDH
  | "3w" => pure .threeWay
  | "3wdh" => pure .threeWayDH
  | "4w" => pure .fourWay
  | "4wdh" => pure .fourWayDH
  | _ => J.fail s!"unknown protocol {s}"

/-- `(2, ntaxa, nvrnt)` array → list of individuals -/
def popOf (g : List (List (List Int))) : J.R (Pop Int) :=
  match g with
  | [p0, p1] => if p0.length = p1.length then pure (List.zip p0 p1) else J.fail "phases differ in taxa count"
  | _ => J.fail "genotype array must have exactly two phases"

def matOf (p : Pop Int) : List (List (List Int)) := [p.map Prod.fst, p.map Prod.snd]

def cnt (j : Json) : J.R Cnt :=
  match j with
  | .arr _ => Cnt.arr <$> J.list J.nat j
  | _ => Cnt.scalar <$> J.nat j

/-- draws are sent as integer numerators over one common denominator `dden` -/
def drawsOf (j : Json) : J.R (List (DrawMat Rat)) := do
  let den ← J.fieldD j "dden" J.nat 1
  let raw ← J.field j "draws" (J.list (J.mat J.int))
  if den == 0 then J.fail "dden = 0" else
  pure (raw.map (fun m => m.map (fun r => r.map (fun n => mkRat n den))))

def strOf (l : List Nat) : String := String.ofList (l.map Char.ofNat)
def codes (s : String) : List Nat := s.toList.map Char.toNat

def errTag : Err → String
  | .index => "index" | .value => "value" | .shape => "shape" | .oracle => "oracle"

def metaKeys : List String :=
  ["vrnt_chrgrp", "vrnt_phypos", "vrnt_name", "vrnt_genpos", "vrnt_xoprob", "vrnt_hapgrp", "vrnt_hapalt",
   "vrnt_hapref", "vrnt_mask", "vrnt_chrgrp_name", "vrnt_chrgrp_stix", "vrnt_chrgrp_spix", "vrnt_chrgrp_len"]

/-- marker metadata: each array is kept as the opaque JSON value the harness sent -/
def metaOf (j : Json) : VMeta Json :=
  let g (k : String) : Option Json := match j.getObjVal? k with
    | .ok .null => none
    | .ok v => some v
    | .error _ => none
  { chrgrp := g "vrnt_chrgrp", phypos := g "vrnt_phypos", name := g "vrnt_name", genpos := g "vrnt_genpos",
    xoprob := g "vrnt_xoprob", hapgrp := g "vrnt_hapgrp", hapalt := g "vrnt_hapalt", hapref := g "vrnt_hapref",
    mask := g "vrnt_mask", chrgrp_name := g "vrnt_chrgrp_name", chrgrp_stix := g "vrnt_chrgrp_stix",
    chrgrp_spix := g "vrnt_chrgrp_spix", chrgrp_len := g "vrnt_chrgrp_len" }

def ofMeta (m : VMeta Json) : Json :=
  let o (x : Option Json) : Json := x.getD .null
  J.obj (List.zip metaKeys [o m.chrgrp, o m.phypos, o m.name, o m.genpos, o m.xoprob, o m.hapgrp, o m.hapalt,
    o m.hapref, o m.mask, o m.chrgrp_name, o m.chrgrp_stix, o m.chrgrp_spix, o m.chrgrp_len])

structure Args where
  P : Proto
  pop : Pop Int
  xc : List (List Int)
  nm : Cnt
  np : Cnt
  nself : Nat
  xo : List Rat
  pc : Nat
  fc : Nat

def args (j : Json) : J.R Args := do
  let P ← protoOf (← J.field j "proto" J.str)
  let pop ← popOf (← J.field j "geno" (J.list (J.mat J.int)))
  pure { P := P, pop := pop,
         xc := ← J.field j "xconfig" (J.mat J.int),
         nm := ← J.field j "nmating" cnt, np := ← J.field j "nprogeny" cnt,
         nself := ← J.field j "nself" J.nat, xo := ← J.field j "xo" (J.list J.rat),
         pc := ← J.field j "pc" J.nat, fc := ← J.field j "fc" J.nat }

/-- model of `<Protocol>.mate()` -/
def opMate : J.Op := fun j => do
  let a ← args j
  let draws ← drawsOf j
  let pg := metaOf ((j.getObjVal? "meta").toOption.getD .null)
  match mateFull a.P a.pop pg a.xc a.nm a.np a.nself a.xo a.pc a.fc draws with
  | .error e => pure <| J.obj [("error", J.ofStr (errTag e))]
  | .ok (o, m) =>
    pure <| J.obj [
      ("meta", ofMeta m),
      ("mat", J.ofList (J.ofMat J.ofInt) (matOf (o.rows.map Row.ind))),
      ("taxa", J.ofList J.ofStr (o.rows.map (fun r => strOf r.name))),
      ("taxa_grp", J.ofList J.ofNat (o.rows.map Row.grp)),
      ("pc", J.ofNat o.pc), ("fc", J.ofNat o.fc),
      ("grp_name", J.ofList J.ofNat (o.grpMeta.map (·.1))),
      ("grp_stix", J.ofList J.ofNat (o.grpMeta.map (·.2.1))),
      ("grp_len", J.ofList J.ofNat (o.grpMeta.map (·.2.2))),
      ("grp_spix", J.ofList J.ofNat (o.grpMeta.map (fun m => m.2.1 + m.2.2)))]

/-- Spec oracle on the implementation's output -/
def opSpecMate : J.Op := fun j => do
  let a ← args j
  let o ← J.field j "out" pure
  let prog ← popOf (← J.field o "mat" (J.list (J.mat J.int)))
  let taxa ← J.field o "taxa" (J.list J.str)
  let grp ← J.field o "taxa_grp" (J.list J.nat)
  let pc' ← J.field o "pc" J.nat
  let fc' ← J.field o "fc" J.nat
  if taxa.length ≠ prog.length ∨ grp.length ≠ prog.length then
    pure <| J.obj [("ok", J.ofBool false), ("detail", J.ofStr "label arrays differ in length from the matrix")]
  else
    let rows : List (Row Int) := (List.zip prog (List.zip taxa grp)).map (fun x => ⟨x.1, codes x.2.1, x.2.2⟩)
    let out : Out Int := { rows := rows, pc := pc', fc := fc', grpMeta := [] }
    let (ok, msg) := specMate a.P a.pop (wrapConfig a.pop.length a.xc) a.nm a.np a.nself a.xo a.pc a.fc out
    pure <| J.obj [("ok", J.ofBool ok), ("detail", J.ofStr msg)]

/-- content of a `numpy.empty((n, nv))` buffer for the dense model: arbitrary values, distinct per cell -/
def garbage (seed : Int) (n nv : Nat) : List (List Int) :=
  (List.range n).map (fun (i : Nat) => (List.range nv).map (fun (j : Nat) => (seed + 7 * (i : Int) + 3 * (j : Int)) % 251 - 125))

/-- the three matrix utilities: `module = "util"` runs the model of breed/prot/mate/util.py
    (`Meiosis.meiosisE/dhE/mateE`), `module = "core"` the buffer-level model of core/util/mate.py
    (`DenseMate.denseMeiosisE/denseDhE/denseCrossE`, the uninitialised buffers filled with `garbage`) -/
def opUtil : J.Op := fun j => do
  let fn ← J.field j "fn" J.str
  let module ← J.fieldD j "module" J.str "util"
  let seed ← J.fieldD j "garbage" J.int 99
  let xo ← J.field j "xo" (J.list J.rat)
  let draws ← drawsOf j
  let pop ← popOf (← J.field j "geno" (J.list (J.mat J.int)))
  let sel ← J.field j "sel" (J.list J.nat)
  let dense := module == "core"
  let enc (r : Except Err (Pop Int × List (DrawMat Rat))) : Json :=
    match r with
    | .error e => J.obj [("error", J.ofStr (errTag e))]
    | .ok (p, rest) => if rest.isEmpty then J.obj [("mat", J.ofList (J.ofMat J.ofInt) (matOf p))]
                       else J.obj [("error", J.ofStr "oracle")]
  match fn with
  | "meiosis" =>
    match draws with
    | [r] =>
      let res := if dense then DenseMate.denseMeiosisE pop sel xo r (garbage seed sel.length xo.length)
                 else meiosisE pop sel xo r
      match res with
      | .error e => pure <| J.obj [("error", J.ofStr (errTag e))]
      | .ok g => pure <| J.obj [("gamete", J.ofMat J.ofInt g),
                               ("closed", J.ofMat J.ofInt
                                  ((List.zip sel r).filterMap (fun sr => (pop[sr.1]?).map (fun i => gamete i (xoMask sr.2 xo)))))]
    | _ => pure <| J.obj [("error", J.ofStr "oracle")]
  | "dh" =>
    pure <| enc (if dense then DenseMate.denseDhE pop sel xo draws [garbage seed sel.length xo.length]
                 else dhE pop sel xo draws)
  | "mate" => do
    let mpop ← popOf (← J.field j "mgeno" (J.list (J.mat J.int)))
    let msel ← J.field j "msel" (J.list J.nat)
    pure <| enc (if dense then DenseMate.denseCrossE pop mpop sel msel xo draws
                                 [garbage seed sel.length xo.length, garbage (seed + 1) msel.length xo.length]
                 else mateE pop mpop sel msel xo draws)
  | _ => J.fail s!"unknown fn {fn}"

/-- Spec oracle of the utilities on the implementation's output (`Mating.specGametes/specDh/specCross`) -/
def opSpecUtil : J.Op := fun j => do
  let fn ← J.field j "fn" J.str
  let xo ← J.field j "xo" (J.list J.rat)
  let pop ← popOf (← J.field j "geno" (J.list (J.mat J.int)))
  let sel ← J.field j "sel" (J.list J.nat)
  match fn with
  | "meiosis" =>
    let res ← J.field j "res" (J.mat J.int)
    pure <| J.ofBool (specGametes pop sel xo res)
  | "dh" =>
    let res ← popOf (← J.field j "res" (J.list (J.mat J.int)))
    pure <| J.ofBool (specDh pop sel xo res)
  | "mate" => do
    let res ← popOf (← J.field j "res" (J.list (J.mat J.int)))
    let mpop ← popOf (← J.field j "mgeno" (J.list (J.mat J.int)))
    let msel ← J.field j "msel" (J.list J.nat)
    pure <| J.ofBool (specCross pop mpop sel msel xo res)
  | _ => J.fail s!"unknown fn {fn}"

/-- conformance of the primitives the model leans on: numpy.repeat, numpy.lexsort((taxa, taxa_grp))
    with Python string keys, `str(i).zfill(7)` -/
def opNp : J.Op := fun j => do
  let fn ← J.field j "fn" J.str
  match fn with
  | "repeat" =>
    let c ← J.field j "counts" (J.list J.nat)
    let v ← J.field j "vals" (J.list J.int)
    pure <| J.ofList J.ofInt (Np.repeatEach c v)
  | "lexsort" =>
    let names ← J.field j "names" (J.list J.str)
    let grp ← J.field j "grp" (J.list J.nat)
    let rows : List (Row Int) := (List.zip names grp).zipIdx.map (fun x => ⟨([(x.2 : Int)], []), codes x.1.1, x.1.2⟩)
    pure <| J.ofList (fun (r : Row Int) => J.ofInt (r.ind.1.headD 0)) (groupTaxa rows)
  | "mulwrap" =>
    let a ← J.field j "a" (J.list J.nat)
    let b ← J.field j "b" (J.list J.nat)
    let bits ← J.field j "bits" J.nat
    let signed ← J.field j "signed" J.bool
    pure <| J.ofList J.ofInt (countProductPrerepair bits signed a b)
  | "mul64" =>
    let a ← J.field j "a" (J.list J.nat)
    let b ← J.field j "b" (J.list J.nat)
    pure <| J.ofList J.ofInt (countProduct a b)
  | "zfill" =>
    let ns ← J.field j "ns" (J.list J.nat)
    pure <| J.ofList J.ofStr (ns.map (fun n => strOf (zfill7 n)))
  | _ => J.fail s!"unknown fn {fn}"

def ops : List (String × J.Op) :=
  [("c01.mate", opMate), ("c01.spec_mate", opSpecMate), ("c01.util", opUtil), ("c01.spec_util", opSpecUtil),
   ("c01.np", opNp)]

end Drv.C01
