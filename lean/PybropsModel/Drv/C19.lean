import PybropsModel.J
import PybropsModel.Model.Pareto
open Lean

namespace Drv.C19

/-- Spec oracle of sentence 1 (`Pareto.Q.specMask`: sound + complete, O(n·#marked) definition) and of
    "mask and index forms agree" (`Pareto.specIdx`), evaluated on the implementation's outputs;
    `Props/C19.spec_mask_iff`, `spec_mask_sound`, `spec_idx_iff`, `spec_idx_sound` -/
def opPareto : J.Op := fun j => do
  let fmat ← J.field j "fmat" (J.mat J.rat)
  let wt ← J.field j "wt" (J.list J.rat)
  pure <| J.obj [("idx", J.ofList J.ofNat (Pareto.Q.efficientIdx fmat wt)),
                 ("mask", J.ofList J.ofBool (Pareto.Q.efficientMask fmat wt))]

def opSpecPareto : J.Op := fun j => do
  let fmat ← J.field j "fmat" (J.mat J.rat)
  let wt ← J.field j "wt" (J.list J.rat)
  let mask ← J.field j "mask" (J.list J.bool)
  let idx ← J.field j "idx" (J.list J.nat)
  let rows := fmat.map (Pareto.Q.applyWt wt)
  let lenOk := mask.length == rows.length
  let sound := Pareto.Q.specRowsSound rows mask
  let complete := Pareto.Q.specRowsComplete rows mask
  let ok := Pareto.Q.specMask fmat wt mask
  let agree := Pareto.specIdx fmat.length mask idx
  pure <| J.obj [("ok", J.ofBool (ok && agree)),
    ("detail", J.ofStr s!"mask_length_ok={lenOk} sound={sound} complete={complete} mask_eq_index={agree}")]

def opDominates : J.Op := fun j => do
  let o1 ← J.field j "obj1" (J.list J.rat)
  let o2 ← J.field j "obj2" (J.list J.rat)
  let c1 ← J.field j "cv1" J.rat
  let c2 ← J.field j "cv2" J.rat
  pure <| J.ofBool (Pareto.Q.dominates o1 c1 o2 c2)

/-- Spec of sentence 2 (`Pareto.Q.specDominates`: four-way case split on feasibility) on the
    implementation's answer; `Props/C19.spec_dominates_iff`, `spec_dominates_sound` -/
def opSpecDominates : J.Op := fun j => do
  let o1 ← J.field j "obj1" (J.list J.rat)
  let o2 ← J.field j "obj2" (J.list J.rat)
  let c1 ← J.field j "cv1" J.rat
  let c2 ← J.field j "cv2" J.rat
  let claimed ← J.field j "claimed" J.bool
  pure <| J.obj [("ok", J.ofBool (Pareto.Q.specDominates o1 c1 o2 c2 claimed)),
                 ("want", J.ofBool (Pareto.Q.wantDominates o1 c1 o2 c2))]

def opDist : J.Op := fun j => do
  let mat ← J.field j "mat" (J.mat J.rat)
  let sign ← J.field j "sign" (J.list J.rat)
  let line ← J.field j "line" (J.list J.rat)
  let guarded ← J.field j "guarded" J.bool
  let variant ← J.fieldD j "variant" J.str "common"
  -- the line-by-line transcription of the named source function (argument order of that function);
  -- `common` = the shared model `transDistSq` (Props/C19.dist_three_copies_agree: all four are equal)
  let out := match variant with
    | "core" => Pareto.Q.transDistCore mat sign line
    | "prob" => Pareto.Q.transDistProb mat line sign
    | "transfn" => Pareto.Q.transDistFn mat line sign
    | _ => Pareto.Q.transDistSq guarded mat sign line
  pure <| J.ofOpt (J.ofList J.ofRat) out

/-- the other front-ranking transformations (`transfn.trans_dot`, `transfn.trans_sum`, and the
    latent-vector `trans_sum` / `trans_dot` of sel/prob/trans.py) -/
def opWsum : J.Op := fun j => do
  let fn ← J.field j "fn" J.str
  match fn with
  | "dot" =>
    let mat ← J.field j "mat" (J.mat J.rat)
    let wt ← J.field j "wt" (J.list J.rat)
    pure <| J.ofList J.ofRat (Pareto.Q.transDot mat wt)
  | "sum1" =>
    let mat ← J.field j "mat" (J.mat J.rat)
    pure <| J.ofList J.ofRat (Pareto.Q.transSumAxis1 mat)
  | "sum0" =>
    let mat ← J.field j "mat" (J.mat J.rat)
    pure <| J.ofList J.ofRat (Pareto.Q.transSumAxis0 mat)
  | "sumall" =>
    let mat ← J.field j "mat" (J.mat J.rat)
    pure <| J.ofRat (Pareto.Q.transSumAll mat)
  | "latent_sum" =>
    let v ← J.field j "vec" (J.list J.rat)
    pure <| J.ofList J.ofRat (Pareto.Q.latentSum v)
  | "latent_dot" =>
    let v ← J.field j "vec" (J.list J.rat)
    let wt ← J.field j "wt" (J.list J.rat)
    pure <| J.ofList J.ofRat (Pareto.Q.latentDot v wt)
  | _ => J.fail s!"c19.wsum: unknown fn {fn}"

/-- Spec of the distance clause on the implementation's SQUARED distances (`null` = NaN / inf):
    `Pareto.Q.specDistFast` = `Pareto.Q.specDist` (Props/C19.spec_dist_fast_eq: finite, one per point, equal to
    the geometric definition `Pareto.Q.geoDist` within the harness' tolerance rule);
    `Props/C19.Q_spec_dist_sound` shows it accepts `c19.dist`'s own answer.  The detail names the first offending point. -/
def opSpecDist : J.Op := fun j => do
  let mat ← J.field j "mat" (J.mat J.rat)
  let sign ← J.field j "sign" (J.list J.rat)
  let line ← J.field j "line" (J.list J.rat)
  let d2 ← J.field j "d2" (J.list (J.opt J.rat))
  let rel ← J.field j "rel" J.rat
  let abs_ ← J.field j "abs" J.rat
  let ok := Pareto.Q.specDistFast rel abs_ mat sign line d2
  let want := Pareto.Q.geoDistFast mat sign line
  let detail : String :=
    if ok then "definition ok" else
    if d2.any Option.isNone then "non-finite distance" else
    if d2.length != want.length then s!"{d2.length} distances for {want.length} points" else
    match ((List.zip d2 want).zipIdx.filter (fun p => match p.1.1 with
        | some x => !Pareto.closeTol rel abs_ x p.1.2
        | none => true)).head? with
    | some ((x, w), i) => s!"point {i}: distance^2 {(J.ofOpt J.ofRat x).compress} != definition {(J.ofRat w).compress}"
    | none => "?"
  pure <| J.obj [("ok", J.ofBool ok), ("detail", J.ofStr detail), ("want", J.ofList J.ofRat want)]

/-- relational Spec of "the set of efficient objective vectors is unaffected by the order of points": the masks
    of the implementation on a point list and on a permuted copy mark the same set of weighted vectors
    (`Pareto.Q.specSameVectors`; `Props/C19.spec_same_vectors_iff`, `spec_same_vectors_sound`) -/
def opSpecSameVectors : J.Op := fun j => do
  let fmat ← J.field j "fmat" (J.mat J.rat)
  let fmat' ← J.field j "fmat2" (J.mat J.rat)
  let wt ← J.field j "wt" (J.list J.rat)
  let mask ← J.field j "mask" (J.list J.bool)
  let mask' ← J.field j "mask2" (J.list J.bool)
  pure <| J.ofBool (Pareto.Q.specSameVectors (fmat.map (Pareto.Q.applyWt wt)) (fmat'.map (Pareto.Q.applyWt wt)) mask mask')

/-- relational Spec of "invariant to translation of the front" / "the three copies agree": two result vectors of the
    implementation are finite, equally long and equal within the tolerance rule
    (`Pareto.Q.specCloseAll`; `Props/C19.spec_close_all_iff`, `spec_close_all_refl`) -/
def opSpecClose : J.Op := fun j => do
  let d ← J.field j "d" (J.list (J.opt J.rat))
  let d' ← J.field j "d2" (J.list (J.opt J.rat))
  let rel ← J.field j "rel" J.rat
  let abs_ ← J.field j "abs" J.rat
  pure <| J.ofBool (Pareto.Q.specCloseAll rel abs_ d d')

/-- digits of `k` in base `lv`, most significant first, exactly `n` of them
    (`itertools.product(range(lv), repeat=n)` enumerates in this order) -/
def digits (lv n k : Nat) : List Nat :=
  ((List.range n).foldl (fun (acc : List Nat × Nat) _ => ((acc.2 % lv) :: acc.1, acc.2 / lv)) ([], k)).1

def chunk {β : Type} (w : Nat) : Nat → List β → List (List β)
  | 0, _ => []
  | n+1, l => l.take w :: chunk w n (l.drop w)

/-- exhaustive block: the point sets number `start … start+count-1` of `npt` points × `nobj` objectives over
    `{0..lv-1}`; returns the model's masks (concatenated `0/1` string) and evaluates the Spec
    `Pareto.Q.specMask` on the implementation's masks (same encoding in `masks`) -/
def opExh : J.Op := fun j => do
  let lv ← J.field j "lv" J.nat
  let nobj ← J.field j "nobj" J.nat
  let npt ← J.field j "npt" J.nat
  let start ← J.field j "start" J.nat
  let count ← J.field j "count" J.nat
  let wt ← J.field j "wt" (J.list J.rat)
  let masks ← J.field j "masks" J.str
  let bits : Array Bool := masks.toList.toArray.map (· == '1')
  let mut model : Array Char := Array.mkEmpty (count * npt)
  let mut bad : List Nat := []
  for t in [0:count] do
    let k := start + t
    let fmat : List (List Rat) := chunk nobj npt ((digits lv (npt * nobj) k).map (fun (d : Nat) => ((d : Int) : Rat)))
    for b in Pareto.Q.efficientMask fmat wt do
      model := model.push (if b then '1' else '0')
    let claimed : List Bool := (List.range npt).map (fun i => bits.getD (t * npt + i) false)
    if !(Pareto.Q.specMask fmat wt claimed) then bad := k :: bad
  pure <| J.obj [("model", J.ofStr (String.ofList model.toList)), ("spec_bad", J.ofList J.ofNat bad.reverse)]

def ops : List (String × J.Op) :=
  [("c19.pareto", opPareto), ("c19.spec_pareto", opSpecPareto),
   ("c19.dominates", opDominates), ("c19.spec_dominates", opSpecDominates),
   ("c19.dist", opDist), ("c19.spec_dist", opSpecDist), ("c19.wsum", opWsum), ("c19.exh", opExh),
   ("c19.spec_same_vectors", opSpecSameVectors), ("c19.spec_close", opSpecClose)]

end Drv.C19
