import PybropsModel.J
import PybropsModel.Model.Pareto
open Lean

namespace Drv.C19

/-- Spec oracle (O(n²) definition) evaluated on a claimed mask:
    sound: marked i ⇒ no j strictly dominates i;
    complete: unmarked i ⇒ some marked j weakly dominates i -/
def specMask (fmat : List (List Rat)) (wt : List Rat) (mask : List Bool) : Bool × String :=
  let rows := fmat.map (Pareto.Q.applyWt wt)
  let n := rows.length
  if mask.length != n then (false, "mask length") else
  let idx := List.range n
  let get (i : Nat) : List Rat := rows.getD i []
  let sound := idx.all (fun i => !mask.getD i false || idx.all (fun j => !Pareto.Q.strictDom (get j) (get i)))
  let complete := idx.all (fun i => mask.getD i false ||
      idx.any (fun j => mask.getD j false && Pareto.Q.weakDom (get i) (get j)))
  (sound && complete, s!"sound={sound} complete={complete}")

def opPareto : J.Op := fun j => do
  let fmat ← J.field j "fmat" (J.mat J.rat)
  let wt ← J.field j "wt" (J.list J.rat)
  pure <| J.obj [("idx", J.ofList J.ofNat (Pareto.Q.efficientIdx fmat wt)),
                 ("mask", J.ofList J.ofBool (Pareto.Q.efficientMask fmat wt))]

def opSpecPareto : J.Op := fun j => do
  let fmat ← J.field j "fmat" (J.mat J.rat)
  let wt ← J.field j "wt" (J.list J.rat)
  let mask ← J.field j "mask" (J.list J.bool)
  let idx ← J.field j "idx" (J.list J.nat)
  let (ok, msg) := specMask fmat wt mask
  let agree := (List.range fmat.length).all (fun i => mask.getD i false == idx.contains i)
    && idx.all (· < fmat.length) && idx.eraseDups.length == idx.length
  pure <| J.obj [("ok", J.ofBool (ok && agree)), ("detail", J.ofStr s!"{msg} mask_eq_index={agree}")]

def opDominates : J.Op := fun j => do
  let o1 ← J.field j "obj1" (J.list J.rat)
  let o2 ← J.field j "obj2" (J.list J.rat)
  let c1 ← J.field j "cv1" J.rat
  let c2 ← J.field j "cv2" J.rat
  pure <| J.ofBool (Pareto.Q.dominates o1 c1 o2 c2)

def opDist : J.Op := fun j => do
  let mat ← J.field j "mat" (J.mat J.rat)
  let sign ← J.field j "sign" (J.list J.rat)
  let line ← J.field j "line" (J.list J.rat)
  let guarded ← J.field j "guarded" J.bool
  pure <| J.ofOpt (J.ofList J.ofRat) (Pareto.Q.transDistSq guarded mat sign line)

/-- Spec of the distance clause on the implementation's SQUARED distances (`null` = NaN / inf):
    `Pareto.Q.specDist` (finite, one per point, equal to the geometric definition `Pareto.Q.geoDist`
    within the harness' tolerance rule); `Props/C19.Q_spec_dist_sound` shows it accepts `c19.dist`'s
    own answer.  The detail names the first offending point. -/
def opSpecDist : J.Op := fun j => do
  let mat ← J.field j "mat" (J.mat J.rat)
  let sign ← J.field j "sign" (J.list J.rat)
  let line ← J.field j "line" (J.list J.rat)
  let d2 ← J.field j "d2" (J.list (J.opt J.rat))
  let rel ← J.field j "rel" J.rat
  let abs_ ← J.field j "abs" J.rat
  let ok := Pareto.Q.specDist rel abs_ mat sign line d2
  let want := Pareto.Q.geoDist mat sign line
  let detail : String :=
    if ok then "definition ok" else
    if d2.any Option.isNone then "non-finite distance" else
    if d2.length != want.length then s!"{d2.length} distances for {want.length} points" else
    match ((List.zip d2 want).zipIdx.filter (fun p => match p.1.1 with
        | some x => !Pareto.closeTol rel abs_ x p.1.2
        | none => true)).head? with
    | some ((x, w), i) => s!"point {i}: distance^2 {(J.ofOpt J.ofRat x).compress} != definition {(J.ofRat w).compress}"
    | none => "?"
  pure <| J.obj [("ok", J.ofBool ok), ("detail", J.ofStr detail), ("want", J.ofList J.ofRat want)]

def ops : List (String × J.Op) :=
  [("c19.pareto", opPareto), ("c19.spec_pareto", opSpecPareto),
   ("c19.dominates", opDominates), ("c19.dist", opDist), ("c19.spec_dist", opSpecDist)]

end Drv.C19
