import PybropsModel.J
import PybropsModel.Model.Coancestry
import PybropsModel.Model.CoancestrySpec
open Lean

/-!
Driver ops of C13 (JSON decoding only; the checks are the pure functions of `Model/CoancestrySpec.lean`).
  c13.cmat         model of `<Coancestry>.from_gmat` through the class method / factory / subclass dispatch
                   (+ formats, summaries, taxa sub-selection)
  c13.summ         model of the summaries of an arbitrary `DenseCoancestryMatrix`
  c13.yang_float   `yang` exactly as written (with the square roots), executed on `Float`
  c13.spec_cmat    Spec oracle `Spec.specCmat`: the property evaluated on the implementation's matrices
  c13.spec_summ    Spec oracle `Spec.specSumm` for the summaries of the implementation's matrix
  c13.jitter       model of `apply_jitter` with the recorded oracle inputs
  c13.spec_reorder Spec oracle `Spec.specReorder`: `reorder_taxa` / `sort_taxa` / `group_taxa` / `select_taxa`
                   of the object (C03's `LabelMat` on the square schema) against what the implementation left
-/
namespace Drv.C13
open Coancestry

abbrev M := List (List Rat)
open Coancestry.Spec

/-! ### argument decoding -/

def argOf (j : Json) (k : String) : J.R Arg :=
  match j.getObjVal? k with
  | .error _ => pure .none
  | .ok .null => pure .none
  | .ok (.arr a) => do
      let l ← a.toList.mapM J.rat
      pure (.array l)
  | .ok v => do
      let q ← J.rat v
      pure (.scalar q)

def gmOf (j : Json) : J.R Gm := do
  let ploidy ← J.field j "ploidy" J.nat
  let n ← J.field j "n" J.nat
  let m ← J.field j "m" J.nat
  let phased ← J.field j "phased" J.bool
  if phased then
    let g3 ← J.field j "geno" (J.list (J.mat J.rat))
    -- a (0, n, m) array cannot be written as nested lists; ploidy ≥ 1 throughout
    pure ⟨ploidy, n, m, true, g3, tacountPhased g3⟩
  else
    let X ← J.field j "geno" (J.mat J.rat)
    pure ⟨ploidy, n, m, false, [], X⟩

/-- taxa indices as the caller wrote them (negative = relative to the end), normalised as `numpy.take` does -/
def selOf (j : Json) (n : Nat) : J.R (Option (List Nat)) := do
  match ← J.fieldOpt j "sel" (J.list J.int) with
  | none => pure none
  | some is =>
    match normSel n is with
    | some ix => pure (some ix)
    | none => J.fail "sel: index out of range"

def estimatorOf (j : Json) : J.R Estimator := do
  let method ← J.field j "method" J.str
  match Estimator.ofString? method with
  | some e => pure e
  | none => J.fail s!"unknown method {method}"

/-- `from_gmat` through the class method, the factory or a user subclass: argument checks in the order of the
    code (weights first for the generalised weighted estimator, then frequencies), then the estimator -/
def runMethod (e : Estimator) (g : Gm) (pa wa : Arg) (via : String := "class") : Except Err M :=
  let args : Except Err (List Rat × List Rat) := match e with
    | .molecular => .ok ([], [])
    | .gw => do let w ← resolveW g wa; let p ← resolveP g pa; pure (w, p)
    | _ => do let p ← resolveP g pa; pure ([], p)
  let run : Nat → Nat → List Rat → List Rat → M → Except Err M := match via with
    | "factory" => Factory.fromGmat e
    | "subclass" => Subclass.fromGmat e
    | _ => estimate e
  do let (w, p) ← args; run g.ploidy g.m w p g.X

/-! ### summaries -/

def optRat : Option Rat → Json := J.ofOpt J.ofRat
def optList : Option (List Rat) → Json := J.ofOpt (J.ofList J.ofRat)

def summJson (kin : Bool) (G : M) : Json :=
  let f : Rat → Rat := fmt kin
  J.obj [
    ("max", J.obj [("all", optRat ((maxAll G).map f)), ("rows", optList ((maxRows G).map (·.map f))),
                   ("cols", optList ((maxCols G).map (·.map f)))]),
    ("min", J.obj [("all", optRat ((minAll G).map f)), ("rows", optList ((minRows G).map (·.map f))),
                   ("cols", optList ((minCols G).map (·.map f)))]),
    ("mean", J.obj [("all", J.ofRat (f (meanAll G))), ("rows", J.ofList J.ofRat ((meanRows G).map f)),
                    ("cols", J.ofList J.ofRat ((meanCols G).map f))]),
    ("max_inb", optRat ((maxInbreeding G).map f)),
    ("inv", J.ofOpt (J.ofMat J.ofRat) (if G.length ≤ invMaxN then inverseFmt kin G else none)),
    ("min_inb", optRat (if G.length ≤ invMaxN then minInbreeding kin G else none)),
    ("mat", J.ofMat J.ofRat (asFormat kin G))]

def opCmat : J.Op := fun j => do
  let e ← estimatorOf j
  let g ← gmOf j
  let pa ← argOf j "p"
  let wa ← argOf j "w"
  let sel ← selOf j g.n
  let via ← J.fieldD j "via" J.str "class"
  match runMethod e g pa wa via with
  | .error err => pure (J.obj [("err", J.ofStr err.tag)])
  | .ok G =>
    -- sub-selection first, then the estimator (the other order is `selectSq` of `G`)
    let selA := match sel with
      | none => Json.null
      | some is =>
          let g' : Gm := { g with n := is.length, X := Np.take is g.X, g3 := g.g3.map (Np.take is) }
          match runMethod e g' pa wa via with
          | .error err => J.obj [("err", J.ofStr err.tag)]
          | .ok G' => J.ofMat J.ofRat G'
    let selB := match sel with
      | none => Json.null
      | some is => J.ofMat J.ofRat (selectSq is G)
    pure (J.obj [("mat", J.ofMat J.ofRat G), ("co", summJson false G), ("kin", summJson true G),
                 ("sel_a", selA), ("sel_b", selB)])

def opSumm : J.Op := fun j => do
  let G ← J.field j "mat" (J.mat J.rat)
  pure (J.obj [("co", summJson false G), ("kin", summJson true G)])

/-! ### `yang` as written, on Float -/

local instance : NatCast Float := ⟨fun n => Float.ofNat n⟩

def ratToFloat (q : Rat) : Float := Float.ofInt q.num / Float.ofNat q.den

/-- exact value of a finite double (decoded from its IEEE-754 bits); "nan" otherwise -/
def floatJson (x : Float) : Json :=
  let bits := x.toBits.toNat
  let sign : Int := if bits / 2^63 = 1 then -1 else 1
  let ex : Nat := (bits / 2^52) % 2048
  let fr : Nat := bits % 2^52
  if ex = 2047 then J.ofStr "nan"
  else
    let mant : Nat := if ex = 0 then fr else fr + 2^52
    let e : Int := Int.ofNat (if ex = 0 then 1 else ex) - 1075
    let q : Rat := if e ≥ 0 then (mant : Rat) * (2 : Rat) ^ e.toNat else (mant : Rat) / (2 : Rat) ^ (-e).toNat
    J.ofRat (sign * q)

def opYangFloat : J.Op := fun j => do
  let g ← gmOf j
  let pa ← argOf j "p"
  match resolveP g pa with
  | .error e => pure (J.obj [("err", J.ofStr e.tag)])
  | .ok p =>
    let Xf := g.X.map (·.map ratToFloat)
    match yang (α := Float) g.ploidy g.m (p.map ratToFloat) Xf with
    | .error e => pure (J.obj [("err", J.ofStr e.tag)])
    | .ok G => pure (J.obj [("mat", J.ofList (J.ofList floatJson) G)])

/-! ### Spec oracle: decode, then the pure checks of `Model/CoancestrySpec.lean` -/

def report (cs : List Check) : Json :=
  let bad := cs.filter (fun c => !c.ok)
  J.obj [("ok", J.ofBool bad.isEmpty),
         ("failed", J.ofList J.ofStr (bad.map (·.name))),
         ("checked", J.ofList J.ofStr (cs.map (·.name)))]

def optStrs (j : Json) (k : String) : J.R (Option (List String)) := J.fieldOpt j k (J.list J.str)
def optInts (j : Json) (k : String) : J.R (Option (List Int)) := J.fieldOpt j k (J.list J.int)

/-- group metadata object `{"name": [...], "stix": [...], "spix": [...], "len": [...]}` or null -/
def metaOf (j : Json) (k : String) : J.R (Option GrpMeta) :=
  J.fieldOpt j k (fun v => do
    let name ← J.field v "name" (J.list J.int)
    let stix ← J.field v "stix" (J.list J.nat)
    let spix ← J.field v "spix" (J.list J.nat)
    let len ← J.field v "len" (J.list J.nat)
    pure (⟨name, stix, spix, len⟩ : GrpMeta))

def opSpecCmat : J.Op := fun j => do
  let e ← estimatorOf j
  let g ← gmOf j
  let pa ← argOf j "p"
  let wa ← argOf j "w"
  let taxa ← optStrs j "taxa"
  let grp ← optInts j "taxa_grp"
  let metaS ← metaOf j "meta"
  let o ← J.field j "out" pure
  let obs : CmatObs := {
    mat := ← J.field o "mat" (J.mat J.rat), co := ← J.field o "co" (J.mat J.rat),
    kin := ← J.field o "kin" (J.mat J.rat), acc := ← J.fieldD o "acc" (J.list (J.list J.rat)) [],
    lab := ⟨← optStrs o "taxa", ← optInts o "taxa_grp", ← metaOf o "meta"⟩ }
  -- permutation / sub-selection of taxa (only sent for estimators that do not re-estimate p)
  let sel ← match ← selOf j g.n with
    | none => pure none
    | some is => do
      let sa ← J.field o "sel_a" pure       -- from_gmat(gmat.select_taxa(is))
      let sb ← J.field o "sel_b" pure       -- from_gmat(gmat).select_taxa(is)
      pure (some ({ is := is, Ga := ← J.field sa "mat" (J.mat J.rat), Gb := ← J.field sb "mat" (J.mat J.rat),
                    ta := ← optStrs sa "taxa", tb := ← optStrs sb "taxa", ga := ← optInts sa "taxa_grp",
                    gb := ← optInts sb "taxa_grp" } : SelObs))
  -- the model object built from the source labels: what `fromGmat` hands on
  pure (report (specCmat e g pa wa ⟨taxa, grp, metaS⟩ obs sel))

def summObsOf (s : Json) : J.R SummObs := do
  let mx ← J.field s "max" pure
  let mn ← J.field s "min" pure
  let me ← J.field s "mean" pure
  pure {
    mxA := ← J.field mx "all" J.rat, mxR := ← J.field mx "rows" (J.list J.rat), mxC := ← J.field mx "cols" (J.list J.rat),
    mnA := ← J.field mn "all" J.rat, mnR := ← J.field mn "rows" (J.list J.rat), mnC := ← J.field mn "cols" (J.list J.rat),
    meA := ← J.field me "all" J.rat, meR := ← J.field me "rows" (J.list J.rat), meC := ← J.field me "cols" (J.list J.rat),
    mib := ← J.field s "max_inb" J.rat, view := ← J.field s "mat" (J.mat J.rat),
    inv := ← J.fieldOpt s "inv" (J.mat J.rat), minInb := ← J.fieldOpt s "min_inb" J.rat,
    isPsd := ← J.fieldOpt s "is_psd" J.bool,
    psdTol := ← J.fieldD s "is_psd_tol" (J.list (fun e => do
      let t ← J.field e "tol" J.rat
      let b ← J.field e "ans" J.bool
      pure (t, b))) [] }

def opSpecSumm : J.Op := fun j => do
  let A ← J.field j "mat" (J.mat J.rat)
  let co ← J.field j "co" summObsOf
  let kin ← J.field j "kin" summObsOf
  let symmetric ← J.fieldD j "symmetric" J.bool false
  pure (report (specSumm false A co "coancestry" symmetric ++ specSumm true A kin "kinship" symmetric))

/-! ### apply_jitter with the recorded oracle inputs -/

/-- `draws`: the uniform vectors in call order; `answers`: what `is_positive_semidefinite` returned for the
    input matrix and then for each candidate, in call order.  The oracle handed to the model is the table
    candidate ↦ answer (candidates computed by the model itself). -/
def opJitter : J.Op := fun j => do
  let G ← J.field j "mat" (J.mat J.rat)
  let draws ← J.field j "draws" (J.list (J.list J.rat))
  let answers ← J.field j "answers" (J.list J.bool)
  let old := diag G
  let cands := G :: draws.map (fun u => setDiag G (List.zipWith (· + ·) old u))
  let table := List.zip cands answers
  let isPsd (M : M) : Bool := match table.find? (fun ca => ca.1 == M) with
    | some ca => ca.2
    | none => false
  let r := applyJitter isPsd draws G
  pure (J.obj [("mat", J.ofMat J.ofRat r.1), ("ok", J.ofBool r.2)])

/-! ### in-place reordering of the object (DenseSquareTaxaMatrix through C03's `LabelMat`) -/

def objOf (j : Json) : J.R (Obj Rat) := do
  let G ← J.field j "mat" (J.mat J.rat)
  let taxa ← optInts j "taxa"
  let grp ← optInts j "taxa_grp"
  let gm ← J.fieldOpt j "meta" (fun v => do
    let name ← J.field v "name" (J.list J.int)
    let stix ← J.field v "stix" (J.list J.nat)
    let spix ← J.field v "spix" (J.list J.nat)
    let len ← J.field v "len" (J.list J.nat)
    pure (⟨name, stix, spix, len⟩ : LabelMat.Grp Int))
  pure (toObj G taxa grp gm)

/-- `pre`: the object before the call, `post`: the object afterwards (for `select_taxa`: the returned
    object), both read back from the implementation; the model of the call is applied to `pre` -/
def opSpecReorder : J.Op := fun j => do
  let pre ← J.field j "pre" objOf
  let post ← J.field j "post" objOf
  let d ← J.field j "do" pure
  let name ← J.field d "name" J.str
  let is ← J.fieldD d "indices" (J.list J.int) []
  let op : ObjOp ← match name with
    | "reorder_taxa" => pure (.reorder is)
    | "sort_taxa" => pure .sort
    | "group_taxa" => pure .group
    | "select_taxa" => pure (.select is)
    | s => J.fail s!"unknown object operation {s}"
  pure (report (specReorder op pre post))

def ops : List (String × J.Op) :=
  [("c13.cmat", opCmat), ("c13.summ", opSumm), ("c13.yang_float", opYangFloat),
   ("c13.spec_cmat", opSpecCmat), ("c13.spec_summ", opSpecSumm), ("c13.jitter", opJitter),
   ("c13.spec_reorder", opSpecReorder)]

end Drv.C13
