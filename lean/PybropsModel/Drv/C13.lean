import PybropsModel.J
import PybropsModel.Model.Coancestry
open Lean

/-!
Driver ops of C13.
  c13.cmat       model of `<Coancestry>.from_gmat` (+ formats, summaries, taxa sub-selection)
  c13.summ       model of the summaries of an arbitrary `DenseCoancestryMatrix`
  c13.yang_float `yang` exactly as written (with the square roots), executed on `Float`
  c13.spec_cmat  Spec oracle: the property evaluated on the implementation's matrices
  c13.spec_summ  Spec oracle for the summaries of the implementation's matrix
-/
namespace Drv.C13
open Coancestry

abbrev M := List (List Rat)

/-! ### argument decoding -/

inductive Arg | none | scalar (q : Rat) | array (l : List Rat)

def argOf (j : Json) (k : String) : J.R Arg :=
  match j.getObjVal? k with
  | .error _ => pure .none
  | .ok .null => pure .none
  | .ok (.arr a) => do
      let l ← a.toList.mapM J.rat
      pure (.array l)
  | .ok v => do
      let q ← J.rat v
      pure (.scalar q)

structure Gm where
  ploidy : Nat
  n : Nat
  m : Nat
  phased : Bool
  g3 : List (List (List Rat))     -- phase × taxa × marker (phased only)
  X : M                            -- tacount view

def gmOf (j : Json) : J.R Gm := do
  let ploidy ← J.field j "ploidy" J.nat
  let n ← J.field j "n" J.nat
  let m ← J.field j "m" J.nat
  let phased ← J.field j "phased" J.bool
  if phased then
    let g3 ← J.field j "geno" (J.list (J.mat J.rat))
    -- a (0, n, m) array cannot be written as nested lists; ploidy ≥ 1 throughout
    pure ⟨ploidy, n, m, true, g3, tacountPhased g3⟩
  else
    let X ← J.field j "geno" (J.mat J.rat)
    pure ⟨ploidy, n, m, false, [], X⟩

/-- reference frequencies in force: estimated (`None`), repeated scalar, or the checked array -/
def resolveP (g : Gm) (a : Arg) : Except Err (List Rat) :=
  match a with
  | .none => .ok (afreq g.ploidy g.n g.m g.X)
  | .scalar q => if q < 0 || 1 < q then .error .range else .ok (List.replicate g.m q)
  | .array l => (checkP g.m l).map (fun _ => l)

/-- marker weights in force: ones (`None`), repeated non-negative scalar, or the array (length checked) -/
def resolveW (g : Gm) (a : Arg) : Except Err (List Rat) :=
  match a with
  | .none => .ok (List.replicate g.m 1)
  | .scalar q => if q < 0 then .error .range else .ok (List.replicate g.m q)
  | .array l => if l.length ≠ g.m then .error .shape else .ok l

def runMethod (method : String) (g : Gm) (pa wa : Arg) : J.R (Except Err M) :=
  match method with
  | "mol" => pure (molecular g.ploidy g.m g.X)
  | "vr" => pure (do let p ← resolveP g pa; vanraden g.ploidy p g.X)
  | "yang" => pure (do let p ← resolveP g pa; yangClosed g.ploidy g.m p g.X)
  | "gw" => pure (do let w ← resolveW g wa; let p ← resolveP g pa; pure (gw g.ploidy w p g.X))
  | s => J.fail s!"unknown method {s}"

/-! ### summaries -/

def optRat : Option Rat → Json := J.ofOpt J.ofRat
def optList : Option (List Rat) → Json := J.ofOpt (J.ofList J.ofRat)

def summJson (kin : Bool) (G : M) : Json :=
  let f : Rat → Rat := fmt kin
  J.obj [
    ("max", J.obj [("all", optRat ((maxAll G).map f)), ("rows", optList ((maxRows G).map (·.map f))),
                   ("cols", optList ((maxCols G).map (·.map f)))]),
    ("min", J.obj [("all", optRat ((minAll G).map f)), ("rows", optList ((minRows G).map (·.map f))),
                   ("cols", optList ((minCols G).map (·.map f)))]),
    ("mean", J.obj [("all", J.ofRat (f (meanAll G))), ("rows", J.ofList J.ofRat ((meanRows G).map f)),
                    ("cols", J.ofList J.ofRat ((meanCols G).map f))]),
    ("max_inb", optRat ((maxInbreeding G).map f)),
    ("inv", J.ofOpt (J.ofMat J.ofRat) (inverseFmt kin G)),
    ("min_inb", optRat (minInbreeding kin G)),
    ("mat", J.ofMat J.ofRat (asFormat kin G))]

def opCmat : J.Op := fun j => do
  let method ← J.field j "method" J.str
  let g ← gmOf j
  let pa ← argOf j "p"
  let wa ← argOf j "w"
  let sel ← J.fieldOpt j "sel" (J.list J.nat)
  let r ← runMethod method g pa wa
  match r with
  | .error e => pure (J.obj [("err", J.ofStr e.tag)])
  | .ok G =>
    -- sub-selection first, then the estimator (the other order is `selectSq` of `G`)
    let selA ← match sel with
      | none => pure Json.null
      | some is => do
          let g' : Gm := { g with n := is.length, X := Np.take is g.X, g3 := g.g3.map (Np.take is) }
          let r' ← runMethod method g' pa wa
          match r' with
          | .error e => pure (J.obj [("err", J.ofStr e.tag)])
          | .ok G' => pure (J.ofMat J.ofRat G')
    let selB := match sel with
      | none => Json.null
      | some is => J.ofMat J.ofRat (selectSq is G)
    pure (J.obj [("mat", J.ofMat J.ofRat G), ("co", summJson false G), ("kin", summJson true G),
                 ("sel_a", selA), ("sel_b", selB)])

def opSumm : J.Op := fun j => do
  let G ← J.field j "mat" (J.mat J.rat)
  pure (J.obj [("co", summJson false G), ("kin", summJson true G)])

/-! ### `yang` as written, on Float -/

local instance : NatCast Float := ⟨fun n => Float.ofNat n⟩

def ratToFloat (q : Rat) : Float := Float.ofInt q.num / Float.ofNat q.den

/-- exact value of a finite double (decoded from its IEEE-754 bits); "nan" otherwise -/
def floatJson (x : Float) : Json :=
  let bits := x.toBits.toNat
  let sign : Int := if bits / 2^63 = 1 then -1 else 1
  let ex : Nat := (bits / 2^52) % 2048
  let fr : Nat := bits % 2^52
  if ex = 2047 then J.ofStr "nan"
  else
    let mant : Nat := if ex = 0 then fr else fr + 2^52
    let e : Int := Int.ofNat (if ex = 0 then 1 else ex) - 1075
    let q : Rat := if e ≥ 0 then (mant : Rat) * (2 : Rat) ^ e.toNat else (mant : Rat) / (2 : Rat) ^ (-e).toNat
    J.ofRat (sign * q)

def opYangFloat : J.Op := fun j => do
  let g ← gmOf j
  let pa ← argOf j "p"
  match resolveP g pa with
  | .error e => pure (J.obj [("err", J.ofStr e.tag)])
  | .ok p =>
    let Xf := g.X.map (·.map ratToFloat)
    match yang (α := Float) g.ploidy g.m (p.map ratToFloat) Xf with
    | .error e => pure (J.obj [("err", J.ofStr e.tag)])
    | .ok G => pure (J.obj [("mat", J.ofList (J.ofList floatJson) G)])

/-! ### Spec oracle -/

def absR (q : Rat) : Rat := if q < 0 then -q else q
def maxR (a b : Rat) : Rat := if a < b then b else a
def maxAbs (G : M) : Rat := G.flatten.foldl (fun acc x => maxR acc (absR x)) 0

/-- tolerant equality: `|a-b| ≤ abs` or `|a-b| ≤ rel·max(|a|,|b|)` -/
def closeR (rel abs : Rat) (a b : Rat) : Bool :=
  let d := absR (a - b)
  d ≤ abs || d ≤ rel * maxR (absR a) (absR b)

def closeL (rel abs : Rat) (a b : List Rat) : Bool :=
  a.length == b.length && (List.zip a b).all (fun ab => closeR rel abs ab.1 ab.2)

def closeM (rel abs : Rat) (A B : M) : Bool :=
  A.length == B.length && (List.zip A B).all (fun ab => closeL rel abs ab.1 ab.2)

def isSquare (n : Nat) (G : M) : Bool := G.length == n && G.all (fun r => r.length == n)

/-- exact test `A ⪰ 0` for a symmetric rational matrix by symmetric elimination (Schur complements):
    a negative pivot, or a zero pivot with a non-zero row, refutes it -/
def psdGo : Nat → M → Bool
  | 0, _ => true
  | _, [] => true
  | _, [] :: _ => true
  | fuel+1, (d :: r) :: rest =>
    if d < 0 then false
    else if d == 0 then r.all (· == 0) && psdGo fuel (rest.map (fun row => row.drop 1))
    else psdGo fuel (rest.map (fun row =>
      let c := row.headD 0
      List.zipWith (fun x y => x - (c / d) * y) (row.drop 1) r))

def symPart (G : M) : M :=
  let n := G.length
  (List.range n).map (fun i => (List.range n).map (fun j => (entry G i j + entry G j i) / 2))

/-- `A + shift·I ⪰ 0` (A symmetrised first) -/
def psdShift (shift : Rat) (G : M) : Bool :=
  let S := symPart G
  let S' := S.zipIdx.map (fun ri => ri.1.zipIdx.map (fun xj => if xj.2 = ri.2 then xj.1 + shift else xj.1))
  psdGo (G.length + 1) S'

def matMul (A B : M) : M := Coancestry.mul (B.headD []).length A B

def identity (n : Nat) : M := (List.range n).map (fun i => (List.range n).map (fun j => if i = j then 1 else 0))

/-- conditioning proxy of a matrix with exact inverse `Ai`: n·max|A|·max|A⁻¹| -/
def condProxy (A Ai : M) : Rat := (A.length : Rat) * maxAbs A * maxAbs Ai

structure Check where
  name : String
  ok : Bool

def report (cs : List Check) : Json :=
  let bad := cs.filter (fun c => !c.ok)
  J.obj [("ok", J.ofBool bad.isEmpty),
         ("failed", J.ofList J.ofStr (bad.map (·.name))),
         ("checked", J.ofList J.ofStr (cs.map (·.name)))]

/-- independent evaluation of the published formula, entry by entry -/
def formulaMat (method : String) (g : Gm) (p w : List Rat) : M :=
  let idx := List.range g.n
  idx.map (fun i => idx.map (fun j =>
    match method with
    | "mol" =>
      if g.phased then molecularFormula g.m (ibsPhased g.g3) i j
      else molecularFormula g.m (ibsCount g.ploidy g.X) i j
    | "vr" => vanradenFormula g.ploidy g.m p g.X i j
    | "yang" => yangFormula g.ploidy g.m p g.X i j
    | _ => gwFormula g.ploidy g.m w p g.X i j))

def pInForce (g : Gm) (a : Arg) : List Rat :=
  match a with
  | .none => (List.range g.m).map (afreqFormula g.ploidy g.n g.X)
  | .scalar q => List.replicate g.m q
  | .array l => l

def wInForce (g : Gm) (a : Arg) : List Rat :=
  match a with
  | .none => List.replicate g.m 1
  | .scalar q => List.replicate g.m q
  | .array l => l

def optStrs (j : Json) (k : String) : J.R (Option (List String)) := J.fieldOpt j k (J.list J.str)
def optInts (j : Json) (k : String) : J.R (Option (List Int)) := J.fieldOpt j k (J.list J.int)

/-- group metadata object `{"name": [...], "stix": [...], "spix": [...], "len": [...]}` or null -/
def metaOf (j : Json) (k : String) : J.R (Option GrpMeta) :=
  J.fieldOpt j k (fun v => do
    let name ← J.field v "name" (J.list J.int)
    let stix ← J.field v "stix" (J.list J.nat)
    let spix ← J.field v "spix" (J.list J.nat)
    let len ← J.field v "len" (J.list J.nat)
    pure (⟨name, stix, spix, len⟩ : GrpMeta))

def opSpecCmat : J.Op := fun j => do
  let method ← J.field j "method" J.str
  let g ← gmOf j
  let pa ← argOf j "p"
  let wa ← argOf j "w"
  let taxa ← optStrs j "taxa"
  let grp ← optInts j "taxa_grp"
  let o ← J.field j "out" pure
  let G ← J.field o "mat" (J.mat J.rat)
  let co ← J.field o "co" (J.mat J.rat)
  let kin ← J.field o "kin" (J.mat J.rat)
  let taxaO ← optStrs o "taxa"
  let grpO ← optInts o "taxa_grp"
  let metaS ← metaOf j "meta"
  let metaO ← metaOf o "meta"
  -- the model object built from the source labels: what `fromGmat` hands on
  let labS : Labels := ⟨taxa, grp, metaS⟩
  let labO : Labels := ⟨taxaO, grpO, metaO⟩
  let acc ← J.fieldD o "acc" (J.list (J.list J.rat)) []   -- [i, j, coancestry(i,j), kinship(i,j)]
  let p := pInForce g pa
  let w := wInForce g wa
  let F := formulaMat method g p w
  let scale := maxR 1 (maxAbs G)
  let idx := List.range g.n
  let mut cs : List Check := [
    ⟨"shape", isSquare g.n G⟩,
    ⟨"formula", closeM (1/1000000000) (scale / 100000000000) G F⟩,
    ⟨"coancestry_view_is_mat", co == G⟩,
    ⟨"kinship_exactly_half", kin == mapMat (fun x => x / 2) G⟩,
    ⟨"accessors", acc.all (fun a =>
        let i := (a.getD 0 0).num.toNat
        let k := (a.getD 1 0).num.toNat
        a.getD 2 0 == entry G i k && a.getD 3 0 * 2 == entry G i k)⟩,
    ⟨"symmetric", idx.all (fun i => idx.all (fun k =>
        absR (entry G i k - entry G k i) ≤ scale / 1000000000000))⟩,
    ⟨"psd_up_to_rounding", psdShift (scale / 1000000000) G⟩,
    ⟨"taxa_carried", taxaO == taxa⟩,
    ⟨"taxa_grp_carried", grpO == grp⟩,
    ⟨"group_metadata_carried", decide (labO.grpMeta = labS.grpMeta)⟩]
  -- permutation / sub-selection of taxa (only sent for estimators that do not re-estimate p)
  match ← J.fieldOpt j "sel" (J.list J.nat) with
  | none => pure ()
  | some is =>
    let sa ← J.field o "sel_a" pure       -- from_gmat(gmat.select_taxa(is))
    let sb ← J.field o "sel_b" pure       -- from_gmat(gmat).select_taxa(is)
    let Ga ← J.field sa "mat" (J.mat J.rat)
    let Gb ← J.field sb "mat" (J.mat J.rat)
    let ta ← optStrs sa "taxa"
    let tb ← optStrs sb "taxa"
    let ga ← optInts sa "taxa_grp"
    let gb ← optInts sb "taxa_grp"
    let want := selectSq is G
    cs := cs ++ [
      ⟨"select_commutes", closeM (1/1000000000) (scale / 100000000000) Ga want
                          && closeM (1/1000000000) (scale / 100000000000) Gb want⟩,
      ⟨"select_labels", ta == taxa.map (Np.take is) && tb == ta && ga == grp.map (Np.take is) && gb == ga⟩]
  pure (report cs)

/-- summaries of the implementation's own matrix `A` (format `kin`) against exact evaluation -/
def specSumm (kin : Bool) (A : M) (s : Json) (tag : String) (symmetric : Bool) : J.R (List Check) := do
  let B : M := if kin then mapMat (fun x => x / 2) A else A
  let rel : Rat := 1/1000000000
  let abs : Rat := maxR 1 (maxAbs A) / 100000000000
  let mx ← J.field s "max" pure
  let mn ← J.field s "min" pure
  let me ← J.field s "mean" pure
  let mxA ← J.field mx "all" J.rat
  let mxR ← J.field mx "rows" (J.list J.rat)
  let mxC ← J.field mx "cols" (J.list J.rat)
  let mnA ← J.field mn "all" J.rat
  let mnR ← J.field mn "rows" (J.list J.rat)
  let mnC ← J.field mn "cols" (J.list J.rat)
  let meA ← J.field me "all" J.rat
  let meR ← J.field me "rows" (J.list J.rat)
  let meC ← J.field me "cols" (J.list J.rat)
  let mib ← J.field s "max_inb" J.rat
  let view ← J.field s "mat" (J.mat J.rat)
  let mut cs : List Check := [
    ⟨tag ++ ".view", view == B⟩,
    ⟨tag ++ ".max", some mxA == maxAll B && some mxR == maxRows B && some mxC == maxCols B⟩,
    ⟨tag ++ ".min", some mnA == minAll B && some mnR == minRows B && some mnC == minCols B⟩,
    ⟨tag ++ ".mean", closeR rel abs meA (meanAll B) && closeL rel abs meR (meanRows B)
                      && closeL rel abs meC (meanCols B)⟩,
    ⟨tag ++ ".max_inbreeding", some mib == maxInbreeding B⟩]
  -- inverse and minimum inbreeding: only where the exact inverse exists and the problem is well conditioned
  match inverse B with
  | none => pure ()
  | some Bi =>
    if condProxy B Bi ≤ 10000 then
      let inv ← J.fieldOpt s "inv" (J.mat J.rat)
      let mi ← J.fieldOpt s "min_inb" J.rat
      let tol := maxAbs Bi / 1000000
      cs := cs ++ [⟨tag ++ ".inverse", match inv with
        | none => false
        | some I => isSquare B.length I &&
            (List.zip I.flatten Bi.flatten).all (fun ab => absR (ab.1 - ab.2) ≤ tol) &&
            closeM 0 (1/1000000) (matMul B I) (identity B.length)⟩]
      let tot := sumAll Bi
      if absR tot * 1000 ≥ maxAbs Bi then
        cs := cs ++ [⟨tag ++ ".min_inbreeding", match mi with
          | none => false
          | some x => closeR (1/1000000) 0 x (1 / tot)⟩]
    else pure ()
  -- is_positive_semidefinite (contract on the eigen-solver): `True` only for a PSD matrix,
  -- and `True` for every clearly positive definite one
  if symmetric && !kin then
    match ← J.fieldOpt s "is_psd" J.bool with
    | none => pure ()
    | some b =>
      let scale := maxR 1 (maxAbs A)
      let sound := !b || psdShift (scale / 1000000000) A
      let complete := b || !psdShift (-(scale / 1000000)) A
      cs := cs ++ [⟨tag ++ ".is_psd_sound", sound⟩, ⟨tag ++ ".is_psd_complete", complete⟩]
  pure cs

def opSpecSumm : J.Op := fun j => do
  let A ← J.field j "mat" (J.mat J.rat)
  let co ← J.field j "co" pure
  let kin ← J.field j "kin" pure
  let symmetric ← J.fieldD j "symmetric" J.bool false
  let c1 ← specSumm false A co "coancestry" symmetric
  let c2 ← specSumm true A kin "kinship" symmetric
  pure (report (c1 ++ c2))

/-! ### apply_jitter with the recorded oracle inputs -/

/-- `draws`: the uniform vectors in call order; `answers`: what `is_positive_semidefinite` returned for the
    input matrix and then for each candidate, in call order.  The oracle handed to the model is the table
    candidate ↦ answer (candidates computed by the model itself). -/
def opJitter : J.Op := fun j => do
  let G ← J.field j "mat" (J.mat J.rat)
  let draws ← J.field j "draws" (J.list (J.list J.rat))
  let answers ← J.field j "answers" (J.list J.bool)
  let old := diag G
  let cands := G :: draws.map (fun u => setDiag G (List.zipWith (· + ·) old u))
  let table := List.zip cands answers
  let isPsd (M : M) : Bool := match table.find? (fun ca => ca.1 == M) with
    | some ca => ca.2
    | none => false
  let r := applyJitter isPsd draws G
  pure (J.obj [("mat", J.ofMat J.ofRat r.1), ("ok", J.ofBool r.2)])

def ops : List (String × J.Op) :=
  [("c13.cmat", opCmat), ("c13.summ", opSumm), ("c13.yang_float", opYangFloat),
   ("c13.spec_cmat", opSpecCmat), ("c13.spec_summ", opSpecSumm), ("c13.jitter", opJitter)]

end Drv.C13
