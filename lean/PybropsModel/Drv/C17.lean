import PybropsModel.J
import PybropsModel.Model.Sampling
open Lean

namespace Drv.C17
open Sampling

/-- model answers: `{"out": …}` or `{"error": tag}`; an "oracle:…" tag means that the request carried
    draws the generator call cannot have returned (the harness decides what that means) -/
def ofExcept {α} (f : α → Json) : Except String α → J.R Json
  | .ok a => pure (J.obj [("out", f a)])
  | .error e => pure (J.obj [("error", J.ofStr e)])

def pairs (j : Json) : J.R (List (Nat × Nat)) := do
  let l ← J.list (J.list J.nat) j
  l.mapM (fun q => match q with
    | [a, b] => pure (a, b)
    | _ => J.fail "pair expected")

/-! ### ops -/

def opSus : J.Op := fun j => do
  let p ← J.field j "p" (J.list J.rat)
  let a ← J.field j "a" (J.list J.int)
  let size ← J.field j "size" (J.list J.nat)
  let sigma ← J.field j "sigma" (J.list J.nat)
  let offset ← J.field j "offset" J.rat
  let perm ← J.field j "perm" (J.list J.nat)
  match susIdx p size.prod sigma offset with
  | .error e => ofExcept (J.ofList J.ofInt) (.error e)
  | .ok sel =>
    match sus a p size sigma offset perm with
    | .error e => ofExcept (J.ofList J.ofInt) (.error e)
    | .ok out => pure (J.obj [("out", J.ofList J.ofInt out), ("sel", J.ofList J.ofNat sel)])

def opSpecSus : J.Op := fun j => do
  let p ← J.field j "p" (J.list J.rat)
  let a ← J.field j "a" (J.list J.int)
  let k ← J.field j "k" J.nat
  let out ← J.field j "out" (J.list J.int)
  let v := specSus (α := Rat) p k a out
  pure (J.obj [("ok", J.ofBool v.ok), ("length_ok", J.ofBool v.lenOk), ("members_ok", J.ofBool v.memOk),
    ("outside_floor_ceil", J.ofList J.ofNat v.outside), ("zero_weight_selected", J.ofList J.ofNat v.zeroSel)])

def opTiled : J.Op := fun j => do
  let a ← J.field j "a" (J.list J.int)
  let size ← J.field j "size" (J.list J.nat)
  let replace ← J.field j "replace" J.bool
  let draw ← J.field j "draw" (J.list J.nat)
  let perm ← J.field j "perm" (J.list J.nat)
  -- without replacement the literal loop (slice assignments into a buffer of arbitrary content) is run as well;
  -- Props/C17 `tiled_literal_loop_eq` proves it equal to the functional form
  if !replace then
    let lit := tiledLoopIdx a.length size.prod draw perm (List.replicate size.prod 123456789)
    let fn := tiledIdx a.length size.prod false draw perm
    if lit.toOption != fn.toOption then J.fail "tiledLoopIdx differs from tiledIdx" else pure ()
  ofExcept (J.ofList J.ofInt) (tiledChoice a size replace draw perm)

def opTiledAddon : J.Op := fun j => do
  let a ← J.field j "noption" J.nat
  let n ← J.field j "nsample" J.nat
  let tiles ← J.field j "tiles" (J.list (J.list J.nat))
  ofExcept (J.ofList J.ofNat) (tiledAddon a n tiles)

def opSpecTiled : J.Op := fun j => do
  let a ← J.field j "a" (J.list J.int)
  let out ← J.field j "out" (J.list J.int)
  let n ← J.field j "nsample" J.nat
  let cnt := a.map (fun v => out.count v)
  pure (J.obj [("ok", J.ofBool (specTiled a out n)), ("detail", J.ofStr s!"counts={cnt} length={out.length}")])

def opAxis : J.Op := fun j => do
  let shape ← J.field j "shape" (J.list J.nat)
  let axis ← J.field j "axis" (J.list J.int)
  let data ← J.field j "data" (J.list J.int)
  let perms ← J.field j "perms" (J.list (J.list J.nat))
  ofExcept (J.ofList J.ofInt) (axisShuffleZ shape axis data perms)

def opSlices : J.Op := fun j => do
  let shape ← J.field j "shape" (J.list J.nat)
  let axis ← J.field j "axis" (J.list J.nat)
  pure (J.obj [("tuples", J.ofList (J.ofList (J.ofOpt J.ofNat)) (sliceTuples axis 0 shape)),
               ("keys", J.ofList (J.ofList J.ofNat) (sliceKeys shape axis))])

def opSpecSlices : J.Op := fun j => do
  let shape ← J.field j "shape" (J.list J.nat)
  let axis ← J.field j "axis" (J.list J.nat)
  let tuples ← J.field j "tuples" (J.list (J.list (J.opt J.nat)))
  pure (J.obj [("ok", J.ofBool (specSlices shape axis tuples))])

def opSpecAxis : J.Op := fun j => do
  let shape ← J.field j "shape" (J.list J.nat)
  -- the axes as the caller requested them (either sign); the Spec speaks about the requested slices
  let axisZ ← J.field j "axis" (J.list J.int)
  let axis := axisReq shape.length axisZ
  let before ← J.field j "before" (J.list J.int)
  let after ← J.field j "after" (J.list J.int)
  let ok := before.length == shape.prod && specAxis shape axis before after
  pure (J.obj [("ok", J.ofBool ok), ("detail", J.ofStr s!"slices_changed={specAxisBad shape axis before after}")])

def opOutcross : J.Op := fun j => do
  let nrow ← J.field j "nrow" J.nat
  let ncol ← J.field j "ncol" J.nat
  let x ← J.field j "x" (J.list J.int)
  let orders ← J.field j "orders" (J.list pairs)
  ofExcept (J.ofList J.ofInt) (outcross nrow ncol x orders)

/-- the literal in-place loop on the memory of the table: `buf` = the underlying buffer in memory order,
    `addr[q]` = offset of the entry `xconfig.flat[q]` -/
def opOutcrossBuf : J.Op := fun j => do
  let nrow ← J.field j "nrow" J.nat
  let ncol ← J.field j "ncol" J.nat
  let buf ← J.field j "buf" (J.list J.int)
  let addr ← J.field j "addr" (J.list J.nat)
  let orders ← J.field j "orders" (J.list pairs)
  ofExcept (J.ofList J.ofInt) (outcrossBuf nrow ncol buf addr orders)

def opSpecOutcross : J.Op := fun j => do
  let nrow ← J.field j "nrow" J.nat
  let ncol ← J.field j "ncol" J.nat
  let before ← J.field j "before" (J.list J.int)
  let after ← J.field j "after" (J.list J.int)
  let v := specOutcross nrow ncol before after
  let ok := before.length == nrow * ncol && v.ok
  pure (J.obj [("ok", J.ofBool ok), ("multiset_ok", J.ofBool v.multOk), ("rows_worse", J.ofList J.ofNat v.rowsWorse),
    ("improving", J.ofNat v.improving.length), ("total_ok", J.ofBool (decide (v.after ≤ v.before))),
    ("detail", J.ofStr
    s!"multiset_ok={v.multOk} rows_worse={v.rowsWorse} improving_exchanges={v.improving.take 3} score={v.before}->{v.after}")])

def ops : List (String × J.Op) :=
  [("c17.sus", opSus), ("c17.spec_sus", opSpecSus),
   ("c17.tiled", opTiled), ("c17.spec_tiled", opSpecTiled), ("c17.tiled_addon", opTiledAddon),
   ("c17.axis", opAxis), ("c17.sliceaxisix", opSlices), ("c17.spec_slices", opSpecSlices), ("c17.spec_axis", opSpecAxis),
   ("c17.outcross", opOutcross), ("c17.outcross_buf", opOutcrossBuf), ("c17.spec_outcross", opSpecOutcross)]

end Drv.C17
