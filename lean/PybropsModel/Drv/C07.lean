import PybropsModel.J
import PybropsModel.Model.XConfig
import PybropsModel.Model.Pareto
open Lean

namespace Drv.C07
open XConfig

/-- oracle validation: `l` is a permutation of `range n` -/
def isPermOfRange (n : Nat) (l : List Nat) : Bool :=
  l.length == n && (List.range n).all (fun i => l.count i == 1)

/-- oracle validation: `rem` is a sub-multiset of `a` -/
def subMultiset (rem a : List Nat) : Bool := rem.all (fun e => decide (rem.count e ≤ a.count e))

def exceptToJson (r : Except String Rows) : Json :=
  match r with
  | .ok rows => J.obj [("rows", J.ofMat J.ofNat rows)]
  | .error e => J.obj [("error", J.ofStr e)]

def checkOracles (a : List Nat) (N : Nat) (rem perm : List Nat) : J.R Unit := do
  if a.length != 0 then
    if rem.length != N % a.length then J.fail s!"oracle: rem has {rem.length} elements, expected {N % a.length}"
    if !subMultiset rem a then J.fail "oracle: rem is not a sub-multiset of the options"
    if !isPermOfRange N perm then J.fail "oracle: perm is not a permutation"

def checkArrange (nc np : Nat) (orders rowperms : List (List Nat)) : J.R Unit := do
  let N := nc * np
  let P := N * (N - 1) / 2
  if !orders.all (isPermOfRange P) then J.fail s!"oracle: an exchange order is not a permutation of {P} pairs"
  if rowperms.length != nc || !rowperms.all (isPermOfRange np) then J.fail "oracle: row permutations"

/-- the model of `<Configuration>.sample_xconfig` -/
def opSample : J.Op := fun j => do
  let enc ← J.field j "enc" J.str
  let nc ← J.field j "ncross" J.nat
  let np ← J.field j "nparent" J.nat
  let decn ← J.fieldD j "decn" (J.list J.nat) []
  let xmap ← J.fieldD j "xmap" (J.mat J.nat) []
  let rem ← J.fieldD j "rem" (J.list J.nat) []
  let perm ← J.fieldD j "perm" (J.list J.nat) []
  let perm2 ← J.fieldD j "perm2" (J.list J.nat) []
  let orders ← J.fieldD j "orders" (J.mat J.nat) []
  let rowperms ← J.fieldD j "rowperms" (J.mat J.nat) []
  match enc with
  | "subset" => do
    checkOracles decn (nc * np) rem perm
    if decn.length != 0 then checkArrange nc np orders rowperms
    pure <| exceptToJson (sampleSubset decn nc np rem perm orders rowperms)
  | "integer" | "binary" => do
    checkOracles (options decn) (nc * np) rem perm
    if (options decn).length != 0 then checkArrange nc np orders rowperms
    pure <| exceptToJson (sampleInteger decn nc np rem perm orders rowperms)
  | "real" => do
    -- the sampler is part of the model: weights, argsort order, uniform offset, shuffle of the draws
    let w ← J.field j "w" (J.list J.rat)
    let sigma ← J.field j "sigma" (J.list J.nat)
    let offset ← J.field j "offset" J.rat
    checkArrange nc np orders rowperms
    pure <| exceptToJson (sampleRealSus w nc np sigma offset perm orders rowperms)
  | "mate_subset" => do
    checkOracles decn nc rem perm
    if decn.length != 0 && !isPermOfRange nc perm2 then J.fail "oracle: perm2"
    pure <| exceptToJson (sampleMate decn xmap nc rem perm perm2)
  | "mate_integer" | "mate_binary" => do
    checkOracles (options decn) nc rem perm
    if (options decn).length != 0 && !isPermOfRange nc perm2 then J.fail "oracle: perm2"
    pure <| exceptToJson (sampleMateInteger decn xmap nc rem perm perm2)
  | "mate_real" => do
    let w ← J.field j "w" (J.list J.rat)
    let sigma ← J.field j "sigma" (J.list J.nat)
    let offset ← J.field j "offset" J.rat
    if !isPermOfRange nc perm2 then J.fail "oracle: perm2"
    pure <| exceptToJson (sampleMateRealSus w xmap nc sigma offset perm perm2)
  | _ => J.fail s!"unknown encoding {enc}"

/-- the model of the PROPOSED repair of D20 (`patch_D20.diff`; used when that patch is evaluated in a scratch
    worktree, never on the unchanged tree): `proportional_choice` + the common tail -/
def opSampleRepaired : J.Op := fun j => do
  let nc ← J.field j "ncross" J.nat
  let np ← J.field j "nparent" J.nat
  let decn ← J.field j "decn" (J.list J.nat)
  let extra ← J.fieldD j "extra" (J.list J.nat) []
  let perm ← J.fieldD j "perm" (J.list J.nat) []
  let orders ← J.fieldD j "orders" (J.mat J.nat) []
  let rowperms ← J.fieldD j "rowperms" (J.mat J.nat) []
  if extra.length != shareLeft decn (nc * np) then
    J.fail s!"oracle: extra has {extra.length} elements, expected {shareLeft decn (nc * np)}"
  if !(extra.all (fun i => extra.count i == 1 && decide (i < decn.length) &&
        decide (0 < (nc * np * decn.getD i 0) % decn.sum))) then
    J.fail "oracle: extra is not a set of candidates with a fractional share"
  if !isPermOfRange (nc * np) perm then J.fail "oracle: perm is not a permutation"
  checkArrange nc np orders rowperms
  pure <| exceptToJson (sampleIntegerRepaired decn nc np extra perm orders rowperms)

/-- the Spec oracle of the configuration clauses, evaluated on an observed `xconfig` -/
def opSpec : J.Op := fun j => do
  let enc ← J.field j "enc" J.str
  let nc ← J.field j "ncross" J.nat
  let np ← J.field j "nparent" J.nat
  let rows ← J.field j "xconfig" (J.mat J.nat)
  let decn ← J.fieldD j "decn" (J.list J.nat) []
  let w ← J.fieldD j "w" (J.list J.rat) []
  let xmap ← J.fieldD j "xmap" (J.mat J.nat) []
  let flat := rows.flatten
  let shape := shapeOk nc np rows
  match enc with
  | "subset" =>
    let mem := flat.all (fun e => decn.contains e)
    let even := evenOn decn flat
    let lo := localOpt nc np rows
    pure <| J.obj [("ok", J.ofBool (specSubset decn nc np rows)),
      ("detail", J.ofStr s!"shape={shape} members={mem} even={even} exchange_optimal={lo}")]
  | "integer" | "binary" | "real" =>
    let sup := supportOk w flat
    let sh := withinOne w (nc * np) flat
    let lo := localOpt nc np rows
    pure <| J.obj [("ok", J.ofBool (specContribution w nc np rows)),
      ("detail", J.ofStr s!"shape={shape} support={sup} share_within_one={sh} exchange_optimal={lo}"),
      ("share", J.ofBool sh), ("others", J.ofBool (shape && sup && lo))]
  | "mate_subset" =>
    let ix := rows.map (crossIndex xmap decn)
    pure <| J.obj [("ok", J.ofBool (specMateSubset decn xmap nc np rows)),
      ("detail", J.ofStr s!"shape={shape} crosses_in_solution={ix.all Option.isSome} even={evenOn decn (ix.filterMap id)}")]
  | "mate_integer" | "mate_binary" | "mate_real" =>
    let support := (List.range w.length).filter (fun i => decide (0 < w.getD i 0))
    let ix := rows.map (crossIndex xmap support)
    let sh := withinOne w nc (ix.filterMap id)
    pure <| J.obj [("ok", J.ofBool (specMateContribution w xmap nc np rows)),
      ("detail", J.ofStr s!"shape={shape} crosses_in_solution={ix.all Option.isSome} share_within_one={sh}"),
      ("share", J.ofBool sh), ("others", J.ofBool (shape && ix.all Option.isSome))]
  | _ => J.fail s!"unknown encoding {enc}"

def opXmapix : J.Op := fun j => do
  let n ← J.field j "ntaxa" J.nat
  let k ← J.field j "nparent" J.nat
  let u ← J.field j "unique" J.bool
  pure <| J.ofMat J.ofNat (xmapix n k u)

def opSorting : J.Op := fun j => do
  let obj ← J.field j "obj" (J.list J.rat)
  let k ← J.field j "k" J.nat
  pure <| J.ofList J.ofNat (SelProt.sortingSubset obj k)

/-- the sorting optimiser with numpy's argsort result as a validated oracle (exact comparison with ties) -/
def opSortingWith : J.Op := fun j => do
  let obj ← J.field j "obj" (J.list J.rat)
  let k ← J.field j "k" J.nat
  let sigma ← J.field j "sigma" (J.list J.nat)
  if !SelProt.validArgsort obj sigma then J.fail "oracle: sigma is not an argsort of the objective values"
  pure <| J.ofList J.ofNat (SelProt.sortingSubsetWith sigma k)

def opSpecTopK : J.Op := fun j => do
  let obj ← J.field j "obj" (J.list J.rat)
  let k ← J.field j "k" J.nat
  let decn ← J.field j "decn" (J.list J.nat)
  pure <| J.ofBool (SelProt.specTopK obj k decn)

def opMoChoice : J.Op := fun j => do
  let wt ← J.field j "wt" J.rat
  let tvals ← J.field j "tvals" (J.list J.rat)
  let decns ← J.field j "decns" (J.mat J.int)
  match SelProt.moChoice wt tvals decns with
  | none => pure Json.null
  | some (ix, d) => pure <| J.obj [("ix", J.ofNat ix), ("decn", J.ofList J.ofInt d)]

def opSpecArgmax : J.Op := fun j => do
  let wt ← J.field j "wt" J.rat
  let tvals ← J.field j "tvals" (J.list J.rat)
  let ix ← J.field j "ix" J.nat
  pure <| J.ofBool (SelProt.specArgmax wt tvals ix)

/-- squared values of the default `ndset_trans` (guarded trans_ndpt_to_vec_dist, model of C19) -/
def opNdsetDist : J.Op := fun j => do
  let mat ← J.field j "mat" (J.mat J.rat)
  let objwt ← J.field j "obj_wt" (J.list J.rat)
  let vecwt ← J.field j "vec_wt" (J.list J.rat)
  pure <| J.ofOpt (J.ofList J.ofRat) (Pareto.transDistSq true mat vecwt objwt)

def opUcBounds : J.Op := fun j => do
  let nc ← J.field j "ncross" J.nat
  let np ← J.field j "nparent" J.nat
  let nm ← J.field j "nmating" (J.list J.nat)
  let nx ← J.field j "nxmap" J.nat
  match SelProt.ucIntegerBounds nc np nm nx with
  | .ok (lo, up) => pure <| J.obj [("lower", J.ofList J.ofNat lo), ("upper", J.ofList J.ofNat up)]
  | .error e => pure <| J.obj [("error", J.ofStr e)]

def opEmbvBounds : J.Op := fun j => do
  let nc ← J.field j "ncross" J.nat
  let np ← J.field j "nparent" J.nat
  let nm ← J.field j "nmating" (J.list J.nat)
  let nx ← J.field j "nxmap" J.nat
  match SelProt.embvIntegerBounds nc np nm nx with
  | .ok (lo, up) => pure <| J.obj [("lower", J.ofList J.ofNat lo), ("upper", J.ofList J.ofNat up)]
  | .error e => pure <| J.obj [("error", J.ofStr e)]

def opFamilyBounds : J.Op := fun j => do
  let np ← J.field j "nparent" J.nat
  let n ← J.field j "ntaxa" J.nat
  match SelProt.familyVectorBounds np n with
  | .ok _ => pure <| J.obj [("ok", J.ofBool true)]
  | .error e => pure <| J.obj [("error", J.ofStr e)]

/-- Spec: the decision space offers every candidate (cross) of the population to the optimiser -/
def opSpecCover : J.Op := fun j => do
  let cands ← J.field j "cands" (J.mat J.nat)
  let xmap ← J.field j "xmap" (J.mat J.nat)
  let space ← J.field j "space" (J.list J.nat)
  pure <| J.ofBool (SelProt.specCover cands xmap space)

def spaceToJson (s : SelProt.Space) : Json :=
  J.obj [("ndecn", J.ofNat s.ndecn), ("space", J.ofList J.ofNat s.space),
         ("lower", J.ofList J.ofNat s.lower), ("upper", J.ofList J.ofNat s.upper)]

/-- model of the decision space of `problem()` and the Spec evaluated on the implementation's space -/
def opSpace : J.Op := fun j => do
  let subset ← J.field j "subset" J.bool
  let nopt ← J.field j "nopt" J.nat
  let ndecn ← J.field j "ndecn" J.nat
  let ub ← J.fieldD j "ub" J.nat 1
  pure <| spaceToJson (if subset then SelProt.subsetSpace nopt ndecn else SelProt.vectorSpace nopt ub)

def opSpecSpace : J.Op := fun j => do
  let subset ← J.field j "subset" J.bool
  let nopt ← J.field j "nopt" J.nat
  let ndecn ← J.field j "ndecn" J.nat
  let space ← J.fieldD j "space" (J.list J.nat) []
  let lower ← J.field j "lower" (J.list J.nat)
  let upper ← J.field j "upper" (J.list J.nat)
  pure <| J.ofBool (SelProt.specSpace subset nopt ⟨ndecn, space, lower, upper⟩)

/-- usefulness criterion, the exact part: expected parental genome contributions of the cross type and the
    progeny mean of every row of the cross map (the `spread` summand stays with the harness: a square root) -/
def opUcPmean : J.Op := fun j => do
  let ct ← J.field j "cross_type" J.str
  let bv ← J.field j "bv" (J.list J.rat)
  let xmap ← J.field j "xmap" (J.mat J.nat)
  match SelProt.CrossType.ofString ct with
  | none => J.fail s!"unknown cross type {ct}"
  | some c =>
    let epgc : List Rat := c.epgc
    if !xmap.all (fun r => r.length == c.nparent && r.all (fun i => decide (i < bv.length))) then
      J.fail "cross map row of the wrong length / out of range"
    pure <| J.obj [("epgc", J.ofList J.ofRat epgc),
                   ("pmean", J.ofList J.ofRat (xmap.map (SelProt.progenyMean epgc bv))),
                   ("midparent", J.ofList J.ofRat (xmap.map (SelProt.midParent bv)))]

def ops : List (String × J.Op) :=
  [("c07.sample", opSample), ("c07.sample_repaired", opSampleRepaired), ("c07.spec", opSpec), ("c07.xmapix", opXmapix),
   ("c07.sorting", opSorting), ("c07.sorting_with", opSortingWith), ("c07.spec_topk", opSpecTopK),
   ("c07.mo_choice", opMoChoice), ("c07.spec_argmax", opSpecArgmax), ("c07.ndset_dist", opNdsetDist),
   ("c07.uc_bounds", opUcBounds), ("c07.family_bounds", opFamilyBounds),
   ("c07.embv_bounds", opEmbvBounds), ("c07.spec_cover", opSpecCover),
   ("c07.space", opSpace), ("c07.spec_space", opSpecSpace), ("c07.uc_pmean", opUcPmean)]

end Drv.C07
