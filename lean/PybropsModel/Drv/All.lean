import PybropsModel.Drv.C01
import PybropsModel.Drv.C02
import PybropsModel.Drv.C03
import PybropsModel.Drv.C04
import PybropsModel.Drv.C05
import PybropsModel.Drv.C06
import PybropsModel.Drv.C07
import PybropsModel.Drv.C08
import PybropsModel.Drv.C09
import PybropsModel.Drv.C10
import PybropsModel.Drv.C11
import PybropsModel.Drv.C12
import PybropsModel.Drv.C13
import PybropsModel.Drv.C14
import PybropsModel.Drv.C15
import PybropsModel.Drv.C16
import PybropsModel.Drv.C17
import PybropsModel.Drv.C18
import PybropsModel.Drv.C19
import PybropsModel.Drv.C20

namespace Drv
def allOps : List (String × J.Op) := List.flatten [
  Drv.C01.ops,
  Drv.C02.ops,
  Drv.C03.ops,
  Drv.C04.ops,
  Drv.C05.ops,
  Drv.C06.ops,
  Drv.C07.ops,
  Drv.C08.ops,
  Drv.C09.ops,
  Drv.C10.ops,
  Drv.C11.ops,
  Drv.C12.ops,
  Drv.C13.ops,
  Drv.C14.ops,
  Drv.C15.ops,
  Drv.C16.ops,
  Drv.C17.ops,
  Drv.C18.ops,
  Drv.C19.ops,
  Drv.C20.ops
]
end Drv
