import PybropsModel.Drv.C19

namespace Drv
def allOps : List (String × J.Op) := List.flatten [
  Drv.C19.ops
]
end Drv
