import PybropsModel.J
import PybropsModel.Model.Variance
open Lean

namespace Drv.C12
open Variance

/-- `null` = `numpy.inf` -/
def nselfOf (j : Json) (k : String) : J.R (Option Nat) := J.fieldOpt j k J.nat

def absR (x : Rat) : Rat := if x < 0 then -x else x

/-- rational map functions used for the exact comparison.
    `pow2`: Haldane's function in the unit ln 2 / 2 Morgan, `r(d) = (1 - 2^(-2d)) / 2`, defined for `2d ∈ ℕ`;
    `cap` : `r(d) = min(d, 1/2)` (complete interference; only for the functional correspondence) -/
def mapfnOf (name : String) : J.R (Rat → Rat) :=
  match name with
  | "pow2" => .ok (fun d => let k := 2 * d
                            (1 - 1 / (powN (2 : Rat) k.num.toNat)) / 2)
  | "cap" => .ok (fun d => if d < 1/2 then d else 1/2)
  | _ => J.fail s!"unknown mapfn {name}"

def at2 (m : List (List Rat)) (t i : Nat) : Rat := (m.getD t []).getD i 0

def pairs (j : Json) : J.R (Nat × Nat) := do
  match ← J.list J.nat j with
  | [a, b] => pure (a, b)
  | _ => J.fail "pair expected"

structure Req where
  S : Setup Rat
  ntaxa : Nat
  nvrnt : Nat
  ntrait : Nat

def readSetup (j : Json) : J.R Req := do
  let geno ← J.field j "geno" (J.list (J.mat J.rat))
  let u ← J.field j "u" (J.mat J.rat)
  let genpos ← J.field j "genpos" (J.list J.rat)
  let mname ← J.field j "mapfn" J.str
  -- `table`: the recombination matrix itself is supplied (real Haldane function at arbitrary float positions,
  -- r_ij computed by the harness with its own exp from |g_i - g_j|)
  let rmat ← J.fieldD j "rmat" (J.mat J.rat) []
  let mapfn ← if mname == "table" then pure (fun (_ : Rat) => (0 : Rat)) else mapfnOf mname
  let chrs ← J.field j "chr" (J.list pairs)
  let mem ← J.fieldOpt j "mem" J.nat
  let nself ← nselfOf j "nself"
  let p0 := geno.getD 0 []
  let p1 := geno.getD 1 []
  if mname == "pow2" && genpos.any (fun g => (2 * g).den != 1) then J.fail "pow2 needs 2*genpos integral" else
  if mem == some 0 then J.fail "mem = 0 (range() arg 3 must not be zero)" else
  pure { S := { g0 := at2 p0, g1 := at2 p1, u := at2 u,
                r := if mname == "table" then at2 rmat
                     else fun i k => mapfn (absR (genpos.getD i 0 - genpos.getD k 0)),
                chrs := chrs, mem := mem, nself := nself },
         ntaxa := p0.length, nvrnt := genpos.length, ntrait := (u.getD 0 []).length }

/-- trait axis: variance classes report the diagonal `(t,t)`, covariance classes the full `(s,t)` block -/
def traitCell (cov : Bool) (nt : Nat) (f : Nat → Nat → Rat) : Json :=
  if cov then J.ofList (fun s => J.ofList (fun t => J.ofRat (f s t)) (List.range nt)) (List.range nt)
  else J.ofList (fun t => J.ofRat (f t t)) (List.range nt)

def opVmat : J.Op := fun j => do
  let q ← readSetup j
  let scheme ← J.field j "scheme" J.str
  let cov ← J.fieldD j "cov" J.bool false
  let ix := List.range q.ntaxa
  let S := q.S
  match scheme with
  | "two" => pure <| J.ofList (fun f => J.ofList (fun m => traitCell cov q.ntrait (S.twoWay f m)) ix) ix
  | "dihybrid" => pure <| J.ofList (fun f => J.ofList (fun m => traitCell cov q.ntrait (S.dihybrid f m)) ix) ix
  | "three" => pure <| J.ofList (fun r => J.ofList (fun f => J.ofList (fun m =>
        traitCell cov q.ntrait (S.threeWay r f m)) ix) ix) ix
  | "four" => pure <| J.ofList (fun f2 => J.ofList (fun m2 => J.ofList (fun f1 => J.ofList (fun m1 =>
        traitCell cov q.ntrait (S.fourWay f2 m2 f1 m1)) ix) ix) ix) ix
  | _ => J.fail s!"unknown scheme {scheme}"

/-- the four genic classes -/
def opGenic : J.Op := fun j => do
  let q ← readSetup j
  let ploidy ← J.fieldD j "ploidy" J.rat 2
  let scheme ← J.fieldD j "scheme" J.str "two"
  let ix := List.range q.ntaxa
  let tr (f : Nat → Rat) : Json := J.ofList (fun t => J.ofRat (f t)) (List.range q.ntrait)
  match scheme with
  | "two" | "dihybrid" => pure <| J.ofList (fun f => J.ofList (fun m => tr (genic2 q.S q.nvrnt ploidy f m)) ix) ix
  | "three" => pure <| J.ofList (fun r => J.ofList (fun f => J.ofList (fun m =>
        tr (genic3 q.S q.nvrnt ploidy r f m)) ix) ix) ix
  | "four" => pure <| J.ofList (fun f2 => J.ofList (fun m2 => J.ofList (fun f1 => J.ofList (fun m1 =>
        tr (genic4 q.S q.nvrnt ploidy f2 m2 f1 m1)) ix) ix) ix) ix
  | _ => J.fail s!"unknown scheme {scheme}"

/-- the literal loop transcription (zeros, accumulation loops, scaling, mirror loop) instead of the closed forms -/
def opVmatLoop : J.Op := fun j => do
  let q ← readSetup j
  let scheme ← J.field j "scheme" J.str
  let cov ← J.fieldD j "cov" J.bool false
  let n := q.ntaxa
  let ix := List.range n
  let S := q.S
  let cell (M : Nat → Nat → List ((Nat × Nat) × Rat)) (f m : Nat) : Json := traitCell cov q.ntrait (fun s t => getAt (M s t) (f, m))
  match scheme with
  | "two" => pure <| J.ofList (fun f => J.ofList (fun m => cell (fun s t => S.twoWayLoop n s t) f m) ix) ix
  | "dihybrid" => pure <| J.ofList (fun f => J.ofList (fun m => cell (fun s t => S.dihybridLoop n s t) f m) ix) ix
  | "three" => pure <| J.ofList (fun r => J.ofList (fun f => J.ofList (fun m =>
        cell (fun s t => S.threeWayLoop n r s t) f m) ix) ix) ix
  | "four" => pure <| J.ofList (fun f2 => J.ofList (fun m2 => J.ofList (fun f1 => J.ofList (fun m1 =>
        cell (fun s t => S.fourWayLoop n f2 m2 s t) f1 m1) ix) ix) ix) ix
  | _ => J.fail s!"unknown scheme {scheme}"

/-- the genic classes through the literal loop transcription (`numpy.empty` + the two assignments per pair);
    a cell that the loops never write is reported as the string "unwritten" -/
def opGenicLoop : J.Op := fun j => do
  let q ← readSetup j
  let ploidy ← J.fieldD j "ploidy" J.rat 2
  let scheme ← J.fieldD j "scheme" J.str "two"
  let n := q.ntaxa
  let ix := List.range n
  let cell (M : Nat → List ((Nat × Nat) × Rat)) (f m : Nat) : Json :=
    J.ofList (fun t => match findAt (M t) (f, m) with
                       | some v => J.ofRat v
                       | none => J.ofStr "unwritten") (List.range q.ntrait)
  match scheme with
  | "two" | "dihybrid" =>
      pure <| J.ofList (fun f => J.ofList (fun m => cell (fun t => q.S.genic2Loop n q.nvrnt ploidy t) f m) ix) ix
  | "three" => pure <| J.ofList (fun r => J.ofList (fun f => J.ofList (fun m =>
        cell (fun t => q.S.genic3Loop n q.nvrnt ploidy r t) f m) ix) ix) ix
  | "four" => pure <| J.ofList (fun f2 => J.ofList (fun m2 => J.ofList (fun f1 => J.ofList (fun m1 =>
        cell (fun t => q.S.genic4Loop n q.nvrnt ploidy f2 m2 t) f1 m1) ix) ix) ix) ix
  | _ => J.fail s!"unknown scheme {scheme}"

/-- `_calc_xmap(ntaxa, nparent, unique_parents)` -/
def opXmap : J.Op := fun j => do
  let n ← J.field j "ntaxa" J.nat
  let k ← J.field j "nparent" J.nat
  let u ← J.field j "unique" J.bool
  if k == 0 then J.fail "nparent = 0" else
  pure <| J.ofList (fun l => J.ofList J.ofNat l) (calcXmap n k u)

def opUtil : J.Op := fun j => do
  let fn ← J.field j "fn" J.str
  let r ← J.field j "r" (J.list J.rat)
  let k ← nselfOf j "nself"
  let t ← J.fieldD j "t" J.nat 0
  let f : Rat → Rat ← match fn with
    | "rprob_filial" => pure (fun x => rprobFilial x k)
    | "cov_D1s" => pure (fun x => covD1s x k)
    | "cov_D2s" => pure (fun x => covD2s x k)
    | "cov_D1st" => pure (fun x => covD1st x k t)
    | "cov_D2st" => pure (fun x => covD2st x k t)
    | _ => J.fail s!"unknown fn {fn}"
  pure <| J.ofList J.ofRat (r.map f)

def opChunks : J.Op := fun j => do
  let a ← J.field j "lst" J.nat
  let b ← J.field j "lsp" J.nat
  let s ← J.field j "step" J.nat
  if s == 0 then J.fail "step 0" else
  pure <| J.ofList (fun p => J.ofList J.ofNat [p.1, p.2]) (chunks a b s)

def hap (l : List Rat) : Nat → Rat := fun i => l.getD i 0

/-- literal exhaustive enumeration (the object the theorems of Props/C12 speak about) of the
    covariance between the doubled-haploid values for effect vectors `u`, `w` -/
def enumCov (scheme : String) (xs : List Rat) (n : Nat) (haps : List (List Rat)) (u w : List Rat) : J.R Rat := do
  let m := xs.length
  let U := dhValue m (hap u)
  let W := dhValue m (hap w)
  let h (k : Nat) := hap (haps.getD k [])
  match scheme, haps.length with
  | "two", 2 => pure (covOf (twoWayE xs n (h 0) (h 1)) U W)
  | "three", 3 => pure (covOf (threeWayE xs n (h 0) (h 1) (h 2)) U W)
  | "four", 4 => pure (covOf (fourWayE xs n (h 0) (h 1) (h 2) (h 3)) U W)
  | _, _ => J.fail s!"scheme {scheme} with {haps.length} haplotypes"

def readEnum (j : Json) : J.R Rat := do
  let scheme ← J.field j "scheme" J.str
  let xs ← J.field j "xs" (J.list J.rat)
  let n ← J.field j "nself" J.nat
  let haps ← J.field j "haps" (J.mat J.rat)
  let u ← J.field j "u" (J.list J.rat)
  let w ← J.field j "w" (J.list J.rat)
  enumCov scheme xs n haps u w

def opEnum : J.Op := fun j => do pure (J.ofRat (← readEnum j))

/-- Spec oracle: the value `impl` reported by the implementation equals the enumerated covariance
    (relative / absolute tolerance `tol`, default 1e-9) -/
def opSpecEnum : J.Op := fun j => do
  let want ← readEnum j
  let impl ← J.field j "impl" J.rat
  let tol ← J.fieldD j "tol" J.rat (1 / 1000000000)
  let ok := specClose impl want tol
  pure <| J.obj [("ok", J.ofBool ok), ("enum", J.ofRat want)]

def opValidate : J.Op := fun j => do
  let grouped ← J.field j "grouped" J.bool
  let hasGenpos ← J.field j "has_genpos" J.bool
  let mem ← J.fieldOpt j "mem" J.nat
  let nself ← J.fieldOpt j "nself" J.int
  let chrs ← J.field j "chr" (J.list pairs)
  match validate grouped hasGenpos mem nself chrs with
  | .ok () => pure (J.ofStr "ok")
  | .error .value => pure (J.ofStr "value")

def ops : List (String × J.Op) :=
  [("c12.vmat", opVmat), ("c12.vmat_loop", opVmatLoop), ("c12.genic", opGenic), ("c12.util", opUtil), ("c12.chunks", opChunks),
   ("c12.enum", opEnum), ("c12.spec_enum", opSpecEnum), ("c12.validate", opValidate),
   ("c12.genic_loop", opGenicLoop), ("c12.xmap", opXmap)]

end Drv.C12
