import PybropsModel.J
import PybropsModel.Model.Optimize
import PybropsModel.Model.Pareto
open Lean

namespace Drv.C06
open Optimize

/-! ### codec -/

def pairOf (kv kb : String) (j : Json) : J.R (List Rat × Rat) := do
  let v ← J.field j kv (J.list J.rat)
  let b ← J.field j kb J.rat
  pure (v, b)

def tableProb (j : Json) : J.R TableProb := do
  let space ← J.field j "space" (J.list J.int)
  let k ← J.field j "k" J.nat
  let lin ← J.field j "lin" (J.mat J.rat)
  let mean ← J.field j "mean" J.bool
  let quad ← J.fieldD j "quad" (J.mat J.rat) []
  let posw ← J.fieldD j "posw" (J.list J.rat) []
  let objWt ← J.field j "obj_wt" (J.list J.rat)
  let ineq ← J.fieldD j "ineq" (J.list (pairOf "cost" "budget")) []
  let ineqWt ← J.fieldD j "ineq_wt" (J.list J.rat) []
  let eq ← J.fieldD j "eq" (J.list (pairOf "vec" "target")) []
  let eqWt ← J.fieldD j "eq_wt" (J.list J.rat) []
  let ineqSigned ← J.fieldD j "ineq" (J.list (fun c => J.fieldD c "signed" J.bool false)) []
  let eqSigned ← J.fieldD j "eq" (J.list (fun c => J.fieldD c "signed" J.bool false)) []
  if lin.length != space.length then J.fail "lin rows != |space|" else
  if space.eraseDups.length != space.length then J.fail "space has duplicates" else
  pure { space, k, lin, mean, quad, posw, objWt, ineq, ineqWt, eq, eqWt, ineqSigned, eqSigned }

abbrev Val := List Rat × List Rat × List Rat

def ofVal (v : Val) : List (String × Json) :=
  [("obj", J.ofList J.ofRat v.1), ("ineqcv", J.ofList J.ofRat v.2.1), ("eqcv", J.ofList J.ofRat v.2.2)]

def evalD (p : TableProb) (x : List Int) : Val := p.evalD x

def singleKey (p : TableProb) (e : Int) : Rat := ((evalD p [e]).1).getD 0 0

def fuel : Nat := 100000

/-! ### functional model ops -/

def opEval : J.Op := fun j => do
  let p ← J.field j "prob" tableProb
  let xs ← J.field j "xs" (J.mat J.int)
  pure <| J.ofList (fun x => J.ofOpt (fun v => J.obj (ofVal v)) (p.evalfn x)) xs

def opSorting : J.Op := fun j => do
  let p ← J.field j "prob" tableProb
  let d := sortingSubset (singleKey p) p.space p.k
  pure <| J.obj ([("decn", J.ofList J.ofInt d), ("keys", J.ofList J.ofRat (p.space.map (singleKey p)))]
    ++ ofVal (evalD p d))

def hcAnswer (r : HC Int Val × Bool) : Json :=
  J.obj ([("decn", J.ofList J.ofInt r.1.soln), ("wrk", J.ofList J.ofInt r.1.wrk), ("stopped", J.ofBool r.2)]
    ++ ofVal r.1.val)

def opHillclimb : J.Op := fun j => do
  let p ← J.field j "prob" tableProb
  let init ← J.field j "init" (J.list J.int)
  if !(init.all (fun e => p.space.contains e)) then J.fail "init not in space" else
  pure <| hcAnswer (hillclimb (evalD p) TableProb.key p.space init fuel)

/-- UnconstrainedSteepestAscentSetHillClimber.optimize(objfn, k, sspace, objfn_wt): `objWt` of the table plays
    `objfn_wt`, the weighted score is `numpy.dot(score, objfn_wt)` -/
def opSteepestAscent : J.Op := fun j => do
  let p ← J.field j "prob" tableProb
  let init ← J.field j "init" (J.list J.int)
  if !(init.all (fun e => p.space.contains e)) then J.fail "init not in space" else
  pure <| hcAnswer (steepestAscent (evalD p) (fun v => Np.sum v.1) p.space init fuel)

def opSortingHillclimb : J.Op := fun j => do
  let p ← J.field j "prob" tableProb
  pure <| hcAnswer (sortingHillclimb (evalD p) TableProb.key (singleKey p) p.space p.k fuel)

def opSample : J.Op := fun j => do
  let space ← J.field j "space" (J.list J.int)
  let idx ← J.field j "idx" (J.list J.nat)
  pure <| J.ofList J.ofInt (sampleSubset space idx)

def opCrossover : J.Op := fun j => do
  let a ← J.field j "a" (J.list J.int)
  let b ← J.field j "b" (J.list J.int)
  let mex ← J.field j "mex" (J.list J.nat)
  let clen := crossoverClen a b
  if !(mex.all (· < clen)) then J.fail s!"mex outside range(clen={clen})" else
  let c := crossover a b mex
  pure <| J.obj [("c1", J.ofList J.ofInt c.1), ("c2", J.ofList J.ofInt c.2), ("clen", J.ofNat clen)]

def opMutation : J.Op := fun j => do
  let space ← J.field j "space" (J.list J.int)
  let x ← J.field j "x" (J.list J.int)
  let mask ← J.field j "mask" (J.list J.bool)
  let choice ← J.field j "choice" (J.list J.nat)
  pure <| J.ofList J.ofInt (mutation space x mask choice)

def opNeighbors : J.Op := fun j => do
  let space ← J.field j "space" (J.list J.int)
  let x ← J.field j "x" (J.list J.int)
  let locus ← J.field j "locus" J.nat
  pure <| J.ofMat J.ofInt (hcNeighbors space x locus)

def opMutatorRow : J.Op := fun j => do
  let space ← J.field j "space" (J.list J.int)
  let x ← J.field j "x" (J.list J.int)
  let lociix ← J.field j "lociix" (J.list J.nat)
  let alleleix ← J.field j "alleleix" (J.list J.nat)
  pure <| J.ofMat J.ofInt (mutatorRows space x lociix alleleix)

/-- Solution assembly: the members of pymoo's result (`res.X/F/G/H`, one row per member) -> the four
    arrays of the Solution -/
def opAssemble : J.Op := fun j => do
  let X ← J.field j "X" (J.mat J.rat)
  let F ← J.field j "F" (J.mat J.rat)
  let G ← J.field j "G" (J.mat J.rat)
  let H ← J.field j "H" (J.mat J.rat)
  if F.length != X.length || G.length != X.length || H.length != X.length then J.fail "res arrays differ in length" else
  let opt : List (Indiv Rat (List Rat)) :=
    (List.zip X (List.zip F (List.zip G H))).map (fun r => ⟨r.1, r.2.1, r.2.2.1, r.2.2.2⟩)
  let s := assemble opt
  pure <| J.obj [("decn", J.ofMat J.ofRat s.decn), ("obj", J.ofMat J.ofRat s.obj),
    ("ineqcv", J.ofMat J.ofRat s.ineqcv), ("eqcv", J.ofMat J.ofRat s.eqcv)]

def opRound : J.Op := fun j => do
  let xs ← J.field j "xs" (J.list J.rat)
  pure <| J.ofList J.ofInt (xs.map roundHalfEven)

/-! ### Spec oracles (evaluated on the implementation's outputs) -/

def absR (q : Rat) : Rat := if q < 0 then -q else q
def maxR (a b : Rat) : Rat := if a < b then b else a

/-- equality of a reported value and a fresh evaluation of the same function at the same decision
    (floats on both sides): equal, or within 1e-9 RELATIVE to their magnitude.  No absolute slack: an
    absolute tolerance would hide wrong values on objectives of tiny scale (1e-9) -/
def closeR (a b : Rat) : Bool :=
  let d := absR (a - b)
  a == b || decide (d ≤ (1 : Rat) / 1000000000 * maxR (absR a) (absR b))

def closeL (a b : List Rat) : Bool := a.length == b.length && (List.zip a b).all (fun p => closeR p.1 p.2)

def isIntR (q : Rat) : Bool := q.den == 1

/-- total constraint violation of a reported row: Σ max(0, G) + Σ |H| -/
def cvOf (g h : List Rat) : Rat := Np.sum (g.map (fun x => maxR 0 x)) + Np.sum (h.map absR)

structure Fresh where
  obj : List Rat
  ineqcv : List Rat
  eqcv : List Rat

def fresh (j : Json) : J.R Fresh := do
  pure { obj := ← J.field j "obj" (J.list J.rat), ineqcv := ← J.field j "ineqcv" (J.list J.rat),
         eqcv := ← J.field j "eqcv" (J.list J.rat) }

/-- C06 Spec on one returned Solution:
    shapes; every decision in the decision space (by kind); reported values = fresh evaluation;
    no returned member dominated by another -/
def opSpecSolution : J.Op := fun j => do
  let kind ← J.field j "kind" J.str
  let k ← J.field j "k" J.nat
  let nobj ← J.field j "nobj" J.nat
  let nineq ← J.field j "nineq" J.nat
  let neq ← J.field j "neq" J.nat
  let nsoln ← J.field j "nsoln" J.nat
  let single ← J.field j "single" J.bool
  let dtype ← J.field j "dtype" J.str
  let decn ← J.field j "decn" (J.mat J.rat)
  let obj ← J.field j "obj" (J.mat J.rat)
  let ineqcv ← J.field j "ineqcv" (J.mat J.rat)
  let eqcv ← J.field j "eqcv" (J.mat J.rat)
  let fr ← J.field j "fresh" (J.list fresh)
  let space ← J.fieldD j "space" (J.list J.int) []
  -- candidate set with labels of a non-integer dtype (a SubsetProblem's `decn_space` is an arbitrary 1-D array):
  -- the returned VALUES must be `k` distinct members of the label set (`feasibleB` at `ε := Rat`); no dtype is demanded
  let labels ← J.fieldD j "labels" (J.opt (J.list J.rat)) none
  let lower ← J.fieldD j "lower" (J.list J.rat) []
  let upper ← J.fieldD j "upper" (J.list J.rat) []
  let shapes := decn.length == nsoln && obj.length == nsoln && ineqcv.length == nsoln && eqcv.length == nsoln
    && fr.length == nsoln && (!single || nsoln == 1)
    && decn.all (·.length == k) && obj.all (·.length == nobj) && ineqcv.all (·.length == nineq)
    && eqcv.all (·.length == neq)
  let inBounds (row : List Rat) : Bool :=
    row.length == lower.length && row.length == upper.length &&
    (List.zip row (List.zip lower upper)).all (fun p => decide (p.2.1 ≤ p.1) && decide (p.1 ≤ p.2.2))
  let feasRow (row : List Rat) : Bool :=
    if kind == "subset" then
      match labels with
      | some labs => feasibleB labs k row
      | none => dtype == "int" && row.all isIntR && feasibleB space k (row.map (·.num))
    else if kind == "integer" then dtype == "int" && row.all isIntR && inBounds row
    else if kind == "binary" then (dtype == "bool" || dtype == "int") && row.all (fun q => q == 0 || q == 1) && inBounds row
    else if kind == "real" then dtype == "float" && inBounds row
    else false
  let feasible := decn.all feasRow
  let truthful := (List.zip (List.zip obj (List.zip ineqcv eqcv)) fr).all (fun p =>
    closeL p.1.1 p.2.obj && closeL p.1.2.1 p.2.ineqcv && closeL p.1.2.2 p.2.eqcv)
  let nondom := nondomB (fun (b a : List Rat × List Rat × List Rat) =>
      Pareto.dominates b.1 (cvOf b.2.1 b.2.2) a.1 (cvOf a.2.1 a.2.2))
    (List.zip obj (List.zip ineqcv eqcv))
  pure <| J.obj [("ok", J.ofBool (shapes && feasible && truthful && nondom)),
    ("shapes", J.ofBool shapes), ("feasible", J.ofBool feasible), ("truthful", J.ofBool truthful),
    ("nondominated", J.ofBool nondom)]

/-- every chromosome of a population is a feasible subset (used on the operator outputs recorded
    during the real evolutionary runs) -/
def opSpecPopulation : J.Op := fun j => do
  let space ← J.field j "space" (J.list J.int)
  let k ← J.field j "k" J.nat
  let rows ← J.field j "rows" (J.mat J.int)
  let bad := rows.filter (fun r => !feasibleB space k r)
  pure <| J.obj [("ok", J.ofBool bad.isEmpty), ("bad", J.ofMat J.ofInt (bad.take 3))]

/-- brute force over all C(n,k) subsets, in exact arithmetic on the table model: no subset has a
    smaller score than the returned decision (and the reported objective is that decision's score) -/
def opSpecOptimum : J.Op := fun j => do
  let p ← J.field j "prob" tableProb
  let decn ← J.field j "decn" (J.list J.int)
  let obj ← J.field j "obj" J.rat
  let score (x : List Int) : Rat := Np.sum (evalD p x).1
  let mine := score decn
  let better := betterSubsets score p.k p.space decn
  let best := better.foldl (fun m x => if score x < m then score x else m) mine
  pure <| J.obj [("ok", J.ofBool (optimumB score p.k p.space decn && closeR mine obj)), ("n_subsets", J.ofNat (combos p.k p.space).length),
    ("optimum", J.ofRat best), ("witness", J.ofMat J.ofInt (better.take 1))]

/-- no single exchange (member i of the decision against a candidate outside it) has a smaller
    (constraint violation, score) than the returned decision.  `ok`: violation = Σ max(0,g) + Σ |h|
    (the problem formulation G ≤ 0, H = 0); `ok_raw`: the climbers' own key Σ g + Σ h (identical for
    penalty-style constraint functions).  Exact rational comparison for every magnitude. -/
def opSpecLocalOpt : J.Op := fun j => do
  let p ← J.field j "prob" tableProb
  let decn ← J.field j "decn" (J.list J.int)
  let better := betterExchanges (evalD p) TableProb.key p.space decn
  pure <| J.obj [("ok", J.ofBool (localOptB (evalD p) TableProb.key p.space decn)),
    ("ok_prerepair", J.ofBool (localOptB (evalD p) TableProb.keyPrerepair p.space decn)),
    ("n_neighbours", J.ofNat (decn.length * (complement p.space decn).length)),
    ("witness", J.ofList (fun ij => J.ofList J.ofNat [ij.1, ij.2]) (better.take 1))]

def ops : List (String × J.Op) :=
  [("c06.eval", opEval), ("c06.sorting", opSorting), ("c06.hillclimb", opHillclimb),
   ("c06.sorting_hillclimb", opSortingHillclimb), ("c06.steepest_ascent", opSteepestAscent), ("c06.sample", opSample), ("c06.crossover", opCrossover),
   ("c06.mutation", opMutation), ("c06.neighbors", opNeighbors), ("c06.mutator_rows", opMutatorRow),
   ("c06.round", opRound), ("c06.assemble", opAssemble), ("c06.spec_solution", opSpecSolution), ("c06.spec_population", opSpecPopulation),
   ("c06.spec_optimum", opSpecOptimum), ("c06.spec_localopt", opSpecLocalOpt)]

end Drv.C06
