import PybropsModel.J
import PybropsModel.Model.Program
import PybropsModel.Generated.C20Schedule
open Lean

/-!
Driver ops of C20.
* `c20.run`  : run the *regenerated* schedule (`C20Schedule.evolve`) with scripted operators
               (the same script drives the Python stubs) and return the trace.
* `c20.spec` : evaluate `Program.specTrace` (the Spec of the property) on a trace recorded from
               the real class.
* `c20.schedule` : the regenerated schedule and whether it is well formed (diagnostics).
-/
namespace Drv.C20
open Program

abbrev V := List Int

/-- one scripted call: in-place mutations of the handed containers (append a token), then what is
    returned: the `j`-th handed container or a new container with the given content -/
inductive Sel | arg (j : Nat) | new (c : V)

structure Action where
  kind : String                 -- "op:pselect", "log:mate", "init", …: which call consumes it
  muts : List (Option Int)
  rets : List Sel

abbrev Script := List Action

def applyMuts (h : Heap V) (args : List Ref) (muts : List (Option Int)) : Heap V :=
  (List.zip args muts).foldl (fun h p => match p.2 with
    | some x => if p.1 < h.length then h.set p.1 (h.getD p.1 [] ++ [x]) else h
    | none => h) h

def applyRets (h : Heap V) (args : List Ref) : List Sel → Heap V × List Ref
  | [] => (h, [])
  | .arg j :: rest => let r := applyRets h args rest; (r.1, args.getD j 0 :: r.2)
  | .new c :: rest => let r := applyRets (h ++ [c]) args rest; (r.1, h.length :: r.2)

def defaultRets (k : OpK) : List Sel :=
  match k with
  | .pselect => [.new [], .arg 0, .arg 1, .arg 2, .arg 3, .arg 4]
  | .mate => [.arg 1, .arg 2, .arg 3, .arg 4, .arg 5]
  | _ => [.arg 0, .arg 1, .arg 2, .arg 3, .arg 4]

/-- the first not yet consumed action written for calls of kind `k` -/
def takeAction (k : String) : Script → Option Action × Script
  | [] => (none, [])
  | a :: rest => if a.kind == k then (some a, rest) else
      let r := takeAction k rest; (r.1, a :: r.2)

def opKindStr : OpK → String
  | .pselect => "op:pselect" | .mate => "op:mate" | .evaluate => "op:evaluate" | .sselect => "op:sselect"

def logKindStr : LogK → String
  | .initialize => "log:initialize" | .pselect => "log:pselect" | .mate => "log:mate"
  | .evaluate => "log:evaluate" | .sselect => "log:sselect"

def scripted : Ops Script V where
  op := fun k σ h args _ _ =>
    match takeAction (opKindStr k) σ with
    | (none, σ') => let r := applyRets h args (defaultRets k); (σ', r.1, r.2)
    | (some a, σ') => let r := applyRets (applyMuts h args a.muts) args a.rets; (σ', r.1, r.2)
  log := fun k σ h args _ _ _ =>
    match takeAction (logKindStr k) σ with
    | (none, σ') => (σ', h)
    | (some a, σ') => (σ', applyMuts h args a.muts)
  init := fun σ h =>
    match takeAction "init" σ with
    | (none, σ') => let r := applyRets h [] [.new [], .new [], .new [], .new [], .new []]; (σ', r.1, r.2)
    | (some a, σ') => let r := applyRets h [] a.rets; (σ', r.1, r.2)

/-! JSON -/

def decSel (j : Json) : J.R Sel := do
  let l ← J.list pure j
  match l with
  | [tag, x] =>
    match ← J.str tag with
    | "arg" => Sel.arg <$> J.nat x
    | "new" => Sel.new <$> J.list J.int x
    | s => J.fail s!"bad selector {s}"
  | _ => J.fail "bad selector"

def decAction (j : Json) : J.R Action := do
  let kind ← J.field j "k" J.str
  let muts ← J.fieldD j "muts" (J.list (J.opt J.int)) []
  let rets ← J.fieldD j "rets" (J.list decSel) []
  pure ⟨kind, muts, rets⟩

def kindStr : EvKind → String
  | .init => "init"
  | .op .pselect => "op:pselect" | .op .mate => "op:mate"
  | .op .evaluate => "op:evaluate" | .op .sselect => "op:sselect"
  | .log .initialize => "log:initialize" | .log .pselect => "log:pselect" | .log .mate => "log:mate"
  | .log .evaluate => "log:evaluate" | .log .sselect => "log:sselect"

def allKinds : List EvKind :=
  [.init, .op .pselect, .op .mate, .op .evaluate, .op .sselect, .log .initialize, .log .pselect,
   .log .mate, .log .evaluate, .log .sselect]

def decKind (s : String) : J.R EvKind :=
  match allKinds.find? (fun k => kindStr k == s) with
  | some k => pure k
  | none => J.fail s!"unknown event kind {s}"

def encVal : Option V → Json := J.ofOpt (J.ofList J.ofInt)
def decVal : Json → J.R (Option V) := J.opt (J.list J.int)

def encEvent (e : Event V) : Json :=
  J.obj [("kind", J.ofStr (kindStr e.kind)), ("t", J.ofNat e.t), ("tmax", J.ofNat e.tmax),
         ("rep", J.ofInt e.rep), ("args", J.ofList J.ofNat e.args),
         ("argVals", J.ofList encVal e.argVals), ("rets", J.ofList J.ofNat e.rets),
         ("retVals", J.ofList encVal e.retVals), ("startVals", J.ofList encVal e.startVals)]

def decEvent (j : Json) : J.R (Event V) := do
  let kind ← decKind (← J.field j "kind" J.str)
  pure { kind := kind, t := ← J.field j "t" J.nat, tmax := ← J.field j "tmax" J.nat,
         rep := ← J.field j "rep" J.int, args := ← J.field j "args" (J.list J.nat),
         argVals := ← J.field j "argVals" (J.list decVal), rets := ← J.field j "rets" (J.list J.nat),
         retVals := ← J.field j "retVals" (J.list decVal),
         startVals := ← J.field j "startVals" (J.list decVal) }

structure Run where
  nrep : Nat
  ngen : Nat
  loginit : Bool

def decRun (j : Json) : J.R Run := do
  pure ⟨← J.field j "nrep" J.nat, ← J.field j "ngen" J.nat, ← J.field j "loginit" J.bool⟩

/-- run the successive `evolve` calls; one answer object per call -/
def runAll (sc : Schedule) (tmax : Nat) : List Run → State Script V → List Json
  | [], _ => []
  | r :: rs, st =>
    let cfg : Cfg V := ⟨r.nrep, r.ngen, tmax, r.loginit, []⟩
    let st0 := { st with trace := [] }
    let st1 := evolve scripted cfg sc st0
    J.obj [("trace", J.ofList encEvent st1.trace), ("bad", J.ofBool st1.bad),
           ("start_before", J.ofList (J.ofOpt J.ofNat) st.start),
           ("start_after", J.ofList (J.ofOpt J.ofNat) st1.start),
           ("startVals_after", J.ofList encVal (startVals st1.heap st1.start)),
           ("rep", J.ofInt st1.rep), ("t", J.ofNat st1.t),
           ("script_left", J.ofNat st1.ost.length)]
      :: (if st1.bad then [] else runAll sc tmax rs st1)

def opRun : J.Op := fun j => do
  let cells ← J.field j "cells" (J.list (J.list J.int))
  let start ← J.field j "start" (J.list (J.opt J.nat))
  let tmax ← J.field j "tmax" J.nat
  let rep0 ← J.field j "rep0" J.int
  let script ← J.field j "script" (J.list decAction)
  let runs ← J.field j "runs" (J.list decRun)
  let canon ← J.fieldD j "canonical" J.bool false
  let st : State Script V :=
    { heap := cells, regs := fun _ => none, start := start, t := 0, rep := rep0, ost := script,
      trace := [], bad := false }
  let sc := if canon then Program.canonical else C20Schedule.evolve
  pure <| J.obj [("runs", Json.arr (runAll sc tmax runs st).toArray)]

/-! diagnostics for a rejected trace (not part of the Spec) -/

def expectedShape (nrep ngen : Nat) (li : Bool) : List (EvKind × Nat) :=
  let gen (g : Nat) : List (EvKind × Nat) :=
    [(.op .pselect, g), (.log .pselect, g), (.op .mate, g), (.log .mate, g), (.op .evaluate, g),
     (.log .evaluate, g), (.op .sselect, g), (.log .sselect, g)]
  let rep : List (EvKind × Nat) :=
    (EvKind.op .evaluate, 0) :: ((if li then [(EvKind.log .initialize, 0)] else []) ++
      (List.range ngen).flatMap (fun g => gen (g + 1)))
  (List.replicate nrep rep).flatten

def firstDiff (got want : List (EvKind × Nat)) : Option String :=
  let rec go (i : Nat) : List (EvKind × Nat) → List (EvKind × Nat) → Option String
    | [], [] => none
    | g :: _, [] => some s!"event #{i} {kindStr g.1}@t={g.2} is one call too many"
    | [], w :: _ => some s!"trace ends before event #{i} ({kindStr w.1}@t={w.2} expected)"
    | g :: gs, w :: ws =>
      if g.1 == w.1 && g.2 == w.2 then go (i + 1) gs ws
      else some s!"event #{i} is {kindStr g.1}@t={g.2}, expected {kindStr w.1}@t={w.2}"
  go 0 got want

def explain (nrep ngen : Nat) (li : Bool) (v0g : List (Option V)) (trace : List (Event V)) : String :=
  let (v0, body) := match trace with
    | e :: rest => if e.kind == EvKind.init then (e.retVals, rest) else (v0g, trace)
    | [] => (v0g, trace)
  let body := if li then body else dropInitLogs body
  if !(v0.length == 5 && v0.all Option.isSome) then "initial state is not five containers" else
  match firstDiff (body.map (fun e => (e.kind, e.t))) (expectedShape nrep ngen li) with
  | some m => "call order / clock: " ++ m
  | none =>
    match body.zipIdx.find? (fun p => p.1.startVals != v0) with
    | some p => s!"stored start containers differ from the initial state at event #{p.2} ({kindStr p.1.kind})"
    | none =>
      let len := 1 + (if li then 1 else 0) + 8 * ngen
      match (List.range nrep).find? (fun r => match body[r * len]? with
          | some e => e.argVals.take 5 != v0
          | none => true) with
      | some r => s!"replicate {r} does not start from a state equal to the initial one"
      | none => "some call is not handed what its predecessor returned"

def opSpec : J.Op := fun j => do
  let nrep ← J.field j "nrep" J.nat
  let ngen ← J.field j "ngen" J.nat
  let loginit ← J.field j "loginit" J.bool
  let v0 ← J.field j "V0given" (J.list decVal)
  let trace ← J.field j "trace" (J.list decEvent)
  let after ← J.field j "startVals_after" (J.list decVal)
  let spec := specTrace sameOrEqual nrep ngen loginit v0 trace
  let strict := specTrace sameRef nrep ngen loginit v0 trace
  let v0' := match trace with
    | e :: _ => if e.kind == EvKind.init then e.retVals else v0
    | [] => v0
  let afterOk := after == v0'
  let why := if spec then "" else " reason: " ++ explain nrep ngen loginit v0 trace
  pure <| J.obj [("ok", J.ofBool (spec && afterOk)),
                 ("detail", J.ofStr s!"specTrace={spec} identity_wiring={strict} start_after_unchanged={afterOk}{why}")]

def opSchedule : J.Op := fun _ =>
  pure <| J.obj [("wellformed", J.ofBool (WellFormed C20Schedule.evolve)),
                 ("schedule", J.ofStr (toString (repr C20Schedule.evolve)))]

def ops : List (String × J.Op) :=
  [("c20.run", opRun), ("c20.spec", opSpec), ("c20.schedule", opSchedule)]

end Drv.C20
