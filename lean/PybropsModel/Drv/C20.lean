import PybropsModel.J
import PybropsModel.Model.Program
import PybropsModel.Model.ProgramSym
import PybropsModel.Generated.C20Schedule
open Lean

/-!
Driver ops of C20.
* `c20.run`  : run the *regenerated* schedule (`C20Schedule.evolve`) with scripted operators
               (the same script drives the Python stubs) and return the trace.
* `c20.spec` : evaluate `Program.specTrace` (the Spec of the property) on a trace recorded from
               the real class.
* `c20.schedule` : the regenerated schedule and whether it is well formed (diagnostics).
-/
namespace Drv.C20
open Program

/-- data of a cell: a container is a dict cell (no data) holding a reference to a list cell whose data
    are the integers the Python stubs see under the key "h" -/
abbrev D := List Int
abbrev V := View D

/-- one scripted call: in-place mutations of the handed containers (append a token to the list
    below the dict, creating it if absent), then what is returned: the `j`-th handed container or a
    new container with the given content -/
inductive Sel | arg (j : Nat) | new (c : D)

structure Action where
  kind : String                 -- "op:pselect", "log:mate", "init", …: which call consumes it
  muts : List (Option Int)
  rets : List Sel

abbrev Script := List Action

/-- `o.setdefault("h", []).append(x)` -/
def appendTo (h : Heap (Cell D)) (a : Ref) (x : Int) : Heap (Cell D) :=
  match h[a]? with
  | none => h
  | some c =>
    match c.refs with
    | r :: _ =>
      match h[r]? with
      | some l => h.set r { l with data := l.data ++ [x] }
      | none => h
    | [] => (h ++ [({ data := [x], refs := [] } : Cell D)]).set a { c with refs := [h.length] }

def applyMuts (h : Heap (Cell D)) (args : List Ref) (muts : List (Option Int)) : Heap (Cell D) :=
  (List.zip args muts).foldl (fun h p => match p.2 with
    | some x => appendTo h p.1 x
    | none => h) h

def applyRets (h : Heap (Cell D)) (args : List Ref) : List Sel → Heap (Cell D) × List Ref
  | [] => (h, [])
  | .arg j :: rest => let r := applyRets h args rest; (r.1, args.getD j 0 :: r.2)
  | .new c :: rest =>
    let r := applyRets (h ++ [({ data := [], refs := [h.length + 1] } : Cell D), { data := c, refs := [] }]) args rest
    (r.1, h.length :: r.2)

def defaultRets (k : OpK) : List Sel :=
  match k with
  | .pselect => [.new [], .arg 0, .arg 1, .arg 2, .arg 3, .arg 4]
  | .mate => [.arg 1, .arg 2, .arg 3, .arg 4, .arg 5]
  | _ => [.arg 0, .arg 1, .arg 2, .arg 3, .arg 4]

/-- the first not yet consumed action written for calls of kind `k` -/
def takeAction (k : String) : Script → Option Action × Script
  | [] => (none, [])
  | a :: rest => if a.kind == k then (some a, rest) else
      let r := takeAction k rest; (r.1, a :: r.2)

def opKindStr : OpK → String
  | .pselect => "op:pselect" | .mate => "op:mate" | .evaluate => "op:evaluate" | .sselect => "op:sselect"

def logKindStr : LogK → String
  | .initialize => "log:initialize" | .pselect => "log:pselect" | .mate => "log:mate"
  | .evaluate => "log:evaluate" | .sselect => "log:sselect"

def scripted : Ops Script D where
  op := fun k σ h args _ _ =>
    match takeAction (opKindStr k) σ with
    | (none, σ') => let r := applyRets h args (defaultRets k); (σ', r.1, r.2)
    | (some a, σ') => let r := applyRets (applyMuts h args a.muts) args a.rets; (σ', r.1, r.2)
  log := fun k σ h args _ _ _ =>
    match takeAction (logKindStr k) σ with
    | (none, σ') => (σ', h)
    | (some a, σ') => (σ', applyMuts h args a.muts)
  init := fun σ h =>
    match takeAction "init" σ with
    | (none, σ') => let r := applyRets h [] [.new [], .new [], .new [], .new [], .new []]; (σ', r.1, r.2)
    | (some a, σ') => let r := applyRets h [] a.rets; (σ', r.1, r.2)

/-! JSON -/

def decSel (j : Json) : J.R Sel := do
  let l ← J.list pure j
  match l with
  | [tag, x] =>
    match ← J.str tag with
    | "arg" => Sel.arg <$> J.nat x
    | "new" => Sel.new <$> J.list J.int x
    | s => J.fail s!"bad selector {s}"
  | _ => J.fail "bad selector"

def decAction (j : Json) : J.R Action := do
  let kind ← J.field j "k" J.str
  let muts ← J.fieldD j "muts" (J.list (J.opt J.int)) []
  let rets ← J.fieldD j "rets" (J.list decSel) []
  pure ⟨kind, muts, rets⟩

def kindStr : EvKind → String
  | .init => "init"
  | .op .pselect => "op:pselect" | .op .mate => "op:mate"
  | .op .evaluate => "op:evaluate" | .op .sselect => "op:sselect"
  | .log .initialize => "log:initialize" | .log .pselect => "log:pselect" | .log .mate => "log:mate"
  | .log .evaluate => "log:evaluate" | .log .sselect => "log:sselect"

def allKinds : List EvKind :=
  [.init, .op .pselect, .op .mate, .op .evaluate, .op .sselect, .log .initialize, .log .pselect,
   .log .mate, .log .evaluate, .log .sselect]

def decKind (s : String) : J.R EvKind :=
  match allKinds.find? (fun k => kindStr k == s) with
  | some k => pure k
  | none => J.fail s!"unknown event kind {s}"

/-- what the Python stubs see of a container: the integers of the list below the dict -/
def encVal : Option V → Json :=
  J.ofOpt (fun v => J.ofList J.ofInt ((v.filter (fun p => p.1 == 1)).flatMap (fun p => p.2)))
def decVal : Json → J.R (Option V) :=
  J.opt (fun j => do let l ← J.list J.int j; pure [(0, []), (1, l)])

def encEvent (e : Event V) : Json :=
  J.obj [("kind", J.ofStr (kindStr e.kind)), ("t", J.ofNat e.t), ("tmax", J.ofNat e.tmax),
         ("rep", J.ofInt e.rep), ("args", J.ofList J.ofNat e.args),
         ("argVals", J.ofList encVal e.argVals), ("rets", J.ofList J.ofNat e.rets),
         ("retVals", J.ofList encVal e.retVals), ("startVals", J.ofList encVal e.startVals)]

def decEvent (j : Json) : J.R (Event V) := do
  let kind ← decKind (← J.field j "kind" J.str)
  pure { kind := kind, t := ← J.field j "t" J.nat, tmax := ← J.field j "tmax" J.nat,
         rep := ← J.field j "rep" J.int, args := ← J.field j "args" (J.list J.nat),
         argVals := ← J.field j "argVals" (J.list decVal), rets := ← J.field j "rets" (J.list J.nat),
         retVals := ← J.field j "retVals" (J.list decVal),
         startVals := ← J.field j "startVals" (J.list decVal) }

/-- one API call on the programme object -/
inductive CallJ
  | evolve (nrep : Nat) (ngen : Option Nat) (loginit : Bool)
  | reset
  | advance (ngen : Option Nat)

def decCall (j : Json) : J.R CallJ := do
  match ← J.field j "m" J.str with
  | "evolve" => pure (.evolve (← J.field j "nrep" J.nat) (← J.fieldOpt j "ngen" J.nat) (← J.field j "loginit" J.bool))
  | "reset" => pure .reset
  | "advance" => pure (.advance (← J.fieldOpt j "ngen" J.nat))
  | m => J.fail s!"unknown call {m}"

def runCall (sc : Schedule) (tmax : Nat) (c : CallJ) (st : State Script D) : State Script D :=
  match c with
  | .evolve nrep ngen li => evolve scripted ⟨nrep, ngen, tmax, li, [], 1⟩ sc st
  | .reset => resetCall scripted ⟨0, none, tmax, true, [], 1⟩ sc st
  | .advance ngen => advanceCall scripted ⟨0, ngen, tmax, true, [], 1⟩ sc st

/-- run the successive API calls; one answer object per call (stops after a call that raises) -/
def runAll (sc : Schedule) (tmax : Nat) : List CallJ → State Script D → List Json
  | [], _ => []
  | c :: cs, st =>
    let st0 := { st with trace := [] }
    let st1 := runCall sc tmax c st0
    let work := five.map st1.regs
    J.obj [("trace", J.ofList encEvent st1.trace), ("bad", J.ofBool st1.bad),
           ("start_before", J.ofList (J.ofOpt J.ofNat) st.start),
           ("start_after", J.ofList (J.ofOpt J.ofNat) st1.start),
           ("startVals_after", J.ofList encVal (startVals 1 st1.heap st1.start)),
           ("work", J.ofList (J.ofOpt J.ofNat) work),
           ("workVals", J.ofList encVal (startVals 1 st1.heap work)),
           ("rep", J.ofInt st1.rep), ("t", J.ofNat st1.t),
           ("script_left", J.ofNat st1.ost.length)]
      :: (if st1.bad then [] else runAll sc tmax cs st1)

def opRun : J.Op := fun j => do
  let cells ← J.field j "cells" (J.list (J.list J.int))
  let start ← J.field j "start" (J.list (J.opt J.nat))
  let tmax ← J.field j "tmax" J.nat
  let rep0 ← J.field j "rep0" J.int
  let script ← J.field j "script" (J.list decAction)
  let calls ← J.field j "calls" (J.list decCall)
  let canon ← J.fieldD j "canonical" J.bool false
  let share ← J.fieldD j "share" (J.list (J.list J.nat)) []
  -- container i = dict cell 2i holding a reference to its list cell 2i+1, or (shared) to the list of j
  let innerOf (i : Nat) : Nat := match share.find? (fun p => p.head? == some i) with
    | some [_, k] => k
    | _ => i
  let heap : Heap (Cell D) := cells.zipIdx.flatMap (fun p =>
    [({ data := [], refs := [2 * innerOf p.2 + 1] } : Cell D), { data := p.1, refs := [] }])
  let st : State Script D :=
    { heap := heap, n0 := heap.length, regs := fun _ => none, start := start.map (fun o => o.map (2 * ·)),
      t := 0, rep := rep0, ngen := none, ost := script, trace := [], bad := false }
  let sc := if canon then Program.canonical else C20Schedule.evolve
  pure <| J.obj [("calls", Json.arr (runAll sc tmax calls st).toArray)]

/-! diagnostics for a rejected trace (not part of the Spec) -/

def expectedShape (nrep ngen : Nat) (li : Bool) : List (EvKind × Nat) :=
  let gen (g : Nat) : List (EvKind × Nat) :=
    [(.op .pselect, g), (.log .pselect, g), (.op .mate, g), (.log .mate, g), (.op .evaluate, g),
     (.log .evaluate, g), (.op .sselect, g), (.log .sselect, g)]
  let rep : List (EvKind × Nat) :=
    (EvKind.op .evaluate, 0) :: ((if li then [(EvKind.log .initialize, 0)] else []) ++
      (List.range ngen).flatMap (fun g => gen (g + 1)))
  (List.replicate nrep rep).flatten

def firstDiff (got want : List (EvKind × Nat)) : Option String :=
  let rec go (i : Nat) : List (EvKind × Nat) → List (EvKind × Nat) → Option String
    | [], [] => none
    | g :: _, [] => some s!"event #{i} {kindStr g.1}@t={g.2} is one call too many"
    | [], w :: _ => some s!"trace ends before event #{i} ({kindStr w.1}@t={w.2} expected)"
    | g :: gs, w :: ws =>
      if g.1 == w.1 && g.2 == w.2 then go (i + 1) gs ws
      else some s!"event #{i} is {kindStr g.1}@t={g.2}, expected {kindStr w.1}@t={w.2}"
  go 0 got want

def explain (nrep ngen : Nat) (li : Bool) (v0g : List (Option V)) (trace : List (Event V)) : String :=
  let (v0, body) := match trace with
    | e :: rest => if e.kind == EvKind.init then (e.retVals, rest) else (v0g, trace)
    | [] => (v0g, trace)
  let body := if li then body else dropInitLogs body
  if !(v0.length == 5 && v0.all Option.isSome) then "initial state is not five containers" else
  match firstDiff (body.map (fun e => (e.kind, e.t))) (expectedShape nrep ngen li) with
  | some m => "call order / clock: " ++ m
  | none =>
    match body.zipIdx.find? (fun p => p.1.startVals != v0) with
    | some p => s!"stored start containers differ from the initial state at event #{p.2} ({kindStr p.1.kind})"
    | none =>
      let len := 1 + (if li then 1 else 0) + 8 * ngen
      match (List.range nrep).find? (fun r => match body[r * len]? with
          | some e => e.argVals.take 5 != v0
          | none => true) with
      | some r => s!"replicate {r} does not start from a state equal to the initial one"
      | none => "some call is not handed what its predecessor returned"

def opSpec : J.Op := fun j => do
  let nrep ← J.field j "nrep" J.nat
  let ngen ← J.field j "ngen" J.nat
  let loginit ← J.field j "loginit" J.bool
  let v0 ← J.field j "V0given" (J.list decVal)
  let trace ← J.field j "trace" (J.list decEvent)
  let after ← J.field j "startVals_after" (J.list decVal)
  let spec := specTrace sameOrEqual nrep ngen loginit v0 trace
  let strict := specTrace sameRef nrep ngen loginit v0 trace
  let v0' := match trace with
    | e :: _ => if e.kind == EvKind.init then e.retVals else v0
    | [] => v0
  let afterOk := after == v0'
  let why := if spec then "" else " reason: " ++ explain nrep ngen loginit v0 trace
  pure <| J.obj [("ok", J.ofBool (spec && afterOk)),
                 ("detail", J.ofStr s!"specTrace={spec} identity_wiring={strict} start_after_unchanged={afterOk}{why}")]

def decItems (j : Json) : J.R (List (Item V)) := do
  let ids ← J.field j "cur" (J.list J.nat)
  let vs ← J.field j "curVals" (J.list decVal)
  pure (items ids vs)

/-- Spec of a direct `advance(ngen)` call -/
def opSpecAdvance : J.Op := fun j => do
  let ngen ← J.field j "ngen" J.nat
  let t0 ← J.field j "t0" J.nat
  let v0 ← J.field j "V0" (J.list decVal)
  let cur ← decItems j
  let trace ← J.field j "trace" (J.list decEvent)
  let after ← J.field j "startVals_after" (J.list decVal)
  let spec := specAdvance sameOrEqual ngen t0 v0 cur trace
  let strict := specAdvance sameRef ngen t0 v0 cur trace
  let afterOk := after == v0
  pure <| J.obj [("ok", J.ofBool (spec && afterOk)),
                 ("detail", J.ofStr s!"specAdvance={spec} identity_wiring={strict} start_after_unchanged={afterOk}")]

/-- Spec of a direct `reset()` call: working containers equal the initial state, clock 0,
    start containers untouched -/
def opSpecReset : J.Op := fun j => do
  let v0 ← J.field j "V0" (J.list decVal)
  let work ← J.field j "workVals" (J.list decVal)
  let t ← J.field j "t" J.nat
  let after ← J.field j "startVals_after" (J.list decVal)
  let ok := work == v0 && t == 0 && after == v0 && v0.length == 5 && v0.all Option.isSome
  pure <| J.obj [("ok", J.ofBool ok),
                 ("detail", J.ofStr s!"working_equals_initial={work == v0} clock_zero={t == 0} start_after_unchanged={after == v0}")]

def opSchedule : J.Op := fun _ =>
  pure <| J.obj [("wellformed", J.ofBool (WellFormed C20Schedule.evolve)),
                 ("handles_none", J.ofBool (HandlesNone C20Schedule.evolve)),
                 ("wf_reset", J.ofBool (wfReset C20Schedule.evolve)),
                 ("parts", J.ofStr s!"pre={wfPre C20Schedule.evolve} empty={wfEmpty C20Schedule.evolve} gen={wfGen C20Schedule.evolve} rep={wfRep C20Schedule.evolve}"),
                 ("schedule", J.ofStr (toString (repr C20Schedule.evolve)))]

def ops : List (String × J.Op) :=
  [("c20.run", opRun), ("c20.spec", opSpec), ("c20.spec_advance", opSpecAdvance),
   ("c20.spec_reset", opSpecReset), ("c20.schedule", opSchedule)]

end Drv.C20
