import PybropsModel.J
import PybropsModel.Model.Program
import PybropsModel.Model.ProgramSym
import PybropsModel.Model.ProgramOracle
import PybropsModel.Generated.C20Schedule
open Lean

/-!
Driver ops of C20.
* `c20.run`  : run the *regenerated* schedule (`C20Schedule.evolve`) with scripted operators
               (the same script drives the Python stubs) and return the trace.
* `c20.spec` : evaluate `Program.specTrace` (the Spec of the property) on a trace recorded from
               the real class.
* `c20.schedule` : the regenerated schedule and whether it is well formed (diagnostics).
-/
namespace Drv.C20
open Program

/-- data of a cell.  Conventions shared with the Python stubs (harness/props/c20.py):
    a `dict` is a cell with data `[-9]` whose references are its values in insertion order (the list
    under the key "h" first); a list of integers is a cell holding them; a list of objects is a cell
    `[-8]` with its elements as references; a numpy integer array is a cell `-7 :: values`; a tuple of
    objects is a cell `[-6]` (immutable: never mutated in place); an instance of a plain Python class is a
    cell `[-5]` whose references are its attribute values in insertion order (attribute "h" first); a numpy
    array of dtype=object is a cell `[-4]` (`[-4, c]`: 2-D with `c` columns) whose references are its
    ELEMENTS (per-individual record lists, arrays of unequal length, …) — `copy.deepcopy` copies them
    (`deepCopyAll`), `ndarray.copy()` does not (`levelCopy`: the copy stops at the array) -/
abbrev D := List Int
abbrev V := View D

def dictD : D := [-9]
def objD : D := [-5]

/-- how deep the recorded observations unfold the object graph below a container (default; a request may
    ask for more — containers nested a dozen levels deep) -/
def DEPTH : Nat := 5

/-- one scripted call.  `late`: in-place mutations of objects the stubs were handed (or returned) in
    EARLIER calls (index into the list of everything seen so far, path of child indices below it);
    `muts`: in-place mutation of the handed containers (append a token to the list under "h", creating
    it if absent); `deep`: mutations below a handed container (argument index, path); then what is
    returned: the `j`-th handed container, a new container `{"h": c}` or a new EMPTY container `{}` -/
inductive Sel | arg (j : Nat) | new (c : D) | empty

structure Action where
  kind : String                 -- "op:pselect", "log:mate", "init", …: which call consumes it
  muts : List (Option Int)
  rets : List Sel
  deep : List (Nat × List Nat × Int)
  late : List (Nat × List Nat × Int)

abbrev Script := List Action

/-- internal state of the scripted operators: the remaining script and every reference they were
    ever handed or returned (operators may keep what they are given) -/
structure OSt where
  script : Script
  seen : List Ref

/-- `o.setdefault("h", []).append(x)` on a dict cell -/
def appendTo (h : Heap (Cell D)) (a : Ref) (x : Int) : Heap (Cell D) :=
  match h[a]? with
  | none => h
  | some c =>
    match c.refs with
    | r :: _ =>
      match h[r]? with
      | some l => h.set r { l with data := l.data ++ [x] }
      | none => h
    | [] => (h ++ [({ data := [x], refs := [] } : Cell D)]).set a { c with refs := [h.length] }

/-- in-place mutation of one object with token `x`, by kind: dict / class instance — append to its "h"
    list (created when absent, e.g. in an empty dict); list of integers — append; array — overwrite the
    last element; list, tuple or object-dtype array of objects — nothing (their elements are mutated,
    addressed by path) -/
def mutCell (h : Heap (Cell D)) (a : Ref) (x : Int) : Heap (Cell D) :=
  match h[a]? with
  | none => h
  | some c =>
    if c.data == dictD || c.data == objD then appendTo h a x
    else if c.data.head? == some (-8) || c.data.head? == some (-6) || c.data.head? == some (-4) then h
    else if c.data.head? == some (-7) then
      (if c.data.length ≥ 2 then h.set a { c with data := c.data.dropLast ++ [x] } else h)
    else h.set a { c with data := c.data ++ [x] }

/-- follow child indices below a cell -/
def walk (h : Heap (Cell D)) : Ref → List Nat → Option Ref
  | a, [] => if a < h.length then some a else none
  | a, i :: p =>
    match h[a]? with
    | none => none
    | some c =>
      match c.refs[i]? with
      | none => none
      | some r => walk h r p

def mutAt (h : Heap (Cell D)) (a : Ref) (path : List Nat) (x : Int) : Heap (Cell D) :=
  match walk h a path with
  | some t => mutCell h t x
  | none => h

def applyMuts (h : Heap (Cell D)) (args : List Ref) (muts : List (Option Int)) : Heap (Cell D) :=
  (List.zip args muts).foldl (fun h p => match p.2 with
    | some x => mutCell h p.1 x
    | none => h) h

/-- mutations addressed by (index into `roots`, path, token); an index out of range does nothing -/
def applyDeep (h : Heap (Cell D)) (roots : List Ref) (ms : List (Nat × List Nat × Int)) : Heap (Cell D) :=
  ms.foldl (fun h m => match roots[m.1]? with
    | some a => mutAt h a m.2.1 m.2.2
    | none => h) h

/-- a new container `{"h": c}`: a dict cell and the list cell below it -/
def newCells (h : Heap (Cell D)) (c : D) : Heap (Cell D) :=
  h ++ [({ data := dictD, refs := [h.length + 1] } : Cell D), { data := c, refs := [] }]

/-- a new empty container `{}`: one dict cell without references -/
def emptyCell (h : Heap (Cell D)) : Heap (Cell D) :=
  h ++ [({ data := dictD, refs := [] } : Cell D)]

/-- the `j`-th handed object, the first one if there are fewer (as the Python stubs do) -/
def pickArg (args : List Ref) (j : Nat) : Option Ref :=
  match args[j]? with
  | some a => some a
  | none => args.head?

def applyRets (h : Heap (Cell D)) (args : List Ref) : List Sel → Heap (Cell D) × List Ref
  | [] => (h, [])
  | .arg j :: rest =>
    match pickArg args j with
    | some a => let r := applyRets h args rest; (r.1, a :: r.2)
    | none => let r := applyRets (newCells h []) args rest; (r.1, h.length :: r.2)   -- nothing was handed
  | .new c :: rest =>
    let r := applyRets (newCells h c) args rest
    (r.1, h.length :: r.2)
  | .empty :: rest =>
    let r := applyRets (emptyCell h) args rest
    (r.1, h.length :: r.2)

def defaultRets (k : OpK) : List Sel :=
  match k with
  | .pselect => [.new [], .arg 0, .arg 1, .arg 2, .arg 3, .arg 4]
  | .mate => [.arg 1, .arg 2, .arg 3, .arg 4, .arg 5]
  | _ => [.arg 0, .arg 1, .arg 2, .arg 3, .arg 4]

/-- the first not yet consumed action written for calls of kind `k` -/
def takeAction (k : String) : Script → Option Action × Script
  | [] => (none, [])
  | a :: rest => if a.kind == k then (some a, rest) else
      let r := takeAction k rest; (r.1, a :: r.2)

def opKindStr : OpK → String
  | .pselect => "op:pselect" | .mate => "op:mate" | .evaluate => "op:evaluate" | .sselect => "op:sselect"

def logKindStr : LogK → String
  | .initialize => "log:initialize" | .pselect => "log:pselect" | .mate => "log:mate"
  | .evaluate => "log:evaluate" | .sselect => "log:sselect"

def nLog : LogK → Nat
  | .pselect => 6 | .mate => 6 | _ => 5

/-- an operator returns as many values as its signature says (scripts written by the generator
    always do; any other script falls back to the default) -/
def normRets (k : OpK) (rets : List Sel) : List Sel :=
  if rets.length = arity k then rets else defaultRets k

def scripted : Ops OSt D where
  op := fun k σ h args _ _ =>
    match takeAction (opKindStr k) σ.script with
    | (none, sc') => let r := applyRets h args (defaultRets k); (⟨sc', σ.seen ++ args ++ r.2⟩, r.1, r.2)
    | (some a, sc') =>
      let h1 := applyDeep h σ.seen a.late
      let h2 := applyDeep (applyMuts h1 args a.muts) args a.deep
      let r := applyRets h2 args (normRets k a.rets)
      (⟨sc', σ.seen ++ args ++ r.2⟩, r.1, r.2)
  log := fun k σ h args _ _ _ =>
    match takeAction (logKindStr k) σ.script with
    | (none, sc') => (⟨sc', σ.seen ++ args.take (nLog k)⟩, h)
    | (some a, sc') =>
      let h1 := applyDeep h σ.seen a.late
      (⟨sc', σ.seen ++ args.take (nLog k)⟩, applyDeep (applyMuts h1 args a.muts) args a.deep)
  init := fun σ h =>
    match takeAction "init" σ.script with
    | (none, sc') => let r := applyRets h [] [.new [], .new [], .new [], .new [], .new []]; (⟨sc', σ.seen⟩, r.1, r.2)
    | (some a, sc') => let r := applyRets h [] a.rets; (⟨sc', σ.seen⟩, r.1, r.2)

/-! JSON -/

def decSel (j : Json) : J.R Sel := do
  let l ← J.list pure j
  match l with
  | [tag, x] =>
    match ← J.str tag with
    | "arg" => Sel.arg <$> J.nat x
    | "new" => Sel.new <$> J.list J.int x
    | "empty" => pure Sel.empty
    | s => J.fail s!"bad selector {s}"
  | _ => J.fail "bad selector"

def decDeep (j : Json) : J.R (Nat × List Nat × Int) := do
  let l ← J.list pure j
  match l with
  | [i, p, x] => pure (← J.nat i, ← J.list J.nat p, ← J.int x)
  | _ => J.fail "bad deep mutation"

def decAction (j : Json) : J.R Action := do
  let kind ← J.field j "k" J.str
  let muts ← J.fieldD j "muts" (J.list (J.opt J.int)) []
  let rets ← J.fieldD j "rets" (J.list decSel) []
  let deep ← J.fieldD j "deep" (J.list decDeep) []
  let late ← J.fieldD j "late" (J.list decDeep) []
  pure ⟨kind, muts, rets, deep, late⟩

def kindStr : EvKind → String
  | .init => "init"
  | .op .pselect => "op:pselect" | .op .mate => "op:mate"
  | .op .evaluate => "op:evaluate" | .op .sselect => "op:sselect"
  | .log .initialize => "log:initialize" | .log .pselect => "log:pselect" | .log .mate => "log:mate"
  | .log .evaluate => "log:evaluate" | .log .sselect => "log:sselect"

def allKinds : List EvKind :=
  [.init, .op .pselect, .op .mate, .op .evaluate, .op .sselect, .log .initialize, .log .pselect,
   .log .mate, .log .evaluate, .log .sselect]

def decKind (s : String) : J.R EvKind :=
  match allKinds.find? (fun k => kindStr k == s) with
  | some k => pure k
  | none => J.fail s!"unknown event kind {s}"

/-- what the Python stubs see of a container: the unfolding of the object graph below it to depth
    `DEPTH`, as the pre-order list of `depth :: data` -/
def encVal : Option V → Json :=
  J.ofOpt (fun v => J.ofList (fun p => J.ofList J.ofInt (Int.ofNat p.1 :: p.2)) v)
def decVal : Json → J.R (Option V) :=
  J.opt (fun j => do
    let l ← J.list (J.list J.int) j
    pure (l.map (fun x => ((x.headD 0).toNat, x.drop 1))))

/-- `startVals` of an event is sent as the string "=" when it equals that of the previous event
    (for the first event: the value `prev` the caller names) — a lossless shortening of the protocol -/
def encEvent (prev : Option (List (Option V))) (e : Event V) : Json :=
  J.obj [("kind", J.ofStr (kindStr e.kind)), ("t", J.ofNat e.t), ("tmax", J.ofNat e.tmax),
         ("rep", J.ofInt e.rep), ("args", J.ofList J.ofNat e.args),
         ("argVals", J.ofList encVal e.argVals), ("rets", J.ofList J.ofNat e.rets),
         ("retVals", J.ofList encVal e.retVals),
         ("startVals", if prev == some e.startVals then J.ofStr "=" else J.ofList encVal e.startVals)]

def encTrace : Option (List (Option V)) → List (Event V) → List Json
  | _, [] => []
  | prev, e :: rest => encEvent prev e :: encTrace (some e.startVals) rest

def decEvent (prev : List (Option V)) (j : Json) : J.R (Event V) := do
  let kind ← decKind (← J.field j "kind" J.str)
  let sv ← J.field j "startVals" (fun x => match x with
    | Json.str "=" => pure prev
    | x => J.list decVal x)
  pure { kind := kind, t := ← J.field j "t" J.nat, tmax := ← J.field j "tmax" J.nat,
         rep := ← J.field j "rep" J.int, args := ← J.field j "args" (J.list J.nat),
         argVals := ← J.field j "argVals" (J.list decVal), rets := ← J.field j "rets" (J.list J.nat),
         retVals := ← J.field j "retVals" (J.list decVal),
         startVals := sv }

def decTrace (prev : List (Option V)) : List Json → J.R (List (Event V))
  | [] => pure []
  | j :: rest => do
    let e ← decEvent prev j
    let es ← decTrace e.startVals rest
    pure (e :: es)

/-- one API call on the programme object (or an attribute assignment by its user).  `repIn`: the
    replicate counter of the logbook handed to this call (a different logbook may be passed to each call) -/
inductive CallJ
  | evolve (nrep : Nat) (ngen : Option Nat) (loginit : Bool) (repIn : Option Int)
  | reset (repIn : Option Int)
  | advance (ngen : Option Nat) (repIn : Option Int)
  | setStart (slot : Nat) (content : Option D)      -- `prog.start_X = {"h": content}` / `= None`
  | setStartEmpty (slot : Nat)                      -- `prog.start_X = {}`
  | noop                                            -- something that must not affect this programme object:
                                                    -- the user replaces an operator by another instance
                                                    -- of the same behaviour; ANOTHER programme object runs
  | setTmax (n : Nat)                               -- `prog.t_max = n`
  | setT (n : Nat)                                  -- `prog.t_cur = n`

def decCall (j : Json) : J.R CallJ := do
  match ← J.field j "m" J.str with
  | "evolve" => pure (.evolve (← J.field j "nrep" J.nat) (← J.fieldOpt j "ngen" J.nat) (← J.field j "loginit" J.bool)
                        (← J.fieldOpt j "rep_in" J.int))
  | "reset" => pure (.reset (← J.fieldOpt j "rep_in" J.int))
  | "advance" => pure (.advance (← J.fieldOpt j "ngen" J.nat) (← J.fieldOpt j "rep_in" J.int))
  | "set_start" =>
    if ← J.fieldD j "empty" J.bool false then pure (.setStartEmpty (← J.field j "slot" J.nat))
    else pure (.setStart (← J.field j "slot" J.nat) (← J.fieldOpt j "content" (J.list J.int)))
  | "noop" => pure .noop
  | "set_tmax" => pure (.setTmax (← J.field j "value" J.nat))
  | "set_t" => pure (.setT (← J.field j "value" J.nat))
  | m => J.fail s!"unknown call {m}"

def withRep (st : State OSt D) : Option Int → State OSt D
  | some r => { st with rep := r }
  | none => st

def runCall (sc : Schedule) (depth tmax : Nat) (c : CallJ) (st : State OSt D) : State OSt D :=
  match c with
  | .evolve nrep ngen li r => evolve scripted ⟨nrep, ngen, tmax, li, dictD, depth⟩ sc (withRep st r)
  | .reset r => resetCall scripted ⟨0, none, tmax, true, dictD, depth⟩ sc (withRep st r)
  | .advance ngen r => advanceCall scripted ⟨0, ngen, tmax, true, dictD, depth⟩ sc (withRep st r)
  | .setStart slot (some c) =>
    -- a new container allocated by the caller; it becomes part of the initial state (everything
    -- allocated so far now counts as existing at initialisation)
    { st with heap := st.heap ++ [({ data := dictD, refs := [st.heap.length + 1] } : Cell D), { data := c, refs := [] }],
              n0 := st.heap.length + 2, start := st.start.set slot (some st.heap.length) }
  | .setStart slot none => { st with start := st.start.set slot none }
  | .setStartEmpty slot =>
    { st with heap := st.heap ++ [({ data := dictD, refs := [] } : Cell D)],
              n0 := st.heap.length + 1, start := st.start.set slot (some st.heap.length) }
  | .noop => st
  | .setTmax _ => st
  | .setT n => { st with t := n }

/-- run the successive API calls; one answer object per call (stops after a call that raises) -/
def runAll (sc : Schedule) (depth tmax : Nat) : List CallJ → State OSt D → List Json
  | [], _ => []
  | c :: cs, st =>
    let st0 := { st with trace := [] }
    let st1 := runCall sc depth tmax c st0
    let tmax' := match c with
      | .setTmax n => n
      | _ => tmax
    let work := five.map st1.regs
    J.obj [("trace", Json.arr (encTrace none st1.trace).toArray), ("bad", J.ofBool st1.bad),
           ("start_before", J.ofList (J.ofOpt J.ofNat) st.start),
           ("start_after", J.ofList (J.ofOpt J.ofNat) st1.start),
           ("startVals_after", J.ofList encVal (startVals depth st1.heap st1.start)),
           ("work", J.ofList (J.ofOpt J.ofNat) work),
           ("workVals", J.ofList encVal (startVals depth st1.heap work)),
           ("rep", J.ofInt st1.rep), ("t", J.ofNat st1.t), ("tmax", J.ofNat tmax'),
           ("script_left", J.ofNat st1.ost.script.length)]
      :: (if st1.bad then [] else runAll sc depth tmax' cs st1)

def decCell (j : Json) : J.R (Cell D) := do
  pure { data := ← J.field j "d" (J.list J.int), refs := ← J.field j "r" (J.list J.nat) }

/-- `graph`: the object graph of the start containers, one cell per object (`d` data, `r` references
    = indices of other cells); `start`: the cell of each of the five start containers or null -/
def opRun : J.Op := fun j => do
  let heap ← J.field j "graph" (J.list decCell)
  let start ← J.field j "start" (J.list (J.opt J.nat))
  let tmax ← J.field j "tmax" J.nat
  let rep0 ← J.field j "rep0" J.int
  let script ← J.field j "script" (J.list decAction)
  let calls ← J.field j "calls" (J.list decCall)
  let canon ← J.fieldD j "canonical" J.bool false
  let depth ← J.fieldD j "depth" J.nat DEPTH      -- how deep the observations unfold the object graphs
  let st : State OSt D :=
    { heap := heap, n0 := heap.length, regs := fun _ => none, start := start,
      t := 0, rep := rep0, ngen := none, ost := ⟨script, []⟩, trace := [], bad := false }
  let sc := if canon then Program.canonical else C20Schedule.evolve
  pure <| J.obj [("calls", Json.arr (runAll sc depth tmax calls st).toArray)]

/-! diagnostics for a rejected trace (not part of the Spec) -/

def expectedShape (nrep ngen : Nat) (li : Bool) : List (EvKind × Nat) :=
  let gen (g : Nat) : List (EvKind × Nat) :=
    [(.op .pselect, g), (.log .pselect, g), (.op .mate, g), (.log .mate, g), (.op .evaluate, g),
     (.log .evaluate, g), (.op .sselect, g), (.log .sselect, g)]
  let rep : List (EvKind × Nat) :=
    (EvKind.op .evaluate, 0) :: ((if li then [(EvKind.log .initialize, 0)] else []) ++
      (List.range ngen).flatMap (fun g => gen (g + 1)))
  (List.replicate nrep rep).flatten

def firstDiff (got want : List (EvKind × Nat)) : Option String :=
  let rec go (i : Nat) : List (EvKind × Nat) → List (EvKind × Nat) → Option String
    | [], [] => none
    | g :: _, [] => some s!"event #{i} {kindStr g.1}@t={g.2} is one call too many"
    | [], w :: _ => some s!"trace ends before event #{i} ({kindStr w.1}@t={w.2} expected)"
    | g :: gs, w :: ws =>
      if g.1 == w.1 && g.2 == w.2 then go (i + 1) gs ws
      else some s!"event #{i} is {kindStr g.1}@t={g.2}, expected {kindStr w.1}@t={w.2}"
  go 0 got want

def explain (nrep ngen : Nat) (li : Bool) (v0g : List (Option V)) (trace : List (Event V)) : String :=
  let (v0, body) := match trace with
    | e :: rest => if e.kind == EvKind.init then (e.retVals, rest) else (v0g, trace)
    | [] => (v0g, trace)
  let body := if li then body else dropInitLogs body
  if !(v0.length == 5 && v0.all Option.isSome) then "initial state is not five containers" else
  match firstDiff (body.map (fun e => (e.kind, e.t))) (expectedShape nrep ngen li) with
  | some m => "call order / clock: " ++ m
  | none =>
    match body.zipIdx.find? (fun p => p.1.startVals != v0) with
    | some p => s!"stored start containers differ from the initial state at event #{p.2} ({kindStr p.1.kind})"
    | none =>
      let len := 1 + (if li then 1 else 0) + 8 * ngen
      match (List.range nrep).find? (fun r => match body[r * len]? with
          | some e => e.argVals.take 5 != v0
          | none => true) with
      | some r => s!"replicate {r} does not start from a state equal to the initial one"
      | none => "some call is not handed what its predecessor returned"

def opSpec : J.Op := fun j => do
  let nrep ← J.field j "nrep" J.nat
  let ngen ← J.field j "ngen" J.nat
  let loginit ← J.field j "loginit" J.bool
  let v0 ← J.field j "V0given" (J.list decVal)
  let trace ← decTrace v0 (← J.field j "trace" (J.list pure))
  let after ← J.field j "startVals_after" (J.list decVal)
  let rb ← J.fieldD j "rep_before" J.int 0
  let ra ← J.fieldD j "rep_after" J.int (rb + Int.ofNat nrep)
  let tb ← J.fieldD j "t_before" J.nat 0
  let ta ← J.fieldD j "t_after" J.nat (clockAfterEvolve nrep ngen tb)
  -- the complete oracle (Model/ProgramOracle.lean; sound for the model: C20.evolve_meets_call_spec)
  let ok := specEvolveCall sameOrEqual nrep ngen loginit v0 trace after rb ra tb ta
  -- diagnostics: which clause fails
  let spec := specTrace sameOrEqual nrep ngen loginit v0 trace
  let strict := specTrace sameRef nrep ngen loginit v0 trace
  let reps := repsOK loginit ngen nrep ((specBody loginit trace).map (fun e => e.rep)) && ra == rb + Int.ofNat nrep
  let afterOk := after == initialState v0 trace
  let ini := initOK v0 trace
  let clock := ta == clockAfterEvolve nrep ngen tb
  let why := if spec then "" else " reason: " ++ explain nrep ngen loginit v0 trace
  pure <| J.obj [("ok", J.ofBool ok),
                 ("detail", J.ofStr s!"specTrace={spec} replicate_counter={reps} identity_wiring={strict} start_after_unchanged={afterOk} initialised_only_if_needed={ini} clock_after={clock}{why}")]

def decItems (j : Json) : J.R (List (Item V)) := do
  let ids ← J.field j "cur" (J.list J.nat)
  let vs ← J.field j "curVals" (J.list decVal)
  pure (items ids vs)

/-- Spec of a direct `advance(ngen)` call -/
def opSpecAdvance : J.Op := fun j => do
  let ngen ← J.field j "ngen" J.nat
  let t0 ← J.field j "t0" J.nat
  let v0 ← J.field j "V0" (J.list decVal)
  let cur ← decItems j
  let trace ← decTrace v0 (← J.field j "trace" (J.list pure))
  let after ← J.field j "startVals_after" (J.list decVal)
  let ta ← J.fieldD j "t_after" J.nat (t0 + ngen)
  let ok := specAdvanceCall sameOrEqual ngen t0 v0 cur trace after ta
  let spec := specAdvance sameOrEqual ngen t0 v0 cur trace
  let strict := specAdvance sameRef ngen t0 v0 cur trace
  pure <| J.obj [("ok", J.ofBool ok),
                 ("detail", J.ofStr s!"specAdvance={spec} identity_wiring={strict} start_after_unchanged={after == v0} clock_after={ta == t0 + ngen}")]

/-- Spec of a direct `reset()` call: working containers equal the initial state, clock 0,
    start containers untouched -/
def opSpecReset : J.Op := fun j => do
  let v0 ← J.field j "V0" (J.list decVal)
  let work ← J.field j "workVals" (J.list decVal)
  let t ← J.field j "t" J.nat
  let after ← J.field j "startVals_after" (J.list decVal)
  let ok := specResetCall v0 work t after
  pure <| J.obj [("ok", J.ofBool ok),
                 ("detail", J.ofStr s!"working_equals_initial={work == v0} clock_zero={t == 0} start_after_unchanged={after == v0}")]

def opSchedule : J.Op := fun _ =>
  pure <| J.obj [("wellformed", J.ofBool (WellFormed C20Schedule.evolve)),
                 ("handles_none", J.ofBool (HandlesNone C20Schedule.evolve)),
                 ("wf_reset", J.ofBool (wfReset C20Schedule.evolve)),
                 ("parts", J.ofStr s!"pre={wfPre C20Schedule.evolve} empty={wfEmpty C20Schedule.evolve} gen={wfGen C20Schedule.evolve} rep={wfRep C20Schedule.evolve}"),
                 ("schedule", J.ofStr (toString (repr C20Schedule.evolve)))]

def ops : List (String × J.Op) :=
  [("c20.run", opRun), ("c20.spec", opSpec), ("c20.spec_advance", opSpecAdvance),
   ("c20.spec_reset", opSpecReset), ("c20.schedule", opSchedule)]

end Drv.C20
