import PybropsModel.J
import PybropsModel.Model.RRBlup
import PybropsModel.Model.GenomicSpec
import PybropsModel.Model.RRSpec
import PybropsModel.Model.RRSolve
open Lean

namespace Drv.C04
open GMod RRBlup

/-! ### codec helpers local to C04 -/

/-- a float the implementation reported: rational, or `none` for "nan"/"inf"/"-inf" -/
def ratNan (j : Json) : J.R (Option Rat) :=
  match j with
  | .str "nan" => .ok none
  | .str "inf" => .ok none
  | .str "-inf" => .ok none
  | _ => some <$> J.rat j

def imat : Json → J.R (List (List Int)) := J.mat J.int
def phased : Json → J.R (List (List (List Int))) := J.list imat
def rmat : Json → J.R (List (List Rat)) := J.mat J.rat
def ofRMat : List (List Rat) → Json := J.ofMat J.ofRat
def ofORat : Option Rat → Json := J.ofOpt J.ofRat

def REL : Rat := mkRat 1 1000000000
def ABS : Rat := mkRat 1 1000000000000
def ULPREL : Rat := mkRat 1 (2 ^ 45)
def ULPABS : Rat := mkRat 1 (2 ^ 70)

def absQ := GSpec.absQ
def maxQ := GSpec.maxQ
def closeQ := GSpec.closeQ
def closeO (a b : Option Rat) : Bool := GSpec.closeO REL ABS a b
def closeMat (a : List (List (Option Rat))) (b : List (List Rat)) : Bool := GSpec.closeMat REL ABS a b

/-! ### the model op for linear predictions and statistics -/

def opLin : J.Op := fun j => do
  let beta ← J.field j "beta" rmat
  let ua ← J.field j "ua" rmat
  let ud ← J.fieldOpt j "ud" rmat
  let t ← J.field j "t" J.nat
  let ploidy ← J.field j "ploidy" J.nat
  let g ← J.field j "g" phased
  let X ← J.fieldOpt j "X" rmat
  let Y ← J.fieldOpt j "Y" rmat
  let um ← J.fieldOpt j "um" rmat
  let Zm ← J.fieldOpt j "Zm" rmat
  let bvMat ← J.fieldOpt j "bv_mat" rmat
  let bvLoc ← J.fieldOpt j "bv_loc" (J.list J.rat)
  let bvScale ← J.fieldOpt j "bv_scale" (J.list J.rat)
  let A := phaseSum g
  let Z : List (List Rat) := castM A
  let p := ua.length
  let freq : List Rat := afreq ploidy A p
  let base : List (String × Json) := [
    ("dosage", J.ofMat J.ofInt A),
    ("gebv", ofRMat (gebvMat beta ua Z t)),
    ("gebv_numpy", ofRMat (matMul Z ua t)),
    ("var_A", J.ofList J.ofRat (varA ua Z t)),
    ("afreq", J.ofList J.ofRat freq),
    ("var_a", J.ofList J.ofRat (varGenic ua freq ploidy t)),
    ("bulmer", J.ofList ofORat (bulmer ua Z freq ploidy t))]
  let withX := match X with
    | none => []
    | some X =>
      [("predict", ofRMat (predictNumpy beta ua X Z t))] ++
      (match Y with
        | none => []
        | some Y => [("score", J.ofList ofORat (score beta ua Y X Z t))])
  let dom := match ud with
    | none => []
    | some ud =>
      [("gegv", ofRMat (gegvGM beta ua ud t ploidy A)),
       ("gegv_raw", ofRMat (gegvRaw beta ua ud t A)),
       ("var_G", J.ofList J.ofRat (varGDom ua ud t ploidy A))] ++
      (match X with
        | none => []
        | some X =>
          [("predict_dom", ofRMat (predictDomGM beta ua ud X t ploidy A))] ++
          (match Y with
            | none => []
            | some Y => [("score_dom", J.ofList ofORat
                (score beta (ua ++ ud) Y X (castM (hcat A (hetGM ploidy A))) t))]))
  let misc := match X, um, Zm with
    | some X, some um, some Zm =>
      [("predict_misc", ofRMat (predictNumpyMisc beta um ua X Zm Z t)),
       ("predict_gm_rejects", J.ofBool (match predictGM beta um ua X A t with | .ok _ => false | .error _ => true))] ++
      (match Y with
        | some Y => [("score_misc", J.ofList ofORat (scoreMisc beta um ua Y X Zm Z t))]
        | none => []) ++
      (match ud with
        | some ud =>
          [("predict_dom_misc", ofRMat (predictNumpyDomMisc beta um ua ud X Zm t ploidy A))] ++
          (match Y with
            | some Y => [("score_dom_misc", J.ofList ofORat
                (score beta (um ++ (ua ++ ud)) Y X (hcat Zm (castM (hcat A (hetGM ploidy A)))) t))]
            | none => [])
        | none => [])
    | _, _, _ => []
  let bv := match X, bvMat, bvLoc, bvScale with
    | some X, some m, some l, some sc => [("score_bv", J.ofList ofORat (scoreBV beta ua m l sc X Z t))]
    | _, _, _, _ => []
  pure <| J.obj (base ++ withX ++ dom ++ misc ++ bv)

/-! ### Spec oracle for values / statistics / alleles: decoding only; the predicates are the pure
    functions of Model/GenomicSpec.lean (`GSpec.specValues`, `GSpec.specStat`, `GSpec.specAlleles`) -/

def entry := GSpec.entry
def meanQ := GSpec.meanQ
def colQ := GSpec.colQ

structure View where
  name : String
  mode : String
  g : List (List (List Int))
  X : Option (List (List Rat))
  out : List (List (Option Rat))
  taxaIn : Option (List String)
  taxaOut : Option (List String)
  grpIn : Option (List Int)
  grpOut : Option (List Int)
  labelled : Bool
  exact : Bool

def parseView (j : Json) : J.R View := do
  pure { name := ← J.fieldD j "name" J.str "?"
         mode := ← J.field j "mode" J.str
         g := ← J.field j "g" phased
         X := ← J.fieldOpt j "X" rmat
         out := ← J.field j "out" (J.mat ratNan)
         taxaIn := ← J.fieldOpt j "taxa_in" (J.list J.str)
         taxaOut := ← J.fieldOpt j "taxa_out" (J.list J.str)
         grpIn := ← J.fieldOpt j "grp_in" (J.list J.int)
         grpOut := ← J.fieldOpt j "grp_out" (J.list J.int)
         labelled := ← J.fieldD j "labelled" J.bool true
         exact := ← J.fieldD j "exact" J.bool false }

/-- every view: values = definition on that view's raw genotypes; labelled views carry the input's
    labels, raw-array views carry none -/
def opSpecValues : J.Op := fun j => do
  let beta ← J.field j "beta" rmat
  let ua ← J.field j "ua" rmat
  let ud ← J.fieldOpt j "ud" rmat
  let t ← J.field j "t" J.nat
  let ploidy ← J.field j "ploidy" J.nat
  let views ← J.field j "views" (J.list parseView)
  let res := views.map (fun v =>
    -- `exact`: all inputs dyadic and every intermediate representable: the float result must be the
    -- defined rational up to a few units in the last place (rel 2^-45, abs 2^-70; a reassociated or rescaled
    -- evaluation stays inside, anything of the size of a float32 rounding or a dropped term does not)
    let okv := if v.exact then GSpec.specValues ULPREL ULPABS v.mode beta ua ud v.X t ploidy v.g v.out
               else GSpec.specValues REL ABS v.mode beta ua ud v.X t ploidy v.g v.out
    let okl := if v.labelled then v.taxaOut == v.taxaIn && v.grpOut == v.grpIn
               else v.taxaOut.isNone && v.grpOut.isNone
    (okv, okl, v.name))
  let bad := res.filter (fun r => !(r.1 && r.2.1))
  let msg := bad.map (fun r => s!"{r.2.2}: values={r.1} labels={r.2.1}")
  pure <| J.obj [("ok", J.ofBool bad.isEmpty), ("detail", J.ofStr (", ".intercalate msg))]

/-- statistics = their definitions on the defined values and the raw genotypes -/
def opSpecStats : J.Op := fun j => do
  let beta ← J.field j "beta" rmat
  let ua ← J.field j "ua" rmat
  let ud ← J.fieldOpt j "ud" rmat
  let t ← J.field j "t" J.nat
  let ploidy ← J.field j "ploidy" J.nat
  let g ← J.field j "g" phased
  let X ← J.fieldOpt j "X" rmat
  let Y ← J.fieldOpt j "Y" rmat
  let stats ← J.field j "stats" (fun s => pure s)
  let mut bad : List String := []
  for name in GSpec.statNames do
    match ← J.fieldOpt stats name (J.list ratNan) with
    | none => pure ()
    | some got =>
      if !(GSpec.specStat REL ABS name beta ua ud X Y t ploidy g got) then bad := bad ++ [name]
  pure <| J.obj [("ok", J.ofBool bad.isEmpty), ("detail", J.ofStr (" ".intercalate bad))]

/-! ### favourable / deleterious / neutral alleles -/

def bmat : List (List Bool) → Json := J.ofMat J.ofBool

def opAlleles : J.Op := fun j => do
  let ua ← J.field j "ua" rmat
  let ploidy ← J.field j "ploidy" J.nat
  let g ← J.field j "g" phased
  let A := phaseSum g
  let n := A.length
  pure <| J.obj [
    ("facount", J.ofMat J.ofInt (facount ua ploidy A)),
    ("fafreq", ofRMat (countFreq (facount ua ploidy A) ploidy n)),
    ("faavail", bmat (faavail ua ploidy A)), ("fafixed", bmat (fafixed ua ploidy A)),
    ("fapoly", bmat (fapoly ua ploidy A)),
    ("nafixed", bmat (nafixed ua ploidy A)), ("napoly", bmat (napoly ua ploidy A)),
    ("dacount", J.ofMat J.ofInt (dacount ua ploidy A)),
    ("dafreq", ofRMat (countFreq (dacount ua ploidy A) ploidy n)),
    ("daavail", bmat (daavail ua ploidy A)), ("dafixed", bmat (dafixed ua ploidy A)),
    ("dapoly", bmat (dapoly ua ploidy A))]

/-- definitions on the raw genotypes: the favourable allele of marker j for trait k is the counted
    allele when u[j,k] > 0, the other allele when u[j,k] < 0, none when u[j,k] = 0; counts are sums
    of per-taxon copies; available = count > 0, fixed = every copy in the population, polymorphic =
    available and not fixed; neutral flags from the raw allele count (`GSpec.specAlleles`) -/
def opSpecAlleles : J.Op := fun j => do
  let ua ← J.field j "ua" rmat
  let ploidy ← J.field j "ploidy" J.nat
  let g ← J.field j "g" phased
  let obs ← J.field j "obs" (fun s => pure s)
  let o : GSpec.AlleleObs := {
    facount := ← J.field obs "facount" (J.mat J.int)
    dacount := ← J.field obs "dacount" (J.mat J.int)
    fafreq := ← J.field obs "fafreq" (J.mat ratNan)
    dafreq := ← J.field obs "dafreq" (J.mat ratNan)
    faavail := ← J.field obs "faavail" (J.mat J.bool)
    daavail := ← J.field obs "daavail" (J.mat J.bool)
    fafixed := ← J.field obs "fafixed" (J.mat J.bool)
    dafixed := ← J.field obs "dafixed" (J.mat J.bool)
    fapoly := ← J.field obs "fapoly" (J.mat J.bool)
    dapoly := ← J.field obs "dapoly" (J.mat J.bool)
    nafixed := ← J.field obs "nafixed" (J.mat J.bool)
    napoly := ← J.field obs "napoly" (J.mat J.bool) }
  let bad := ((GSpec.specAlleles REL ABS ua ploidy g o).filter (fun c => !c.2)).map Prod.fst
  pure <| J.obj [("ok", J.ofBool bad.isEmpty), ("detail", J.ofStr (" ".intercalate bad))]

/-! ### rrBLUP -/

def opGs : J.Op := fun j => do
  let A ← J.field j "A" rmat
  let b ← J.field j "b" (J.list J.rat)
  let atol ← J.field j "atol" J.rat
  let maxiter ← J.field j "maxiter" J.nat
  let x := gaussSeidel A b atol maxiter
  let sweeps := gsSweeps A b atol maxiter true (b.map (fun _ => (0:Rat)))
  pure <| J.obj [("x", J.ofList J.ofRat x), ("sweeps", J.ofNat sweeps)]

/-- Spec for a direct `gauss_seidel(A, b, atol, maxiter)` call with symmetric A, positive diagonal:
    the returned iterate never has larger energy ½xᵀAx − bᵀx than the all-zero start
    (`RSpec.specGs`; a non-finite iterate is rejected here) -/
def opSpecGs : J.Op := fun j => do
  let A ← J.field j "A" rmat
  let b ← J.field j "b" (J.list J.rat)
  let x ← J.field j "x" (J.list ratNan)
  if x.any Option.isNone then
    return J.obj [("ok", J.ofBool false), ("detail", J.ofStr "non-finite iterate")]
  let xs := x.filterMap id
  pure <| J.obj [("ok", J.ofBool (RSpec.specGs REL A b xs)),
                 ("detail", J.ofStr s!"energy={RSpec.energyQ A b xs} len={xs.length}")]

/-- the repaired `rrBLUP_ML0` run with the exact reference solver.  Besides the model's effects the answer says
    which branch of the solve step the model took (`fallback`), the Gauss–Seidel iterate before it, and — when
    the implementation's effects are handed in as `impl_u` — whether they satisfy the contract of
    `numpy.linalg.solve` on this system: `‖b − A û‖∞ ≤ 1e-9·(‖A‖∞‖û‖∞ + ‖b‖∞)` (backward stability) -/
def opMl0 : J.Op := fun j => do
  let y ← J.field j "y" (J.list J.rat)
  let Z ← J.field j "Z" rmat
  let p ← J.field j "p" J.nat
  let ridge ← J.field j "ridge" J.rat
  let atol ← J.field j "atol" J.rat
  let maxiter ← J.field j "maxiter" J.nat
  let implU ← J.fieldOpt j "impl_u" (J.list J.rat)
  let A := ztzPlusRidge Z p ridge
  let b := zty Z p (center y)
  let gs := gaussSeidel A b atol maxiter
  let fallback := decide ((atol + atol) * rowAbsMax A < residMax A b gs)
  let b0 := mean y
  let u := solveStep exactSolve A b atol gs      -- = (ml0 exactSolve y Z p ridge atol maxiter).2
  let contract := match implU with
    | none => true
    | some iu =>
      let uinf := iu.foldl (fun m v => maxQ m (absQ v)) 0
      let binf := b.foldl (fun m v => maxQ m (absQ v)) 0
      iu.length == p && decide (residMax A b iu ≤ REL * (rowAbsMax A * uinf + binf))
  pure <| J.obj [("betahat", J.ofRat b0), ("uhat", J.ofList J.ofRat u), ("gs_u", J.ofList J.ofRat gs),
                 ("fallback", J.ofBool fallback), ("contract_ok", J.ofBool contract),
                 ("psse", J.ofRat (psse y Z ridge u)), ("psse0", J.ofRat (psse y Z ridge (u.map (fun _ => 0))))]

/-- wrapper of `fit_numpy` with the per-trait solutions as oracle inputs -/
def opFitWrap : J.Op := fun j => do
  let Y ← J.field j "Y" rmat
  let Z ← J.field j "Z" rmat
  let p ← J.field j "p" J.nat
  let t ← J.field j "t" J.nat
  let sols ← J.field j "sols" rmat
  let (beta, ua) := fitNumpy Y Z p t (fun k _ _ => sols.getD k [])
  pure <| J.obj [("beta", ofRMat beta), ("u_a", ofRMat ua), ("ispoly", J.ofList J.ofBool (isPoly Z p))]

/-- Spec of a fitted model, evaluated on the implementation's `beta`, `u_a` with the ridge the
    implementation chose (per trait): `RSpec.specFit` (four clauses; non-finite coefficients are rejected here) -/
def opSpecFit : J.Op := fun j => do
  let Y ← J.field j "Y" rmat
  let Z ← J.field j "Z" rmat
  let p ← J.field j "p" J.nat
  let t ← J.field j "t" J.nat
  let ridges ← J.field j "ridges" (J.list J.rat)
  let atol ← J.field j "atol" J.rat
  let reltol ← J.field j "reltol" J.rat
  let betaO ← J.field j "beta" (J.mat ratNan)
  let uaO ← J.field j "u_a" (J.mat ratNan)
  let checkNE ← J.fieldD j "check_normal_eq" J.bool true
  if betaO.any (·.any Option.isNone) || uaO.any (·.any Option.isNone) then
    return J.obj [("ok", J.ofBool false), ("detail", J.ofStr "non-finite coefficient"),
                  ("clauses", J.obj [])]
  let beta := betaO.map (·.filterMap id)
  let ua := uaO.map (·.filterMap id)
  let v := RSpec.specFit REL ABS reltol atol Y Z p t ridges beta ua checkNE
  let n := Z.length
  let npoly := (isPoly Z p).count true
  let det := v.perTrait.map (fun r => s!"res={r.2.2.1} tol={r.2.2.2.1}")
  pure <| J.obj [("ok", J.ofBool v.ok),
    ("clauses", J.obj [("shapes", J.ofBool v.shapes), ("intercept_mean", J.ofBool v.intercept),
                        ("monomorphic_zero", J.ofBool v.mono), ("descent", J.ofBool v.descent),
                        ("normal_eq", J.ofBool v.normalEq), ("well_determined", J.ofBool v.wellDet)]),
    ("detail", J.ofStr s!"shapes={v.shapes} intercept={v.intercept} mono0={v.mono} descent={v.descent} normal_eq={v.normalEq} n={n} npoly={npoly} {det}")]

def ops : List (String × J.Op) :=
  [("c04.lin", opLin), ("c04.spec_values", opSpecValues), ("c04.spec_stats", opSpecStats),
   ("c04.alleles", opAlleles), ("c04.spec_alleles", opSpecAlleles),
   ("c04.gs", opGs), ("c04.spec_gs", opSpecGs), ("c04.ml0", opMl0),
   ("c04.fitwrap", opFitWrap), ("c04.spec_fit", opSpecFit)]

end Drv.C04
