import PybropsModel.J
import PybropsModel.Model.RRBlup
open Lean

namespace Drv.C04
open GMod RRBlup

/-! ### codec helpers local to C04 -/

/-- a float the implementation reported: rational, or `none` for "nan"/"inf"/"-inf" -/
def ratNan (j : Json) : J.R (Option Rat) :=
  match j with
  | .str "nan" => .ok none
  | .str "inf" => .ok none
  | .str "-inf" => .ok none
  | _ => some <$> J.rat j

def imat : Json → J.R (List (List Int)) := J.mat J.int
def phased : Json → J.R (List (List (List Int))) := J.list imat
def rmat : Json → J.R (List (List Rat)) := J.mat J.rat
def ofRMat : List (List Rat) → Json := J.ofMat J.ofRat
def ofORat : Option Rat → Json := J.ofOpt J.ofRat

def absQ (q : Rat) : Rat := if q < 0 then -q else q
def maxQ (a b : Rat) : Rat := if a < b then b else a

/-- tolerant comparison used by every Spec op: |a-b| ≤ abs or ≤ rel·max(|a|,|b|) -/
def closeQ (rel abs_ : Rat) (a b : Rat) : Bool :=
  let d := absQ (a - b)
  decide (d ≤ abs_) || decide (d ≤ rel * maxQ (absQ a) (absQ b))

def REL : Rat := mkRat 1 1000000000
def ABS : Rat := mkRat 1 1000000000000

def closeO (a : Option Rat) (b : Option Rat) : Bool :=
  match a, b with
  | some x, some y => closeQ REL ABS x y
  | none, none => true
  | _, _ => false

def closeRow (a : List (Option Rat)) (b : List Rat) : Bool :=
  a.length == b.length && (List.zip a b).all (fun p => closeO p.1 (some p.2))

def closeMat (a : List (List (Option Rat))) (b : List (List Rat)) : Bool :=
  a.length == b.length && (List.zip a b).all (fun p => closeRow p.1 p.2)

/-! ### the model op for linear predictions and statistics -/

def opLin : J.Op := fun j => do
  let beta ← J.field j "beta" rmat
  let ua ← J.field j "ua" rmat
  let ud ← J.fieldOpt j "ud" rmat
  let t ← J.field j "t" J.nat
  let ploidy ← J.field j "ploidy" J.nat
  let g ← J.field j "g" phased
  let X ← J.fieldOpt j "X" rmat
  let Y ← J.fieldOpt j "Y" rmat
  let A := phaseSum g
  let Z : List (List Rat) := castM A
  let p := ua.length
  let freq : List Rat := afreq ploidy A p
  let base : List (String × Json) := [
    ("dosage", J.ofMat J.ofInt A),
    ("gebv", ofRMat (gebvMat beta ua Z t)),
    ("gebv_numpy", ofRMat (matMul Z ua t)),
    ("var_A", J.ofList J.ofRat (varA ua Z t)),
    ("afreq", J.ofList J.ofRat freq),
    ("var_a", J.ofList J.ofRat (varGenic ua freq ploidy t)),
    ("bulmer", J.ofList ofORat (bulmer ua Z freq ploidy t))]
  let withX := match X with
    | none => []
    | some X =>
      [("predict", ofRMat (predictNumpy beta ua X Z t))] ++
      (match Y with
        | none => []
        | some Y => [("score", J.ofList ofORat (score beta ua Y X Z t))])
  let dom := match ud with
    | none => []
    | some ud =>
      [("gegv", ofRMat (gegvGM beta ua ud t ploidy A)),
       ("gegv_raw", ofRMat (gegvRaw beta ua ud t A)),
       ("var_G", J.ofList J.ofRat (varGDom ua ud t ploidy A))] ++
      (match X with
        | none => []
        | some X =>
          [("predict_dom", ofRMat (predictDomGM beta ua ud X t ploidy A))] ++
          (match Y with
            | none => []
            | some Y => [("score_dom", J.ofList ofORat
                (score beta (ua ++ ud) Y X (castM (hcat A (hetGM ploidy A))) t))]))
  pure <| J.obj (base ++ withX ++ dom)

/-! ### Spec oracle for values: the textbook definitions, written independently of the model
    (index-wise sums straight from the phased genotypes) -/

def dosageAt (g : List (List (List Int))) (i j : Nat) : Int :=
  (g.map (fun ph => (ph.getD i []).getD j 0)).sum

def entry (M : List (List Rat)) (i j : Nat) : Rat := (M.getD i []).getD j 0

/-- intercept of trait k: beta[0,k] + (Σ_{r≥1} beta[r,k]) / q -/
def interceptDef (beta : List (List Rat)) (k : Nat) : Rat :=
  let q := beta.length
  entry beta 0 k + ((List.range (q - 1)).map (fun r => entry beta (r+1) k)).sum / (q : Rat)

def isHet (ploidy : Nat) (d : Int) : Bool := d != 0 && d != (ploidy : Int)

/-- additive value of taxon i, trait k -/
def addDef (ua : List (List Rat)) (g : List (List (List Int))) (i k : Nat) : Rat :=
  ((List.range ua.length).map (fun j => (dosageAt g i j : Rat) * entry ua j k)).sum

def domDef (ud : List (List Rat)) (ploidy : Nat) (g : List (List (List Int))) (i k : Nat) : Rat :=
  ((List.range ud.length).map (fun j => if isHet ploidy (dosageAt g i j) then entry ud j k else 0)).sum

def fixedDef (beta X : List (List Rat)) (i k : Nat) : Rat :=
  ((List.range beta.length).map (fun r => entry X i r * entry beta r k)).sum

def ntaxaOf (g : List (List (List Int))) : Nat := (g.headD []).length

/-- the defined value matrix for a mode -/
def valueDef (mode : String) (beta ua : List (List Rat)) (ud : Option (List (List Rat)))
    (X : Option (List (List Rat))) (t ploidy : Nat) (g : List (List (List Int))) : List (List Rat) :=
  (List.range (ntaxaOf g)).map (fun i => (List.range t).map (fun k =>
    let a := addDef ua g i k
    let d := match ud with | some ud => domDef ud ploidy g i k | none => 0
    let fx := match X with | some X => fixedDef beta X i k | none => 0
    match mode with
    | "gebv" => interceptDef beta k + a
    | "gegv" => interceptDef beta k + a + d
    | "gebv_numpy" => a
    | "predict" => fx + a
    | "predict_dom" => fx + a + d
    | _ => 0))

def meanQ (l : List Rat) : Rat := l.sum / (l.length : Rat)
def varQ (l : List Rat) : Rat := let m := meanQ l; meanQ (l.map (fun x => (x - m) * (x - m)))
def colQ (M : List (List Rat)) (k : Nat) : List Rat := M.map (fun r => r.getD k 0)

structure View where
  name : String
  mode : String
  g : List (List (List Int))
  X : Option (List (List Rat))
  out : List (List (Option Rat))
  taxaIn : Option (List String)
  taxaOut : Option (List String)
  grpIn : Option (List Int)
  grpOut : Option (List Int)
  labelled : Bool

def parseView (j : Json) : J.R View := do
  pure { name := ← J.fieldD j "name" J.str "?"
         mode := ← J.field j "mode" J.str
         g := ← J.field j "g" phased
         X := ← J.fieldOpt j "X" rmat
         out := ← J.field j "out" (J.mat ratNan)
         taxaIn := ← J.fieldOpt j "taxa_in" (J.list J.str)
         taxaOut := ← J.fieldOpt j "taxa_out" (J.list J.str)
         grpIn := ← J.fieldOpt j "grp_in" (J.list J.int)
         grpOut := ← J.fieldOpt j "grp_out" (J.list J.int)
         labelled := ← J.fieldD j "labelled" J.bool true }

/-- every view: values = definition on that view's raw genotypes; labelled views carry the input's
    labels, raw-array views carry none -/
def opSpecValues : J.Op := fun j => do
  let beta ← J.field j "beta" rmat
  let ua ← J.field j "ua" rmat
  let ud ← J.fieldOpt j "ud" rmat
  let t ← J.field j "t" J.nat
  let ploidy ← J.field j "ploidy" J.nat
  let views ← J.field j "views" (J.list parseView)
  let res := views.map (fun v =>
    let want := valueDef v.mode beta ua ud v.X t ploidy v.g
    let okv := closeMat v.out want
    let okl := if v.labelled then v.taxaOut == v.taxaIn && v.grpOut == v.grpIn
               else v.taxaOut.isNone && v.grpOut.isNone
    (okv, okl, v.name))
  let bad := res.filter (fun r => !(r.1 && r.2.1))
  let msg := bad.map (fun r => s!"{r.2.2}: values={r.1} labels={r.2.1}")
  pure <| J.obj [("ok", J.ofBool bad.isEmpty), ("detail", J.ofStr (", ".intercalate msg))]

/-- statistics = their definitions on the defined values and the raw genotypes -/
def opSpecStats : J.Op := fun j => do
  let beta ← J.field j "beta" rmat
  let ua ← J.field j "ua" rmat
  let ud ← J.fieldOpt j "ud" rmat
  let t ← J.field j "t" J.nat
  let ploidy ← J.field j "ploidy" J.nat
  let g ← J.field j "g" phased
  let X ← J.fieldOpt j "X" rmat
  let Y ← J.fieldOpt j "Y" rmat
  let stats ← J.field j "stats" (fun s => pure s)
  let n := ntaxaOf g
  let gebv := valueDef "gebv" beta ua none none t ploidy g
  let varA := (List.range t).map (fun k => varQ (colQ gebv k))
  let freq := (List.range ua.length).map (fun jx =>
      (((List.range n).map (fun i => dosageAt g i jx)).sum : Rat) / ((ploidy * n : Nat) : Rat))
  let varGen := (List.range t).map (fun k =>
      ((ploidy * ploidy : Nat) : Rat) *
        ((List.range ua.length).map (fun jx => entry ua jx k * entry ua jx k * freq.getD jx 0 * (1 - freq.getD jx 0))).sum)
  let bulm : List (Option Rat) := (List.zip varA varGen).map (fun p => if p.2 == 0 then none else some (p.1 / p.2))
  let r2 (mode : String) : List (Option Rat) :=
    match X, Y with
    | some X, some Y =>
      let yhat := valueDef mode beta ua ud (some X) t ploidy g
      (List.range t).map (fun k =>
        let y := colQ Y k
        let m := meanQ y
        let sse := ((List.zip y (colQ yhat k)).map (fun p => (p.1 - p.2) * (p.1 - p.2))).sum
        let sst := (y.map (fun a => (a - m) * (a - m))).sum
        if sst == 0 then none else some (1 - sse / sst))
    | _, _ => []
  let checkRow (name : String) (want : List (Option Rat)) : J.R (Option String) := do
    match ← J.fieldOpt stats name (J.list ratNan) with
    | none => pure none
    | some got =>
      if got.length == want.length && (List.zip got want).all (fun p => closeO p.1 p.2) then pure none
      else pure (some name)
  let mut bad : List String := []
  for (name, want) in [("var_A", varA.map some), ("var_G_add", varA.map some), ("var_a", varGen.map some),
      ("afreq", freq.map some), ("bulmer", bulm), ("score", r2 "predict"), ("score_dom", r2 "predict_dom"),
      ("var_A_dom", varA.map some),
      ("var_G", (let gg := valueDef "gegv" beta ua ud none t ploidy g
                 (List.range t).map (fun k => some (varQ (colQ gg k)))))] do
    match ← checkRow name want with
    | some b => bad := bad ++ [b]
    | none => pure ()
  pure <| J.obj [("ok", J.ofBool bad.isEmpty), ("detail", J.ofStr (" ".intercalate bad))]

/-! ### favourable / deleterious / neutral alleles -/

def bmat : List (List Bool) → Json := J.ofMat J.ofBool

def opAlleles : J.Op := fun j => do
  let ua ← J.field j "ua" rmat
  let ploidy ← J.field j "ploidy" J.nat
  let g ← J.field j "g" phased
  let A := phaseSum g
  let n := A.length
  pure <| J.obj [
    ("facount", J.ofMat J.ofInt (facount ua ploidy A)),
    ("fafreq", ofRMat (countFreq (facount ua ploidy A) ploidy n)),
    ("faavail", bmat (faavail ua ploidy A)), ("fafixed", bmat (fafixed ua ploidy A)),
    ("fapoly", bmat (fapoly ua ploidy A)),
    ("nafixed", bmat (nafixed ua ploidy A)), ("napoly", bmat (napoly ua ploidy A)),
    ("dacount", J.ofMat J.ofInt (dacount ua ploidy A)),
    ("dafreq", ofRMat (countFreq (dacount ua ploidy A) ploidy n)),
    ("daavail", bmat (daavail ua ploidy A)), ("dafixed", bmat (dafixed ua ploidy A)),
    ("dapoly", bmat (dapoly ua ploidy A))]

/-- definitions on the raw genotypes: the favourable allele of marker j for trait k is the counted
    allele when u[j,k] > 0, the other allele when u[j,k] < 0, none when u[j,k] = 0; counts are sums
    of per-taxon copies; available = count > 0, fixed = every copy in the population, polymorphic =
    available and not fixed; neutral flags from the raw allele count -/
def opSpecAlleles : J.Op := fun j => do
  let ua ← J.field j "ua" rmat
  let ploidy ← J.field j "ploidy" J.nat
  let g ← J.field j "g" phased
  let obs ← J.field j "obs" (fun s => pure s)
  let n := ntaxaOf g
  let p := ua.length
  let t := (ua.headD []).length
  let total : Int := ((ploidy * n : Nat) : Int)
  let cnt (fav : Bool) (jx k : Nat) : Int :=
    let u := entry ua jx k
    ((List.range n).map (fun i =>
      let z := dosageAt g i jx
      if u == 0 then (0 : Int)
      else if (fav && u > 0) || (!fav && u < 0) then z else (ploidy : Int) - z)).sum
  let raw (jx : Nat) : Int := ((List.range n).map (fun i => dosageAt g i jx)).sum
  let grid {β} (f : Nat → Nat → β) : List (List β) := (List.range p).map (fun jx => (List.range t).map (fun k => f jx k))
  let eqI (name : String) (want : List (List Int)) : J.R Bool := do
    pure ((← J.field obs name (J.mat J.int)) == want)
  let eqB (name : String) (want : List (List Bool)) : J.R Bool := do
    pure ((← J.field obs name (J.mat J.bool)) == want)
  let eqF (name : String) (want : List (List Rat)) : J.R Bool := do
    pure (closeMat (← J.field obs name (J.mat ratNan)) want)
  let checks : List (String × J.R Bool) := [
    ("facount", eqI "facount" (grid (cnt true))),
    ("dacount", eqI "dacount" (grid (cnt false))),
    ("fafreq", eqF "fafreq" (grid (fun jx k => (cnt true jx k : Rat) / (total : Rat)))),
    ("dafreq", eqF "dafreq" (grid (fun jx k => (cnt false jx k : Rat) / (total : Rat)))),
    ("faavail", eqB "faavail" (grid (fun jx k => decide (cnt true jx k > 0)))),
    ("daavail", eqB "daavail" (grid (fun jx k => decide (cnt false jx k > 0)))),
    ("fafixed", eqB "fafixed" (grid (fun jx k => cnt true jx k == total))),
    ("dafixed", eqB "dafixed" (grid (fun jx k => cnt false jx k == total))),
    ("fapoly", eqB "fapoly" (grid (fun jx k => decide (cnt true jx k > 0) && decide (cnt true jx k < total)))),
    ("dapoly", eqB "dapoly" (grid (fun jx k => decide (cnt false jx k > 0) && decide (cnt false jx k < total)))),
    ("nafixed", eqB "nafixed" (grid (fun jx k => entry ua jx k == 0 && (raw jx == 0 || raw jx == total)))),
    ("napoly", eqB "napoly" (grid (fun jx k => entry ua jx k == 0 && decide (raw jx > 0) && decide (raw jx < total))))]
  let mut bad : List String := []
  for (name, c) in checks do
    if !(← c) then bad := bad ++ [name]
  pure <| J.obj [("ok", J.ofBool bad.isEmpty), ("detail", J.ofStr (" ".intercalate bad))]

/-! ### rrBLUP -/

def opGs : J.Op := fun j => do
  let A ← J.field j "A" rmat
  let b ← J.field j "b" (J.list J.rat)
  let atol ← J.field j "atol" J.rat
  let maxiter ← J.field j "maxiter" J.nat
  let x := gaussSeidel A b atol maxiter
  let sweeps := gsSweeps A b atol maxiter (decide (atol < atol + atol)) (b.map (fun _ => (0:Rat)))
  pure <| J.obj [("x", J.ofList J.ofRat x), ("sweeps", J.ofNat sweeps)]

def energyQ (A : List (List Rat)) (b x : List Rat) : Rat :=
  (1/2 : Rat) * dot x (A.map (fun r => dot r x)) - dot b x

def residInf (A : List (List Rat)) (b x : List Rat) : Rat :=
  (List.zipWith (fun r bi => absQ (bi - dot r x)) A b).foldl maxQ 0

/-- Spec for a direct `gauss_seidel(A, b, atol, maxiter)` call with symmetric A, positive diagonal:
    the returned iterate never has larger energy ½xᵀAx − bᵀx than the all-zero start -/
def opSpecGs : J.Op := fun j => do
  let A ← J.field j "A" rmat
  let b ← J.field j "b" (J.list J.rat)
  let x ← J.field j "x" (J.list ratNan)
  if x.any Option.isNone then
    return J.obj [("ok", J.ofBool false), ("detail", J.ofStr "non-finite iterate")]
  let xs := x.filterMap id
  let e := energyQ A b xs
  let slack := REL * (1 + absQ (dot b xs))
  pure <| J.obj [("ok", J.ofBool (xs.length == b.length && decide (e ≤ slack))),
                 ("detail", J.ofStr s!"energy={e} len={xs.length}")]

def opMl0 : J.Op := fun j => do
  let y ← J.field j "y" (J.list J.rat)
  let Z ← J.field j "Z" rmat
  let p ← J.field j "p" J.nat
  let ridge ← J.field j "ridge" J.rat
  let atol ← J.field j "atol" J.rat
  let maxiter ← J.field j "maxiter" J.nat
  let (b0, u) := ml0 y Z p ridge atol maxiter
  pure <| J.obj [("betahat", J.ofRat b0), ("uhat", J.ofList J.ofRat u),
                 ("psse", J.ofRat (psse y Z ridge u)), ("psse0", J.ofRat (psse y Z ridge (u.map (fun _ => 0))))]

/-- wrapper of `fit_numpy` with the per-trait solutions as oracle inputs -/
def opFitWrap : J.Op := fun j => do
  let Y ← J.field j "Y" rmat
  let Z ← J.field j "Z" rmat
  let p ← J.field j "p" J.nat
  let t ← J.field j "t" J.nat
  let sols ← J.field j "sols" rmat
  let (beta, ua) := fitNumpy Y Z p t (fun k _ _ => sols.getD k [])
  pure <| J.obj [("beta", ofRMat beta), ("u_a", ofRMat ua), ("ispoly", J.ofList J.ofBool (isPoly Z p))]

/-- Spec of a fitted model, evaluated on the implementation's `beta`, `u_a` with the ridge the
    implementation chose (per trait):
    (1) intercept = training mean; (2) monomorphic markers have effect exactly 0;
    (3) penalised SSE(û) ≤ penalised SSE(0); (4) if n > (number of polymorphic markers):
        ‖(Z'Z + ridge I)û − Z'(y − ȳ)‖∞ ≤ max(reltol·max(1,‖Z'y_c‖∞), 2·atol·max_i Σ_{j≠i}|A_ij|) -/
def opSpecFit : J.Op := fun j => do
  let Y ← J.field j "Y" rmat
  let Z ← J.field j "Z" rmat
  let p ← J.field j "p" J.nat
  let t ← J.field j "t" J.nat
  let ridges ← J.field j "ridges" (J.list J.rat)
  let atol ← J.field j "atol" J.rat
  let reltol ← J.field j "reltol" J.rat
  let betaO ← J.field j "beta" (J.mat ratNan)
  let uaO ← J.field j "u_a" (J.mat ratNan)
  let checkNE ← J.fieldD j "check_normal_eq" J.bool true
  if betaO.any (·.any Option.isNone) || uaO.any (·.any Option.isNone) then
    return J.obj [("ok", J.ofBool false), ("detail", J.ofStr "non-finite coefficient"),
                  ("clauses", J.obj [])]
  let beta := betaO.map (·.filterMap id)
  let ua := uaO.map (·.filterMap id)
  let n := Z.length
  let mask := isPoly Z p
  let npoly := mask.count true
  let Zp := selectCols mask Z
  let shapes := beta.length == 1 && (beta.headD []).length == t && ua.length == p && ua.all (·.length == t)
  let c1 := (List.range t).all (fun k => closeQ REL ABS (entry beta 0 k) (meanQ (colQ Y k)))
  let c2 := (List.zip mask ua).all (fun mr => mr.1 || mr.2.all (· == 0))
  let perTrait := (List.range t).map (fun k =>
    let y := colQ Y k
    let ridge := ridges.getD k 0
    let u := Np.compress mask (colQ ua k)
    let e1 := psse y Zp ridge u
    let e0 := psse y Zp ridge (u.map (fun _ => 0))
    let A := ztzPlusRidge Zp npoly ridge
    let b := zty Zp npoly (center y)
    let res := residInf A b u
    let binf := b.foldl (fun m v => maxQ m (absQ v)) 0
    let off := (A.zipIdx.map (fun ri => ((ri.1.zipIdx.filter (fun cj => cj.2 != ri.2)).map (fun cj => absQ cj.1)).sum)).foldl maxQ 0
    let tolr := maxQ (reltol * maxQ 1 binf) (2 * atol * off)
    (decide (e1 ≤ e0 + REL * (1 + absQ e0)), decide (res ≤ tolr), res, tolr, e1, e0))
  let c3 := perTrait.all (·.1)
  let wellDet := checkNE && decide (npoly < n)
  let c4 := !wellDet || perTrait.all (·.2.1)
  let ok := shapes && c1 && c2 && c3 && c4
  let det := perTrait.map (fun r => s!"res={r.2.2.1} tol={r.2.2.2.1}")
  pure <| J.obj [("ok", J.ofBool ok),
    ("clauses", J.obj [("shapes", J.ofBool shapes), ("intercept_mean", J.ofBool c1), ("monomorphic_zero", J.ofBool c2),
                        ("descent", J.ofBool c3), ("normal_eq", J.ofBool c4), ("well_determined", J.ofBool wellDet)]),
    ("detail", J.ofStr s!"shapes={shapes} intercept={c1} mono0={c2} descent={c3} normal_eq={c4} n={n} npoly={npoly} {det}")]

def ops : List (String × J.Op) :=
  [("c04.lin", opLin), ("c04.spec_values", opSpecValues), ("c04.spec_stats", opSpecStats),
   ("c04.alleles", opAlleles), ("c04.spec_alleles", opSpecAlleles),
   ("c04.gs", opGs), ("c04.spec_gs", opSpecGs), ("c04.ml0", opMl0),
   ("c04.fitwrap", opFitWrap), ("c04.spec_fit", opSpecFit)]

end Drv.C04
