import PybropsModel.J
import PybropsModel.Model.Genotype
open Lean

/-!
Driver ops of C09.
  c09.stats  raw calls ↦ every statistic of the model (run at `Rat`)
  c09.spec   raw calls + the IMPLEMENTATION's outputs ↦ verdict of the property's decidable Spec
The Spec is written from the textbook definitions on the raw allele calls (counting copies), not from
the model functions, so a model that mirrors a wrong implementation cannot make it pass.
-/
namespace Drv.C09
open Genotype

/-! ## codec -/

structure Outs where
  tacount : List (List Int)
  tafreq  : List (List Rat)
  acount  : List Int
  afreq   : List Rat
  afixed  : List Bool
  apoly   : List Bool
  maf     : List Rat
  meh     : Rat
  gtcount : List (List Int)
  gtfreq  : List (List Rat)
  f012    : List (List Int)
  fM101   : List (List Int)
  fM1m1   : List (List Rat)

def encOuts (o : Outs) : Json := J.obj [
  ("tacount", J.ofMat J.ofInt o.tacount), ("tafreq", J.ofMat J.ofRat o.tafreq),
  ("acount", J.ofList J.ofInt o.acount), ("afreq", J.ofList J.ofRat o.afreq),
  ("afixed", J.ofList J.ofBool o.afixed), ("apoly", J.ofList J.ofBool o.apoly),
  ("maf", J.ofList J.ofRat o.maf), ("meh", J.ofRat o.meh),
  ("gtcount", J.ofMat J.ofInt o.gtcount), ("gtfreq", J.ofMat J.ofRat o.gtfreq),
  ("f012", J.ofMat J.ofInt o.f012), ("fM101", J.ofMat J.ofInt o.fM101), ("fM1m1", J.ofMat J.ofRat o.fM1m1)]

def decOuts (j : Json) : J.R Outs := do
  pure {
    tacount := ← J.field j "tacount" (J.mat J.int), tafreq := ← J.field j "tafreq" (J.mat J.rat),
    acount := ← J.field j "acount" (J.list J.int), afreq := ← J.field j "afreq" (J.list J.rat),
    afixed := ← J.field j "afixed" (J.list J.bool), apoly := ← J.field j "apoly" (J.list J.bool),
    maf := ← J.field j "maf" (J.list J.rat), meh := ← J.field j "meh" J.rat,
    gtcount := ← J.field j "gtcount" (J.mat J.int), gtfreq := ← J.field j "gtfreq" (J.mat J.rat),
    f012 := ← J.field j "f012" (J.mat J.int), fM101 := ← J.field j "fM101" (J.mat J.int),
    fM1m1 := ← J.field j "fM1m1" (J.mat J.rat) }

/-! ## the model, run at Rat -/

def natMat (m : List (List Nat)) : List (List Int) := m.map (·.map Int.ofNat)

def modelU (ploidy nv : Nat) (m : UMat) : Outs := {
  tacount := tacount m, tafreq := tafreq (α := Rat) ploidy m,
  acount := acount nv m, afreq := afreq (α := Rat) ploidy nv m,
  afixed := afixed (α := Rat) ploidy nv m, apoly := apoly (α := Rat) ploidy nv m,
  maf := maf (α := Rat) ploidy nv m, meh := meh (α := Rat) ploidy nv m,
  gtcount := natMat (gtcount ploidy nv m), gtfreq := gtfreq (α := Rat) ploidy nv m,
  f012 := fmt012 m, fM101 := fmtM101 m, fM1m1 := fmtM1m1 (α := Rat) nv m }

def modelP (nt nv : Nat) (G : PMat) : Outs := {
  tacount := ptacount nt nv G, tafreq := ptafreq (α := Rat) nt nv G,
  acount := pacount nv G, afreq := pafreq (α := Rat) nt nv G,
  afixed := pafixed (α := Rat) nt nv G, apoly := papoly nv G,
  maf := pmaf (α := Rat) nt nv G, meh := pmeh (α := Rat) nt nv G,
  gtcount := natMat (pgtcount nt nv G), gtfreq := pgtfreq (α := Rat) nt nv G,
  f012 := pfmt012 nt nv G, fM101 := pfmtM101 nt nv G, fM1m1 := pfmtM1m1 (α := Rat) nt nv G }

/-- the float64 outputs with the IEEE rounding model (bit-exact expectation) -/
def f64U (ploidy nv : Nat) (m : UMat) : Json :=
  let af := (List.range nv).map (afreqF64At ploidy m)
  J.obj [("afreq", J.ofList J.ofRat af),
         ("tafreq", J.ofMat J.ofRat (m.map (fun r => r.map (tafreqF64At ploidy)))),
         ("gtfreq", J.ofMat J.ofRat ((List.range (ploidy + 1)).map (fun i => (List.range nv).map (gtfreqF64At m i)))),
         ("maf", J.ofList J.ofRat (af.map mafF64Of))]

def f64P (nt nv : Nat) (G : PMat) : Json :=
  let af := (List.range nv).map (pafreqF64At nt G)
  let um := psum nt nv G
  J.obj [("afreq", J.ofList J.ofRat af),
         ("tafreq", J.ofMat J.ofRat (um.map (fun r => r.map (tafreqF64At G.length)))),
         ("gtfreq", J.ofMat J.ofRat ((List.range (G.length + 1)).map (fun i => (List.range nv).map (gtfreqF64At um i)))),
         ("maf", J.ofList J.ofRat (af.map mafF64Of))]

/-- {"op":"c09.stats","phased":b,"nt":..,"nv":..,"ploidy":..,"mat":..} -/
def opStats : J.Op := fun j => do
  let phased ← J.field j "phased" J.bool
  let nt ← J.field j "nt" J.nat
  let nv ← J.field j "nv" J.nat
  if phased then
    let G ← J.field j "mat" (J.list (J.mat J.int))
    let (pl, um) := project nt nv G
    pure <| J.obj [("P", encOuts (modelP nt nv G)), ("U", encOuts (modelU pl nv um)),
                   ("P64", f64P nt nv G), ("U64", f64U pl nv um),
                   ("valid", J.ofBool (decide (ValidP nt nv G)))]
  else
    let m ← J.field j "mat" (J.mat J.int)
    let pl ← J.field j "ploidy" J.nat
    pure <| J.obj [("U", encOuts (modelU pl nv m)), ("U64", f64U pl nv m),
                   ("valid", J.ofBool (decide (ValidU pl nv m)))]

/-! ## the Spec: textbook definitions on the raw calls -/

/-- the raw calls in one shape: for every taxon and locus the number of copies carrying allele 1 and
    the number of copies in total (phased: counted over the phases; unphased: dosage and ploidy) -/
structure Raw where
  nt : Nat
  nv : Nat
  ploidy : Nat
  ones : Nat → Nat → Int     -- copies of taxon i at locus j that carry allele 1

def rawOfU (ploidy nv : Nat) (m : UMat) : Raw :=
  { nt := m.length, nv := nv, ploidy := ploidy, ones := fun i j => (m.getD i []).getD j 0 }

def rawOfP (nt nv : Nat) (G : PMat) : Raw :=
  { nt := nt, nv := nv, ploidy := G.length,
    ones := fun i j => ((G.map (fun ph => (ph.getD i []).getD j 0)).count 1 : Nat) }

def absQ (q : Rat) : Rat := if q < 0 then -q else q
def maxQ (a b : Rat) : Rat := if a < b then b else a

/-- tolerant equality of an implementation float and an exact textbook value -/
def closeQ (tol a b : Rat) : Bool :=
  a == b || decide (absQ (a - b) ≤ tol * maxQ 1 (maxQ (absQ a) (absQ b)))

def allIdx (n : Nat) (f : Nat → Bool) : Bool := (List.range n).all f

/-- comparison of a claimed matrix with a definition, entry by entry (shape included) -/
def matIs {β} (rows cols : Nat) (claim : List (List β)) (ok : Nat → Nat → β → Bool) : Bool :=
  claim.length == rows && allIdx rows (fun i =>
    match claim[i]? with
    | none => false
    | some r => r.length == cols && allIdx cols (fun j => match r[j]? with | none => false | some x => ok i j x))

def vecIs {β} (n : Nat) (claim : List β) (ok : Nat → β → Bool) : Bool :=
  claim.length == n && allIdx n (fun j => match claim[j]? with | none => false | some x => ok j x)

structure Tol where
  tafreq : Rat
  afreq : Rat
  maf : Rat
  meh : Rat
  gtfreq : Rat
  fM1m1 : Rat

def decTol (j : Json) : J.R Tol := do
  pure { tafreq := ← J.field j "tafreq" J.rat, afreq := ← J.field j "afreq" J.rat, maf := ← J.field j "maf" J.rat,
         meh := ← J.field j "meh" J.rat, gtfreq := ← J.field j "gtfreq" J.rat, fM1m1 := ← J.field j "fM1m1" J.rat }

/-- frequency that must hit 0 and 1 exactly: equal when either side is 0 or 1, tolerant inside (0,1) -/
def freqIs (tol a want : Rat) : Bool :=
  if want == 0 || want == 1 || a == 0 || a == 1 then a == want else closeQ tol a want

/-- every clause of the property on one object's outputs; returns the names of the failing clauses -/
def specOne (R : Raw) (t : Tol) (o : Outs) : List String :=
  let total : Int := (R.ploidy * R.nt : Nat)
  let cnt (j : Nat) : Int := ((List.range R.nt).map (fun i => R.ones i j)).sum
  let p (j : Nat) : Rat := (cnt j : Rat) / (total : Rat)
  let allOne (j : Nat) : Bool := allIdx R.nt (fun i => R.ones i j == (R.ploidy : Int))
  let allZero (j : Nat) : Bool := allIdx R.nt (fun i => R.ones i j == 0)
  let cls (c j : Nat) : Int := (((List.range R.nt).filter (fun i => R.ones i j == (c : Int))).length : Nat)
  let meanM1 (j : Nat) : Rat := (((List.range R.nt).map (fun i => R.ones i j - 1)).sum : Int) / (R.nt : Rat)
  let mehWant : Rat := (((List.range R.nv).map (fun j => (R.ploidy : Rat) * p j * (1 - p j))).sum) / (R.nv : Rat)
  let checks : List (String × Bool) := [
    ("tacount=definition", matIs R.nt R.nv o.tacount (fun i j x => x == R.ones i j)),
    ("tafreq=definition", matIs R.nt R.nv o.tafreq (fun i j x => freqIs t.tafreq x ((R.ones i j : Rat) / (R.ploidy : Rat)))),
    ("acount=definition", vecIs R.nv o.acount (fun j x => x == cnt j)),
    ("afreq=definition", vecIs R.nv o.afreq (fun j x => closeQ t.afreq x (p j))),
    ("afreq in [0,1]", o.afreq.all (fun x => decide (0 ≤ x) && decide (x ≤ 1))),
    ("afreq=1 iff every copy carries 1", vecIs R.nv o.afreq (fun j x => (x == 1) == allOne j)),
    ("afreq=0 iff no copy carries 1", vecIs R.nv o.afreq (fun j x => (x == 0) == allZero j)),
    ("afixed=definition", vecIs R.nv o.afixed (fun j x => x == (allOne j || allZero j))),
    ("apoly=definition", vecIs R.nv o.apoly (fun j x => x == !(allOne j || allZero j))),
    ("afixed = not apoly", o.afixed.length == o.apoly.length &&
        (List.zip o.afixed o.apoly).all (fun ab => ab.1 == !ab.2)),
    ("maf=definition", vecIs R.nv o.maf (fun j x =>
        let q := p j; let want := if q ≤ 1 - q then q else 1 - q
        (if want == 0 then x == 0 else closeQ t.maf x want) && decide (0 ≤ x) && decide (x ≤ 1/2 + t.maf))),
    ("meh=definition", closeQ t.meh o.meh mehWant && decide (0 ≤ o.meh)),
    ("gtcount=definition (ploidy+1 classes)", matIs (R.ploidy + 1) R.nv o.gtcount (fun c j x => x == cls c j)),
    ("gtcount sums to ntaxa", allIdx R.nv (fun j => (o.gtcount.map (fun r => r.getD j 0)).sum == (R.nt : Int))),
    ("gtfreq=definition", matIs (R.ploidy + 1) R.nv o.gtfreq (fun c j x =>
        closeQ t.gtfreq x ((cls c j : Rat) / (R.nt : Rat)) && decide (0 ≤ x) && decide (x ≤ 1))),
    ("{0,1,2}=dosage", matIs R.nt R.nv o.f012 (fun i j x => x == R.ones i j)),
    ("{-1,0,1}=dosage-1", matIs R.nt R.nv o.fM101 (fun i j x => x == R.ones i j - 1)),
    ("{-1,m,1}=definition", matIs R.nt R.nv o.fM1m1 (fun i j x =>
        if R.ones i j - 1 == 0 then closeQ t.fM1m1 x (meanM1 j) else x == ((R.ones i j - 1 : Int) : Rat)))]
  (checks.filter (fun c => !c.2)).map Prod.fst

/-- phased and projected objects must answer identically (meh: two different summation routines, so
    to rounding) -/
def specSame (t : Tol) (a b : Outs) : List String :=
  let checks : List (String × Bool) := [
    ("tacount", a.tacount == b.tacount), ("tafreq", a.tafreq == b.tafreq), ("acount", a.acount == b.acount),
    ("afreq", a.afreq == b.afreq), ("afixed", a.afixed == b.afixed), ("apoly", a.apoly == b.apoly),
    ("maf", a.maf == b.maf), ("meh", closeQ t.meh a.meh b.meh), ("gtcount", a.gtcount == b.gtcount),
    ("gtfreq", a.gtfreq == b.gtfreq), ("f012", a.f012 == b.f012), ("fM101", a.fM101 == b.fM101),
    ("fM1m1", a.fM1m1 == b.fM1m1)]
  (checks.filter (fun c => !c.2)).map (fun c => "phased≠projection:" ++ c.1)

/-- {"op":"c09.spec","phased":b,"nt","nv","ploidy","mat","tol":{..},"P":{..}|null,"U":{..},"same":b} -/
def opSpec : J.Op := fun j => do
  let phased ← J.field j "phased" J.bool
  let nt ← J.field j "nt" J.nat
  let nv ← J.field j "nv" J.nat
  let t ← J.field j "tol" decTol
  let u ← J.field j "U" decOuts
  let fails ←
    if phased then do
      let G ← J.field j "mat" (J.list (J.mat J.int))
      let p ← J.field j "P" decOuts
      let same ← J.fieldD j "same" J.bool true
      let R := rawOfP nt nv G
      pure ((specOne R t p).map ("phased:" ++ ·) ++ (specOne R t u).map ("projection:" ++ ·)
            ++ (if same then specSame t p u else []))
    else do
      let m ← J.field j "mat" (J.mat J.int)
      let pl ← J.field j "ploidy" J.nat
      pure ((specOne (rawOfU pl nv m) t u).map ("unphased:" ++ ·))
  pure <| J.obj [("ok", J.ofBool fails.isEmpty), ("detail", J.ofStr (", ".intercalate fails))]

def ops : List (String × J.Op) := [("c09.stats", opStats), ("c09.spec", opSpec)]

end Drv.C09
