import PybropsModel.J
import PybropsModel.Model.GenotypeSpec
open Lean

/-!
Driver ops of C09.
  c09.stats  raw calls ↦ every statistic of the model (run at `Rat`)
  c09.spec   raw calls + the IMPLEMENTATION's outputs ↦ verdict of the property's decidable Spec
The Spec is written from the textbook definitions on the raw allele calls (counting copies), not from
the model functions, so a model that mirrors a wrong implementation cannot make it pass.
-/
namespace Drv.C09
open Genotype GenotypeSpec

/-! ## codec -/

def encOuts (o : Outs) : Json := J.obj [
  ("tacount", J.ofMat J.ofInt o.tacount), ("tafreq", J.ofMat J.ofRat o.tafreq),
  ("acount", J.ofList J.ofInt o.acount), ("afreq", J.ofList J.ofRat o.afreq),
  ("afixed", J.ofList J.ofBool o.afixed), ("apoly", J.ofList J.ofBool o.apoly),
  ("maf", J.ofList J.ofRat o.maf), ("meh", J.ofRat o.meh),
  ("gtcount", J.ofMat J.ofInt o.gtcount), ("gtfreq", J.ofMat J.ofRat o.gtfreq),
  ("f012", J.ofMat J.ofInt o.f012), ("fM101", J.ofMat J.ofInt o.fM101), ("fM1m1", J.ofMat J.ofRat o.fM1m1)]

def decOuts (j : Json) : J.R Outs := do
  pure {
    tacount := ← J.field j "tacount" (J.mat J.int), tafreq := ← J.field j "tafreq" (J.mat J.rat),
    acount := ← J.field j "acount" (J.list J.int), afreq := ← J.field j "afreq" (J.list J.rat),
    afixed := ← J.field j "afixed" (J.list J.bool), apoly := ← J.field j "apoly" (J.list J.bool),
    maf := ← J.field j "maf" (J.list J.rat), meh := ← J.field j "meh" J.rat,
    gtcount := ← J.field j "gtcount" (J.mat J.int), gtfreq := ← J.field j "gtfreq" (J.mat J.rat),
    f012 := ← J.field j "f012" (J.mat J.int), fM101 := ← J.field j "fM101" (J.mat J.int),
    fM1m1 := ← J.field j "fM1m1" (J.mat J.rat) }

/-- the float64 outputs with the IEEE rounding model (bit-exact expectation) -/
def f64U (ploidy nv : Nat) (m : UMat) : Json :=
  let af := (List.range nv).map (afreqF64At ploidy m)
  let ai := (List.range nv).map (afreqIntAt ploidy m)
  J.obj <| [("afreq", J.ofList J.ofRat af),
         ("tafreq", J.ofMat J.ofRat (m.map (fun r => r.map (tafreqF64At ploidy)))),
         ("gtfreq", J.ofMat J.ofRat ((List.range (ploidy + 1)).map (fun i => (List.range nv).map (gtfreqF64At m i)))),
         ("maf", J.ofList J.ofRat (af.map mafF64Of)),
         ("afreq_int", J.ofList J.ofInt ai),
         ("tafreq_int", J.ofMat J.ofInt (m.map (fun r => r.map (tafreqIntAt ploidy)))),
         ("gtfreq_int", J.ofMat J.ofInt ((List.range (ploidy + 1)).map (fun i => (List.range nv).map (gtfreqIntAt m i)))),
         ("maf_int", J.ofList J.ofInt (ai.map mafIntOf))]
    ++ narrow "f32" 23 ++ narrow "f16" 10
where
  narrow (tag : String) (t : Nat) : List (String × Json) :=
    let an := (List.range nv).map (afreqNarrowAt t ploidy m)
    [("afreq_" ++ tag, J.ofList J.ofRat an),
     ("tafreq_" ++ tag, J.ofMat J.ofRat (m.map (fun r => r.map (tafreqNarrowAt t ploidy)))),
     ("gtfreq_" ++ tag, J.ofMat J.ofRat ((List.range (ploidy + 1)).map (fun i => (List.range nv).map (gtfreqNarrowAt t m i)))),
     ("maf_" ++ tag, J.ofList J.ofRat (an.map (mafNarrowOf t)))]

def f64P (nt nv : Nat) (G : PMat) : Json :=
  let af := (List.range nv).map (pafreqF64At nt G)
  let ai := (List.range nv).map (pafreqIntAt nt G)
  let um := psum nt nv G
  J.obj <| [("afreq", J.ofList J.ofRat af),
         ("tafreq", J.ofMat J.ofRat (um.map (fun r => r.map (tafreqF64At G.length)))),
         ("gtfreq", J.ofMat J.ofRat ((List.range (G.length + 1)).map (fun i => (List.range nv).map (gtfreqF64At um i)))),
         ("maf", J.ofList J.ofRat (af.map mafF64Of)),
         ("afreq_int", J.ofList J.ofInt ai),
         ("tafreq_int", J.ofMat J.ofInt (um.map (fun r => r.map (tafreqIntAt G.length)))),
         ("gtfreq_int", J.ofMat J.ofInt ((List.range (G.length + 1)).map (fun i => (List.range nv).map (gtfreqIntAt um i)))),
         ("maf_int", J.ofList J.ofInt (ai.map mafIntOf))]
    ++ narrow "f32" 23 ++ narrow "f16" 10
where
  narrow (tag : String) (t : Nat) : List (String × Json) :=
    let um := psum nt nv G
    let an := (List.range nv).map (pafreqNarrowAt t nt G)
    [("afreq_" ++ tag, J.ofList J.ofRat an),
     ("tafreq_" ++ tag, J.ofMat J.ofRat (um.map (fun r => r.map (tafreqNarrowAt t G.length)))),
     ("gtfreq_" ++ tag, J.ofMat J.ofRat ((List.range (G.length + 1)).map (fun i => (List.range nv).map (gtfreqNarrowAt t um i)))),
     ("maf_" ++ tag, J.ofList J.ofRat (an.map (mafNarrowOf t)))]

/-- {"op":"c09.stats","phased":b,"nt":..,"nv":..,"ploidy":..,"mat":..} -/
def opStats : J.Op := fun j => do
  let phased ← J.field j "phased" J.bool
  let nt ← J.field j "nt" J.nat
  let nv ← J.field j "nv" J.nat
  if phased then
    let G ← J.field j "mat" (J.list (J.mat J.int))
    let (pl, um) := project nt nv G
    pure <| J.obj [("P", encOuts (modelP nt nv G)), ("U", encOuts (modelU pl nv um)),
                   ("P64", f64P nt nv G), ("U64", f64U pl nv um),
                   ("valid", J.ofBool (decide (ValidP nt nv G)))]
  else
    let m ← J.field j "mat" (J.mat J.int)
    let pl ← J.field j "ploidy" J.nat
    pure <| J.obj [("U", encOuts (modelU pl nv m)), ("U64", f64U pl nv m),
                   ("valid", J.ofBool (decide (ValidU pl nv m)))]

/-! ## the Spec (Model/GenotypeSpec.lean): codecs -/

def decTol (j : Json) : J.R Tol := do
  pure { tafreq := ← J.field j "tafreq" J.rat, afreq := ← J.field j "afreq" J.rat, maf := ← J.field j "maf" J.rat,
         meh := ← J.field j "meh" J.rat, gtfreq := ← J.field j "gtfreq" J.rat, fM1m1 := ← J.field j "fM1m1" J.rat }

/-- the statistics requested in an integer dtype: a list of names -/
def decCasts (j : Json) : J.R Casts := do
  let names ← J.list J.str j
  pure { tafreq := names.contains "tafreq", afreq := names.contains "afreq", maf := names.contains "maf",
         meh := names.contains "meh", gtfreq := names.contains "gtfreq" }

/-- {"op":"c09.spec","phased":b,"nt","nv","ploidy","mat","tol":{..},"intcast":[names],"P":{..}|null,"U":{..}|null} -/
def opSpec : J.Op := fun j => do
  let phased ← J.field j "phased" J.bool
  let nt ← J.field j "nt" J.nat
  let nv ← J.field j "nv" J.nat
  let t ← J.field j "tol" decTol
  let c ← J.fieldD j "intcast" decCasts {}
  let fails ←
    if phased then do
      let G ← J.field j "mat" (J.list (J.mat J.int))
      let p ← J.field j "P" decOuts
      let R := rawOfP nt nv G
      -- the unphased projection is judged against the same raw calls and must answer identically (absent: a phased
      -- object queried on its own, as in the single-object histories)
      match ← J.fieldOpt j "U" decOuts with
      | some u =>
        pure ((specOne R t c p).map ("phased:" ++ ·) ++ (specOne R t c u).map ("projection:" ++ ·) ++ specSame t p u)
      | none => pure ((specOne R t c p).map ("phased:" ++ ·))
    else do
      let u ← J.field j "U" decOuts
      let m ← J.field j "mat" (J.mat J.int)
      let pl ← J.field j "ploidy" J.nat
      pure ((specOne (rawOfU pl nv m) t c u).map ("unphased:" ++ ·))
  pure <| J.obj [("ok", J.ofBool fails.isEmpty), ("detail", J.ofStr (", ".intercalate fails))]

def ops : List (String × J.Op) := [("c09.stats", opStats), ("c09.spec", opSpec)]

end Drv.C09
