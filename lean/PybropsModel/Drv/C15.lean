import PybropsModel.J
import PybropsModel.Model.BVMat
open Lean

/-
Driver ops of C15.
  c15.history      model: the snapshots (stored matrix, location, scale, unscale(), all statistics)
                   after from_numpy and after every taxa operation of a history
  c15.spec         Spec oracle: the property's decidable predicate evaluated on the
                   IMPLEMENTATION's observations against the raw ground truth (`BVMat.runRaw`)
  c15.scaled       model of DenseScaledMatrix.transform/untransform/rescale/unscale
  c15.spec_scaled  Spec oracle for the same
JSON: matrices are trait-major (list of columns), NaN is "nan" or null.
-/
namespace Drv.C15
open BVMat

/-! ### codec -/

def orat (j : Json) : J.R (Option Rat) :=
  match j with
  | .null => .ok none
  | .str "nan" => .ok none
  | _ => some <$> J.rat j

def cols (j : Json) : J.R (List (Col Rat)) := J.list (J.list orat) j

def ofORat : Option Rat → Json := J.ofOpt J.ofRat
def ofCols : List (Col Rat) → Json := J.ofList (J.ofList ofORat)

def sq : Rat → Rat := ratSqrt

def operand (j : Json) : J.R (Operand Rat) := do
  let c ← J.field j "cols" cols
  let t ← J.field j "taxa" (J.list J.nat)
  let kind ← J.field j "as" J.str
  if kind == "bv" then pure (.bv (fromNumpy sq c t)) else pure (.nd c t)

def opOf (j : Json) : J.R (Op Rat) := do
  let name ← J.field j "op" J.str
  match name with
  | "select" => return .select (← J.field j "idx" (J.list J.nat))
  | "delete" => return .delete (← J.field j "idx" (J.list J.nat))
  | "reorder" => return .reorder (← J.field j "idx" (J.list J.nat))
  | "remove" => return .remove (← J.field j "idx" (J.list J.nat))
  | "insert" => return .insert (← J.field j "k" J.nat) (← J.field j "vals" operand)
  | "incorp" => return .incorp (← J.field j "k" J.nat) (← J.field j "vals" operand)
  | "adjoin" => return .adjoin (← J.field j "vals" operand)
  | "append" => return .append (← J.field j "vals" operand)
  | "concat" =>
      let os ← J.field j "others" (J.list (fun o => do
        let c ← J.field o "cols" cols
        let t ← J.field o "taxa" (J.list J.nat)
        pure (fromNumpy sq c t)))
      return .concat os
  | other => J.fail s!"unknown taxa op {other}"

def errTag : Err → String
  | .shape => "value"
  | .index => "index"
  | .type => "type"

/-! ### model snapshots -/

def snapshot (b : BV Rat) : Json :=
  let tr := b.traits
  let stat (f : Trait Rat → Option Rat) : Json := J.ofList ofORat (tr.map f)
  J.obj [
    ("taxa", J.ofList J.ofNat b.taxa),
    ("mat", ofCols (tr.map (·.mat))),
    ("loc", J.ofList ofORat (tr.map (·.loc))),
    ("scale", J.ofList ofORat (tr.map (·.scale))),
    ("unscale", ofCols (unscale b)),
    ("tmax", stat (tmax true)), ("tmin", stat (tmin true)), ("tmean", stat (tmean true)),
    ("trange", stat (trange true)), ("tstd", stat (tstd sq true)), ("tvar", stat (tvar true)),
    ("s_tmax", stat (tmax false)), ("s_tmin", stat (tmin false)), ("s_tmean", stat (tmean false)),
    ("s_trange", stat (trange false)), ("s_tstd", stat (tstd sq false)), ("s_tvar", stat (tvar false)),
    ("targmax", J.ofList J.ofNat (tr.map targmax)),
    ("targmin", J.ofList J.ofNat (tr.map targmin))]

/-- snapshots after from_numpy and after each operation; stops at the first rejected operation -/
def snapshots (needs : Bool) : List (Op Rat) → BV Rat → List Json
  | [], b => [snapshot b]
  | op :: ops, b => snapshot b ::
    match applyOp sq needs op b with
    | .ok b' => snapshots needs ops b'
    | .error e => [J.obj [("err", J.ofStr (errTag e))]]

def opHistory : J.Op := fun j => do
  let c ← J.field j "cols" cols
  let t ← J.field j "taxa" (J.list J.nat)
  let needs ← J.fieldD j "needs_loc_scale" J.bool false
  let ops ← J.field j "ops" (J.list opOf)
  pure (J.ofList id (snapshots needs ops (fromNumpy sq c t)))

/-! ### the Spec oracle -/

structure Tol where
  rel : Rat
  abs : Rat

def absR (q : Rat) : Rat := if q < 0 then -q else q
def maxR (a b : Rat) : Rat := if a < b then b else a

/-- tolerant equality; `mag` scales the absolute tolerance (magnitude of the data involved) -/
def closeR (tol : Tol) (mag a b : Rat) : Bool :=
  let d := absR (a - b)
  d ≤ tol.abs * mag || d ≤ tol.rel * maxR (absR a) (absR b)

def closeO (tol : Tol) (mag : Rat) : Option Rat → Option Rat → Bool
  | none, none => true
  | some a, some b => closeR tol mag a b
  | _, _ => false

/-- what the implementation showed for one matrix state -/
structure ObsStep where
  raised : Bool
  nonfinite : Bool
  taxa : List Nat
  mat : List (Col Rat)
  unscale : List (Col Rat)
  loc : List (Option Rat)
  scale : List (Option Rat)
  tmax : List (Option Rat)
  tmin : List (Option Rat)
  tmean : List (Option Rat)
  trange : List (Option Rat)
  tstd : List (Option Rat)
  tvar : List (Option Rat)
  targmax : List Nat
  targmin : List Nat
  hasStats : Bool

def obsStep (j : Json) : J.R ObsStep := do
  let raised := (j.getObjVal? "raised").isOk
  if raised then
    pure { raised := true, nonfinite := false, taxa := [], mat := [], unscale := [], loc := [], scale := [],
           tmax := [], tmin := [], tmean := [], trange := [], tstd := [], tvar := [],
           targmax := [], targmin := [], hasStats := false }
  else
    let ol := J.list orat
    let hasStats := (j.getObjVal? "tmax").isOk
    pure {
      raised := false
      nonfinite := (← J.fieldD j "nonfinite" J.bool false)
      taxa := (← J.field j "taxa" (J.list J.nat))
      mat := (← J.field j "mat" cols)
      unscale := (← J.field j "unscale" cols)
      loc := (← J.field j "loc" ol)
      scale := (← J.field j "scale" ol)
      tmax := (← J.fieldD j "tmax" ol [])
      tmin := (← J.fieldD j "tmin" ol [])
      tmean := (← J.fieldD j "tmean" ol [])
      trange := (← J.fieldD j "trange" ol [])
      tstd := (← J.fieldD j "tstd" ol [])
      tvar := (← J.fieldD j "tvar" ol [])
      targmax := (← J.fieldD j "targmax" (J.list J.nat) [])
      targmin := (← J.fieldD j "targmin" (J.list J.nat) [])
      hasStats := hasStats }

/-- magnitude of a raw column: 1 + max |x| -/
def magOf (c : Col Rat) : Rat := (present c).foldl (fun m x => maxR m (absR x)) 0 + 1

/-- "raw values reproduced, missing stays missing": entrywise -/
def rawOk (tol : Tol) (mag : Rat) (truth obs : Col Rat) : Bool :=
  truth.length == obs.length && (List.zip truth obs).all (fun p => closeO tol mag p.1 p.2)

/-- "stored centred and scaled per trait (unit scale for constant traits)" for one column;
    returns the failing sub-clause if any -/
def standardisedCol (tol : Tol) (mag : Rat) (truth mat unsc : Col Rat) (loc scale : Option Rat) : Option String :=
  let p := present truth
  -- a trait without any value: the NaN-ignoring mean and deviation of nothing are NaN
  if p.isEmpty then (if loc == none && scale == none && mat == truth then none else some "standardised") else
  if mat.map Option.isNone != truth.map Option.isNone then some "standardised" else
  let m := meanL p
  let v := varL p
  let pm := present mat
  if !(closeO tol mag loc (some m)) then some "standardised" else
  if v == 0 then
    -- the unit-scale clause is about data the code could see to be constant: when the
    -- implementation's own unscaled column is constant only up to rounding noise (left by earlier
    -- steps of a history) it is not applicable
    let exactConst := match present unsc with | a :: l => l.all (· == a) | [] => true
    if !exactConst then none else
    -- sub-case with its own name: the float mean of the (exactly constant) column is not the
    -- constant itself, so nanstd is a rounding residue instead of 0.0
    let name := if loc != (present unsc).head? then "standardised:constant:inexact_mean"
                else "standardised:constant"
    if scale != some 1 then some name
    else if pm.all (fun x => absR x ≤ tol.abs * mag) then none else some name
  else
    match scale with
    | none => some "standardised"
    | some s =>
      if !(0 < s && closeR tol 0 (s * s) v) then some "standardised" else
      let sTol := tol.abs * 10 * (1 + mag / ratSqrt v)
      if absR (meanL pm) ≤ sTol && absR (varL pm - 1) ≤ sTol then none else some "standardised"

/-- a summary on the original scale equals that summary of the raw column.  For a column with
    missing values either numpy convention is accepted (NaN-propagating or NaN-ignoring). -/
def statOk (tol : Tol) (mag : Rat) (hasNaN : Bool) (propagating ignoring obs : Option Rat) : Bool :=
  if hasNaN then closeO tol mag obs propagating || closeO tol mag obs ignoring
  else closeO tol mag obs propagating

def getO (l : List (Option Rat)) (j : Nat) : Option Rat := (l[j]?).join

/-- failing statistic clauses of one column -/
def statsCol (tol : Tol) (mag : Rat) (truth : Col Rat) (o : ObsStep) (j : Nat) : List String :=
  let p := present truth
  let hasNaN := truth.any Option.isNone
  let dense? : Option (List Rat) := if hasNaN then none else some p
  let prop (f : List Rat → Rat) : Option Rat := match dense? with | some (a :: l) => some (f (a :: l)) | _ => none
  let ign (f : List Rat → Rat) : Option Rat := match p with | a :: l => some (f (a :: l)) | [] => none
  let mx (l : List Rat) : Rat := match l with | a :: r => maxL a r | [] => 0
  let mn (l : List Rat) : Rat := match l with | a :: r => minL a r | [] => 0
  let chk (name : String) (f : List Rat → Rat) (obs : List (Option Rat)) : List String :=
    if statOk tol mag hasNaN (prop f) (ign f) (getO obs j) then [] else [name]
  let v : Rat := varL p
  let const := !p.isEmpty && v == 0
  let stdOk (obs : Option Rat) : Bool :=
    match obs with
    | none => hasNaN || p.isEmpty
    | some s => !p.isEmpty && 0 ≤ s && (if v == 0 then s ≤ tol.abs * mag else closeR tol 0 (s * s) v)
  let varOk (obs : Option Rat) : Bool :=
    match obs with
    | none => hasNaN || p.isEmpty
    | some w => !p.isEmpty && (if v == 0 then absR w ≤ tol.abs * mag else closeR tol 0 w v)
  -- an arg-extremum is right when the raw value at that position is extremal (ties and values
  -- within rounding error of each other may resolve either way); with missing values numpy's
  -- "first NaN" convention is accepted as well
  let argOk (obs : Option Nat) (ext : List Rat → Rat) : Bool :=
    match obs with
    | none => false
    | some i =>
      (hasNaN && some i == firstNaN truth) ||
      (match truth[i]?, p with
       | some (some x), a :: l => closeR tol mag x (ext (a :: l))
       | _, _ => false)
  chk "stat:tmax" mx o.tmax ++ chk "stat:tmin" mn o.tmin ++
  chk "stat:trange" (fun l => mx l - mn l) o.trange ++ chk "stat:tmean" meanL o.tmean ++
  (if argOk o.targmax[j]? mx then [] else ["stat:targmax"]) ++
  (if argOk o.targmin[j]? mn then [] else ["stat:targmin"]) ++
  (if stdOk (getO o.tstd j) then [] else [if const then "stat:tstd:constant" else "stat:tstd"]) ++
  (if varOk (getO o.tvar j) then [] else [if const then "stat:tvar:constant" else "stat:tvar"])

def clauseOrder : List String :=
  ["raised", "nonfinite", "taxa", "raw", "standardised", "standardised:constant", "standardised:constant:inexact_mean",
   "stat:tmax", "stat:tmin", "stat:trange", "stat:tmean", "stat:targmax", "stat:targmin",
   "stat:tstd", "stat:tvar", "stat:tstd:constant", "stat:tvar:constant"]

/-- failing clauses of one matrix state, in `clauseOrder` -/
def specStep (tol : Tol) (mags : List Rat) (truth : Raw Rat) (o : ObsStep) : List String :=
  if o.raised then ["raised"] else
  let t := truth.1.length
  let n := truth.2.length
  let idx := List.range t
  let fails : List String :=
    (if o.nonfinite then ["nonfinite"] else []) ++
    (if o.taxa == truth.2 then [] else ["taxa"]) ++
    (if o.unscale.length == t && idx.all (fun j => rawOk tol (mags.getD j 1) (truth.1.getD j []) (o.unscale.getD j []))
      then [] else ["raw"]) ++
    (if o.mat.length == t && o.loc.length == t && o.scale.length == t then
       idx.filterMap (fun j => standardisedCol tol (mags.getD j 1) (truth.1.getD j []) (o.mat.getD j []) (o.unscale.getD j []) (getO o.loc j) (getO o.scale j))
     else ["standardised"]) ++
    (if n == 0 || !o.hasStats then [] else (idx.map (fun j => statsCol tol (mags.getD j 1) (truth.1.getD j []) o j)).flatten)
  clauseOrder.filter (fun c => fails.contains c)

/-- magnitudes (1 + max |x|) of the columns, never decreasing along a history: rounding errors are
    relative to the largest values a trait has held so far -/
def updMags (mags : List Rat) (r : Raw Rat) : List Rat :=
  r.1.zipIdx.map (fun ci => maxR (mags.getD ci.2 1) (magOf ci.1))

/-- walk the history on the raw ground truth; one verdict per observed matrix state -/
def specWalk (tol : Tol) : List Rat → List (Op Rat) → Raw Rat → List ObsStep → List Json
  | _, _, _, [] => []
  | mags0, ops, r, o :: os =>
    let mags := updMags mags0 r
    let fails := specStep tol mags r o
    let here := J.obj [("ok", J.ofBool fails.isEmpty), ("fails", J.ofList J.ofStr fails),
                       ("constant_trait", J.ofBool (r.1.any (fun c => !(present c).isEmpty && varL (present c) == 0))),
                       ("has_nan", J.ofBool (r.1.any (fun c => c.any Option.isNone)))]
    match ops with
    | [] => [here]
    | op :: rest =>
      match applyRaw op r with
      | .ok r' => here :: specWalk tol mags rest r' os
      | .error _ =>
        -- the operation is not a valid request (shape / index): the property says nothing
        [here, J.obj [("ok", J.ofBool true), ("fails", J.ofList J.ofStr []), ("invalid_op", J.ofBool true)]]

def opSpec : J.Op := fun j => do
  let c ← J.field j "cols" cols
  let t ← J.field j "taxa" (J.list J.nat)
  let ops ← J.field j "ops" (J.list opOf)
  let obs ← J.field j "obs" (J.list obsStep)
  let tol : Tol := { rel := (← J.fieldD j "rel" J.rat (1 / 1000000000)),
                     abs := (← J.fieldD j "abs" J.rat (1 / 1000000000000)) }
  pure (J.ofList id (specWalk tol [] ops (c, t) obs))

/-! ### DenseScaledMatrix -/

def traitsOf (j : Json) : J.R (List (Trait Rat)) := do
  let m ← J.field j "mat" cols
  let l ← J.field j "loc" (J.list orat)
  let s ← J.field j "scale" (J.list orat)
  pure ((List.zip m (List.zip l s)).map (fun p => { mat := p.1, loc := p.2.1, scale := p.2.2 }))

def ofTraits (ts : List (Trait Rat)) : Json :=
  J.obj [("mat", ofCols (ts.map (·.mat))), ("loc", J.ofList ofORat (ts.map (·.loc))),
         ("scale", J.ofList ofORat (ts.map (·.scale)))]

def opScaled : J.Op := fun j => do
  let ts ← traitsOf j
  let x ← J.field j "x" cols
  let tx := List.zipWith transformCol ts x
  pure <| J.obj [
    ("transform", ofCols tx),
    ("untransform", ofCols (List.zipWith untransformCol ts tx)),
    ("unscale", ofCols (ts.map scaledUnscaleCol)),
    ("rescale", ofTraits (ts.map (rescaleCol sq))),
    ("unscale_inplace", ofTraits (ts.map unscaleInplaceCol))]

def opSpecScaled : J.Op := fun j => do
  let ts ← traitsOf j
  let x ← J.field j "x" cols
  let o ← J.field j "obs" pure
  let tol : Tol := { rel := (← J.fieldD j "rel" J.rat (1 / 1000000000)),
                     abs := (← J.fieldD j "abs" J.rat (1 / 1000000000000)) }
  let truth := ts.map scaledUnscaleCol
  let t := ts.length
  let idx := List.range t
  let u ← J.field o "untransform" cols
  let un1 ← J.field o "unscale_after_rescale" cols
  let rs ← J.field o "rescale" traitsOf
  let ui ← J.field o "unscale_inplace" traitsOf
  let same (a b : List (Col Rat)) : Bool :=
    a.length == b.length && (List.zip a b).all (fun p => rawOk tol (maxR (magOf p.1) (magOf p.2)) p.1 p.2)
  let fails : List String :=
    (if same x u then [] else ["roundtrip"]) ++
    (if same truth un1 then [] else ["rescale_raw"]) ++
    (if rs.length == t then idx.filterMap (fun k =>
        match rs[k]? with
        | some r => (standardisedCol tol (magOf (truth.getD k [])) (truth.getD k []) r.mat (un1.getD k []) r.loc r.scale).map (fun s => "rescale_" ++ s)
        | none => some "rescale_standardised") else ["rescale_standardised"]) ++
    (if same truth (ui.map (·.mat)) && ui.all (fun r => r.loc == some 0 && r.scale == some 1) then []
     else ["unscale_inplace"])
  pure <| J.obj [("ok", J.ofBool fails.isEmpty), ("fails", J.ofList J.ofStr fails.eraseDups)]

def ops : List (String × J.Op) :=
  [("c15.history", opHistory), ("c15.spec", opSpec),
   ("c15.scaled", opScaled), ("c15.spec_scaled", opSpecScaled)]

end Drv.C15
