import PybropsModel.J
import PybropsModel.Model.BVMat
import PybropsModel.Model.BVMatSpec
import PybropsModel.Model.BVMatState
open Lean

/-
Driver ops of C15.
  c15.history      model: the snapshots (stored matrix, location, scale, unscale(), all statistics)
                   after from_numpy and after every taxa operation of a history
  c15.spec         Spec oracle: the property's decidable predicate evaluated on the
                   IMPLEMENTATION's observations against the raw ground truth (`BVMat.runRaw`)
  c15.scaled       model of DenseScaledMatrix.transform/untransform/rescale/unscale
  c15.spec_scaled  Spec oracle for the same
  c15.state        model: snapshots after from_numpy and after every direct edit of ONE object
                   (element write, attribute re-assignment, inherited in-place taxa routine)
  c15.spec_state   Spec oracle: the clauses that hold in any state (Spec.anyStateCol, retained raw values),
                   each step judged against the implementation's own previous observation
  c15.scaledh      model: DenseScaledMatrix call histories on a heap of arrays with identities
                   (Scaled.trace): which array every call returns / writes, and all array contents
  c15.spec_scaledh Spec oracle for such a history, each call judged against the state observed before it
JSON: matrices are trait-major (list of columns), NaN is "nan" or null.
-/
namespace Drv.C15
open BVMat

/-! ### codec -/

def orat (j : Json) : J.R (Option Rat) :=
  match j with
  | .null => .ok none
  | .str "nan" => .ok none
  | _ => some <$> J.rat j

def cols (j : Json) : J.R (List (Col Rat)) := J.list (J.list orat) j

def ofORat : Option Rat → Json := J.ofOpt J.ofRat
def ofCols : List (Col Rat) → Json := J.ofList (J.ofList ofORat)

def sq : Rat → Rat := ratSqrt

/-- `"as":"self"`: the matrix is its own operand (`b.adjoin_taxa(b)`); the placeholder is replaced by the
    current state when the operation is applied (`withSelf`) -/
def selfMark : List Nat := [4294967295]

def operand (j : Json) : J.R (Operand Rat) := do
  let kind ← J.field j "as" J.str
  if kind == "self" then return .nd [] selfMark
  let c ← J.field j "cols" cols
  let t ← J.field j "taxa" (J.list J.nat)
  if kind == "bv" then pure (.bv (fromNumpy sq c t)) else pure (.nd c t)

def isSelf : Operand Rat → Bool
  | .nd [] t => t == selfMark
  | _ => false

/-- replace the self placeholder by `v` -/
def withSelf (v : Operand Rat) : OpIx Rat → OpIx Rat
  | .insert obj w => .insert obj (if isSelf w then v else w)
  | .plain (.insert k w) => .plain (.insert k (if isSelf w then v else w))
  | .plain (.adjoin w) => .plain (.adjoin (if isSelf w then v else w))
  | .plain (.append w) => .plain (.append (if isSelf w then v else w))
  | .plain (.incorp k w) => .plain (.incorp k (if isSelf w then v else w))
  | o => o

def optInt (j : Json) : J.R (Option Int) :=
  match j with
  | .null => .ok none
  | _ => some <$> J.int j

/-- the `obj` argument of numpy.delete / numpy.insert as the caller wrote it:
    {"kind":"int","i":-1} | {"kind":"list","is":[…]} | {"kind":"slice","a":…,"b":…,"c":…} | {"kind":"mask","m":[…]} -/
def delIdx (j : Json) : J.R LabelMat.DelIdx := do
  match ← J.field j "kind" J.str with
  | "int" => return .int (← J.field j "i" J.int)
  | "list" => return .list (← J.field j "is" (J.list J.int))
  | "slice" => return .slice (← J.fieldD j "a" optInt none) (← J.fieldD j "b" optInt none) (← J.fieldD j "c" optInt none)
  | "mask" => return .mask (← J.field j "m" (J.list J.bool))
  | other => J.fail s!"unknown index kind {other}"

def insIdx (j : Json) : J.R LabelMat.InsIdx := do
  match ← J.field j "kind" J.str with
  | "int" => return .int (← J.field j "i" J.int)
  | "list" => return .list (← J.field j "is" (J.list J.int))
  | "slice" => return .slice (← J.fieldD j "a" optInt none) (← J.fieldD j "b" optInt none) (← J.fieldD j "c" optInt none)
  | other => J.fail s!"unknown insert index kind {other}"

def opOf (j : Json) : J.R (OpIx Rat) := do
  let name ← J.field j "op" J.str
  let hasObj := (j.getObjVal? "obj").isOk
  match name with
  | "select" => return .select (← J.field j "idx" (J.list J.int))
  | "delete" =>
      if hasObj then return .delete (← J.field j "obj" delIdx)
      else return .plain (.delete (← J.field j "idx" (J.list J.nat)))
  | "reorder" => return .plain (.reorder (← J.field j "idx" (J.list J.nat)))
  | "remove" => return .plain (.remove (← J.field j "idx" (J.list J.nat)))
  | "insert" =>
      if hasObj then return .insert (← J.field j "obj" insIdx) (← J.field j "vals" operand)
      else return .plain (.insert (← J.field j "k" J.nat) (← J.field j "vals" operand))
  | "incorp" => return .plain (.incorp (← J.field j "k" J.nat) (← J.field j "vals" operand))
  | "adjoin" => return .plain (.adjoin (← J.field j "vals" operand))
  | "append" => return .plain (.append (← J.field j "vals" operand))
  | "concat" =>
      let os ← J.field j "others" (J.list (fun o => do
        let c ← J.field o "cols" cols
        let t ← J.field o "taxa" (J.list J.nat)
        pure (fromNumpy sq c t)))
      return .plain (.concat os)
  | other => J.fail s!"unknown taxa op {other}"

def errTag : Err → String
  | .shape => "value"
  | .index => "index"
  | .type => "type"
  | .unsupported => "unsupported"

/-! ### model snapshots -/

def snapshot (b : BV Rat) : Json :=
  let tr := b.traits
  let stat (f : Trait Rat → Option Rat) : Json := J.ofList ofORat (tr.map f)
  J.obj [
    ("taxa", J.ofList J.ofNat b.taxa),
    ("mat", ofCols (tr.map (·.mat))),
    ("loc", J.ofList ofORat (tr.map (·.loc))),
    ("scale", J.ofList ofORat (tr.map (·.scale))),
    ("unscale", ofCols (unscale b)),
    ("tmax", stat (tmax true)), ("tmin", stat (tmin true)), ("tmean", stat (tmean true)),
    ("trange", stat (trange true)), ("tstd", stat (tstd sq true)), ("tvar", stat (tvar true)),
    ("s_tmax", stat (tmax false)), ("s_tmin", stat (tmin false)), ("s_tmean", stat (tmean false)),
    ("s_trange", stat (trange false)), ("s_tstd", stat (tstd sq false)), ("s_tvar", stat (tvar false)),
    ("targmax", J.ofList J.ofNat (tr.map targmax)),
    ("targmin", J.ofList J.ofNat (tr.map targmin))]

/-- the operation as the tree under test performs it: `repaired` = DenseBreedingValueMatrix overrides the
    five inherited routines (the proposed patch for D23-D25, `applyOpRepaired`), else the code as it is -/
def applyAs (repaired needs : Bool) (op : Op Rat) (b : BV Rat) : Except Err (BV Rat) :=
  if repaired then applyOpRepaired sq op b else applyOp sq needs op b

/-- snapshots after from_numpy and after each operation; stops at the first rejected operation -/
def snapshots (repaired needs : Bool) : List (OpIx Rat) → BV Rat → List Json
  | [], b => [snapshot b]
  | o :: ops, b => snapshot b ::
    match (withSelf (.bv b) o).norm b.taxa.length with
    | .error e => [J.obj [("err", J.ofStr (errTag e))]]
    | .ok op =>
      match applyAs repaired needs op b with
      | .ok b' => snapshots repaired needs ops b'
      | .error e => [J.obj [("err", J.ofStr (errTag e))]]

def opHistory : J.Op := fun j => do
  let c ← J.field j "cols" cols
  let t ← J.field j "taxa" (J.list J.nat)
  let needs ← J.fieldD j "needs_loc_scale" J.bool false
  let ops ← J.field j "ops" (J.list opOf)
  let repaired ← J.fieldD j "repaired" J.bool false
  pure (J.ofList id (snapshots repaired needs ops (fromNumpy sq c t)))

/-! ### the Spec oracle -/

abbrev Tol := Spec.Tol Rat
def absR : Rat → Rat := Spec.absR
def maxR : Rat → Rat → Rat := Spec.maxR

/-- what the implementation showed for one matrix state -/
structure ObsStep where
  raised : Bool
  nonfinite : Bool
  taxa : List Nat
  mat : List (Col Rat)
  unscale : List (Col Rat)
  loc : List (Option Rat)
  scale : List (Option Rat)
  tmax : List (Option Rat)
  tmin : List (Option Rat)
  tmean : List (Option Rat)
  trange : List (Option Rat)
  tstd : List (Option Rat)
  tvar : List (Option Rat)
  targmax : List Nat
  targmin : List Nat
  hasStats : Bool

def obsStep (j : Json) : J.R ObsStep := do
  let raised := (j.getObjVal? "raised").isOk
  if raised then
    pure { raised := true, nonfinite := false, taxa := [], mat := [], unscale := [], loc := [], scale := [],
           tmax := [], tmin := [], tmean := [], trange := [], tstd := [], tvar := [],
           targmax := [], targmin := [], hasStats := false }
  else
    let ol := J.list orat
    let hasStats := (j.getObjVal? "tmax").isOk
    pure {
      raised := false
      nonfinite := (← J.fieldD j "nonfinite" J.bool false)
      taxa := (← J.field j "taxa" (J.list J.nat))
      mat := (← J.field j "mat" cols)
      unscale := (← J.field j "unscale" cols)
      loc := (← J.field j "loc" ol)
      scale := (← J.field j "scale" ol)
      tmax := (← J.fieldD j "tmax" ol [])
      tmin := (← J.fieldD j "tmin" ol [])
      tmean := (← J.fieldD j "tmean" ol [])
      trange := (← J.fieldD j "trange" ol [])
      tstd := (← J.fieldD j "tstd" ol [])
      tvar := (← J.fieldD j "tvar" ol [])
      targmax := (← J.fieldD j "targmax" (J.list J.nat) [])
      targmin := (← J.fieldD j "targmin" (J.list J.nat) [])
      hasStats := hasStats }

/-- magnitude of a raw column: 1 + max |x| -/
def magOf (c : Col Rat) : Rat := (present c).foldl (fun m x => maxR m (absR x)) 0 + 1

def getO (l : List (Option Rat)) (j : Nat) : Option Rat := (l[j]?).join

/-- the observations of trait `j` -/
def obsCol (o : ObsStep) (j : Nat) : Spec.ObsCol Rat :=
  { mat := o.mat.getD j [], unscale := o.unscale.getD j [], loc := getO o.loc j, scale := getO o.scale j,
    tmax := getO o.tmax j, tmin := getO o.tmin j, tmean := getO o.tmean j, trange := getO o.trange j,
    tstd := getO o.tstd j, tvar := getO o.tvar j, targmax := o.targmax[j]?, targmin := o.targmin[j]? }

def clauseOrder : List String :=
  ["raised", "nonfinite", "taxa", "raw", "standardised", "standardised:constant",
   "stat:tmax", "stat:tmin", "stat:trange", "stat:tmean", "stat:targmax", "stat:targmin",
   "stat:tstd", "stat:tvar", "stat:tstd:constant", "stat:tvar:constant"]

/-- failing clauses of one matrix state, in `clauseOrder` -/
def specStep (tol : Tol) (mags : List Rat) (truth : Raw Rat) (o : ObsStep) (checkTaxa : Bool := true) :
    List String :=
  if o.raised then ["raised"] else
  let t := truth.1.length
  let n := truth.2.length
  let idx := List.range t
  let fails : List String :=
    (if o.nonfinite then ["nonfinite"] else []) ++
    (if o.taxa == truth.2 || !checkTaxa then [] else ["taxa"]) ++
    (if o.unscale.length == t && o.mat.length == t && o.loc.length == t && o.scale.length == t then
       (idx.map (fun j => Spec.specCol ratSqrt tol (mags.getD j 1) (n != 0 && o.hasStats)
                            (truth.1.getD j []) (obsCol o j))).flatten
     else ["raw", "standardised"])
  clauseOrder.filter (fun c => fails.contains c)

/-- magnitudes (1 + max |x|) of the columns, never decreasing along a history: rounding errors are
    relative to the largest values a trait has held so far -/
def updMags (mags : List Rat) (r : Raw Rat) : List Rat :=
  r.1.zipIdx.map (fun ci => maxR (mags.getD ci.2 1) (magOf ci.1))

/-- the clauses that hold in ANY state, against the implementation's own `unscale()`; `self:stat:tmean`
    (the stored location against the mean of `unscale()`) is reported as well -/
def selfStep (tol : Tol) (mags : List Rat) (o : ObsStep) : List String :=
  if o.raised then [] else
  let t := o.unscale.length
  if o.mat.length == t && o.loc.length == t && o.scale.length == t then
    ((List.range t).map (fun j =>
      let oc := obsCol o j
      let ws := oc.unscale.length != 0 && o.hasStats
      Spec.anyStateCol ratSqrt tol (mags.getD j 1) ws oc ++
        (if ws && oc.loc.isSome && oc.scale.isSome then Spec.selfMeanCol tol (mags.getD j 1) oc else []))).flatten.eraseDups
  else ["formula"]

/-- walk the history on the raw ground truth; one verdict per observed matrix state -/
def specWalk (tol : Tol) (checkTaxa : Bool) : List Rat → List (OpIx Rat) → Raw Rat → List ObsStep → List Json
  | _, _, _, [] => []
  | mags0, ops, r, o :: os =>
    let mags := updMags mags0 r
    let fails := specStep tol mags r o checkTaxa
    let self := selfStep tol (updMags mags (o.unscale, [])) o
    let here := J.obj [("ok", J.ofBool fails.isEmpty), ("fails", J.ofList J.ofStr fails),
                       ("self", J.ofList J.ofStr self),
                       ("constant_trait", J.ofBool (r.1.any (fun c => !(present c).isEmpty && varL (present c) == 0))),
                       ("has_nan", J.ofBool (r.1.any (fun c => c.any Option.isNone)))]
    match ops with
    | [] => [here]
    | o :: rest =>
      -- an operation that is not a valid request (shape / index): the property says nothing
      let invalid := [here, J.obj [("ok", J.ofBool true), ("fails", J.ofList J.ofStr []), ("invalid_op", J.ofBool true)]]
      match (withSelf (.nd r.1 r.2) o).norm r.2.length with
      | .error _ => invalid
      | .ok op =>
        match applyRaw op r with
        | .ok r' => here :: specWalk tol checkTaxa mags rest r' os
        | .error _ => invalid

def tolOf (j : Json) : J.R Tol := do
  pure { rel := (← J.fieldD j "rel" J.rat (1 / 1000000000)),
         abs := (← J.fieldD j "abs" J.rat (1 / 1000000000000)) }

def opSpec : J.Op := fun j => do
  let c ← J.field j "cols" cols
  let t ← J.field j "taxa" (J.list J.nat)
  let ops ← J.field j "ops" (J.list opOf)
  let obs ← J.field j "obs" (J.list obsStep)
  let checkTaxa ← J.fieldD j "check_taxa" J.bool true
  pure (J.ofList id (specWalk (← tolOf j) checkTaxa [] ops (c, t) obs))

/-! ### direct edits of one object (kind "state") -/

inductive EditIx where
  | edit (e : Edit Rat)
  | op (o : OpIx Rat)

def editOf (j : Json) : J.R EditIx := do
  match ← J.field j "e" J.str with
  | "setitem" => return .edit (.setItem (← J.field j "j" J.nat) (← J.field j "i" J.nat) (← J.field j "v" orat))
  | "setmat" => return .edit (.setMat (← J.field j "cols" cols))
  | "setloc" => return .edit (.setLoc (← J.field j "loc" (J.list orat)))
  | "setscale" => return .edit (.setScale (← J.field j "scale" (J.list orat)))
  | "op" => return .op (← opOf j)
  | other => J.fail s!"unknown edit {other}"

def EditIx.norm (n : Nat) : EditIx → Except Err (Edit Rat)
  | .edit e => .ok e
  | .op o => match o.norm n with
    | .ok o' => .ok (Edit.op o')
    | .error e => .error e

def stateSnaps (repaired needs : Bool) : List EditIx → BV Rat → List Json
  | [], b => [snapshot b]
  | e :: es, b => snapshot b ::
    match (match e with
           | .op o => EditIx.op (withSelf (.bv b) o)
           | e => e).norm b.taxa.length with
    | .error x => [J.obj [("err", J.ofStr (errTag x))]]
    | .ok ed =>
      match (match ed with
             | .op o => applyAs repaired needs o b
             | e => applyEdit sq needs e b) with
      | .ok b' => stateSnaps repaired needs es b'
      | .error x => [J.obj [("err", J.ofStr (errTag x))]]

def opState : J.Op := fun j => do
  let c ← J.field j "cols" cols
  let t ← J.field j "taxa" (J.list J.nat)
  let needs ← J.fieldD j "needs_loc_scale" J.bool false
  let es ← J.field j "edits" (J.list editOf)
  let repaired ← J.fieldD j "repaired" J.bool false
  pure (J.ofList id (stateSnaps repaired needs es (fromNumpy sq c t)))

/-- magnitude of what trait `j` of an observed state involves: 1 + max(|unscale|, |location|, |scale·mat|) -/
def magState (o : ObsStep) (j : Nat) : Rat :=
  let oc := obsCol o j
  let sm := match oc.scale with
    | some s => (present oc.mat).foldl (fun m x => maxR m (absR (s * x))) 0
    | none => 0
  let lm := match oc.loc with
    | some l => absR l
    | none => 0
  maxR (magOf oc.unscale) (maxR sm lm + 1)

/-- positions of the result of a taxa operation that hold a RETAINED taxon (`n` taxa before) -/
def retainedMask (n : Nat) (m : Nat) : Op Rat → List Bool
  | .append v => List.replicate n true ++ List.replicate v.taxa.length false
  | .incorp k v => List.replicate (min k n) true ++ List.replicate v.taxa.length false ++ List.replicate (n - k) true
  | _ => List.replicate m true

/-- failing clauses of the state after one edit, judged against the state observed before it.  A
    copy-on-manipulation request (`select/delete/insert/adjoin_taxa`, whose result REPLACES the object in this
    kind of case) must deliver `from_numpy` of the edited raw values `prev.unscale()` WHATEVER state the object
    was in (stale or re-assigned location / scale): the full `specStep` is evaluated on its result. -/
def stateStep (tol : Tol) (mags : List Rat) (prev : ObsStep) (e : EditIx) (o : ObsStep) : List String :=
  if o.raised then ["raised"] else
  let n := prev.taxa.length
  let t := prev.unscale.length
  let plan : Option (List Nat × List (Col Rat) × (Nat → List Bool) × Bool) :=
    match e with
    | .edit (.setItem j i _) =>
        some (prev.taxa, prev.unscale, fun jj => (List.range n).map (fun ii => !(jj == j && ii == i)), false)
    | .edit _ => some (prev.taxa, prev.unscale, fun _ => List.replicate n false, false)
    | .op ox =>
      match (withSelf (.nd prev.unscale prev.taxa) ox).norm n with
      | .error _ => none
      | .ok op =>
        match applyRaw op (prev.unscale, prev.taxa) with
        | .ok r' => some (r'.2, r'.1, fun _ => retainedMask n r'.2.length op, op.restandardises)
        | .error _ => none
  match plan with
  | none => []          -- not a valid request: the property says nothing
  | some (expTaxa, expCols, mask, full) =>
    let shapeOk := o.unscale.length == t && o.mat.length == t && o.loc.length == t && o.scale.length == t
    (if o.nonfinite then ["nonfinite"] else []) ++
    (if o.taxa == expTaxa then [] else ["taxa"]) ++
    (if !shapeOk then ["retained", "formula"] else
      ((List.range t).map (fun j =>
        let oc := obsCol o j
        let mag := mags.getD j 1
        (if Spec.rawOkMask tol mag (mask j) (expCols.getD j []) oc.unscale then [] else ["retained"]) ++
          Spec.anyStateCol ratSqrt tol mag (oc.unscale.length != 0 && o.hasStats) oc)).flatten.eraseDups) ++
    (if full then (specStep tol mags (expCols, expTaxa) o).filter (· != "taxa") else [])

def stateWalk (tol : Tol) : List Rat → ObsStep → List EditIx → List ObsStep → List Json
  | _, _, _, [] => []
  | _, _, [], _ :: _ => []
  | mags0, prev, e :: es, o :: os =>
    let t := prev.unscale.length
    let mags := (List.range t).map (fun j => maxR (mags0.getD j 1) (maxR (magState prev j) (magState o j)))
    let fails := stateStep tol mags prev e o
    J.obj [("ok", J.ofBool fails.isEmpty), ("fails", J.ofList J.ofStr fails)] ::
      (if o.raised then [] else stateWalk tol mags o es os)

def opSpecState : J.Op := fun j => do
  let c ← J.field j "cols" cols
  let t ← J.field j "taxa" (J.list J.nat)
  let es ← J.field j "edits" (J.list editOf)
  let obs ← J.field j "obs" (J.list obsStep)
  let tol ← tolOf j
  match obs with
  | [] => pure (J.ofList id [])
  | o0 :: os =>
    let mags := updMags [] (c, t)
    let f0 := specStep tol mags (c, t) o0
    pure (J.ofList id (J.obj [("ok", J.ofBool f0.isEmpty), ("fails", J.ofList J.ofStr f0)] ::
      (if o0.raised then [] else stateWalk tol mags o0 es os)))

/-! ### DenseScaledMatrix -/

def traitsOf (j : Json) : J.R (List (Trait Rat)) := do
  let m ← J.field j "mat" cols
  let l ← J.field j "loc" (J.list orat)
  let s ← J.field j "scale" (J.list orat)
  pure ((List.zip m (List.zip l s)).map (fun p => { mat := p.1, loc := p.2.1, scale := p.2.2 }))

def ofTraits (ts : List (Trait Rat)) : Json :=
  J.obj [("mat", ofCols (ts.map (·.mat))), ("loc", J.ofList ofORat (ts.map (·.loc))),
         ("scale", J.ofList ofORat (ts.map (·.scale)))]

def opScaled : J.Op := fun j => do
  let ts ← traitsOf j
  let x ← J.field j "x" cols
  let tx := List.zipWith transformCol ts x
  pure <| J.obj [
    ("transform", ofCols tx),
    ("untransform", ofCols (List.zipWith untransformCol ts tx)),
    ("unscale", ofCols (ts.map scaledUnscaleCol)),
    ("rescale", ofTraits (ts.map (rescaleCol sq))),
    ("unscale_inplace", ofTraits (ts.map unscaleInplaceCol))]

def opSpecScaled : J.Op := fun j => do
  let ts ← traitsOf j
  let x ← J.field j "x" cols
  let o ← J.field j "obs" pure
  let tol : Tol := { rel := (← J.fieldD j "rel" J.rat (1 / 1000000000)),
                     abs := (← J.fieldD j "abs" J.rat (1 / 1000000000000)) }
  let truth := ts.map scaledUnscaleCol
  let t := ts.length
  let idx := List.range t
  let u ← J.field o "untransform" cols
  let un1 ← J.field o "unscale_after_rescale" cols
  let rs ← J.field o "rescale" traitsOf
  let ui ← J.field o "unscale_inplace" traitsOf
  let same (a b : List (Col Rat)) : Bool :=
    a.length == b.length && (List.zip a b).all (fun p => Spec.rawOk tol (maxR (magOf p.1) (magOf p.2)) p.1 p.2)
  let fails : List String :=
    (if same x u then [] else ["roundtrip"]) ++
    (if same truth un1 then [] else ["rescale_raw"]) ++
    (if rs.length == t then idx.filterMap (fun k =>
        match rs[k]? with
        | some r => (Spec.standardisedCol ratSqrt tol (magOf (truth.getD k [])) (truth.getD k []) r.mat (un1.getD k []) r.loc r.scale).map (fun s => "rescale_" ++ s)
        | none => some "rescale_standardised") else ["rescale_standardised"]) ++
    (if same truth (ui.map (·.mat)) && ui.all (fun r => r.loc == some 0 && r.scale == some 1) then []
     else ["unscale_inplace"])
  pure <| J.obj [("ok", J.ofBool fails.isEmpty), ("fails", J.ofList J.ofStr fails.eraseDups)]

/-! ### DenseScaledMatrix call histories on a heap of arrays (kind "scaledh") -/

open Scaled in
def srcOf (j : Json) : J.R (Src Rat) := do
  if (j.getObjVal? "new").isOk then return .new (← J.field j "new" cols)
  else return .ref (← J.field j "ref" J.nat)

open Scaled in
def stepOf (j : Json) : J.R (Step Rat) := do
  match ← J.field j "op" J.str with
  | "transform" => return .transform (← srcOf j) (← J.field j "copy" J.bool)
  | "untransform" => return .untransform (← srcOf j) (← J.field j "copy" J.bool)
  | "rescale" => return .rescale (← J.field j "inplace" J.bool)
  | "unscale" => return .unscale (← J.field j "inplace" J.bool)
  | other => J.fail s!"unknown DenseScaledMatrix call {other}"

def ofHeap (h : Scaled.Heap Rat) (res : Nat) : Json :=
  J.obj [("res", J.ofNat res), ("mat", J.ofNat h.mat), ("loc", J.ofNat h.loc), ("scale", J.ofNat h.scale),
         ("arrs", J.ofList ofCols h.arrs)]

def heap0 (j : Json) : J.R (Scaled.Heap Rat) := do
  let a ← J.field j "arrs0" (J.list cols)
  pure { arrs := a, mat := 0, loc := 1, scale := 2 }

def opScaledH : J.Op := fun j => do
  let h ← heap0 j
  let steps ← J.field j "steps" (J.list stepOf)
  pure (J.ofList (fun r => ofHeap r.1 r.2) (Scaled.trace sq h steps))

structure SObs where
  raised : Bool
  res : Nat
  heap : Scaled.Heap Rat

def sObs (j : Json) : J.R SObs := do
  if (j.getObjVal? "raised").isOk then
    pure { raised := true, res := 0, heap := { arrs := [], mat := 0, loc := 0, scale := 0 } }
  else
    pure { raised := false, res := (← J.field j "res" J.nat),
           heap := { arrs := (← J.field j "arrs" (J.list cols)), mat := (← J.field j "mat" J.nat),
                     loc := (← J.field j "loc" J.nat), scale := (← J.field j "scale" J.nat) } }

/-- 1 + the largest magnitude trait `k` involves: the values, the location, scale·stored -/
def magTrait (tr : Trait Rat) (extra : Col Rat) : Rat :=
  let sm := match tr.scale with
    | some s => (present tr.mat).foldl (fun m x => maxR m (absR (s * x))) 0
    | none => 0
  let lm := match tr.loc with
    | some l => absR l
    | none => 0
  maxR (magOf extra) (maxR sm lm + 1)

def sameCols (tol : Tol) (mags : List Rat) (a b : List (Col Rat)) : Bool :=
  a.length == b.length && (List.zip (List.range a.length) (List.zip a b)).all
    (fun p => Spec.rawOk tol (mags.getD p.1 1) p.2.1 p.2.2)

open Scaled in
/-- failing clauses of one DenseScaledMatrix call, judged against the state observed before it -/
def scaledStep (tol : Tol) (prev : Heap Rat) (st : Step Rat) (o : SObs) : List String :=
  if o.raised then ["raised"] else
  let before := prev.traits
  let after := o.heap.traits
  let t := before.length
  let res := o.heap.get o.res
  let params (ts : List (Trait Rat)) := ts.map (fun tr => (tr.loc, tr.scale))
  let idx := List.range t
  match st with
  | .transform x copy =>
      let (h1, xi) := prev.src x
      let xb := h1.get xi
      let mags := idx.map (fun k => magTrait (before.getD k ⟨[], none, none⟩) (xb.getD k []))
      -- result·scale + location reproduces x; with a NaN location / scale (trait without any value) all is NaN
      let want := List.zipWith (fun tr p => if tr.loc.isSome && tr.scale.isSome then p.1 else p.2.map (fun _ => none))
                    before (List.zip xb res)
      (if res.length == t && sameCols tol mags want (List.zipWith untransformCol before res) then [] else ["transform"]) ++
      (if copy && o.heap.get xi != xb then ["copy_mutated"] else []) ++
      (if xi == prev.mat && !copy then (if params after == params before then [] else ["state_changed"])
       else (if after == before then [] else ["state_changed"]))
  | .untransform x copy =>
      let (h1, xi) := prev.src x
      let xb := h1.get xi
      let want := List.zipWith untransformCol before xb
      let mags := idx.map (fun k => magTrait (before.getD k ⟨[], none, none⟩) (want.getD k []))
      (if res.length == t && sameCols tol mags want res then [] else ["untransform"]) ++
      (if copy && o.heap.get xi != xb then ["copy_mutated"] else []) ++
      (if xi == prev.mat && !copy then (if params after == params before then [] else ["state_changed"])
       else (if after == before then [] else ["state_changed"]))
  | .rescale inplace =>
      let truth := before.map scaledUnscaleCol
      let mags := idx.map (fun k => magTrait (before.getD k ⟨[], none, none⟩) (truth.getD k []))
      if inplace then
        let un1 := after.map scaledUnscaleCol
        (if sameCols tol mags truth un1 then [] else ["rescale_raw"]) ++
        (if after.length == t then idx.filterMap (fun k =>
            match after[k]? with
            | some r => (Spec.standardisedCol ratSqrt tol (mags.getD k 1) (truth.getD k []) r.mat (un1.getD k []) r.loc r.scale).map
                          (fun s => "rescale_" ++ s)
            | none => some "rescale_standardised") else ["rescale_standardised"]) ++
        (if res == after.map (·.mat) then [] else ["result"])
      else
        let exact := before.map (rescaleCol ratSqrt)
        let back := List.zipWith untransformCol exact res
        (if res.length == t && sameCols tol mags truth back then [] else ["rescale_raw"]) ++
        (idx.filterMap (fun k =>
            match exact[k]? with
            | some r => (Spec.standardisedCol ratSqrt tol (mags.getD k 1) (truth.getD k []) (res.getD k []) (back.getD k [])
                          r.loc r.scale).map (fun s => "rescale_" ++ s)
            | none => some "rescale_standardised")) ++
        (if after == before then [] else ["state_changed"])
  | .unscale inplace =>
      let truth := before.map scaledUnscaleCol
      let mags := idx.map (fun k => magTrait (before.getD k ⟨[], none, none⟩) (truth.getD k []))
      (if sameCols tol mags truth res then [] else ["unscale"]) ++
      (if inplace then
         (if after.length == t && after.all (fun r => r.loc == some 0 && r.scale == some 1) && res == after.map (·.mat)
          then [] else ["unscale_inplace"])
       else (if after == before then [] else ["state_changed"]))

def scaledWalk (tol : Tol) : Scaled.Heap Rat → List (Scaled.Step Rat) → List SObs → List Json
  | _, _, [] => []
  | _, [], _ :: _ => []
  | prev, st :: sts, o :: os =>
    let fails := (scaledStep tol prev st o).eraseDups
    J.obj [("ok", J.ofBool fails.isEmpty), ("fails", J.ofList J.ofStr fails)] ::
      (if o.raised then [] else scaledWalk tol o.heap sts os)

def opSpecScaledH : J.Op := fun j => do
  let h ← heap0 j
  let steps ← J.field j "steps" (J.list stepOf)
  let obs ← J.field j "obs" (J.list sObs)
  pure (J.ofList id (scaledWalk (← tolOf j) h steps obs))

def ops : List (String × J.Op) :=
  [("c15.history", opHistory), ("c15.spec", opSpec),
   ("c15.scaled", opScaled), ("c15.spec_scaled", opSpecScaled),
   ("c15.state", opState), ("c15.spec_state", opSpecState),
   ("c15.scaledh", opScaledH), ("c15.spec_scaledh", opSpecScaledH)]

end Drv.C15
