import PybropsModel.J
import PybropsModel.Model.BVMat
import PybropsModel.Model.BVMatSpec
open Lean

/-
Driver ops of C15.
  c15.history      model: the snapshots (stored matrix, location, scale, unscale(), all statistics)
                   after from_numpy and after every taxa operation of a history
  c15.spec         Spec oracle: the property's decidable predicate evaluated on the
                   IMPLEMENTATION's observations against the raw ground truth (`BVMat.runRaw`)
  c15.scaled       model of DenseScaledMatrix.transform/untransform/rescale/unscale
  c15.spec_scaled  Spec oracle for the same
JSON: matrices are trait-major (list of columns), NaN is "nan" or null.
-/
namespace Drv.C15
open BVMat

/-! ### codec -/

def orat (j : Json) : J.R (Option Rat) :=
  match j with
  | .null => .ok none
  | .str "nan" => .ok none
  | _ => some <$> J.rat j

def cols (j : Json) : J.R (List (Col Rat)) := J.list (J.list orat) j

def ofORat : Option Rat → Json := J.ofOpt J.ofRat
def ofCols : List (Col Rat) → Json := J.ofList (J.ofList ofORat)

def sq : Rat → Rat := ratSqrt

def operand (j : Json) : J.R (Operand Rat) := do
  let c ← J.field j "cols" cols
  let t ← J.field j "taxa" (J.list J.nat)
  let kind ← J.field j "as" J.str
  if kind == "bv" then pure (.bv (fromNumpy sq c t)) else pure (.nd c t)

def optInt (j : Json) : J.R (Option Int) :=
  match j with
  | .null => .ok none
  | _ => some <$> J.int j

/-- the `obj` argument of numpy.delete / numpy.insert as the caller wrote it:
    {"kind":"int","i":-1} | {"kind":"list","is":[…]} | {"kind":"slice","a":…,"b":…,"c":…} | {"kind":"mask","m":[…]} -/
def delIdx (j : Json) : J.R LabelMat.DelIdx := do
  match ← J.field j "kind" J.str with
  | "int" => return .int (← J.field j "i" J.int)
  | "list" => return .list (← J.field j "is" (J.list J.int))
  | "slice" => return .slice (← J.fieldD j "a" optInt none) (← J.fieldD j "b" optInt none) (← J.fieldD j "c" optInt none)
  | "mask" => return .mask (← J.field j "m" (J.list J.bool))
  | other => J.fail s!"unknown index kind {other}"

def insIdx (j : Json) : J.R LabelMat.InsIdx := do
  match ← J.field j "kind" J.str with
  | "int" => return .int (← J.field j "i" J.int)
  | "list" => return .list (← J.field j "is" (J.list J.int))
  | "slice" => return .slice (← J.fieldD j "a" optInt none) (← J.fieldD j "b" optInt none) (← J.fieldD j "c" optInt none)
  | other => J.fail s!"unknown insert index kind {other}"

def opOf (j : Json) : J.R (OpIx Rat) := do
  let name ← J.field j "op" J.str
  let hasObj := (j.getObjVal? "obj").isOk
  match name with
  | "select" => return .select (← J.field j "idx" (J.list J.int))
  | "delete" =>
      if hasObj then return .delete (← J.field j "obj" delIdx)
      else return .plain (.delete (← J.field j "idx" (J.list J.nat)))
  | "reorder" => return .plain (.reorder (← J.field j "idx" (J.list J.nat)))
  | "remove" => return .plain (.remove (← J.field j "idx" (J.list J.nat)))
  | "insert" =>
      if hasObj then return .insert (← J.field j "obj" insIdx) (← J.field j "vals" operand)
      else return .plain (.insert (← J.field j "k" J.nat) (← J.field j "vals" operand))
  | "incorp" => return .plain (.incorp (← J.field j "k" J.nat) (← J.field j "vals" operand))
  | "adjoin" => return .plain (.adjoin (← J.field j "vals" operand))
  | "append" => return .plain (.append (← J.field j "vals" operand))
  | "concat" =>
      let os ← J.field j "others" (J.list (fun o => do
        let c ← J.field o "cols" cols
        let t ← J.field o "taxa" (J.list J.nat)
        pure (fromNumpy sq c t)))
      return .plain (.concat os)
  | other => J.fail s!"unknown taxa op {other}"

def errTag : Err → String
  | .shape => "value"
  | .index => "index"
  | .type => "type"
  | .unsupported => "unsupported"

/-! ### model snapshots -/

def snapshot (b : BV Rat) : Json :=
  let tr := b.traits
  let stat (f : Trait Rat → Option Rat) : Json := J.ofList ofORat (tr.map f)
  J.obj [
    ("taxa", J.ofList J.ofNat b.taxa),
    ("mat", ofCols (tr.map (·.mat))),
    ("loc", J.ofList ofORat (tr.map (·.loc))),
    ("scale", J.ofList ofORat (tr.map (·.scale))),
    ("unscale", ofCols (unscale b)),
    ("tmax", stat (tmax true)), ("tmin", stat (tmin true)), ("tmean", stat (tmean true)),
    ("trange", stat (trange true)), ("tstd", stat (tstd sq true)), ("tvar", stat (tvar true)),
    ("s_tmax", stat (tmax false)), ("s_tmin", stat (tmin false)), ("s_tmean", stat (tmean false)),
    ("s_trange", stat (trange false)), ("s_tstd", stat (tstd sq false)), ("s_tvar", stat (tvar false)),
    ("targmax", J.ofList J.ofNat (tr.map targmax)),
    ("targmin", J.ofList J.ofNat (tr.map targmin))]

/-- snapshots after from_numpy and after each operation; stops at the first rejected operation -/
def snapshots (needs : Bool) : List (OpIx Rat) → BV Rat → List Json
  | [], b => [snapshot b]
  | o :: ops, b => snapshot b ::
    match o.norm b.taxa.length with
    | .error e => [J.obj [("err", J.ofStr (errTag e))]]
    | .ok op =>
      match applyOp sq needs op b with
      | .ok b' => snapshots needs ops b'
      | .error e => [J.obj [("err", J.ofStr (errTag e))]]

def opHistory : J.Op := fun j => do
  let c ← J.field j "cols" cols
  let t ← J.field j "taxa" (J.list J.nat)
  let needs ← J.fieldD j "needs_loc_scale" J.bool false
  let ops ← J.field j "ops" (J.list opOf)
  pure (J.ofList id (snapshots needs ops (fromNumpy sq c t)))

/-! ### the Spec oracle -/

abbrev Tol := Spec.Tol Rat
def absR : Rat → Rat := Spec.absR
def maxR : Rat → Rat → Rat := Spec.maxR

/-- what the implementation showed for one matrix state -/
structure ObsStep where
  raised : Bool
  nonfinite : Bool
  taxa : List Nat
  mat : List (Col Rat)
  unscale : List (Col Rat)
  loc : List (Option Rat)
  scale : List (Option Rat)
  tmax : List (Option Rat)
  tmin : List (Option Rat)
  tmean : List (Option Rat)
  trange : List (Option Rat)
  tstd : List (Option Rat)
  tvar : List (Option Rat)
  targmax : List Nat
  targmin : List Nat
  hasStats : Bool

def obsStep (j : Json) : J.R ObsStep := do
  let raised := (j.getObjVal? "raised").isOk
  if raised then
    pure { raised := true, nonfinite := false, taxa := [], mat := [], unscale := [], loc := [], scale := [],
           tmax := [], tmin := [], tmean := [], trange := [], tstd := [], tvar := [],
           targmax := [], targmin := [], hasStats := false }
  else
    let ol := J.list orat
    let hasStats := (j.getObjVal? "tmax").isOk
    pure {
      raised := false
      nonfinite := (← J.fieldD j "nonfinite" J.bool false)
      taxa := (← J.field j "taxa" (J.list J.nat))
      mat := (← J.field j "mat" cols)
      unscale := (← J.field j "unscale" cols)
      loc := (← J.field j "loc" ol)
      scale := (← J.field j "scale" ol)
      tmax := (← J.fieldD j "tmax" ol [])
      tmin := (← J.fieldD j "tmin" ol [])
      tmean := (← J.fieldD j "tmean" ol [])
      trange := (← J.fieldD j "trange" ol [])
      tstd := (← J.fieldD j "tstd" ol [])
      tvar := (← J.fieldD j "tvar" ol [])
      targmax := (← J.fieldD j "targmax" (J.list J.nat) [])
      targmin := (← J.fieldD j "targmin" (J.list J.nat) [])
      hasStats := hasStats }

/-- magnitude of a raw column: 1 + max |x| -/
def magOf (c : Col Rat) : Rat := (present c).foldl (fun m x => maxR m (absR x)) 0 + 1

def getO (l : List (Option Rat)) (j : Nat) : Option Rat := (l[j]?).join

/-- the observations of trait `j` -/
def obsCol (o : ObsStep) (j : Nat) : Spec.ObsCol Rat :=
  { mat := o.mat.getD j [], unscale := o.unscale.getD j [], loc := getO o.loc j, scale := getO o.scale j,
    tmax := getO o.tmax j, tmin := getO o.tmin j, tmean := getO o.tmean j, trange := getO o.trange j,
    tstd := getO o.tstd j, tvar := getO o.tvar j, targmax := o.targmax[j]?, targmin := o.targmin[j]? }

def clauseOrder : List String :=
  ["raised", "nonfinite", "taxa", "raw", "standardised", "standardised:constant", "standardised:constant:inexact_mean",
   "stat:tmax", "stat:tmin", "stat:trange", "stat:tmean", "stat:targmax", "stat:targmin",
   "stat:tstd", "stat:tvar", "stat:tstd:constant", "stat:tvar:constant"]

/-- failing clauses of one matrix state, in `clauseOrder` -/
def specStep (tol : Tol) (mags : List Rat) (truth : Raw Rat) (o : ObsStep) : List String :=
  if o.raised then ["raised"] else
  let t := truth.1.length
  let n := truth.2.length
  let idx := List.range t
  let fails : List String :=
    (if o.nonfinite then ["nonfinite"] else []) ++
    (if o.taxa == truth.2 then [] else ["taxa"]) ++
    (if o.unscale.length == t && o.mat.length == t && o.loc.length == t && o.scale.length == t then
       (idx.map (fun j => Spec.specCol ratSqrt tol (mags.getD j 1) (n != 0 && o.hasStats)
                            (truth.1.getD j []) (obsCol o j))).flatten
     else ["raw", "standardised"])
  clauseOrder.filter (fun c => fails.contains c)

/-- magnitudes (1 + max |x|) of the columns, never decreasing along a history: rounding errors are
    relative to the largest values a trait has held so far -/
def updMags (mags : List Rat) (r : Raw Rat) : List Rat :=
  r.1.zipIdx.map (fun ci => maxR (mags.getD ci.2 1) (magOf ci.1))

/-- walk the history on the raw ground truth; one verdict per observed matrix state -/
def specWalk (tol : Tol) : List Rat → List (OpIx Rat) → Raw Rat → List ObsStep → List Json
  | _, _, _, [] => []
  | mags0, ops, r, o :: os =>
    let mags := updMags mags0 r
    let fails := specStep tol mags r o
    let here := J.obj [("ok", J.ofBool fails.isEmpty), ("fails", J.ofList J.ofStr fails),
                       ("constant_trait", J.ofBool (r.1.any (fun c => !(present c).isEmpty && varL (present c) == 0))),
                       ("has_nan", J.ofBool (r.1.any (fun c => c.any Option.isNone)))]
    match ops with
    | [] => [here]
    | o :: rest =>
      -- an operation that is not a valid request (shape / index): the property says nothing
      let invalid := [here, J.obj [("ok", J.ofBool true), ("fails", J.ofList J.ofStr []), ("invalid_op", J.ofBool true)]]
      match o.norm r.2.length with
      | .error _ => invalid
      | .ok op =>
        match applyRaw op r with
        | .ok r' => here :: specWalk tol mags rest r' os
        | .error _ => invalid

def opSpec : J.Op := fun j => do
  let c ← J.field j "cols" cols
  let t ← J.field j "taxa" (J.list J.nat)
  let ops ← J.field j "ops" (J.list opOf)
  let obs ← J.field j "obs" (J.list obsStep)
  let tol : Tol := { rel := (← J.fieldD j "rel" J.rat (1 / 1000000000)),
                     abs := (← J.fieldD j "abs" J.rat (1 / 1000000000000)) }
  pure (J.ofList id (specWalk tol [] ops (c, t) obs))

/-! ### DenseScaledMatrix -/

def traitsOf (j : Json) : J.R (List (Trait Rat)) := do
  let m ← J.field j "mat" cols
  let l ← J.field j "loc" (J.list orat)
  let s ← J.field j "scale" (J.list orat)
  pure ((List.zip m (List.zip l s)).map (fun p => { mat := p.1, loc := p.2.1, scale := p.2.2 }))

def ofTraits (ts : List (Trait Rat)) : Json :=
  J.obj [("mat", ofCols (ts.map (·.mat))), ("loc", J.ofList ofORat (ts.map (·.loc))),
         ("scale", J.ofList ofORat (ts.map (·.scale)))]

def opScaled : J.Op := fun j => do
  let ts ← traitsOf j
  let x ← J.field j "x" cols
  let tx := List.zipWith transformCol ts x
  pure <| J.obj [
    ("transform", ofCols tx),
    ("untransform", ofCols (List.zipWith untransformCol ts tx)),
    ("unscale", ofCols (ts.map scaledUnscaleCol)),
    ("rescale", ofTraits (ts.map (rescaleCol sq))),
    ("unscale_inplace", ofTraits (ts.map unscaleInplaceCol))]

def opSpecScaled : J.Op := fun j => do
  let ts ← traitsOf j
  let x ← J.field j "x" cols
  let o ← J.field j "obs" pure
  let tol : Tol := { rel := (← J.fieldD j "rel" J.rat (1 / 1000000000)),
                     abs := (← J.fieldD j "abs" J.rat (1 / 1000000000000)) }
  let truth := ts.map scaledUnscaleCol
  let t := ts.length
  let idx := List.range t
  let u ← J.field o "untransform" cols
  let un1 ← J.field o "unscale_after_rescale" cols
  let rs ← J.field o "rescale" traitsOf
  let ui ← J.field o "unscale_inplace" traitsOf
  let same (a b : List (Col Rat)) : Bool :=
    a.length == b.length && (List.zip a b).all (fun p => Spec.rawOk tol (maxR (magOf p.1) (magOf p.2)) p.1 p.2)
  let fails : List String :=
    (if same x u then [] else ["roundtrip"]) ++
    (if same truth un1 then [] else ["rescale_raw"]) ++
    (if rs.length == t then idx.filterMap (fun k =>
        match rs[k]? with
        | some r => (Spec.standardisedCol ratSqrt tol (magOf (truth.getD k [])) (truth.getD k []) r.mat (un1.getD k []) r.loc r.scale).map (fun s => "rescale_" ++ s)
        | none => some "rescale_standardised") else ["rescale_standardised"]) ++
    (if same truth (ui.map (·.mat)) && ui.all (fun r => r.loc == some 0 && r.scale == some 1) then []
     else ["unscale_inplace"])
  pure <| J.obj [("ok", J.ofBool fails.isEmpty), ("fails", J.ofList J.ofStr fails.eraseDups)]

def ops : List (String × J.Op) :=
  [("c15.history", opHistory), ("c15.spec", opSpec),
   ("c15.scaled", opScaled), ("c15.spec_scaled", opSpecScaled)]

end Drv.C15
