import PybropsModel.J
import PybropsModel.Model.Store
import PybropsModel.Model.StoreCopy
import PybropsModel.Model.StoreVcf
import PybropsModel.Model.StoreFrame
import PybropsModel.Model.StoreGraph
import PybropsModel.Model.StoreSpec
import PybropsModel.Model.StoreFrameK
open Lean

namespace Drv.C16
open Store

/-! JSON codec: dataset = {"dt": "i8|i32|i64|f32|f64|bool|str|bytes", "sh": [..], "v": [flat values]} -/

def dtypeOfStr : String → J.R DType
  | "i8" => pure .i8 | "i32" => pure .i32 | "i64" => pure .i64 | "f32" => pure .f32 | "f64" => pure .f64
  | "bool" => pure .bool
  | "str" => pure .str | "bytes" => pure .bytes
  | s => J.fail s!"bad dtype {s}"

def strOfDtype : DType → String
  | .i8 => "i8" | .i32 => "i32" | .i64 => "i64" | .f32 => "f32" | .f64 => "f64" | .bool => "bool"
  | .str => "str" | .bytes => "bytes"

def ds (j : Json) : J.R DS := do
  let dt ← dtypeOfStr (← J.field j "dt" J.str)
  let sh ← J.field j "sh" (J.list J.nat)
  match dt with
  | .f64 | .f32 => do let v ← J.field j "v" (J.list J.rat); pure ⟨dt, sh, [], v, []⟩
  | .str | .bytes => do let v ← J.field j "v" (J.list J.str); pure ⟨dt, sh, [], [], v⟩
  | _ => do let v ← J.field j "v" (J.list J.int); pure ⟨dt, sh, v, [], []⟩

def ofDS (d : DS) : Json :=
  let v := match d.dtype with
    | .f64 | .f32 => J.ofList J.ofRat d.rats
    | .str | .bytes => J.ofList J.ofStr d.strs
    | _ => J.ofList J.ofInt d.ints
  J.obj [("dt", J.ofStr (strOfDtype d.dtype)), ("sh", J.ofList J.ofNat d.shape), ("v", v)]

def item (j : Json) : J.R Item :=
  match j with
  | .null => pure .none
  | .str "bad" => pure .bad
  | _ =>
    match j.getObjVal? "dict" with
    | .ok (.obj kvs) => do
      let l ← kvs.toList.mapM (fun (k, v) => do let d ← J.opt ds v; pure (k, d))
      pure (.dict l)
    | .ok _ => J.fail "dict: not an object"
    | .error _ => do let d ← ds j; pure (.data d)

def ofItem : Item → Json
  | .none => .null
  | .bad => .str "bad"
  | .data d => ofDS d
  | .dict kvs => J.obj [("dict", J.obj (kvs.map (fun (k, d) => (k, J.ofOpt ofDS d))))]

/-- object in schema order (the order in which `to_hdf5` lists the fields); missing key = None -/
def objOf (sch : Schema) (j : Json) : J.R Obj :=
  sch.fields.mapM (fun fd => do
    match j.getObjVal? fd.key with
    | .ok v => do let it ← item v; pure (fd.key, it)
    | .error _ => pure (fd.key, Item.none))

def ofObj (o : Obj) : Json := J.obj (o.map (fun (k, it) => (k, ofItem it)))

def ofErr (e : Err) : Json := J.obj [("err", J.ofStr (reprStr e))]

def schemaR (name : String) (ctx : Nat) : J.R Schema :=
  match schemaOf name ctx with
  | some s => pure s
  | none => J.fail s!"unknown class {name}"

/-- `c16.h5`: a history of `to_hdf5` / `from_hdf5` calls on one file.
    ops: {"t":"w","cls":..,"group":null|str,"ow":bool,"obj":{..}} | {"t":"r","cls":..,"group":..,"ctx":n}
    answer per op: "ok" | {"err":tag} | {"obj":{..}} -/
def opH5 : J.Op := fun j => do
  -- "prerepair": ["D8"] / ["D29"] / ["D30"] selects the writer / dictionary reader / protocol writer before the respective fix
  let pre ← J.fieldD j "prerepair" (J.list J.str) []
  let fixed := !pre.contains "D8"
  let dec := !pre.contains "D29"
  let ops ← J.field j "ops" (J.list pure)
  let mut f : File := []
  let mut out : Array Json := #[]
  for op in ops do
    let t ← J.field op "t" J.str
    let cls ← J.field op "cls" J.str
    let ctx ← J.fieldD op "ctx" J.nat 0
    let sch ← schemaR cls ctx
    let g ← J.field op "group" (J.opt J.str)
    if t == "w" then
      let ow ← J.fieldD op "ow" J.bool true
      let o ← objOf sch (← J.field op "obj" pure)
      -- TruePhenotyping has a `to_hdf5` of its own shape (repair of D30: the named group is created)
      let (f', e) := if cls == "tp" then (if pre.contains "D30" then toHdf5TPPrerepair f g ow else toHdf5TP f g ow)
                     else toHdf5G fixed f g ow o
      f := f'
      out := out.push (match e with | none => J.ofStr "ok" | some e => ofErr e)
    else
      match fromHdf5G dec sch f g with
      | .ok o => out := out.push (J.obj [("obj", ofObj o)])
      | .error e => out := out.push (ofErr e)
  pure (Json.arr out)

/-- object without a schema: fields in name order -/
def objOfAny (j : Json) : J.R Obj :=
  match j with
  | .obj kvs => kvs.toList.mapM (fun (k, v) => do let it ← item v; pure (k, it))
  | _ => J.fail "object expected"

/-- **Spec oracle** `c16.spec_obj`: observable equality of the object read back (`got`) and the
    object last written (`want`), field by field over the class's schema: dtype, shape, values -/
def opSpecObj : J.Op := fun j => do
  let cls ← J.field j "cls" J.str
  let ctx ← J.fieldD j "ctx" J.nat 0
  let (want, got) ← if cls == "any" then do
      let w ← objOfAny (← J.field j "want" pure)
      let g ← objOfAny (← J.field j "got" pure)
      pure (w, g)
    else do
      let sch ← schemaR cls ctx
      let w ← objOf sch (← J.field j "want" pure)
      let g ← objOf sch (← J.field j "got" pure)
      pure (w, g)
  -- the oracle itself lives in Model/StoreSpec.lean (`specObj_iff`, `specObj_refl` in Lemmas/StoreSpecLemmas.lean)
  pure <| J.obj [("ok", J.ofBool (StoreSpec.specObj want got)),
                 ("diff", J.ofList J.ofStr (StoreSpec.diffKeys want got))]

/-- `c16.construct`: does the modelled constructor accept the object, and what does it store -/
def opConstruct : J.Op := fun j => do
  let cls ← J.field j "cls" J.str
  let ctx ← J.fieldD j "ctx" J.nat 0
  let sch ← schemaR cls ctx
  let o ← objOf sch (← J.field j "obj" pure)
  match sch.construct o with
  | .ok o' => pure (J.obj [("obj", ofObj o')])
  | .error e => pure (ofErr e)

def opParsePath : J.Op := fun j => do
  let s ← J.field j "s" J.str
  pure (J.ofList J.ofStr (parsePath s))

/-- `c16.valid`: the decidable hypothesis `valid` of the round-trip theorems -/
def opValid : J.Op := fun j => do
  let cls ← J.field j "cls" J.str
  let ctx ← J.fieldD j "ctx" J.nat 0
  let sch ← schemaR cls ctx
  let o ← objOf sch (← J.field j "obj" pure)
  pure <| J.obj [("valid", J.ofBool (valid sch o)), ("prerepair", J.ofBool (validPrerepair sch o))]

/-- `c16.copy`: lay the object out on a heap, copy it (shallow / deep), then overwrite every buffer
    the copy can reach with `bump` of its contents -/
def opCopy : J.Op := fun j => do
  let deep ← J.field j "deep" J.bool
  let o ← objOfAny (← J.field j "obj" pure)
  let (h, ho) := StoreCopy.allocObj [] o
  let (h', ho') := StoreCopy.copyObj deep h ho
  let targets := (StoreCopy.refs ho').eraseDups
  let h'' := StoreCopy.pokes h' (targets.map (fun a => (a, StoreCopy.bump (StoreCopy.deref h' a))))
  let shared := (StoreCopy.refs ho').any (fun a => (StoreCopy.refs ho).contains a)
  pure <| J.obj [("copy", ofObj (StoreCopy.view h' ho')), ("src_before", ofObj (StoreCopy.view h' ho)),
                 ("shared", J.ofBool shared),
                 ("src_after", ofObj (StoreCopy.view h'' ho)), ("copy_after", ofObj (StoreCopy.view h'' ho'))]

/-- `c16.copy_hist`: one live object, a history of copies (`{"t":"copy","deep":b}`) and in-place changes
    (`{"t":"poke","who":i,"k":field}`: every element of the buffer behind field `k` of the source (`who = -1`) or of
    the `i`-th copy is changed by `bump`).  Answer: per copy the views of copy and source at that moment, and the
    views of everything at the end. -/
def opCopyHist : J.Op := fun j => do
  let o ← objOfAny (← J.field j "obj" pure)
  let ops ← J.field j "ops" (J.list pure)
  let (h, ho) := StoreCopy.allocObj [] o
  let mut s : StoreCopy.CState := ⟨h, ho, []⟩
  let mut taken : List Json := []
  for op in ops do
    let t ← J.field op "t" J.str
    if t == "copy" then
      let deep ← J.field op "deep" J.bool
      let before := s
      s := StoreCopy.stepC s (.copy deep)
      let c := s.copies.getLast?.getD []
      let fresh := (StoreCopy.refs c).all (fun a =>
        !(StoreCopy.refs before.src).contains a && before.copies.all (fun c' => !(StoreCopy.refs c').contains a))
      taken := taken ++ [J.obj [("copy", ofObj (StoreCopy.view s.heap c)), ("src", ofObj (StoreCopy.view s.heap s.src)),
                                ("fresh", J.ofBool fresh)]]
    else
      let who ← J.field op "who" J.int
      let k ← J.field op "k" J.str
      let tgt : Option StoreCopy.HObj := if who < 0 then some s.src else s.copies[who.toNat]?
      match tgt.bind (StoreCopy.fieldRef · k) with
      | some a => s := StoreCopy.stepC s (.write a (StoreCopy.bump (StoreCopy.deref s.heap a)))
      | none => pure ()
  pure <| J.obj [("taken", .arr taken.toArray), ("final_src", ofObj (StoreCopy.view s.heap s.src)),
                 ("final_copies", J.ofList (fun c => ofObj (StoreCopy.view s.heap c)) s.copies)]

/-- CHROM as text (a JSON number stands for its decimal spelling), ID possibly null -/
def vraw (j : Json) : J.R StoreVcf.RawRec := do
  let chrom ← match j.getObjVal? "chrom" with
    | .ok (.str s) => pure s
    | .ok v => do let i ← J.int v; pure (toString i)
    | .error _ => J.fail "missing field chrom"
  let pos ← J.field j "pos" J.int
  let id ← J.field j "id" (J.opt J.str)
  let calls ← J.field j "calls" (J.list (fun c => do
    match ← J.list J.int c with
    | [a, b] => pure (a, b)
    | _ => J.fail "call: two alleles expected"))
  pure ⟨chrom, pos, id, calls⟩

def vrec (j : Json) : J.R StoreVcf.Rec := do
  let chrom ← J.field j "chrom" J.int
  let pos ← J.field j "pos" J.int
  let id ← J.fieldD j "id" J.str ""
  let calls ← J.field j "calls" (J.list (fun c => do
    match ← J.list J.int c with
    | [a, b] => pure (a, b)
    | _ => J.fail "call: two alleles expected"))
  pure ⟨chrom, pos, id, calls⟩

def ofVcfOut (o : StoreVcf.Out) : Json :=
  J.obj [("taxa", J.ofList J.ofStr o.taxa), ("chrgrp", J.ofList J.ofInt o.chrgrp),
         ("phypos", J.ofList J.ofInt o.phypos), ("name", J.ofList J.ofStr o.name),
         ("matP", J.ofList (J.ofMat J.ofInt) o.matP), ("matU", J.ofMat J.ofInt o.matU),
         ("runs", J.ofOpt (J.ofList (fun r : Int × Nat × Nat =>
            J.obj [("name", J.ofInt r.1), ("stix", J.ofNat r.2.1), ("len", J.ofNat r.2.2)])) o.runs)]

/-- `c16.vcf`: the model of `from_vcf` -/
def opVcf : J.Op := fun j => do
  let samples ← J.field j "samples" (J.list J.str)
  let raws ← J.field j "recs" (J.list vraw)
  let g ← J.field j "group" J.bool
  match StoreVcf.fromVcfRaw samples raws g with
  | .ok o => pure (ofVcfOut o)
  | .error e => pure (ofErr e)

/-- **Spec oracle** `c16.spec_vcf` on what the implementation returned (labels + matrix):
    sample names; the variants — each with its chromosome, position, identifier and column of calls —
    are the file's records, in file order (no grouping) or as a permutation in (chromosome, position)
    order (grouping); phased: both alleles, unphased: their sum -/
def opSpecVcf : J.Op := fun j => do
  let samples ← J.field j "samples" (J.list J.str)
  let raws ← J.field j "recs" (J.list vraw)
  let recs : List StoreVcf.Rec := raws.map (fun r => ⟨(r.chrom.toInt?).getD 0, r.pos, r.id.getD "", r.calls⟩)
  let hasId : List Bool := raws.map (·.id.isSome)
  let g ← J.field j "group" J.bool
  let phased ← J.field j "phased" J.bool
  let taxa ← J.field j "taxa" (J.list J.str)
  let chr ← J.field j "chrgrp" (J.list J.int)
  let pos ← J.field j "phypos" (J.list J.int)
  let nam ← J.field j "name" (J.list J.str)
  let matP ← J.fieldD j "matP" (J.list (J.mat J.int)) []
  let matU ← J.fieldD j "matU" (J.mat J.int) []
  let o : StoreVcf.Got := ⟨taxa, chr, pos, nam, matP, matU⟩
  let n := samples.length
  let p := recs.length
  -- the oracle itself lives in Model/StoreVcf.lean (`specVcf`; `specVcf_sound` in Lemmas/StoreVcfSpec.lean)
  let ok := StoreVcf.specVcf samples recs hasId g phased o
  let outVars := (List.range p).map (StoreVcf.outVar phased n o)
  let recVars := recs.map (StoreVcf.recVar phased)
  pure <| J.obj [("ok", J.ofBool ok),
    ("detail", J.ofStr s!"taxa={taxa == samples} shape={StoreVcf.shapeOk phased n p o} same_order={outVars == recVars} perm={outVars.all (fun v => outVars.count v == recVars.count v)} sorted={StoreVcf.sortedOut p o}")]

def ofName : StoreFrame.Name → Json
  | .s v => J.ofStr v
  | .i v => J.ofNat v

/-- `c16.frame_bv`: `from_pandas (to_pandas b)` of the wide breeding-value layout (before `from_numpy`) -/
def opFrameBV : J.Op := fun j => do
  let mat ← J.field j "mat" (J.mat J.rat)
  let loc ← J.field j "location" (J.list J.rat)
  let sc ← J.field j "scale" (J.list J.rat)
  let taxa ← J.field j "taxa" (J.opt (J.list J.str))
  let grp ← J.field j "taxa_grp" (J.opt (J.list J.int))
  let trait ← J.field j "trait" (J.opt (J.list J.str))
  let tc ← J.field j "taxa_col" (J.opt J.str)
  let gc ← J.field j "taxa_grp_col" (J.opt J.str)
  let unsc ← J.fieldD j "unscale" J.bool true
  let b : StoreFrame.BV Rat := ⟨mat, loc, sc, taxa, grp, trait⟩
  match StoreFrame.bvFromPandas (StoreFrame.bvToPandas b tc gc unsc) tc gc with
  | .ok r => pure <| J.obj [("taxa", J.ofOpt (J.ofList J.ofStr) r.taxa), ("taxa_grp", J.ofOpt (J.ofList J.ofInt) r.taxa_grp),
      ("trait", J.ofList ofName r.trait), ("cols", J.ofMat J.ofRat r.cols)]
  | .error e => pure (ofErr e)

/-- `c16.frame_gmap`: `from_pandas (to_pandas m, units)` of the genetic-map layout (before grouping) -/
def opFrameGMap : J.Op := fun j => do
  let chr ← J.field j "chrgrp" (J.list J.int)
  let pos ← J.field j "phypos" (J.list J.int)
  let gen ← J.field j "genpos" (J.list J.rat)
  let uo ← J.field j "units_out" J.str
  let ui ← J.field j "units_in" J.str
  let un (s : String) : StoreFrame.Units := if s == "M" || s == "Morgans" then .M else .cM
  match StoreFrame.gmapFromPandas (StoreFrame.gmapToPandas (⟨chr, pos, gen⟩ : StoreFrame.GMap Rat) (un uo)) (un ui) with
  | .ok m => pure <| J.obj [("chrgrp", J.ofList J.ofInt m.chrgrp), ("phypos", J.ofList J.ofInt m.phypos),
      ("genpos", J.ofList J.ofRat m.genpos)]
  | .error e => pure (ofErr e)

def mat3 (j : Json) : J.R (List (List (List Rat))) := J.list (J.mat J.rat) j

/-- `c16.frame_cmat`: coancestry wide layout -/
def opFrameCMat : J.Op := fun j => do
  let mat ← J.field j "mat" (J.mat J.rat)
  let taxa ← J.field j "taxa" (J.opt (J.list J.str))
  let grp ← J.field j "taxa_grp" (J.opt (J.list J.int))
  let tc ← J.field j "taxa_col" J.str
  let gc ← J.field j "taxa_grp_col" (J.opt J.str)
  let c : StoreFrame.CMat Rat := ⟨mat, taxa, grp⟩
  match StoreFrame.cmFromPandas (StoreFrame.cmToPandas c tc gc) tc gc with
  | .ok r => pure <| J.obj [("mat", J.ofMat J.ofRat r.mat), ("taxa", J.ofOpt (J.ofList J.ofStr) r.taxa),
      ("taxa_grp", J.ofOpt (J.ofList J.ofInt) r.taxa_grp)]
  | .error e => pure (ofErr e)

/-- `c16.frame_egmap`: extended genetic map layout -/
def opFrameEMap : J.Op := fun j => do
  let chr ← J.field j "chrgrp" (J.list J.int)
  let pos ← J.field j "phypos" (J.list J.int)
  let stop ← J.field j "stop" (J.list J.int)
  let gen ← J.field j "genpos" (J.list J.rat)
  let name ← J.field j "name" (J.opt (J.list J.str))
  let fn ← J.field j "fncode" (J.opt (J.list J.str))
  let u ← J.field j "units" J.str
  let rn ← J.field j "read_name" J.bool
  let rf ← J.field j "read_fncode" J.bool
  let un : StoreFrame.Units := if u == "M" || u == "Morgans" then .M else .cM
  match StoreFrame.emapFromPandas (StoreFrame.emapToPandas (⟨chr, pos, stop, gen, name, fn⟩ : StoreFrame.EMap Rat) un) un rn rf with
  | .ok m => pure <| J.obj [("chrgrp", J.ofList J.ofInt m.chrgrp), ("phypos", J.ofList J.ofInt m.phypos),
      ("stop", J.ofList J.ofInt m.stop), ("genpos", J.ofList J.ofRat m.genpos),
      ("name", J.ofOpt (J.ofList J.ofStr) m.name), ("fncode", J.ofOpt (J.ofList J.ofStr) m.fncode)]
  | .error e => pure (ofErr e)

/-- `c16.frame_model`: dictionary of coefficient frames -/
def opFrameModel : J.Op := fun j => do
  let blocks ← J.field j "blocks" (J.list (fun b => do
    let k ← J.field b "k" J.str
    let rows ← J.field b "rows" (J.mat J.rat)
    pure (k, rows)))
  let trait ← J.field j "trait" (J.opt (J.list J.str))
  let t ← J.field j "ntrait" J.nat
  let m : StoreFrame.LinMod Rat := ⟨blocks, trait⟩
  match StoreFrame.lmFromPandasDict (StoreFrame.lmToPandasDict m t) (blocks.map (fun kb => kb.2.length)) with
  | .ok (bs, names) => pure <| J.obj [("blocks", J.ofList (fun (kb : String × List (List Rat)) =>
      J.obj [("k", J.ofStr kb.1), ("rows", J.ofMat J.ofRat kb.2)]) bs), ("trait", J.ofList ofName names)]
  | .error e => pure (ofErr e)

/-- `c16.frame_vmat`: variance matrix, long layout (cells nobody addressed are `null`) -/
def opFrameVMat : J.Op := fun j => do
  let mat ← J.field j "mat" mat3
  let taxa ← J.field j "taxa" (J.list J.str)
  let grp ← J.field j "taxa_grp" (J.opt (J.list J.int))
  let trait ← J.field j "trait" (J.list J.str)
  let wg ← J.field j "with_grp" J.bool
  let v : StoreFrame.VMat Rat := ⟨mat, taxa, grp, trait⟩
  match StoreFrame.vmFromPandas (StoreFrame.vmToPandas v wg) wg with
  | .ok r => pure <| J.obj [("mat", J.ofList (J.ofMat (J.ofOpt J.ofRat)) r.mat), ("taxa", J.ofList J.ofStr r.taxa),
      ("taxa_grp", J.ofOpt (J.ofList J.ofInt) r.taxa_grp), ("trait", J.ofList J.ofStr r.trait)]
  | .error e => pure (ofErr e)

/-- `c16.frame_vmatk`: variance matrix with `k` parental axes, long layout; the matrix travels as its
    C-ordered buffer (cells nobody addressed are `null`) -/
def opFrameVMatK : J.Op := fun j => do
  let k ← J.field j "k" J.nat
  let flat ← J.field j "flat" (J.list J.rat)
  let taxa ← J.field j "taxa" (J.list J.str)
  let grp ← J.field j "taxa_grp" (J.opt (J.list J.int))
  let trait ← J.field j "trait" (J.list J.str)
  let wg ← J.field j "with_grp" J.bool
  let n := taxa.length
  let t := trait.length
  let v : StoreFrame.KMat Rat := ⟨k, taxa, grp, trait, fun ix c => flat.getD (StoreFrame.flatIndex n t ix c) 0⟩
  match StoreFrame.kmFromPandas k (StoreFrame.kmToPandas v wg) wg with
  | .ok r =>
    let out := (StoreFrame.tuples r.taxa.length k).flatMap (fun ix => (List.range r.trait.length).map (fun c => r.cell ix c))
    pure <| J.obj [("flat", J.ofList (J.ofOpt J.ofRat) out), ("taxa", J.ofList J.ofStr r.taxa),
      ("taxa_grp", J.ofOpt (J.ofList J.ofInt) r.taxa_grp), ("trait", J.ofList J.ofStr r.trait)]
  | .error e => pure (ofErr e)

/-! object graphs: ref = null | {"imm": ds} | {"ptr": n};
    cell = {"arr": ds} | {"dict": [[k, ref], …]} | {"obj": cls, "attrs": [[k, ref], …]} | {"ext": name} -/

def gref (j : Json) : J.R StoreGraph.Ref :=
  match j with
  | .null => pure .none
  | _ =>
    match j.getObjVal? "ptr" with
    | .ok v => do let n ← J.nat v; pure (.ptr n)
    | .error _ => do let d ← J.field j "imm" ds; pure (.imm d)

def gkvs (j : Json) : J.R (List (String × StoreGraph.Ref)) :=
  J.list (fun e => do
    match e with
    | .arr #[k, r] => do let ks ← J.str k; let rr ← gref r; pure (ks, rr)
    | _ => J.fail "pair expected") j

def gcell (j : Json) : J.R StoreGraph.Cell :=
  match j.getObjVal? "arr" with
  | .ok v => do let d ← ds v; pure (.arr d)
  | .error _ =>
    match j.getObjVal? "dict" with
    | .ok v => do let kvs ← gkvs v; pure (.dict kvs)
    | .error _ =>
      match j.getObjVal? "obj" with
      | .ok v => do let c ← J.str v; let kvs ← J.field j "attrs" gkvs; pure (.obj c kvs)
      | .error _ => do let n ← J.field j "ext" J.str; pure (.ext n)

def ofGRef : StoreGraph.Ref → Json
  | .none => .null
  | .imm d => J.obj [("imm", ofDS d)]
  | .ptr a => J.obj [("ptr", J.ofNat a)]

def ofGKvs (kvs : List (String × StoreGraph.Ref)) : Json :=
  J.ofList (fun (kv : String × StoreGraph.Ref) => Json.arr #[J.ofStr kv.1, ofGRef kv.2]) kvs

def ofGCell : StoreGraph.Cell → Json
  | .arr d => J.obj [("arr", ofDS d)]
  | .dict kvs => J.obj [("dict", ofGKvs kvs)]
  | .obj c kvs => J.obj [("obj", J.ofStr c), ("attrs", ofGKvs kvs)]
  | .ext n => J.obj [("ext", J.ofStr n)]

/-- `c16.deepcopy_graph`: `copy.deepcopy` of the object at `root` -/
def opDeepcopyGraph : J.Op := fun j => do
  let heap ← J.field j "heap" (J.list gcell)
  let root ← J.field j "root" gref
  let viaMethod ← J.fieldD j "method" J.bool false
  let (h', r') := if viaMethod then StoreGraph.deepcopyMethod heap root else StoreGraph.deepcopyRoot heap root
  pure <| J.obj [("heap", J.ofList ofGCell h'), ("root", ofGRef r'), ("wf", J.ofBool (StoreGraph.wfB heap))]

def ops : List (String × J.Op) :=
  [("c16.h5", opH5), ("c16.spec_obj", opSpecObj), ("c16.construct", opConstruct),
   ("c16.parse_path", opParsePath), ("c16.valid", opValid), ("c16.copy", opCopy), ("c16.copy_hist", opCopyHist),
   ("c16.vcf", opVcf), ("c16.spec_vcf", opSpecVcf), ("c16.frame_bv", opFrameBV),
   ("c16.frame_gmap", opFrameGMap), ("c16.frame_cmat", opFrameCMat), ("c16.frame_egmap", opFrameEMap),
   ("c16.frame_model", opFrameModel), ("c16.frame_vmat", opFrameVMat), ("c16.frame_vmatk", opFrameVMatK),
   ("c16.deepcopy_graph", opDeepcopyGraph)]

end Drv.C16
