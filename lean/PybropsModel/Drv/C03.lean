import PybropsModel.J
import PybropsModel.Model.LabelMat
import PybropsModel.Model.LabelMatN
import PybropsModel.Model.LabelHeap
import PybropsModel.Model.LabelMatX
import PybropsModel.Model.LabelMatRepair
import PybropsModel.Model.LabelMatFill
import PybropsModel.Model.LabelDtype
import Std.Data.HashSet
open Lean

/-
Driver ops of C03.  Cells and labels travel as integers (the harness renders names / positions /
floats from integer codes by order-preserving injective maps, so equality and order are those of
the real arrays).

  c03.step       {sch, st, do}                       -> {"st": state} | {"idx": [...]} | {"bool": b} | {"error": tag}
  c03.spec_step  {sch, pre, operands, post, fill}    -> {"ok", "consistent", "attached", "partition", "detail"}
  c03.np         conformance of the index normalisers against numpy (used by the harness self-check)
-/
namespace Drv.C03
open LabelMat

abbrev S := St Int Int

def le (a b : Int) : Bool := decide (a ≤ b)

def optInt (j : Json) : J.R (Option Int) := J.opt J.int j

def decGrp (j : Json) : J.R (Grp Int) := do
  pure { name := ← J.field j "name" (J.list J.int), stix := ← J.field j "stix" (J.list J.nat),
         spix := ← J.field j "spix" (J.list J.nat), len := ← J.field j "len" (J.list J.nat) }

def decCols (j : Json) : J.R (List (Option (List Int))) := J.list (J.opt (J.list J.int)) j

def decBundle (j : Json) : J.R (Bundle Int) := do
  pure { cols := ← J.field j "cols" decCols, grp := ← J.fieldOpt j "grp" decGrp }

def decMat (j : Json) : J.R (Mat3 Int) := J.list (J.list (J.list J.int)) j

def decSt (j : Json) : J.R S := do
  pure { mat := ← J.field j "mat" decMat, taxa := ← J.field j "taxa" decBundle,
         vrnt := ← J.field j "vrnt" decBundle, trait := ← J.field j "trait" decBundle }

def decSchema (j : Json) : J.R Schema := do
  pure { ndim := ← J.field j "ndim" J.nat, taxaAx := ← J.field j "taxa" (J.list J.nat),
         vrntAx := ← J.field j "vrnt" (J.list J.nat), traitAx := ← J.field j "trait" (J.list J.nat),
         genericSelfCall := ← J.fieldD j "generic_self_call" J.bool false,
         squareCheck := ← J.fieldD j "square_check" J.bool false,
         pureDropsOther := ← J.fieldD j "pure_drops_other" J.bool false,
         scalarInsertRaw := ← J.fieldD j "scalar_insert_raw" J.bool false }

def decKind (j : Json) : J.R Kind := do
  match ← J.str j with
  | "taxa" => pure .taxa | "vrnt" => pure .vrnt | "trait" => pure .trait
  | s => J.fail s!"bad kind {s}"

def decOperand (j : Json) : J.R (Operand Int Int) := do
  pure { mat := ← J.field j "mat" decMat, cols := ← J.field j "cols" decCols }

def decSlice (j : Json) : J.R (Option Int × Option Int × Option Int) := do
  match ← J.list optInt j with
  | [a, b, c] => pure (a, b, c)
  | _ => J.fail "slice needs three entries"

def decDel (j : Json) : J.R DelIdx := do
  if let some i ← J.fieldOpt j "int" J.int then return .int i
  if let some l ← J.fieldOpt j "list" (J.list J.int) then return .list l
  if let some (a, b, c) ← J.fieldOpt j "slice" decSlice then return .slice a b c
  if let some m ← J.fieldOpt j "mask" (J.list J.bool) then return .mask m
  J.fail "bad delete index"

def decIns (j : Json) : J.R InsIdx := do
  if let some i ← J.fieldOpt j "int" J.int then return .int i
  if let some l ← J.fieldOpt j "list" (J.list J.int) then return .list l
  if let some (a, b, c) ← J.fieldOpt j "slice" decSlice then return .slice a b c
  J.fail "bad insert index"

/-- every position form of numpy.insert: integer, list in any order, slice, boolean mask -/
def decInsX (j : Json) : J.R InsIdxX := do
  if let some i ← J.fieldOpt j "int" J.int then return .std (.int i)
  if let some l ← J.fieldOpt j "list" (J.list J.int) then return .anyList l
  if let some (a, b, c) ← J.fieldOpt j "slice" decSlice then return .std (.slice a b c)
  if let some m ← J.fieldOpt j "mask" (J.list J.bool) then return .mask m
  J.fail "bad insert index"

def encGrp (g : Grp Int) : Json :=
  J.obj [("name", J.ofList J.ofInt g.name), ("stix", J.ofList J.ofNat g.stix),
         ("spix", J.ofList J.ofNat g.spix), ("len", J.ofList J.ofNat g.len)]

def encBundle (b : Bundle Int) : Json :=
  J.obj [("cols", J.ofList (J.ofOpt (J.ofList J.ofInt)) b.cols), ("grp", J.ofOpt encGrp b.grp)]

def encSt (s : S) : Json :=
  J.obj [("mat", J.ofList (J.ofList (J.ofList J.ofInt)) s.mat), ("taxa", encBundle s.taxa),
         ("vrnt", encBundle s.vrnt), ("trait", encBundle s.trait)]

def encR {β : Type} (f : β → Json) (key : String) : R β → Json
  | .ok b => J.obj [(key, f b)]
  | .error e => J.obj [("error", J.ofStr e.tag)]

/-- run one public operation of the model -/
def opStep : J.Op := fun j => do
  let sch ← J.field j "sch" decSchema
  let s ← J.field j "st" decSt
  let op ← J.field j "do" pure
  let name ← J.field op "name" J.str
  let generic ← J.fieldD op "generic" J.bool false
  let axis ← J.fieldD op "axis" J.int 0
  let kind ← J.fieldD op "kind" decKind .taxa
  let fill ← J.fieldD op "fill" J.int 0
  let noneLab ← J.fieldD op "none_code" J.int (-1)
  -- repair-validation mode: the square bundle's insert / incorp / concat as proposed in patches/C03_D14.diff, patch_D14b.diff
  let repaired ← J.fieldD op "repaired" J.bool false
  let pad (k : Kind) (v : Operand Int Int) : Operand Int Int := padOperand noneLab sch k s v
  -- generic form: resolve the axis; specific form: the named bundle
  let run {β : Type} (selfCall : Bool) (f : Kind → R β) : R β :=
    if generic then (if selfCall then dispatchSelfCall sch axis f else dispatch sch axis f) else f kind
  match name with
  | "select" =>
    let is ← J.field op "indices" (J.list J.int)
    pure <| encR encSt "st" (run false fun k => selectK sch k is s)
  | "delete" =>
    let o ← J.field op "obj" decDel
    pure <| encR encSt "st" (run false fun k => deleteK sch k o s)
  | "remove" =>
    let o ← J.field op "obj" decDel
    pure <| encR encSt "st" (run false fun k => removeK sch k o s)
  | "reorder" =>
    let is ← J.field op "indices" (J.list J.int)
    pure <| encR encSt "st" (run true fun k => reorderK sch k is s)
  | "lexsort" =>
    let keys ← J.fieldOpt op "keys" decCols
    pure <| encR (J.ofList J.ofNat) "idx" (run false fun k => lexsortK le sch k keys s)
  | "sort" =>
    let keys ← J.fieldOpt op "keys" decCols
    pure <| encR encSt "st" (run false fun k => sortK le sch k keys s)
  | "group" => pure <| encR encSt "st" (run false fun k => groupK le sch k s)
  | "ungroup" => pure <| encR encSt "st" (run false fun k => ungroupK sch k s)
  | "is_grouped" => pure <| encR J.ofBool "bool" (run false fun k => isGroupedK sch k s)
  | "adjoin" =>
    let v ← J.field op "operand" decOperand
    pure <| encR encSt "st" (run false fun k => adjoinK sch k fill (pad k v) s)
  | "append" =>
    let v ← J.field op "operand" decOperand
    pure <| encR encSt "st" (run false fun k => appendK sch k fill (pad k v) s)
  | "insert" =>
    let v ← J.field op "operand" decOperand
    let oj ← J.field op "obj" pure
    if repaired then
      let o ← decIns oj
      return encR encSt "st" (run false fun k => insertRepairedK sch k fill o (pad k v) s)
    if let some i ← J.fieldOpt oj "int0d" J.int then
      return encR encSt "st" (run false fun k => insertZeroDimK sch k i (pad k v) s)
    let o ← decInsX oj
    pure <| encR encSt "st" (run false fun k => insertXK sch k o (pad k v) s)
  | "incorp" =>
    let v ← J.field op "operand" decOperand
    let oj ← J.field op "obj" pure
    if repaired then
      let o ← decIns oj
      return encR encSt "st" (run true fun k => incorpRepairedK sch k fill o (pad k v) s)
    if let some i ← J.fieldOpt oj "int0d" J.int then
      return encR encSt "st" (run true fun k => incorpZeroDimK sch k i (pad k v) s)
    let o ← decInsX oj
    pure <| encR encSt "st" (run true fun k => incorpXK sch k o (pad k v) s)
  | "concat" =>
    let others ← J.field op "others" (J.list decSt)
    let padSt (k : Kind) (t : S) : S :=
      let q := match sch.axes k with | a :: _ => axLen a t.mat | [] => 0
      t.setBundle k { (t.bundle k) with cols := padCols noneLab k q (s.bundle k).cols (t.bundle k).cols }
    if repaired then
      return encR encSt "st" (run false fun k =>
        concatRepairedK sch k fill (others.map (fun t => pad k { mat := t.mat, cols := (t.bundle k).cols })) s)
    pure <| encR encSt "st" (run false fun k => concatK sch k (s :: others.map (padSt k)))
  | "genotype" =>
    let masked ← J.field op "masked" J.bool
    let invert ← J.field op "invert" J.bool
    let unphase ← J.field op "unphase" J.bool
    let wrap (x : Int) : Int := ((x + 128) % 256) - 128      -- int8 accumulation
    let r := genotype (0 : Int) (fun x => x != 0) masked invert unphase s
    pure <| J.obj [("st", encSt (if unphase then { r with mat := r.mat.map (·.map (·.map wrap)) } else r))]
  | other => J.fail s!"unknown C03 operation {other}"

/-- the Spec of C03 on one step of the *implementation*: `pre` (state before), `operands` (states whose
    cells may legitimately appear: the operand blocks with the off-axis labels of `pre`), `post` -/
def opSpecStep : J.Op := fun j => do
  let sch ← J.field j "sch" decSchema
  let pre ← J.field j "pre" decSt
  let operands ← J.field j "operands" (J.list decSt)
  let post ← J.field j "post" decSt
  let fill ← J.fieldOpt j "fill" J.int
  let src : Std.HashSet (LCell Int Int) :=
    (pre :: operands).foldl (fun acc s => (lcells sch s).foldl (fun a c => a.insert c) acc) {}
  let bad := (lcells sch post).filter (fun c => !(src.contains c || fill == some c.val))
  let consistent := consistentOK sch post
  -- growing a square matrix: the fill value may only stand in the cross blocks, i.e. the result holds exactly as many
  -- fill cells as its sources plus the cells no source supplies (`fillBalance`)
  let filled := fillBalance fill (lcells sch pre).length ((lcells sch pre).map (·.val))
    (operands.map (fun o => ((lcells sch o).length, (lcells sch o).map (·.val))))
    (lcells sch post).length ((lcells sch post).map (·.val))
  let attached := bad.isEmpty && filled
  let partition := groupedOK sch post
  let detail := if bad.isEmpty then (if filled then "" else "data cells of the receiver or of an operand were replaced by the fill value") else
    match bad.head? with
    | some c => s!"cell value {c.val} carries labels {repr c.i0} {repr c.i1} {repr c.i2} that no input cell of that value has"
    | none => ""
  pure <| J.obj [("ok", J.ofBool (consistent && attached && partition)), ("consistent", J.ofBool consistent),
                 ("attached", J.ofBool attached), ("partition", J.ofBool partition), ("detail", J.ofStr detail)]

def decIDt (j : Json) : J.R LabelDtype.IDt := do
  match ← J.str j with
  | "int8" => pure .i8 | "int16" => pure .i16 | "int32" => pure .i32 | "int64" => pure .i64
  | "uint8" => pure .u8 | "uint16" => pure .u16 | "uint32" => pure .u32 | "uint64" => pure .u64
  | s => J.fail s!"bad dtype {s}"

def encIDt : LabelDtype.IDt → Json
  | .i8 => J.ofStr "int8" | .i16 => J.ofStr "int16" | .i32 => J.ofStr "int32" | .i64 => J.ofStr "int64"
  | .u8 => J.ofStr "uint8" | .u16 => J.ofStr "uint16" | .u32 => J.ofStr "uint32" | .u64 => J.ofStr "uint64"

def encStore : Option (LabelDtype.IDt × List Int) → Json
  | none => J.obj [("dtype", Json.null)]
  | some (d, l) => J.obj [("dtype", encIDt d), ("l", J.ofList J.ofInt l)]

/-- conformance ops for the numpy-like helpers of the model -/
def opNp : J.Op := fun j => do
  let fn ← J.field j "fn" J.str
  let n ← J.fieldD j "n" J.nat 0
  let enc (r : R (List Nat)) : Json := encR (J.ofList J.ofNat) "idx" r
  match fn with
  | "slice" =>
    let (a, b, c) ← J.field j "slice" decSlice
    pure (enc (sliceIdx n a b c))
  | "delete" =>
    let o ← J.field j "obj" decDel
    let l ← J.field j "l" (J.list J.int)
    pure <| encR (J.ofList J.ofInt) "l" (do let ix ← o.norm l.length; pure (Np.delete ix l))
  | "insert" =>
    let o ← J.field j "obj" decIns
    let l ← J.field j "l" (J.list J.int)
    let v ← J.field j "v" (J.list J.int)
    pure <| encR (J.ofList J.ofInt) "l" (insertCol o l v)
  | "insertx" =>
    -- a 1-D array seen as an n x 1 x 1 matrix with one taxa label column: data and labels go through `insertXK`
    let o ← J.field j "obj" decInsX
    let l ← J.field j "l" (J.list J.int)
    let v ← J.field j "v" (J.list J.int)
    let sch : Schema := { ndim := 2, taxaAx := [0], vrntAx := [], traitAx := [] }
    let st : S := { mat := l.map (fun x => [[x]]), taxa := { cols := [some l], grp := none },
                    vrnt := { cols := [], grp := none }, trait := { cols := [], grp := none } }
    let opd : Operand Int Int := { mat := v.map (fun x => [[x]]), cols := [some v] }
    pure <| encR (fun (t : S) => J.obj [("data", J.ofList J.ofInt (t.mat.map (fun p => ((p.head?.bind List.head?).getD 0)))),
                                        ("labels", J.ofOpt (J.ofList J.ofInt) ((t.taxa.cols.head?).join))]) "l"
              (incorpXK sch .taxa o opd st)
  | "insert3" =>
    let o ← J.field j "obj" decIns
    let a ← J.field j "axis" J.nat
    let m ← J.field j "m" decMat
    let v ← J.field j "v" decMat
    pure <| encR (J.ofList (J.ofList (J.ofList J.ofInt))) "m" (insertMat a o m v)
  | "dt_append" =>
    let da ← J.field j "da" decIDt
    let db ← J.field j "db" decIDt
    let xs ← J.field j "l" (J.list J.int)
    let ys ← J.field j "v" (J.list J.int)
    pure (encStore (LabelDtype.appendStore da xs db ys))
  | "dt_store" =>
    let da ← J.field j "da" decIDt
    let xs ← J.field j "l" (J.list J.int)
    let ys ← J.field j "v" (J.list J.int)
    pure (encStore (some (LabelDtype.storeInto da xs ys)))
  | other => J.fail s!"unknown np fn {other}"

/-! ### square classes with any number of taxa axes (Model/LabelMatN.lean) -/

open LabelMatN in
def decTn : (r : Nat) → Json → J.R (Tn (List Int) r)
  | 0, j => J.list J.int j
  | r + 1, j => J.list (decTn r) j

open LabelMatN in
def encTn : (r : Nat) → Tn (List Int) r → Json
  | 0, l => J.ofList J.ofInt l
  | r + 1, l => J.ofList (encTn r) l

open LabelMatN in
def decStN (r : Nat) (j : Json) : J.R (StN Int Int r) := do
  pure { mat := ← J.field j "mat" (decTn r), taxa := ← J.field j "taxa" decBundle,
         trait := ← J.field j "trait" decBundle }

open LabelMatN in
def encStN (r : Nat) (s : StN Int Int r) : Json :=
  J.obj [("mat", encTn r s.mat), ("taxa", encBundle s.taxa),
         ("vrnt", encBundle { cols := List.replicate 9 none, grp := none }), ("trait", encBundle s.trait)]

open LabelMatN in
def decOperandN (r : Nat) (j : Json) : J.R (OperandN Int Int r) := do
  pure { mat := ← J.field j "mat" (decTn r), cols := ← J.field j "cols" decCols }

/-- one public operation of the N-D model; `r` = number of square taxa axes -/
def opNdStep : J.Op := fun j => do
  let r ← J.field j "r" J.nat
  let drops ← J.fieldD j "pure_drops_other" J.bool false
  let sch : LabelMatN.SchN := { pureDropsOther := drops }
  let s ← J.field j "st" (decStN r)
  let op ← J.field j "do" pure
  let name ← J.field op "name" J.str
  let generic ← J.fieldD op "generic" J.bool false
  let axis ← J.fieldD op "axis" J.int 0
  let kind ← J.fieldD op "kind" decKind .taxa
  let fill ← J.fieldD op "fill" J.int 0
  let noneLab ← J.fieldD op "none_code" J.int (-1)
  let pad (k : Kind) (v : LabelMatN.OperandN Int Int r) := LabelMatN.padOperandN noneLab k s v
  let run {β : Type} (f : Kind → R β) : R β := if generic then LabelMatN.dispatchN r axis f else f kind
  let encS := encStN r
  match name with
  | "select" =>
    let is ← J.field op "indices" (J.list J.int)
    pure <| encR encS "st" (run fun k => LabelMatN.selectN sch k is s)
  | "delete" =>
    let o ← J.field op "obj" decDel
    pure <| encR encS "st" (run fun k => LabelMatN.deleteN sch k o s)
  | "remove" =>
    let o ← J.field op "obj" decDel
    pure <| encR encS "st" (run fun k => LabelMatN.removeN k o s)
  | "reorder" =>
    let is ← J.field op "indices" (J.list J.int)
    pure <| encR encS "st" (run fun k => LabelMatN.reorderN k is s)
  | "lexsort" =>
    let keys ← J.fieldOpt op "keys" decCols
    pure <| encR (J.ofList J.ofNat) "idx" (run fun k => LabelMatN.lexsortN le k keys s)
  | "sort" =>
    let keys ← J.fieldOpt op "keys" decCols
    pure <| encR encS "st" (run fun k => LabelMatN.sortN le k keys s)
  | "group" => pure <| encR encS "st" (run fun k => LabelMatN.groupN le k s)
  | "ungroup" => pure <| encR encS "st" (run fun k => LabelMatN.ungroupN k s)
  | "is_grouped" => pure <| encR J.ofBool "bool" (run fun k => LabelMatN.isGroupedN k s)
  | "adjoin" =>
    let v ← J.field op "operand" (decOperandN r)
    pure <| encR encS "st" (run fun k => LabelMatN.adjoinN sch k fill (pad k v) s)
  | "append" =>
    let v ← J.field op "operand" (decOperandN r)
    pure <| encR encS "st" (run fun k => LabelMatN.appendN k fill (pad k v) s)
  | "insert" =>
    let v ← J.field op "operand" (decOperandN r)
    let o ← J.field op "obj" decIns
    pure <| encR encS "st" (run fun k => LabelMatN.insertN sch k o (pad k v) s)
  | "incorp" =>
    let v ← J.field op "operand" (decOperandN r)
    let o ← J.field op "obj" decIns
    pure <| encR encS "st" (run fun k => LabelMatN.incorpN k o (pad k v) s)
  | "concat" =>
    let others ← J.field op "others" (J.list (decStN r))
    let padSt (k : Kind) (t : LabelMatN.StN Int Int r) : LabelMatN.StN Int Int r :=
      let q := match k with
        | .taxa => (LabelMatN.dimsN r t.mat).headD 0
        | _ => ((LabelMatN.firstLeaf r t.mat).map List.length).getD 0
      t.setBundle k { (t.bundle k) with cols := padCols noneLab k q (s.bundle k).cols (t.bundle k).cols }
    pure <| encR encS "st" (run fun k => LabelMatN.concatN sch k (s :: others.map (padSt k)))
  | other => J.fail s!"unknown C03 N-D operation {other}"

/-- the Spec of C03 on one step of the implementation, N-D classes -/
def opNdSpec : J.Op := fun j => do
  let r ← J.field j "r" J.nat
  let pre ← J.field j "pre" (decStN r)
  let operands ← J.field j "operands" (J.list (decStN r))
  let post ← J.field j "post" (decStN r)
  let fill ← J.fieldOpt j "fill" J.int
  let src : Std.HashSet (LabelMatN.LCellN Int Int) :=
    (pre :: operands).foldl (fun acc s => (LabelMatN.lcellsN s).foldl (fun a c => a.insert c) acc) {}
  let bad := (LabelMatN.lcellsN post).filter (fun c => !(src.contains c || fill == some c.val))
  let consistent := LabelMatN.consistentN post
  let filled := fillBalance fill (LabelMatN.lcellsN pre).length ((LabelMatN.lcellsN pre).map (·.val))
    (operands.map (fun o => ((LabelMatN.lcellsN o).length, (LabelMatN.lcellsN o).map (·.val))))
    (LabelMatN.lcellsN post).length ((LabelMatN.lcellsN post).map (·.val))
  let attached := bad.isEmpty && filled
  let partition := LabelMatN.groupedN post
  let detail := if bad.isEmpty then (if filled then "" else "data cells of the receiver or of an operand were replaced by the fill value") else
    match bad.head? with
    | some c => s!"cell value {c.val} carries taxa labels {repr c.tax} and trait label {repr c.trt} that no input cell of that value has"
    | none => ""
  pure <| J.obj [("ok", J.ofBool (consistent && attached && partition)), ("consistent", J.ofBool consistent),
                 ("attached", J.ofBool attached), ("partition", J.ofBool partition), ("detail", J.ofStr detail)]

/-! ### several live objects: the heap / aliasing model (Model/LabelHeap.lean) -/

/-- one history step as a model operation, given the receiver's state (`none`: lexsort / is_grouped / an axis no
    bundle owns — no state change).  Operands are padded and the mask / unsorted position forms of numpy.insert are
    reduced against the receiver, as in `c03.step` -/
def decHistOp (noneLab : Int) (sch : Schema) (op : Json) : J.R (Option (S → R (Op Int Int))) := do
  let name ← J.field op "name" J.str
  let generic ← J.fieldD op "generic" J.bool false
  let axis ← J.fieldD op "axis" J.int 0
  let kind0 ← J.fieldD op "kind" decKind .taxa
  let kind? : Option Kind :=
    if generic then (match getAxis axis sch.ndim with | .ok a => sch.kindOf a | .error _ => none) else some kind0
  match kind? with
  | none => pure none
  | some k =>
    let const (o : Op Int Int) : Option (S → R (Op Int Int)) := some (fun _ => pure o)
    match name with
    | "select" => pure (const (.select k (← J.field op "indices" (J.list J.int))))
    | "delete" => pure (const (.delete k (← J.field op "obj" decDel)))
    | "remove" => pure (const (.remove k (← J.field op "obj" decDel)))
    | "reorder" => pure (const (.reorder k (← J.field op "indices" (J.list J.int))))
    | "sort" => pure (const (.sort k (← J.fieldOpt op "keys" decCols)))
    | "group" => pure (const (.group k))
    | "ungroup" => pure (const (.ungroup k))
    | "adjoin" =>
      let v ← J.field op "operand" decOperand
      pure (some (fun s => pure (.adjoin k (padOperand noneLab sch k s v))))
    | "append" =>
      let v ← J.field op "operand" decOperand
      pure (some (fun s => pure (.append k (padOperand noneLab sch k s v))))
    | "insert" =>
      let v ← J.field op "operand" decOperand
      let o ← J.field op "obj" decInsX
      pure (some (fun s => do
        let v' := padOperand noneLab sch k s v
        let r ← reduceIns sch k (s.len sch k) (operandLen sch k v') o v'
        pure (.insert k r.1 r.2)))
    | "incorp" =>
      let v ← J.field op "operand" decOperand
      let o ← J.field op "obj" decInsX
      pure (some (fun s => do
        let v' := padOperand noneLab sch k s v
        let r ← reduceIns sch k (s.len sch k) (operandLen sch k v') o v'
        pure (.incorp k r.1 r.2)))
    | "concat" =>
      let others ← J.field op "others" (J.list decSt)
      pure (some (fun s => pure (.concat k (others.map (fun t =>
        padOperand noneLab sch k s { mat := t.mat, cols := (t.bundle k).cols })))))
    | _ => pure none

def encBundleRef (b : LabelHeap.BundleRef) : Json :=
  J.obj [("cols", J.ofList (J.ofOpt J.ofNat) b.cols),
         ("grp", J.ofOpt (fun (g : LabelHeap.GrpRef) => J.ofList J.ofNat [g.name, g.stix, g.spix, g.len]) b.grp)]

def encObjRef (o : LabelHeap.Obj) : Json :=
  J.obj [("mat", J.ofNat o.mat), ("taxa", encBundleRef o.taxa), ("vrnt", encBundleRef o.vrnt),
         ("trait", encBundleRef o.trait)]

/-- run a whole history (receiver index + operation per step) on the heap model and report, after every step, the
    array addresses of every live object: two fields with the same address are the SAME ndarray in the model -/
def opHeapRun : J.Op := fun j => do
  let sch ← J.field j "sch" decSchema
  let init ← J.field j "init" decSt
  let steps ← J.field j "steps" (J.list pure)
  let fill ← J.fieldD j "fill" J.int 0
  let noneLab ← J.fieldD j "none_code" J.int (-1)
  let r0 := LabelHeap.storeFresh ([] : LabelHeap.Heap Int Int) init
  let mut hp : LabelHeap.Heap Int Int × List LabelHeap.Obj := (r0.1, [r0.2])
  let mut out : Array Json := #[]
  for st in steps do
    let on ← J.field st "on" J.nat
    let skip ← J.fieldD st "skip" J.bool false
    let op? ← decHistOp noneLab sch st
    match op?, skip with
    | some mk, false =>
      match (hp.2[on]?).bind (LabelHeap.view hp.1) with
      | some s =>
        match mk s with
        | .ok op =>
          match LabelHeap.hstep le sch fill on op hp with
          | some hp' => hp := hp'
          | none => pure ()
        | .error _ => pure ()
      | none => pure ()
    | _, _ => pure ()
    out := out.push (J.ofList encObjRef hp.2)
  pure <| J.obj [("tables", Json.arr out)]

def ops : List (String × J.Op) :=
  [("c03.step", opStep), ("c03.spec_step", opSpecStep), ("c03.np", opNp),
   ("c03.nd_step", opNdStep), ("c03.nd_spec", opNdSpec), ("c03.heap_run", opHeapRun)]

end Drv.C03
