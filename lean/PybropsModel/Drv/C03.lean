import PybropsModel.J
import PybropsModel.Model.LabelMat
import Std.Data.HashSet
open Lean

/-
Driver ops of C03.  Cells and labels travel as integers (the harness renders names / positions /
floats from integer codes by order-preserving injective maps, so equality and order are those of
the real arrays).

  c03.step       {sch, st, do}                       -> {"st": state} | {"idx": [...]} | {"bool": b} | {"error": tag}
  c03.spec_step  {sch, pre, operands, post, fill}    -> {"ok", "consistent", "attached", "partition", "detail"}
  c03.np         conformance of the index normalisers against numpy (used by the harness self-check)
-/
namespace Drv.C03
open LabelMat

abbrev S := St Int Int

def le (a b : Int) : Bool := decide (a ≤ b)

def optInt (j : Json) : J.R (Option Int) := J.opt J.int j

def decGrp (j : Json) : J.R (Grp Int) := do
  pure { name := ← J.field j "name" (J.list J.int), stix := ← J.field j "stix" (J.list J.nat),
         spix := ← J.field j "spix" (J.list J.nat), len := ← J.field j "len" (J.list J.nat) }

def decCols (j : Json) : J.R (List (Option (List Int))) := J.list (J.opt (J.list J.int)) j

def decBundle (j : Json) : J.R (Bundle Int) := do
  pure { cols := ← J.field j "cols" decCols, grp := ← J.fieldOpt j "grp" decGrp }

def decMat (j : Json) : J.R (Mat3 Int) := J.list (J.list (J.list J.int)) j

def decSt (j : Json) : J.R S := do
  pure { mat := ← J.field j "mat" decMat, taxa := ← J.field j "taxa" decBundle,
         vrnt := ← J.field j "vrnt" decBundle, trait := ← J.field j "trait" decBundle }

def decSchema (j : Json) : J.R Schema := do
  pure { ndim := ← J.field j "ndim" J.nat, taxaAx := ← J.field j "taxa" (J.list J.nat),
         vrntAx := ← J.field j "vrnt" (J.list J.nat), traitAx := ← J.field j "trait" (J.list J.nat),
         genericSelfCall := ← J.fieldD j "generic_self_call" J.bool false,
         squareCheck := ← J.fieldD j "square_check" J.bool false,
         pureDropsOther := ← J.fieldD j "pure_drops_other" J.bool false,
         scalarInsertRaw := ← J.fieldD j "scalar_insert_raw" J.bool false }

def decKind (j : Json) : J.R Kind := do
  match ← J.str j with
  | "taxa" => pure .taxa | "vrnt" => pure .vrnt | "trait" => pure .trait
  | s => J.fail s!"bad kind {s}"

def decOperand (j : Json) : J.R (Operand Int Int) := do
  pure { mat := ← J.field j "mat" decMat, cols := ← J.field j "cols" decCols }

def decSlice (j : Json) : J.R (Option Int × Option Int × Option Int) := do
  match ← J.list optInt j with
  | [a, b, c] => pure (a, b, c)
  | _ => J.fail "slice needs three entries"

def decDel (j : Json) : J.R DelIdx := do
  if let some i ← J.fieldOpt j "int" J.int then return .int i
  if let some l ← J.fieldOpt j "list" (J.list J.int) then return .list l
  if let some (a, b, c) ← J.fieldOpt j "slice" decSlice then return .slice a b c
  if let some m ← J.fieldOpt j "mask" (J.list J.bool) then return .mask m
  J.fail "bad delete index"

def decIns (j : Json) : J.R InsIdx := do
  if let some i ← J.fieldOpt j "int" J.int then return .int i
  if let some l ← J.fieldOpt j "list" (J.list J.int) then return .list l
  if let some (a, b, c) ← J.fieldOpt j "slice" decSlice then return .slice a b c
  J.fail "bad insert index"

def encGrp (g : Grp Int) : Json :=
  J.obj [("name", J.ofList J.ofInt g.name), ("stix", J.ofList J.ofNat g.stix),
         ("spix", J.ofList J.ofNat g.spix), ("len", J.ofList J.ofNat g.len)]

def encBundle (b : Bundle Int) : Json :=
  J.obj [("cols", J.ofList (J.ofOpt (J.ofList J.ofInt)) b.cols), ("grp", J.ofOpt encGrp b.grp)]

def encSt (s : S) : Json :=
  J.obj [("mat", J.ofList (J.ofList (J.ofList J.ofInt)) s.mat), ("taxa", encBundle s.taxa),
         ("vrnt", encBundle s.vrnt), ("trait", encBundle s.trait)]

def encR {β : Type} (f : β → Json) (key : String) : R β → Json
  | .ok b => J.obj [(key, f b)]
  | .error e => J.obj [("error", J.ofStr e.tag)]

/-- run one public operation of the model -/
def opStep : J.Op := fun j => do
  let sch ← J.field j "sch" decSchema
  let s ← J.field j "st" decSt
  let op ← J.field j "do" pure
  let name ← J.field op "name" J.str
  let generic ← J.fieldD op "generic" J.bool false
  let axis ← J.fieldD op "axis" J.int 0
  let kind ← J.fieldD op "kind" decKind .taxa
  let fill ← J.fieldD op "fill" J.int 0
  let noneLab ← J.fieldD op "none_code" J.int (-1)
  let pad (k : Kind) (v : Operand Int Int) : Operand Int Int := padOperand noneLab sch k s v
  -- generic form: resolve the axis; specific form: the named bundle
  let run {β : Type} (selfCall : Bool) (f : Kind → R β) : R β :=
    if generic then (if selfCall then dispatchSelfCall sch axis f else dispatch sch axis f) else f kind
  match name with
  | "select" =>
    let is ← J.field op "indices" (J.list J.int)
    pure <| encR encSt "st" (run false fun k => selectK sch k is s)
  | "delete" =>
    let o ← J.field op "obj" decDel
    pure <| encR encSt "st" (run false fun k => deleteK sch k o s)
  | "remove" =>
    let o ← J.field op "obj" decDel
    pure <| encR encSt "st" (run false fun k => removeK sch k o s)
  | "reorder" =>
    let is ← J.field op "indices" (J.list J.int)
    pure <| encR encSt "st" (run true fun k => reorderK sch k is s)
  | "lexsort" =>
    let keys ← J.fieldOpt op "keys" decCols
    pure <| encR (J.ofList J.ofNat) "idx" (run false fun k => lexsortK le sch k keys s)
  | "sort" =>
    let keys ← J.fieldOpt op "keys" decCols
    pure <| encR encSt "st" (run false fun k => sortK le sch k keys s)
  | "group" => pure <| encR encSt "st" (run false fun k => groupK le sch k s)
  | "ungroup" => pure <| encR encSt "st" (run false fun k => ungroupK sch k s)
  | "is_grouped" => pure <| encR J.ofBool "bool" (run false fun k => isGroupedK sch k s)
  | "adjoin" =>
    let v ← J.field op "operand" decOperand
    pure <| encR encSt "st" (run false fun k => adjoinK sch k fill (pad k v) s)
  | "append" =>
    let v ← J.field op "operand" decOperand
    pure <| encR encSt "st" (run false fun k => appendK sch k fill (pad k v) s)
  | "insert" =>
    let v ← J.field op "operand" decOperand
    let o ← J.field op "obj" decIns
    pure <| encR encSt "st" (run false fun k => insertK sch k o (pad k v) s)
  | "incorp" =>
    let v ← J.field op "operand" decOperand
    let o ← J.field op "obj" decIns
    pure <| encR encSt "st" (run true fun k => incorpK sch k o (pad k v) s)
  | "concat" =>
    let others ← J.field op "others" (J.list decSt)
    let padSt (k : Kind) (t : S) : S :=
      let q := match sch.axes k with | a :: _ => axLen a t.mat | [] => 0
      t.setBundle k { (t.bundle k) with cols := padCols noneLab k q (s.bundle k).cols (t.bundle k).cols }
    pure <| encR encSt "st" (run false fun k => concatK sch k (s :: others.map (padSt k)))
  | "genotype" =>
    let masked ← J.field op "masked" J.bool
    let invert ← J.field op "invert" J.bool
    let unphase ← J.field op "unphase" J.bool
    let wrap (x : Int) : Int := ((x + 128) % 256) - 128      -- int8 accumulation
    let r := genotype (0 : Int) (fun x => x != 0) masked invert unphase s
    pure <| J.obj [("st", encSt (if unphase then { r with mat := r.mat.map (·.map (·.map wrap)) } else r))]
  | other => J.fail s!"unknown C03 operation {other}"

/-- the Spec of C03 on one step of the *implementation*: `pre` (state before), `operands` (states whose
    cells may legitimately appear: the operand blocks with the off-axis labels of `pre`), `post` -/
def opSpecStep : J.Op := fun j => do
  let sch ← J.field j "sch" decSchema
  let pre ← J.field j "pre" decSt
  let operands ← J.field j "operands" (J.list decSt)
  let post ← J.field j "post" decSt
  let fill ← J.fieldOpt j "fill" J.int
  let src : Std.HashSet (LCell Int Int) :=
    (pre :: operands).foldl (fun acc s => (lcells sch s).foldl (fun a c => a.insert c) acc) {}
  let bad := (lcells sch post).filter (fun c => !(src.contains c || fill == some c.val))
  let consistent := consistentOK sch post
  let attached := bad.isEmpty
  let partition := groupedOK sch post
  let detail := if attached then "" else
    match bad.head? with
    | some c => s!"cell value {c.val} carries labels {repr c.i0} {repr c.i1} {repr c.i2} that no input cell of that value has"
    | none => ""
  pure <| J.obj [("ok", J.ofBool (consistent && attached && partition)), ("consistent", J.ofBool consistent),
                 ("attached", J.ofBool attached), ("partition", J.ofBool partition), ("detail", J.ofStr detail)]

/-- conformance ops for the numpy-like helpers of the model -/
def opNp : J.Op := fun j => do
  let fn ← J.field j "fn" J.str
  let n ← J.fieldD j "n" J.nat 0
  let enc (r : R (List Nat)) : Json := encR (J.ofList J.ofNat) "idx" r
  match fn with
  | "slice" =>
    let (a, b, c) ← J.field j "slice" decSlice
    pure (enc (sliceIdx n a b c))
  | "delete" =>
    let o ← J.field j "obj" decDel
    let l ← J.field j "l" (J.list J.int)
    pure <| encR (J.ofList J.ofInt) "l" (do let ix ← o.norm l.length; pure (Np.delete ix l))
  | "insert" =>
    let o ← J.field j "obj" decIns
    let l ← J.field j "l" (J.list J.int)
    let v ← J.field j "v" (J.list J.int)
    pure <| encR (J.ofList J.ofInt) "l" (insertCol o l v)
  | "insert3" =>
    let o ← J.field j "obj" decIns
    let a ← J.field j "axis" J.nat
    let m ← J.field j "m" decMat
    let v ← J.field j "v" decMat
    pure <| encR (J.ofList (J.ofList (J.ofList J.ofInt))) "m" (insertMat a o m v)
  | other => J.fail s!"unknown np fn {other}"

def ops : List (String × J.Op) :=
  [("c03.step", opStep), ("c03.spec_step", opSpecStep), ("c03.np", opNp)]

end Drv.C03
