import PybropsModel.J
import PybropsModel.Model.Recomb
import PybropsModel.Model.Mating
import PybropsModel.Model.RecombShare
open Lean

namespace Drv.C02
open Recomb

def ofExcept {α} (f : α → Json) : Except String α → Json
  | .ok a => J.obj [("value", f a)]
  | .error e => J.obj [("error", J.ofStr e)]

def observe (geno : List (List (List Int))) (sel : List Nat) (gam : List (List Int)) :
    Option (List (List (Option Bool))) :=
  match geno with
  | g0 :: g1 :: _ =>
    if sel.length != gam.length then none else
    (List.zip sel gam).mapM (fun sg =>
      match g0[sg.1]?, g1[sg.1]? with
      | some h0, some h1 => observeRow h0 h1 sg.2
      | _, _ => none)
  | _ => none

/-- partly observed rows against their draws -/
def specRowsObs (obs : List (List (Option Bool))) (rnd : List (List Rat)) (xo : List Rat) : Bool × String :=
  if obs.length != rnd.length then (false, "row count") else
  let bad := (List.zip obs rnd).zipIdx.filter (fun lr => !specRowObs lr.1.1 lr.1.2 xo)
  match bad with
  | [] => (true, "copies follow the draws")
  | b :: _ =>
    if b.1.1.length != xo.length || b.1.2.length != xo.length then
      (false, s!"gamete {b.2}: row length differs from len(xoprob)")
    else
      -- first marker at which the set of possible copies becomes empty
      let rec go (s : Bool × Bool) (j : Nat) : List (Option Bool) → List Rat → List Rat → String
        | o :: os, r :: rs, x :: xs =>
          let s' := nfaSee (nfaMove s r x) o
          if !(s'.1 || s'.2) then
            s!"gamete {b.2} marker {j}: draw {r} vs xoprob {x}: seen on copy {match o with | some true => 1 | _ => 0} " ++
            s!"but the draws up to here put it on copy {if (nfaMove s r x).1 then 0 else 1}"
          else go s' (j + 1) os rs xs
        | _, _, _ => s!"gamete {b.2}"
      (false, go (true, false) 0 b.1.1 b.1.2 xo)

def specRows (labs : List (List Bool)) (rnd : List (List Rat)) (xo : List Rat) : Bool × String :=
  if labs.length != rnd.length then (false, "row count") else
  let bad := (List.zip labs rnd).zipIdx.filter (fun lr => !specRow lr.1.1 lr.1.2 xo)
  match bad with
  | [] => (true, "toggles follow the draws")
  | b :: _ =>
    let cells := (List.zip (toggles false b.1.1) (List.zip b.1.2 xo)).zipIdx.filter
      (fun c => !specCell c.1.1 c.1.2.1 c.1.2.2)
    match cells with
    | c :: _ => (false, s!"gamete {b.2} marker {c.2}: draw {c.1.2.1} vs xoprob {c.1.2.2} but copy switch = {c.1.1}")
    | [] => (false, s!"gamete {b.2}: row length differs from len(xoprob)")

def genoOf (j : Json) (k : String) : J.R (List (List (List Int))) := J.field j k (J.list (J.mat J.int))

/-- draws: rationals ("n/d" strings or integers), optionally all over one common denominator `dden` -/
def scaleBy (den : Nat) (m : List (List Rat)) : List (List Rat) :=
  if den == 1 then m else m.map (fun r => r.map (fun q => q / (den : Rat)))

def drawMats (j : Json) (k : String) : J.R (List (List (List Rat))) := do
  let den ← J.fieldD j "dden" J.nat 1
  if den == 0 then J.fail "dden = 0" else
  let raw ← J.field j k (J.list (J.mat J.rat))
  pure (raw.map (scaleBy den))

def drawMat (j : Json) (k : String) : J.R (List (List Rat)) := do
  let den ← J.fieldD j "dden" J.nat 1
  if den == 0 then J.fail "dden = 0" else
  let raw ← J.field j k (J.mat J.rat)
  pure (scaleBy den raw)

/-- `sel` as numpy reads it: a negative entry counts from the end of the taxa axis -/
def selOf (j : Json) (k : String) (geno : List (List (List Int))) : J.R (List Nat) := do
  let raw ← J.field j k (J.list J.int)
  let n := (geno.headD []).length
  pure (raw.map (Mating.wrapIdx n))

/-- model of mat_meiosis / mat_dh / mat_mate (`impl` = "mat") and of dense_meiosis / dense_dh / dense_cross
    (`impl` = "dense") -/
def opMeiosis : J.Op := fun j => do
  let fn ← J.field j "fn" J.str
  let impl ← J.fieldD j "impl" J.str "mat"
  let dense := impl == "dense"
  let geno ← genoOf j "geno"
  let sel ← selOf j "sel" geno
  let xo ← J.field j "xoprob" (J.list J.rat)
  let rnd ← drawMats j "rnd"
  let r0 := rnd.getD 0 []
  match fn with
  | "meiosis" =>
    pure <| J.obj [("out", ofExcept (J.ofMat J.ofInt)
                      (if dense then denseMeiosis geno sel xo r0 else matMeiosis geno sel xo r0)),
                   ("ncalls", J.ofNat 1),
                   ("phases", J.ofMat J.ofBool (r0.map (fun r => phases (xoMask r xo))))]
  | "dh" =>
    pure <| J.obj [("out", ofExcept (J.ofList (J.ofMat J.ofInt))
                      (if dense then denseDH geno sel xo r0 else matDH geno sel xo r0)),
                   ("ncalls", J.ofNat 1),
                   ("phases", J.ofMat J.ofBool (r0.map (fun r => phases (xoMask r xo))))]
  | "mate" =>
    let mgeno ← genoOf j "mgeno"
    let msel ← selOf j "msel" mgeno
    let r1 := rnd.getD 1 []
    pure <| J.obj [("out", ofExcept (J.ofList (J.ofMat J.ofInt))
                      (if dense then denseCross geno mgeno sel msel xo r0 r1
                       else matMate geno mgeno sel msel xo r0 r1)),
                   ("ncalls", J.ofNat 2),
                   ("phases", J.ofMat J.ofBool ((r0 ++ r1).map (fun r => phases (xoMask r xo))))]
  | _ => J.fail s!"unknown fn {fn}"

/-- Spec oracle on the implementation's gametes: provenance read from the allele codes where the parent is
    heterozygous; homozygous markers only have to carry the parent's allele -/
def opSpecMeiosis : J.Op := fun j => do
  let geno ← genoOf j "geno"
  let sel ← selOf j "sel" geno
  let xo ← J.field j "xoprob" (J.list J.rat)
  let rnd ← drawMat j "rnd"
  let gam ← J.field j "gamete" (J.mat J.int)
  match observe geno sel gam with
  | none => pure <| J.obj [("ok", J.ofBool false), ("detail", J.ofStr "a gamete cell is neither parental allele"),
                           ("seen", Json.null)]
  | some obs =>
    let (ok, msg) := specRowsObs obs rnd xo
    pure <| J.obj [("ok", J.ofBool ok), ("detail", J.ofStr msg),
                   ("nseen", J.ofNat ((obs.map (fun o => (o.filter Option.isSome).length)).foldl (· + ·) 0))]

def protoOf (s : String) : J.R Mating.Proto :=
  match s with
  | "SelfCross" => pure .self
  | "TwoWayCross" => pure .twoWay
  | "TwoWayDHCross" => pure .twoWayDH
  | "ThreeWayCross" => pure .threeWay
  | "ThreeWayDHCross" => pure .threeWayDH
  | "FourWayCross" => pure .fourWay
  | "FourWayDHCross" => pure .fourWayDH
  | _ => J.fail s!"unknown protocol {s}"

def cntOf (j : Json) : J.R Mating.Cnt :=
  match j with
  | .arr _ => Mating.Cnt.arr <$> J.list J.nat j
  | _ => Mating.Cnt.scalar <$> J.nat j

def errTag : Meiosis.Err → String
  | .index => "index" | .value => "value" | .shape => "shape" | .oracle => "oracle"

/-- the whole of `<Protocol>.mate()` (C01's model `Mating.mateFull`, selfing generations and the final
    `group_taxa` included) on the recorded draws of all its meioses: every cell of every progeny -/
def opProtoFull : J.Op := fun j => do
  let P ← protoOf (← J.field j "proto" J.str)
  let geno ← genoOf j "geno"
  let pop : Meiosis.Pop Int ← match geno with
    | [p0, p1] => if p0.length = p1.length then pure (List.zip p0 p1) else J.fail "phases differ in taxa count"
    | _ => J.fail "genotype array must have exactly two phases"
  let xc ← J.field j "xconfig" (J.mat J.int)
  let nm ← J.field j "nmating" cntOf
  let np ← J.field j "nprogeny" cntOf
  let nself ← J.field j "nself" J.nat
  let xo ← J.field j "xoprob" (J.list J.rat)
  let pc ← J.fieldD j "pc" J.nat 0
  let fc ← J.fieldD j "fc" J.nat 0
  let draws ← drawMats j "draws"
  match Mating.mate P pop (Mating.wrapConfig pop.length xc) nm np nself xo pc fc draws with
  | .error e => pure <| J.obj [("error", J.ofStr (errTag e))]
  | .ok o =>
    let inds := o.rows.map Mating.Row.ind
    pure <| J.obj [("mat", J.ofList (J.ofMat J.ofInt) [inds.map Prod.fst, inds.map Prod.snd]),
                   ("pc", J.ofNat o.pc), ("fc", J.ofNat o.fc)]

/-- every doubled-haploid matrix `from_gmod` generates, from the recorded draws -/
def opEmbvFull : J.Op := fun j => do
  let geno ← genoOf j "geno"
  let xo ← J.field j "xoprob" (J.list J.rat)
  let np ← J.field j "nprogeny" (J.list J.nat)
  let nr ← J.field j "nrep" (J.list J.nat)
  let draws ← drawMats j "draws"
  pure <| ofExcept (J.ofList (J.ofList (J.ofMat J.ofInt))) (embvDH geno xo np nr draws)

/-- Spec oracle on observed phase sequences (protocol level) + the model's phases for the same draws -/
def opSpecLabels : J.Op := fun j => do
  let labs ← J.field j "labels" (J.mat J.bool)
  let xo ← J.field j "xoprob" (J.list J.rat)
  let rnd ← drawMat j "rnd"
  let (ok, msg) := specRows labs rnd xo
  pure <| J.obj [("ok", J.ofBool ok), ("detail", J.ofStr msg),
                 ("phases", J.ofMat J.ofBool (rnd.map (fun r => phases (xoMask r xo))))]

/-- the closed forms of the model (`pairProb`, `phaseProb`, joint law, `pairProb2`, `pairProbN`, `crossProbN`) at
    the markers `idx`, for any scalar type the model is polymorphic in -/
def probTables {α : Type} [Add α] [Mul α] [Sub α] [Div α] [OfNat α 0] [OfNat α 1] [OfNat α 2]
    (xo : List α) (idx : List Nat) (ngen : Nat) (enc : α → Json) : List (String × Json) :=
  let z : α := 0
  [("pair", J.ofMat enc (idx.map (fun i => idx.map (fun k => if i < k then pairProb xo i k else z)))),
   ("phase", J.ofList enc (idx.map (fun k => phaseProb xo k))),
   -- P(phase_i = 1 and phase_k = 1), i < k:  P(U = 1) * P(V = 0)
   ("both", J.ofMat enc (idx.map (fun i => idx.map (fun k =>
      if i < k then phaseProb xo i * (1 - pairProb xo i k) else z)))),
   ("pair2", J.ofMat enc (idx.map (fun i => idx.map (fun k => if i < k then pairProb2 xo i k else z)))),
   ("pairN", J.ofMat enc (idx.map (fun i => idx.map (fun k => if i < k then pairProbN xo i k ngen else z)))),
   ("crossN", J.ofMat enc (idx.map (fun i => idx.map (fun k => if i < k then crossProbN xo i k ngen else z))))]

/-- a double as the exact rational it denotes (0 for NaN / inf, which the closed forms never produce from
    probabilities in [0, 1]) -/
def floatToRat (x : Float) : Rat :=
  if x.isNaN || x.isInf then 0 else
  let neg := x < 0
  let (f, e) := (if neg then -x else x).frExp
  let m : Nat := (Float.scaleB f 53).toUInt64.toNat
  let e' : Int := e - 53
  let q : Rat := if e' ≥ 0 then ((m * 2 ^ e'.toNat : Nat) : Rat) else (m : Rat) / ((2 ^ (-e').toNat : Nat) : Rat)
  if neg then -q else q

def ratToFloat (q : Rat) : Float := Float.ofInt q.num / Float.ofNat q.den

/-- exact probabilities of the model for a crossover-probability vector: closed forms, and for
    short vectors the exhaustive enumeration `E` they are proved equal to.  `idx` (optional): only these
    markers (matrices are then indexed by position in `idx`); `ngen` (optional): also the closed forms after
    that many selfing generations (`pairProbN`, `crossProbN`); `float` (optional, panels of thousands of markers):
    the same definitions evaluated in binary64 instead of exact rationals. -/
def opProbs : J.Op := fun j => do
  let xo ← J.field j "xoprob" (J.list J.rat)
  let m := xo.length
  let idx ← J.fieldD j "idx" (J.list J.nat) (List.range m)
  let ngen ← J.fieldD j "ngen" J.nat 0
  let fl ← J.fieldD j "float" J.bool false
  -- `sameProb` (a product over ALL markers) is always evaluated in binary64: as an exact rational it has
  -- thousands of digits on panels of a few hundred markers
  let same : Json := J.ofRat (floatToRat (sameProb (xo.map ratToFloat)))
  if fl then
    pure <| J.obj (probTables (xo.map ratToFloat) idx ngen (fun x => J.ofRat (floatToRat x)) ++
                   [("enum_ok", J.ofBool true), ("same", same)])
  else
  let enumOk : Bool :=
    if m ≤ 7 then
      idx.all (fun i => idx.all (fun k => !(i < k) ||
        (E xo (fun b => ind ((phases b).getD i false != (phases b).getD k false)) == pairProb xo i k
         && E xo (fun b => ind ((phases b).getD i false && (phases b).getD k false))
              == phaseProb xo i * (1 - pairProb xo i k))))
      && idx.all (fun k => E xo (fun b => ind ((phases b).getD k false)) == phaseProb xo k)
    else true
  -- two generations (a gamete of a plant whose own copies are independent gametes of one grandparent):
  -- closed form `pairProb2` (theorem two_generation_recombination_law), enumerated for very short vectors
  let enum2Ok : Bool :=
    if m ≤ 3 then
      idx.all (fun i => idx.all (fun k => !(i < k) ||
        E (xo ++ (xo ++ xo)) (fun b =>
            ind (lab2 (b.take m) ((b.drop m).take m) ((b.drop m).drop m) i !=
                 lab2 (b.take m) ((b.drop m).take m) ((b.drop m).drop m) k)) == pairProb2 xo i k))
    else true
  -- any number of selfing generations (theorem n_generation_recombination_law), enumerated while 2^(2·n·m) is small
  let enumNOk : Bool :=
    if ngen ≥ 1 && 2 * ngen * m ≤ 12 then
      idx.all (fun i => idx.all (fun k => !(i < k) ||
        (E (rep (2 * ngen) xo) (fun b => ind (labO m ngen b false i != labO m ngen b false k)) == pairProbN xo i k ngen
         && E (rep (2 * ngen) xo) (fun b => ind (labO m ngen b false i != labO m ngen b true k))
              == crossProbN xo i k ngen)))
    else true
  let sameOk : Bool := m > 7 || E (xo ++ xo) (fun b => ind (phases (b.take m) == phases (b.drop m))) == sameProb xo
  pure <| J.obj (probTables xo idx ngen J.ofRat ++
                 [("enum_ok", J.ofBool (enumOk && enum2Ok && enumNOk && sameOk)), ("same", same)])

/-- Spec oracle on the crossover probabilities the implementation stores (`null` = not a finite number):
    exactly 1/2 at every chromosome start (`specStarts`, theorems spec_starts_sound / spec_starts_iff) -/
def opSpecStarts : J.Op := fun j => do
  let chr ← J.field j "chr" (J.list J.int)
  let xo ← J.field j "xoprob" (J.list (J.opt J.rat))
  let bad := (List.zip (List.range xo.length) (List.zip chr xo)).filter (fun t =>
    (t.1 == 0 || chr[t.1 - 1]? != some t.2.1) && t.2.2 != some (1 / 2))
  pure <| J.obj [("ok", J.ofBool (specStarts chr xo)),
                 ("bad", J.ofList J.ofNat (bad.map (fun t => t.1)))]

/-- model of gdist1g: distances to the previous marker, null = +inf (chromosome start) -/
def opGdist : J.Op := fun j => do
  let chr ← J.field j "chr" (J.list J.int)
  let pos ← J.field j "pos" (J.list J.rat)
  pure <| J.obj [("dist", J.ofList (J.ofOpt J.ofRat) (gdist1g chr pos))]

/-- model of the call pattern of a mating protocol -/
def opProtoCalls : J.Op := fun j => do
  let proto ← J.field j "proto" J.str
  let M ← J.field j "M" J.nat
  let N ← J.field j "N" J.nat
  let nself ← J.field j "nself" J.nat
  pure <| J.ofOpt (J.ofList J.ofNat) (protoCalls proto M N nself)

def opEmbvCalls : J.Op := fun j => do
  let np ← J.field j "nprogeny" (J.list J.nat)
  let nr ← J.field j "nrep" (J.list J.nat)
  pure <| J.ofList J.ofNat (embvCalls np nr)

/-- model of a history over two matrix objects (`kind = shared`): the parent holds the arrays of interpolation 0, the
    child is derived from it, `target` is re-interpolated `ninterp` times; an array is represented by the number of the
    interpolation that produced it.  Answer: which interpolation each object reads its arrays from. -/
def opHistory : J.Op := fun j => do
  let target ← J.field j "target" J.str
  let n ← J.field j "ninterp" J.nat
  let t := if target == "parent" then 0 else 1
  let st0 : RecombShare.St Nat := ⟨[0, 0], [⟨1, 0⟩]⟩
  let hist : List (RecombShare.Op Nat) :=
    RecombShare.Op.derive 0 :: (List.range n).map (fun k => RecombShare.Op.interp t (k + 1) (k + 1))
  let st := RecombShare.run st0 hist
  let one (i : Nat) : Json :=
    match RecombShare.read st i with
    | some (gp, xo) => J.obj [("gp_from", J.ofNat gp), ("xo_from", J.ofNat xo)]
    | none => J.obj [("error", J.ofStr "dangling reference")]
  pure <| J.obj [("parent", one 0), ("child", one 1)]

def ops : List (String × J.Op) :=
  [("c02.meiosis", opMeiosis), ("c02.spec_meiosis", opSpecMeiosis), ("c02.spec_labels", opSpecLabels),
   ("c02.probs", opProbs), ("c02.gdist", opGdist), ("c02.proto_calls", opProtoCalls),
   ("c02.embv_calls", opEmbvCalls), ("c02.proto_full", opProtoFull), ("c02.embv_full", opEmbvFull),
   ("c02.spec_starts", opSpecStarts), ("c02.history", opHistory)]

end Drv.C02
