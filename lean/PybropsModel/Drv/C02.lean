import PybropsModel.J
import PybropsModel.Model.Recomb
open Lean

namespace Drv.C02
open Recomb

def ofExcept {α} (f : α → Json) : Except String α → Json
  | .ok a => J.obj [("value", f a)]
  | .error e => J.obj [("error", J.ofStr e)]

/-- phases observed in a gamete: cell j must be one of the two parental cells at j, which must
    differ; `none` when provenance cannot be read off -/
def observeRow (h0 h1 g : List Int) : Option (List Bool) :=
  if h0.length != g.length || h1.length != g.length then none else
  (List.zip g (List.zip h0 h1)).mapM (fun c =>
    if c.2.1 == c.2.2 then none
    else if c.1 == c.2.1 then some false
    else if c.1 == c.2.2 then some true
    else none)

def observe (geno : List (List (List Int))) (sel : List Nat) (gam : List (List Int)) :
    Option (List (List Bool)) :=
  match geno with
  | g0 :: g1 :: _ =>
    if sel.length != gam.length then none else
    (List.zip sel gam).mapM (fun sg =>
      match g0[sg.1]?, g1[sg.1]? with
      | some h0, some h1 => observeRow h0 h1 sg.2
      | _, _ => none)
  | _ => none

def specRows (labs : List (List Bool)) (rnd : List (List Rat)) (xo : List Rat) : Bool × String :=
  if labs.length != rnd.length then (false, "row count") else
  let bad := (List.zip labs rnd).zipIdx.filter (fun lr => !specRow lr.1.1 lr.1.2 xo)
  match bad with
  | [] => (true, "toggles follow the draws")
  | b :: _ =>
    let cells := (List.zip (toggles false b.1.1) (List.zip b.1.2 xo)).zipIdx.filter
      (fun c => !specCell c.1.1 c.1.2.1 c.1.2.2)
    match cells with
    | c :: _ => (false, s!"gamete {b.2} marker {c.2}: draw {c.1.2.1} vs xoprob {c.1.2.2} but copy switch = {c.1.1}")
    | [] => (false, s!"gamete {b.2}: row length differs from len(xoprob)")

def genoOf (j : Json) (k : String) : J.R (List (List (List Int))) := J.field j k (J.list (J.mat J.int))

/-- model of mat_meiosis / mat_dh / mat_mate -/
def opMeiosis : J.Op := fun j => do
  let fn ← J.field j "fn" J.str
  let geno ← genoOf j "geno"
  let sel ← J.field j "sel" (J.list J.nat)
  let xo ← J.field j "xoprob" (J.list J.rat)
  let rnd ← J.field j "rnd" (J.list (J.mat J.rat))
  let r0 := rnd.getD 0 []
  match fn with
  | "meiosis" =>
    pure <| J.obj [("out", ofExcept (J.ofMat J.ofInt) (matMeiosis geno sel xo r0)),
                   ("ncalls", J.ofNat 1),
                   ("phases", J.ofMat J.ofBool (r0.map (fun r => phases (xoMask r xo))))]
  | "dh" =>
    pure <| J.obj [("out", ofExcept (J.ofList (J.ofMat J.ofInt)) (matDH geno sel xo r0)),
                   ("ncalls", J.ofNat 1),
                   ("phases", J.ofMat J.ofBool (r0.map (fun r => phases (xoMask r xo))))]
  | "mate" =>
    let mgeno ← genoOf j "mgeno"
    let msel ← J.field j "msel" (J.list J.nat)
    let r1 := rnd.getD 1 []
    pure <| J.obj [("out", ofExcept (J.ofList (J.ofMat J.ofInt)) (matMate geno mgeno sel msel xo r0 r1)),
                   ("ncalls", J.ofNat 2),
                   ("phases", J.ofMat J.ofBool ((r0 ++ r1).map (fun r => phases (xoMask r xo))))]
  | _ => J.fail s!"unknown fn {fn}"

/-- Spec oracle on the implementation's gametes (provenance read from unique allele codes) -/
def opSpecMeiosis : J.Op := fun j => do
  let geno ← genoOf j "geno"
  let sel ← J.field j "sel" (J.list J.nat)
  let xo ← J.field j "xoprob" (J.list J.rat)
  let rnd ← J.field j "rnd" (J.mat J.rat)
  let gam ← J.field j "gamete" (J.mat J.int)
  match observe geno sel gam with
  | none => pure <| J.obj [("ok", J.ofBool false), ("detail", J.ofStr "a gamete cell is neither parental copy"),
                           ("labels", Json.null)]
  | some labs =>
    let (ok, msg) := specRows labs rnd xo
    pure <| J.obj [("ok", J.ofBool ok), ("detail", J.ofStr msg), ("labels", J.ofMat J.ofBool labs)]

/-- Spec oracle on observed phase sequences (protocol level) + the model's phases for the same draws -/
def opSpecLabels : J.Op := fun j => do
  let labs ← J.field j "labels" (J.mat J.bool)
  let xo ← J.field j "xoprob" (J.list J.rat)
  let rnd ← J.field j "rnd" (J.mat J.rat)
  let (ok, msg) := specRows labs rnd xo
  pure <| J.obj [("ok", J.ofBool ok), ("detail", J.ofStr msg),
                 ("phases", J.ofMat J.ofBool (rnd.map (fun r => phases (xoMask r xo))))]

/-- exact probabilities of the model for a crossover-probability vector: closed forms, and for
    short vectors the exhaustive enumeration `E` they are proved equal to -/
def opProbs : J.Op := fun j => do
  let xo ← J.field j "xoprob" (J.list J.rat)
  let m := xo.length
  let idx := List.range m
  let pair := idx.map (fun i => idx.map (fun k => if i < k then pairProb xo i k else 0))
  let phase := idx.map (fun k => phaseProb xo k)
  -- P(phase_i = 1 and phase_k = 1), i < k:  P(U = 1) * P(V = 0)
  let both := idx.map (fun i => idx.map (fun k =>
      if i < k then phaseProb xo i * (1 - pairProb xo i k) else 0))
  let enumOk : Bool :=
    if m ≤ 7 then
      idx.all (fun i => idx.all (fun k => !(i < k) ||
        (E xo (fun b => ind ((phases b).getD i false != (phases b).getD k false)) == pairProb xo i k
         && E xo (fun b => ind ((phases b).getD i false && (phases b).getD k false))
              == phaseProb xo i * (1 - pairProb xo i k))))
      && idx.all (fun k => E xo (fun b => ind ((phases b).getD k false)) == phaseProb xo k)
    else true
  pure <| J.obj [("pair", J.ofMat J.ofRat pair), ("phase", J.ofList J.ofRat phase),
                 ("both", J.ofMat J.ofRat both), ("enum_ok", J.ofBool enumOk)]

/-- model of gdist1g: distances to the previous marker, null = +inf (chromosome start) -/
def opGdist : J.Op := fun j => do
  let chr ← J.field j "chr" (J.list J.int)
  let pos ← J.field j "pos" (J.list J.rat)
  pure <| J.obj [("dist", J.ofList (J.ofOpt J.ofRat) (gdist1g chr pos))]

/-- model of the call pattern of a mating protocol -/
def opProtoCalls : J.Op := fun j => do
  let proto ← J.field j "proto" J.str
  let M ← J.field j "M" J.nat
  let N ← J.field j "N" J.nat
  let nself ← J.field j "nself" J.nat
  pure <| J.ofOpt (J.ofList J.ofNat) (protoCalls proto M N nself)

def opEmbvCalls : J.Op := fun j => do
  let np ← J.field j "nprogeny" (J.list J.nat)
  let nr ← J.field j "nrep" (J.list J.nat)
  pure <| J.ofList J.ofNat (embvCalls np nr)

def ops : List (String × J.Op) :=
  [("c02.meiosis", opMeiosis), ("c02.spec_meiosis", opSpecMeiosis), ("c02.spec_labels", opSpecLabels),
   ("c02.probs", opProbs), ("c02.gdist", opGdist), ("c02.proto_calls", opProtoCalls),
   ("c02.embv_calls", opEmbvCalls)]

end Drv.C02
