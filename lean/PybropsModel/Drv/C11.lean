import PybropsModel.J
import PybropsModel.Model.GMap
open Lean

/-
Driver ops of C11 (genetic maps and map functions).
JSON conventions beyond J.lean: a float that may be non-finite is a rational, "inf" or "nan";
a position that may be missing is a rational, `null` or "nan".
-/
namespace Drv.C11
open GMap

/-! ### Float ⇄ Rat (exact) -/

/-- exact value of a finite Float -/
def f2r (f : Float) : Rat :=
  let (m, e) := f.frExp
  let mi : Int := (m.scaleB 53).toInt64.toInt
  let ex := e - 53
  if ex ≥ 0 then ((mi * (2 : Int) ^ ex.toNat : Int) : Rat) else mkRat mi (2 ^ (-ex).toNat)

/-- nearest Float of a rational (exact for the dyadic rationals the harness sends) -/
def r2f (q : Rat) : Float :=
  let k := q.den.log2
  if q.den == 2 ^ k then (Float.ofInt q.num).scaleB (-(k : Int)) else Float.ofInt q.num / Float.ofNat q.den

def f2d (f : Float) : GDist Rat :=
  if f.isNaN then .nan else if f.isInf then (if f > 0 then .inf else .nan) else .fin (f2r f)

def dF2R : GDist Float → GDist Rat
  | .fin f => f2d f
  | .inf => .inf
  | .nan => .nan

/-! ### codec -/
def dist (j : Json) : J.R (GDist Rat) :=
  match j with
  | .str "inf" => .ok .inf
  | .str "-inf" => .ok .nan      -- float overflow of a map function at a hugely negative distance:
                                 -- outside `GDist`; the oracle treats it like the model does (`f2d`)
  | .str "nan" => .ok .nan
  | .null => .ok .nan
  | _ => GDist.fin <$> J.rat j

def ofDist : GDist Rat → Json
  | .fin a => J.ofRat a
  | .inf => .str "inf"
  | .nan => .str "nan"

/-- encoder for values computed in Float: keeps `-inf` apart from NaN so that the comparison with numpy
    is literal -/
def ofDistF : GDist Float → Json
  | .fin f => if f.isInf && f < 0 then .str "-inf" else ofDist (f2d f)
  | .inf => .str "inf"
  | .nan => .str "nan"

def pos (j : Json) : J.R (Option Rat) :=
  match j with
  | .str "nan" => .ok none
  | .null => .ok none
  | _ => some <$> J.rat j

def ofPos : Option Rat → Json
  | some a => J.ofRat a
  | none => .str "nan"

def row (j : Json) : J.R (Row Rat Int) := do
  match j with
  | .arr a =>
    if a.size < 3 then J.fail "row needs [chr, phy, gen, tag?]" else
    let c ← J.int a[0]!
    let p ← J.rat a[1]!
    let g ← J.rat a[2]!
    let t ← if a.size > 3 then J.int a[3]! else pure 0
    pure ⟨c, p, g, t⟩
  | _ => J.fail "row: not an array"

def ofRow (r : Row Rat Int) : Json := .arr #[J.ofInt r.chr, J.ofRat r.phy, J.ofRat r.gen, J.ofInt r.tag]

def fnOf (j : Json) : J.R MapKind := do
  match ← J.field j "fn" J.str with
  | "haldane" => pure .haldane
  | "kosambi" => pure .kosambi
  | s => J.fail s!"unknown map function {s}"

def mapF (h : MapKind) : Float → Float := h.fn
def invF (h : MapKind) : Float → GDist Float := h.inv

/-! ### tolerant comparison (Spec side) -/
def absR (a : Rat) : Rat := if a < 0 then -a else a
def maxR (a b : Rat) : Rat := if a < b then b else a

def closeR (a b : Rat) (rel : Rat := 1 / 1000000000) (abs_ : Rat := 1 / 1000000000000) : Bool :=
  let d := absR (a - b)
  d ≤ abs_ || d ≤ rel * maxR (absR a) (absR b)

def closeD (a b : GDist Rat) (rel : Rat := 1 / 1000000000) (abs_ : Rat := 1 / 1000000000000) : Bool :=
  match a, b with
  | .fin x, .fin y => closeR x y rel abs_
  | .inf, .inf => true
  | .nan, .nan => true
  | _, _ => false

def closeP (a b : Option Rat) : Bool :=
  match a, b with
  | some x, some y => closeR x y
  | none, none => true
  | _, _ => false

/-- `a ≤ b` on [0, ∞] (NaN compares false) -/
def leD (a b : GDist Rat) : Bool :=
  match a, b with
  | .fin x, .fin y => x ≤ y
  | .fin _, .inf => true
  | .inf, .inf => true
  | _, _ => false

def checks (l : List (String × Bool)) : Bool × String :=
  let bad := l.filter (fun p => !p.2)
  (bad.isEmpty, if bad.isEmpty then "ok" else "violated: " ++ ", ".intercalate (bad.map Prod.fst))

def allPairs (n : Nat) (p : Nat → Nat → Bool) : Bool :=
  (List.range n).all fun i => (List.range n).all fun j => p i j

/-! ### model ops -/

/-- mapfn / invmapfn evaluated in Float on exactly the doubles the implementation received -/
def opMapfn : J.Op := fun j => do
  let h ← fnOf j
  let d ← J.field j "d" (J.list dist)
  let r : List (GDist Float) := d.map fun x => mapD (mapF h) (x.map r2f)
  let inv : List (GDist Float) := r.map (invD (invF h))
  pure <| J.obj [("r", J.ofList ofDistF r), ("inv", J.ofList ofDistF inv)]

/-- Spec of the map-function clause, on the implementation's r = mapfn(d) and dinv = invmapfn(r):
    zero ↦ zero, ∞ ↦ ½, range [0, ½], monotone, undone by the inverse (where binary64 can resolve it:
    d ≤ `dmax`, or d = ∞) -/
def specMapfn (d r dinv : List (GDist Rat)) (dmax : Rat) : Bool × String :=
  let n := d.length
  if r.length != n || dinv.length != n then (false, "length") else
  let z := d.zip (r.zip dinv)
  let valid := d.all fun x => leD (.fin 0) x
  let zero := z.all fun (x, y, _) => !(x == .fin 0) || y == .fin 0
  let top := z.all fun (x, y, _) => !(x == .inf) || y == .fin (1 / 2)
  let range := z.all fun (_, y, _) => leD (.fin 0) y && leD y (.fin (1 / 2))
  let mono := z.all fun (x, y, _) => z.all fun (x', y', _) => !(leD x x') || leD y y'
  let inv := z.all fun (x, _, w) =>
    match x with
    | .inf => w == .inf
    | .fin a => !(a ≤ dmax) || closeD w (.fin a) (1 / 100000000) (1 / 10000000000)
    | .nan => false
  checks [("valid input", valid), ("zero to zero", zero), ("infinity to one half", top),
          ("range [0,1/2]", range), ("monotone", mono), ("inverse undoes", inv)]

def opSpecMapfn : J.Op := fun j => do
  let d ← J.field j "d" (J.list dist)
  let r ← J.field j "r" (J.list dist)
  let dinv ← J.field j "dinv" (J.list dist)
  let dmax ← J.fieldD j "dmax" J.rat 6
  let (ok, msg) := specMapfn d r dinv dmax
  -- the oracle applied to the model's own output (must hold: guards against an over-strict oracle)
  let h ← fnOf j
  let rm : List (GDist Float) := d.map fun x => mapD (mapF h) (x.map r2f)
  let im : List (GDist Float) := rm.map (invD (invF h))
  let self := if d.all (fun x => leD (.fin 0) x) then (specMapfn d (rm.map dF2R) (im.map dF2R) dmax).1 else true
  pure <| J.obj [("ok", J.ofBool ok), ("detail", J.ofStr msg), ("self", J.ofBool self)]

def opConstruct : J.Op := fun j => do
  let rows ← J.field j "rows" (J.list row)
  let s := construct rows
  pure <| J.obj [("rows", J.ofList ofRow s),
    ("meta", J.ofList (fun (m : Int × Nat × Nat × Nat) =>
        Json.arr #[J.ofInt m.1, J.ofNat m.2.1, J.ofNat m.2.2.1, J.ofNat m.2.2.2]) (groupMeta s)),
    ("congruence", J.ofList J.ofBool (congruence s))]

def opInterp : J.Op := fun j => do
  let rows ← J.field j "rows" (J.list row)
  let qchr ← J.field j "qchr" (J.list J.int)
  let qphy ← J.field j "qphy" (J.list J.rat)
  pure <| J.obj [("out", J.ofList ofPos (interpGenpos rows qchr qphy)),
                 ("outS", J.ofList ofPos (interpGenposS rows qchr qphy))]

def optNat (j : Json) (k : String) : J.R (Option Nat) := J.fieldOpt j k J.nat

def opGdist : J.Op := fun j => do
  let chr ← J.field j "chr" (J.list J.int)
  let gen ← J.field j "gen" (J.list pos)
  let ast ← optNat j "ast"
  let asp ← optNat j "asp"
  let rst ← optNat j "rst"
  let rsp ← optNat j "rsp"
  let cst ← optNat j "cst"
  let csp ← optNat j "csp"
  pure <| J.obj [("d1", J.ofList ofDist (gdist1g chr gen ast asp)),
                 ("d1lit", J.ofList (J.ofOpt ofDist) (gdist1gLit chr gen ast asp)),
                 ("d2", J.ofMat ofDist (gdist2g chr gen rst rsp cst csp))]

def opGdistP : J.Op := fun j => do
  let rows ← J.field j "rows" (J.list row)
  let qchr ← J.field j "qchr" (J.list J.int)
  let qphy ← J.field j "qphy" (J.list J.rat)
  pure <| J.obj [("d1", J.ofList ofDist (gdist1p rows qchr qphy)),
                 ("d2", J.ofMat ofDist (gdist2p rows qchr qphy))]

def opXoprob : J.Op := fun j => do
  let h ← fnOf j
  let rows ← J.field j "rows" (J.list row)
  let qchr ← J.field j "qchr" (J.list J.int)
  let qphy ← J.field j "qphy" (J.list J.rat)
  let (g, xo) := interpXoprob r2f (mapF h) rows qchr qphy
  pure <| J.obj [("genpos", J.ofList ofPos g), ("xoprob", J.ofList ofDistF xo)]

/-- rprob1p / rprob2p (= mapfn ∘ gdist1p / gdist2p) and rprob1g / rprob2g on the interpolated positions -/
def opRprob : J.Op := fun j => do
  let h ← fnOf j
  let rows ← J.field j "rows" (J.list row)
  let qchr ← J.field j "qchr" (J.list J.int)
  let qphy ← J.field j "qphy" (J.list J.rat)
  let m : GDist Rat → GDist Float := fun d => mapD (mapF h) (d.map r2f)
  pure <| J.obj [("r1", J.ofList ofDistF ((gdist1p rows qchr qphy).map m)),
                 ("r2", J.ofMat ofDistF ((gdist2p rows qchr qphy).map (·.map m)))]

/-! ### Spec oracles (evaluated on the implementation's outputs) -/

/-- pairwise / sequential distance clause.  `chr` must have its equal labels contiguous. -/
def specGdist (chr : List Int) (gen : List (Option Rat)) (d1? : Option (List (GDist Rat)))
    (d2 : List (List (GDist Rat))) : Bool × String :=
  let n := chr.length
  let d1 := d1?.getD []
  if gen.length != n || (d1?.isSome && d1.length != n) || d2.length != n || d2.any (·.length != n)
    then (false, "shape") else
  let c (i : Nat) : Int := chr.getD i 0
  let g (i : Nat) : Option Rat := gen.getD i none
  let e (i j : Nat) : GDist Rat := (d2.getD i []).getD j .nan
  let s (i : Nat) : GDist Rat := d1.getD i .nan
  let fin (i : Nat) : Bool := (g i).isSome
  let gv (i : Nat) : Rat := (g i).getD 0
  let symm := allPairs n fun i j => closeD (e i j) (e j i)
  let diag := (List.range n).all fun i => !fin i || e i i == .fin 0
  let across := allPairs n fun i j => (c i == c j) || e i j == .inf
  let within := allPairs n fun i j => !(c i == c j && fin i && fin j) ||
      closeD (e i j) (.fin (absR (gv i - gv j)))
  let additive := (List.range n).all fun i => (List.range n).all fun j => (List.range n).all fun k =>
      !(c i == c j && c j == c k && fin i && fin j && fin k && gv i ≤ gv j && gv j ≤ gv k) ||
      (match e i k, e i j, e j k with
       | .fin a, .fin b, .fin d => closeR a (b + d)
       | _, _, _ => false)
  let starts := d1?.isNone || (List.range n).all fun i => !(i == 0 || c (i - 1) != c i) || s i == .inf
  let seq := d1?.isNone || (List.range n).all fun i => (i == 0 || c (i - 1) != c i) || !(fin i && fin (i - 1)) ||
      (match s i with
       | .fin a => closeD (.fin (absR a)) (e (i - 1) i) && (!(gv (i - 1) ≤ gv i) || a ≥ -(1 / 1000000000000))
       | _ => false)
  checks [("symmetric", symm), ("zero diagonal", diag), ("infinite between chromosomes", across),
          ("pairwise = |gi - gj|", within), ("additive for ordered markers", additive),
          ("sequential: inf at chromosome starts", starts), ("sequential agrees with pairwise", seq)]

def opSpecGdist : J.Op := fun j => do
  let chr ← J.field j "chr" (J.list J.int)
  let gen ← J.field j "gen" (J.list pos)
  let d1 ← J.fieldOpt j "d1" (J.list dist)
  let d2 ← J.field j "d2" (J.mat dist)
  let (ok, msg) := specGdist chr gen d1 d2
  let self := (specGdist chr gen (d1.map fun _ => gdist1g chr gen) (gdist2g chr gen)).1
  pure <| J.obj [("ok", J.ofBool ok), ("detail", J.ofStr msg), ("self", J.ofBool self)]

/-- interpolation clause, stated on the raw rows of the map (independent of `knots`/`interpIdx`):
    own markers, linear between flanking markers, order preserving for congruent maps,
    missing chromosomes, independence of the row order (`out2` = result for another row order) -/
def specInterp (rows : List (Row Rat Int)) (qchr : List Int) (qphy : List Rat)
    (out out2 : List (Option Rat)) : Bool × String :=
  let n := qchr.length
  if qphy.length != n || out.length != n || out2.length != n then (false, "shape") else
  let q := qchr.zip (qphy.zip out)
  let on (c : Int) : List (Row Rat Int) := rows.filter (·.chr == c)
  let own := q.all fun (c, x, o) => (on c).all fun r => !(r.phy == x) || closeP o (some r.gen)
  let flank := q.all fun (c, x, o) => (on c).all fun a => (on c).all fun b =>
      !(a.phy < x && x < b.phy && (on c).all fun m => !(a.phy < m.phy && m.phy < b.phy)) ||
      closeP o (some (a.gen + (b.gen - a.gen) * (x - a.phy) / (b.phy - a.phy)))
  let congruent := rows.all fun a => rows.all fun b => !(a.chr == b.chr && a.phy < b.phy) || a.gen ≤ b.gen
  let inRange (c : Int) (x : Rat) : Bool := (on c).any (·.phy ≤ x) && (on c).any (x ≤ ·.phy)
  let mono := !congruent || q.all fun (c, x, o) => q.all fun (c', x', o') =>
      !(c == c' && x ≤ x' && inRange c x && inRange c x') ||
      (match o, o' with
       | some a, some b => a ≤ b + 1 / 1000000000000
       | _, _ => false)
  let missing := q.all fun (c, _, o) => ((on c).isEmpty) == o.isNone
  let order := (out.zip out2).all fun (a, b) => closeP a b
  checks [("own markers return stored positions", own), ("linear between flanking markers", flank),
          ("order preserving (congruent map)", mono), ("absent chromosome <-> missing", missing),
          ("independent of row order", order)]

def opSpecInterp : J.Op := fun j => do
  let rows ← J.field j "rows" (J.list row)
  let qchr ← J.field j "qchr" (J.list J.int)
  let qphy ← J.field j "qphy" (J.list J.rat)
  let out ← J.field j "out" (J.list pos)
  let out2 ← J.field j "out2" (J.list pos)
  let (ok, msg) := specInterp rows qchr qphy out out2
  let m := interpGenpos rows qchr qphy
  let self := (specInterp rows qchr qphy m m).1
  pure <| J.obj [("ok", J.ofBool ok), ("detail", J.ofStr msg), ("self", J.ofBool self)]

/-- crossover-probability clause: ½ at each chromosome start, otherwise the map function of the
    difference of consecutive *interpolated* positions (`genpos` must satisfy `specInterp`) -/
def specXoprob (h : MapKind) (rows : List (Row Rat Int)) (qchr : List Int) (qphy : List Rat)
    (genpos : List (Option Rat)) (xoprob : List (GDist Rat)) : Bool × String :=
  let n := qchr.length
  if genpos.length != n || xoprob.length != n then (false, "shape") else
  let (iok, imsg) := specInterp rows qchr qphy genpos genpos
  let c (i : Nat) : Int := qchr.getD i 0
  let g (i : Nat) : Option Rat := genpos.getD i none
  let p (i : Nat) : GDist Rat := xoprob.getD i .nan
  let starts := (List.range n).all fun i => !(i == 0 || c (i - 1) != c i) || p i == .fin (1 / 2)
  let inner := (List.range n).all fun i => (i == 0 || c (i - 1) != c i) ||
      (match g i, g (i - 1) with
       | some a, some b => closeD (p i) (f2d (mapF h (r2f a - r2f b)))
       | _, _ => p i == .nan)
  checks [("genpos interpolated: " ++ imsg, iok), ("one half at chromosome starts", starts),
          ("map function of consecutive distances", inner)]

def opSpecXoprob : J.Op := fun j => do
  let h ← fnOf j
  let rows ← J.field j "rows" (J.list row)
  let qchr ← J.field j "qchr" (J.list J.int)
  let qphy ← J.field j "qphy" (J.list J.rat)
  let genpos ← J.field j "genpos" (J.list pos)
  let xoprob ← J.field j "xoprob" (J.list dist)
  let (ok, msg) := specXoprob h rows qchr qphy genpos xoprob
  let (g, xo) := interpXoprob r2f (mapF h) rows qchr qphy
  let self := (specXoprob h rows qchr qphy g (xo.map dF2R)).1
  pure <| J.obj [("ok", J.ofBool ok), ("detail", J.ofStr msg), ("self", J.ofBool self)]

def ops : List (String × J.Op) :=
  [("c11.mapfn", opMapfn), ("c11.spec_mapfn", opSpecMapfn), ("c11.construct", opConstruct),
   ("c11.interp", opInterp), ("c11.gdist", opGdist), ("c11.gdistp", opGdistP), ("c11.xoprob", opXoprob),
   ("c11.rprob", opRprob),
   ("c11.spec_gdist", opSpecGdist), ("c11.spec_interp", opSpecInterp), ("c11.spec_xoprob", opSpecXoprob)]

end Drv.C11
